(* Properties/C11.v — C11: no client input can crash a replica or leave a partial write behind.
   This file contains only the property theorems (closed by [exact]) and non-vacuity examples.

   Model level of the statements: the leader side (Valid/Model.v [handle]) is the validation every
   registered write command passes before it is proposed; the apply side ([apply_shape]) is
   ApplyRaftRequest + the registered internal handler up to the call of the store function
   (which cmd.Args[i] are indexed, what is parsed, in evaluation order); the batch side
   (Valid/Batch.v) is the shared write batch of the apply loop with abstract handlers.
   The registration table [reg_table] and the list [toomuch_sites] are generated from the source.

   C11_full (not proved as a whole): for every byte vector and every prior state the real handlers
   neither panic nor change state on error. What is proved is its restriction to the modelled
   layers; panics and partial writes INSIDE the rockredis store functions are covered by the
   correspondence run and the direct oracle only (see the manifest). *)
From ZV Require Import Common.Bytes Valid.Types Valid.Consts Valid.Model Valid.Proofs Valid.Batch Valid.BatchProofs.
From Coq Require Import List.
Import ListNotations.
Open Scope gname_scope.
Open Scope N_scope.

Definition C11_full : Prop :=
  forall (pf : bytes -> option N) (ns : bytes) (args : list bytes) (f : fact) (a : list bytes),
    proposed pf ns args f = Some a ->
    (* the apply handler, including the store function it calls, neither panics nor, when it answers
       with an error, changes the committed state or leaves writes in the shared batch *)
    apply_shape pf false a <> APanic.

(* (1)+(2) validated_implies_safe, over the WHOLE generated registration table: whatever a leader
   accepts and proposes — for every registered write / merged-write command, all argument vectors,
   all pre-read facts and any float parser — is applied without a Go panic in ApplyRaftRequest and
   in the registered internal handler. [table_ok] inside the proof is re-computed whenever the table
   is regenerated from node/node_cmd_reg.go. *)
Theorem C11_validated_implies_safe_partial : forall pf ns args f a,
  proposed pf ns args f = Some a -> apply_shape pf false a <> APanic.
Proof. exact validated_implies_safe. Qed.
Print Assumptions C11_validated_implies_safe_partial.

(* (1b) the same with node.UseRedisV2: the raw command is proposed and the namespace is cut at apply *)
Theorem C11_validated_implies_safe_v2_partial : forall pf ns args f a,
  proposed_v2 pf ns args f = Some a -> apply_shape pf true a <> APanic.
Proof. exact validated_implies_safe_v2. Qed.
Print Assumptions C11_validated_implies_safe_v2_partial.

(* (2') the error classification step of the apply loop (isUnrecoveryError => panic(err)), read from the
   source into Consts: whatever client bytes an apply error of the node layer quotes (strconv errors,
   the command name), the apply loop does not take it for an unrecoverable engine error *)
Theorem C11_apply_error_never_unrecoverable : forall e rest, is_unrecovery (err_prefix e ++ rest) = false.
Proof. exact error_never_unrecoverable. Qed.
Print Assumptions C11_apply_error_never_unrecoverable.

Theorem C11_accepted_apply_outcome : forall pf ns args f a,
  proposed pf ns args f = Some a ->
  apply_shape pf false a = AReach \/
  exists e, apply_shape pf false a = AErr e /\ forall rest, is_unrecovery (err_prefix e ++ rest) = false.
Proof. exact accepted_apply_outcome. Qed.
Print Assumptions C11_accepted_apply_outcome.

(* why the matcher has to be the prefix test: with a "contains" test the quoted argument decides *)
Theorem C11_contains_matcher_refuted :
  exists a, contains (lower (B "no space left on device"))
                     (lower (err_prefix (EAtoi a) ++ 34 :: a ++ 34 :: B ": invalid syntax")) = true.
Proof. exact contains_matcher_refuted. Qed.
Print Assumptions C11_contains_matcher_refuted.

(* the per-entry check the theorem rests on, stated on its own: every write entry of the table has a
   known wrapper whose accepted argument counts satisfy the needs of the apply handler of the same name *)
Theorem C11_table_checked : forallb entry_ok reg_table = true.
Proof. exact table_ok. Qed.
Print Assumptions C11_table_checked.

(* A1: ApplyRaftRequest indexes cmd.Args[1] before dispatch, so a request with fewer than two
   arguments panics there whatever the command is (the reason why (1) matters for every entry) *)
Theorem C11_apply_needs_two_args : forall pf v2 args, (length args < 2)%nat -> apply_shape pf v2 args = APanic.
Proof. exact apply_short_panics. Qed.
Print Assumptions C11_apply_needs_two_args.

(* the apply handlers' sufficient argument counts really are sufficient, for every method name *)
Theorem C11_needs_sound : forall pf m a, sat (needs m) (alen a) = true -> apply_handler pf m a <> APanic.
Proof. exact needs_sound. Qed.
Print Assumptions C11_needs_sound.

(* (3) error_is_noop, for the apply loop with abstract handlers: after a pass over any request list the
   committed state is exactly the effect of the requests answered without an error, and the shared
   batch is empty. Hypotheses: a batch applies its writes in order; handlers commit nothing before
   they succeed (modelling assumption of Batch.v); errTooMuchBatchSize is raised before any write. *)
Theorem C11_error_is_noop :
  forall (store write key cmd : Type) (key_eqb : key -> key -> bool) (commit : list write -> store -> store)
         (pk : cmd -> key) (batchable : cmd -> bool) (max_batch : nat) (handler : cmd -> store -> hres write),
    (forall s, commit [] s = s) ->
    (forall a b s, commit (a ++ b) s = commit b (commit a s)) ->
    (forall c s ws, handler c s = HErr ETooMuchBatch ws -> ws = []) ->
    forall s0 reqs,
      let s := run store write key cmd key_eqb commit pk batchable max_batch handler (init store write key s0) reqs in
      st s = apply_writes store write commit (ok_writes write (done s)) s0 /\ wb s = [] /\ batching s = false /\ pend s = [].
Proof. exact error_is_noop. Qed.
Print Assumptions C11_error_is_noop.

Theorem C11_error_step :
  forall (store write key cmd : Type) (key_eqb : key -> key -> bool) (commit : list write -> store -> store)
         (pk : cmd -> key) (batchable : cmd -> bool) (max_batch : nat) (handler : cmd -> store -> hres write),
    (forall c s ws, handler c s = HErr ETooMuchBatch ws -> ws = []) ->
    forall s0 s id c e ws,
      inv store write key commit s0 s ->
      handler c (st (pre store write key cmd key_eqb commit pk batchable max_batch s c)) = HErr e ws ->
      let s' := step store write key cmd key_eqb commit pk batchable max_batch handler s (id, c) in
      st s' = st (pre store write key cmd key_eqb commit pk batchable max_batch s c) /\
      In (id, None) (done s') /\
      (wb s' = [] \/ (e = ETooMuchBatch /\ wb s' = wb (pre store write key cmd key_eqb commit pk batchable max_batch s c))).
Proof. exact error_step. Qed.
Print Assumptions C11_error_step.

(* (3b) the pre-check that lets a batchable write (SET, SETEX, single-key DEL, HMSET) join the shared batch
   (node/state_machine.go isValidBatchableWrite, over ALL field/value pairs) implies the argument checks of
   its handler and store function: no request fails on its arguments inside a batch, so the error of one
   client's command never aborts the batched writes of the others. [vk] is the versioned form of a hash key;
   its length bound is the explicit hypothesis. *)
Theorem C11_precheck_implies_store_ok : forall (vk : bytes -> bytes),
  (forall rk, rk <> [] -> 0 < blen (vk rk) /\ blen (vk rk) <= (blen rk / 8 + 1) * 9 + 64) ->
  forall name args ts, valid_batchable name args ts = true -> store_args_ok vk name args ts = true.
Proof. exact precheck_implies_store_ok. Qed.
Print Assumptions C11_precheck_implies_store_ok.

(* the hypothesis about errTooMuchBatchSize, checked on the source: at every place of package rockredis where
   that error leaves a function (directly or from a callee) no write into a batch precedes it — lexically, and
   a write anywhere inside a loop that contains the place counts as preceding (an earlier iteration ran it).
   The list is regenerated by go/ast from rockredis/*.go. Two listed exceptions, neither reachable with a dirty
   batch: ZMclear (internal command; commits after every key and clears the batch itself on the error path)
   and dobuildIndexes (background index builder reading through HMget, not an apply handler). *)
Theorem C11_toomuch_before_any_write :
  forallb (fun s => snd s || existsb (gname_eqb (fst (fst s))) ["ZMclear"; "dobuildIndexes"]) toomuch_sites = true.
Proof. vm_compute. reflexivity. Qed.
Print Assumptions C11_toomuch_before_any_write.

(* the modelling assumption "a handler commits nothing before it succeeds", checked on the source: the
   functions of package rockredis in which batch writes or explicit error returns follow a commit of the
   batch (go/ast, regenerated). The one exception is BitSetV2, whose conversion of an old-format value is
   committed before the bit is set; since fix e3d0c54 the key is validated before that conversion. *)
Theorem C11_commit_only_at_success : forallb (fun f => gname_eqb f "BitSetV2") commit_then_write_sites = true.
Proof. vm_compute. reflexivity. Qed.
Print Assumptions C11_commit_only_at_success.

(* ---------- non-vacuity ---------- *)
Definition no_float : bytes -> option N := fun _ => None.
(* "set vns:t:k v" is accepted and proposed as [set; t:k; v] ... *)
Example C11_ex_accept :
  proposed no_float (B "vns") [B "set"; B "vns:t:k"; B "v"] FNone = Some [B "set"; B "t:k"; B "v"].
Proof. vm_compute. reflexivity. Qed.
(* ... "set vns:t:k" is rejected, and it would panic if it were applied: the theorem is not vacuous *)
Example C11_ex_reject :
  proposed no_float (B "vns") [B "set"; B "vns:t:k"] FNone = None /\
  apply_shape no_float false [B "set"; B "t:k"] = APanic /\
  apply_shape no_float false [B "zadd"; B "t:z"; B "1"] = AErr (EParseFloat (B "1")).
Proof. vm_compute. repeat split. Qed.
(* the pre-check looks at the LAST pair too: an over-long last field keeps the HMSET out of the batch,
   a normal one is admitted *)
Example C11_ex_precheck :
  valid_batchable (B "hmset") [B "hmset"; B "t:h"; B "a"; B "1"; repeat 83 (N.to_nat 10241); B "2"] 1700000000 = false /\
  valid_batchable (B "hmset") [B "hmset"; B "t:h"; B "a"; B "1"; B "b"; B "2"] 1700000000 = true.
Proof. vm_compute. split; reflexivity. Qed.
(* the table has write entries and none of them is unknown *)
Example C11_ex_table :
  Nat.leb 50 (length (filter (fun r => kind_eqb (r_kind r) KWrite) reg_table)) = true /\
  forallb (fun r => negb (gname_eqb (r_wrap r) "unknown")) reg_table = true.
Proof. vm_compute. split; reflexivity. Qed.
(* a run of the batch model with a dirty error (aborts the batch, dropping a batched request), a
   clean errTooMuchBatchSize and successes: only the successful, answered requests take effect *)
Definition ex_handler (c : nat) (_ : list nat) : hres nat :=
  match c with 0%nat => HErr EOther [7%nat] | 1%nat => HErr ETooMuchBatch [] | _ => HOk [c] end.
Example C11_ex_batch :
  let s := run (list nat) nat nat nat Nat.eqb (fun ws s => s ++ ws) (fun c => c) Nat.even 10 ex_handler
               (init (list nat) nat nat []) [(1, 2); (2, 0); (3, 4); (4, 1); (5, 3)]%nat in
  st s = [4; 3]%nat /\ map fst (filter (fun d => match snd d with None => true | _ => false end) (done s)) = [2; 1; 4]%nat.
Proof. vm_compute. split; reflexivity. Qed.
