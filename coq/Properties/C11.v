(* Properties/C11.v — C11: no client input can crash a replica or leave a partial write behind.
   This file contains only the property theorems (closed by [exact]) and non-vacuity examples. *)
From ZV Require Import Common.Bytes Valid.Types Valid.Consts Valid.Model Valid.Proofs.
Open Scope N_scope.

(* A1: every redis request with fewer than two arguments panics in ApplyRaftRequest (cmd.Args[1]),
   whatever the command: the leader must never let one through. *)
Theorem C11_apply_needs_two_args : forall pf v2 args, (length args < 2)%nat -> apply_shape pf v2 args = APanic.
Proof. exact apply_short_panics. Qed.
Print Assumptions C11_apply_needs_two_args.
