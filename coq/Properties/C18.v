(* Properties/C18.v — C18: replica migration never drops a partition below a safe quorum.
   Only the property theorems (closed by [exact]/[apply] of lemmas of Migrate/Proofs.v) and non-vacuity examples.

   Reading guide.  [run (init_state replica info auto) evs] executes an arbitrary event sequence (registered
   data-node sets, HTTP answers of data nodes, clock advances, doCheckNamespaces rounds, bare
   handleNamespaceMigrate / addNamespaceToNode / removeNamespaceFromNode / removeNamespaceFromRemovings calls,
   register failures, balance rounds, node decommissioning, and the learner placement driver's check rounds and
   bare add / remove / remove-all / leader calls) from a layout [info]; its second component is the list
   of ALL register update attempts, each with the value stored before it ([a_before]), the value passed
   ([a_value]) and whether the compare-and-swap succeeded ([a_ok]).  The placement function's proposals are
   universally quantified event parameters, so every theorem holds whatever the placement answers. *)
From ZV Require Import Migrate.Consts Migrate.Model Migrate.Proofs.
Open Scope N_scope.

(* (0) what Inv says, clause by clause *)
Theorem C18_inv_clauses : forall replica i, Inv replica i ->
  len (removings i) <= 1 /\                                   (* at most one replica marked for removal *)
  replica / 2 < len (isr i) /\                                (* remaining replicas: strict majority of the replication factor *)
  NoDup (raft_nodes i) /\                                     (* all on distinct nodes *)
  NoDup (map snd (raft_ids i)) /\                             (* raft ids (voters and learners) injective *)
  (forall n id, In (n, id) (raft_ids i) -> id <= max_id i).   (* every id <= MaxRaftID *)
Proof.
  intros replica i [Hw [Hl Hq]]. repeat split; try assumption;
    try apply (wf_nodes_nodup _ Hw); try apply (wf_ids_inj _ Hw); apply (wf_ids_max _ Hw).
Qed.
Print Assumptions C18_inv_clauses.

(* (1) for every replication factor, every valid start layout and every event sequence: every value passed
       to the register (successful or not) and the final stored value satisfy Inv *)
Theorem C18_inv_on_every_write : forall replica info auto evs,
  Inv replica info ->
  Forall (fun a => Inv replica (a_before a) /\ Inv replica (a_value a)) (snd (run (init_state replica info auto) evs)) /\
  Inv replica (r_info (s_reg (fst (run (init_state replica info auto) evs)))).
Proof.
  intros replica info auto evs Hi.
  assert (H0 : Inv (s_replica (init_state replica info auto)) (r_info (s_reg (init_state replica info auto))))
    by (simpl; apply Inv_set_epoch; exact Hi).
  destruct (run_spec _ evs H0) as [_ [H1 [H2 _]]]. split; [|exact H1].
  eapply Forall_impl; [|exact H2]. intros a [[Ha [Hb _]] _]. split; assumption.
Qed.
Print Assumptions C18_inv_on_every_write.

(* (2) one step of the history: each attempt is made against the value stored at that moment (chain), never
       decreases MaxRaftID, keeps an id or draws a fresh one above MaxRaftID, adds at most one node, drops
       only a replica that was marked removing, and changes the replica set by at most one member
       (small_step: unchanged / one added / one marked-removing replica dropped) *)
Theorem C18_history_steps : forall replica info auto evs,
  Inv replica info ->
  chain (set_epoch info 1) (snd (run (init_state replica info auto) evs))
        (r_info (s_reg (fst (run (init_state replica info auto) evs)))) /\
  Forall (fun a => trans (a_before a) (a_value a)) (snd (run (init_state replica info auto) evs)).
Proof.
  intros replica info auto evs Hi.
  assert (H0 : Inv (s_replica (init_state replica info auto)) (r_info (s_reg (init_state replica info auto))))
    by (simpl; apply Inv_set_epoch; exact Hi).
  destruct (run_spec _ evs H0) as [_ [_ [H2 H3]]]. split; [exact H3|].
  eapply Forall_impl; [|exact H2]. intros a [[_ [_ Ht]] _]. exact Ht.
Qed.
Print Assumptions C18_history_steps.

(* (3) raft ids are never reused: an id newly assigned by any attempt occurs neither in the start layout nor in
       any value stored before that attempt *)
Theorem C18_ids_never_reused : forall replica info auto evs,
  Inv replica info ->
  never_reused (ids_of info) (snd (run (init_state replica info auto) evs)).
Proof.
  intros replica info auto evs Hi.
  assert (H0 : Inv (s_replica (init_state replica info auto)) (r_info (s_reg (init_state replica info auto))))
    by (simpl; apply Inv_set_epoch; exact Hi).
  destruct (run_spec _ evs H0) as [_ [_ [H2 H3]]].
  eapply chain_never_reused with (replica := replica); [exact H3| |].
  - eapply Forall_impl; [|exact H2]. intros a [Ha _]. exact Ha.
  - intros id Hid. unfold ids_of in Hid. apply in_map_iff in Hid. destruct Hid as [[n id'] [He Hid]]. simpl in He. subst.
    destruct Hi as [Hw _]. simpl. apply (wf_ids_max _ Hw n id Hid).
Qed.
Print Assumptions C18_ids_never_reused.

(* (4) in every state reachable from a valid layout, every attempt of every next event satisfies the clause of
       that event kind (step_P): for doCheckNamespaces and handleNamespaceMigrate, att_sync and att_alive;
       for rebalanceNamespace and processRemovingNodes, att_sync and att_mark_ready *)
Theorem C18_reachable_step : forall replica info auto evs e,
  Inv replica info ->
  let s := fst (run (init_state replica info auto) evs) in
  Forall (fun a => att_ok replica a /\ step_P s e a) (snd (step s e)).
Proof.
  intros replica info auto evs e Hi s.
  assert (H0 : Inv (s_replica (init_state replica info auto)) (r_info (s_reg (init_state replica info auto))))
    by (simpl; apply Inv_set_epoch; exact Hi).
  destruct (run_spec _ evs H0) as [Hr [H1 _]]. fold s in Hr, H1. simpl in Hr.
  assert (Hs := step_spec s e). rewrite Hr in Hs. specialize (Hs H1).
  destruct (step s e) as [[s' rt] w]. destruct Hs as [_ [_ [H2 _]]]. simpl. rewrite Hr in H2. exact H2.
Qed.
Print Assumptions C18_reachable_step.

(* (4a) spelled out: a node is added by the control flows only when no removal is pending and every current
        replica answered synced; (4b) the coordinator marks a removal in doCheckNamespaces /
        handleNamespaceMigrate only when more than replica/2 of the replicas are on registered nodes;
        (4c) in a balance round or a node decommission only when every remaining replica answered synced, and
        those are a strict majority *)
Theorem C18_add_only_when_synced : forall env a,
  att_sync env a -> new_node a ->
  removings (a_before a) = [] /\ forall n, In n (isr (a_before a)) -> synced_of env n = true.
Proof.
  intros env a Hs Hn. destruct (Hs Hn) as [H1 H2]. split; [exact H2|].
  intros n Hin. eapply all_ready_synced; eassumption.
Qed.
Print Assumptions C18_add_only_when_synced.

Theorem C18_mark_needs_alive_majority : forall replica cur a,
  att_alive replica cur a -> new_mark a -> replica / 2 < count_in cur (raft_nodes (a_before a)).
Proof. intros replica cur a H Hm. exact (H Hm). Qed.
Print Assumptions C18_mark_needs_alive_majority.

Theorem C18_mark_in_balance_needs_ready_majority : forall replica env a,
  att_ok replica a -> att_mark_ready env a -> new_mark a ->
  replica / 2 < len (isr (a_before a)) /\ forall n, In n (isr (a_before a)) -> synced_of env n = true.
Proof.
  intros replica env a [[_ [_ Hq]] _] Hr Hm. split; [exact Hq|].
  intros n Hin. eapply all_ready_synced; [exact (Hr Hm)|exact Hin].
Qed.
Print Assumptions C18_mark_in_balance_needs_ready_majority.

(* (5) where valid layouts come from: the layout CreateNamespace writes for a partition is valid whenever the
       placement proposes distinct nodes (C17's subject) *)
Theorem C18_created_layout_valid : forall replica l i,
  NoDup l -> create_partition replica l = Some i -> Inv replica i.
Proof. exact create_partition_inv. Qed.
Print Assumptions C18_created_layout_valid.

(* ---------- non-vacuity ---------- *)
(* a valid 3-replica layout on nodes 1,2,3; all five nodes registered and answering; node 3 is lost; after the
   wait interval the check marks it removing; the data nodes drop it; after the removing wait the check takes it
   out of RaftNodes and, in the same round, adds node 4 with the fresh id 4; then the learner driver is started,
   learner node 101 registers and gets the next id; register content at the end *)
Definition ex_info : rinfo := mkInfo [1;2;3] [(1,1);(2,2);(3,3)] [] 3 [] 0.
Definition ex_members (l : list (N * N)) : option (option (list (N * N)) * bool) := Some (Some l, true).
Definition ex_events : list event :=
  [ ENodes [1;2;3;4;5] [];
    EAnswer [(1, ex_members [(1,1);(2,2);(3,3)]); (2, ex_members [(1,1);(2,2);(3,3)]); (3, ex_members [(1,1);(2,2);(3,3)])];
    ENodes [1;2;4;5] [];
    ECheck true (PList [1;2;4]) (PList [1;2;4]);
    ETick 18;
    ECheck true (PList [1;2;4]) (PList [1;2;4]);
    EAnswer [(1, ex_members [(1,1);(2,2)]); (2, ex_members [(1,1);(2,2)]); (3, None)];
    ETick 6;
    ECheck true (PList [1;2;4]) (PList [1;2;4]);
    ETick 18;
    ECheck true (PList [1;2;4]) (PList [1;2;4]);
    ELStart true;
    ENodes [1;2;4;5] [(101, true)];
    ELCheck ].

Example C18_ex_valid : Inv 3 ex_info.
Proof.
  split; [constructor; simpl|split; [vm_compute; discriminate|vm_compute; reflexivity]].
  - repeat constructor; simpl; intuition discriminate.
  - repeat constructor; simpl; intuition discriminate.
  - repeat constructor; simpl; intuition discriminate.
  - intros n id [H|[H|[H|[]]]]; inversion H; subst; vm_compute; discriminate.
  - constructor.
Qed.

Example C18_ex_run :
  let res := run (init_state 3 ex_info true) ex_events in
  map (fun a => (raft_nodes (a_value a), map fst (removings (a_value a)), max_id (a_value a), a_ok a)) (snd res) =
    [ ([1;2;3], [3], 3, true);        (* node 3 marked removing *)
      ([1;2], [], 3, true);           (* removal finished *)
      ([1;2;4], [], 4, true);         (* replacement added with the fresh id 4 *)
      ([1;2;4], [], 5, true) ]        (* the learner driver adds learner 101 with the fresh id 5 *)
  /\ raft_ids (r_info (s_reg (fst res))) = [(1,1);(2,2);(4,4);(101,5)]
  /\ learners (r_info (s_reg (fst res))) = [101].
Proof. vm_compute. repeat split; reflexivity. Qed.
