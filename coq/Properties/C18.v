(* Properties/C18.v — C18: replica migration never drops a partition below a safe quorum. *)
From ZV Require Import Migrate.Consts Migrate.Model Migrate.Proofs.
Open Scope N_scope.

Theorem C18_placeholder : forall r v g r' o a, reg_update r v g = (r', o, a) -> r_counter r <= r_counter r'.
Proof. exact reg_update_counter_mono. Qed.
Print Assumptions C18_placeholder.
