(* Properties/C18.v — C18: replica migration never drops a partition below a safe quorum.
   Only the property theorems (closed by [exact]/[apply] of lemmas of Migrate/Proofs.v) and non-vacuity examples.

   Reading guide.  [run (init_state replica info auto) evs] executes an arbitrary event sequence (registered
   data-node sets, HTTP answers of data nodes, clock advances, doCheckNamespaces rounds, bare
   handleNamespaceMigrate / addNamespaceToNode / removeNamespaceFromNode / removeNamespaceFromRemovings calls,
   register failures, balance rounds, node decommissioning, and the learner placement driver's check rounds and
   bare add / remove / remove-all / leader calls) from a layout [info]; its second component is the list
   of ALL register update attempts, each with the value stored before it ([a_before]), the value passed
   ([a_value]) and whether the compare-and-swap succeeded ([a_ok]).  The placement function's proposals are
   universally quantified event parameters, so every theorem holds whatever the placement answers. *)
From ZV Require Import Migrate.Consts Migrate.Model Migrate.Proofs Migrate.Multi Migrate.MultiProofs.
Open Scope N_scope.

(* Inv q replica i: well-formed (RaftNodes duplicate-free, RaftIDs a map, injective, <= MaxRaftID, Removings a map),
   at most one replica marked removing, and - when q = true - the non-removing replicas are a strict majority of
   [replica]. q = false is the part that survives ANY change of the replication factor
   (ChangeNamespaceMetaParam); q = true is the full invariant, which holds as long as the factor is not raised
   (lowering_only).  Each attempt in the log of [run] is tagged with the factor in effect when it was made. *)

(* (0) what Inv true says, clause by clause *)
Theorem C18_inv_clauses : forall replica i, Inv true replica i ->
  len (removings i) <= 1 /\                                   (* at most one replica marked for removal *)
  replica / 2 < len (isr i) /\                                (* remaining replicas: strict majority of the replication factor *)
  NoDup (raft_nodes i) /\                                     (* all on distinct nodes *)
  NoDup (map snd (raft_ids i)) /\                             (* raft ids (voters and learners) injective *)
  (forall n id, In (n, id) (raft_ids i) -> id <= max_id i).   (* every id <= MaxRaftID *)
Proof.
  intros replica i [Hw [Hl Hq]]. repeat split; try assumption; try (apply Hq; reflexivity);
    try apply (wf_nodes_nodup _ Hw); try apply (wf_ids_inj _ Hw); apply (wf_ids_max _ Hw).
Qed.
Print Assumptions C18_inv_clauses.

(* (1) for every replication factor, every valid start layout and every event sequence (for q = true: in which
       ChangeNamespaceMetaParam never raises the factor): every value passed to the register (successful or not)
       satisfies Inv for the factor in effect, was derived from a value that did, and the final stored value
       satisfies Inv for the final factor *)
Theorem C18_inv_on_every_write : forall q replica info auto evs,
  Inv q replica info ->
  (q = true -> lowering_only (init_state replica info auto) evs) ->
  Forall (fun ra => Inv q (fst ra) (a_before (snd ra)) /\ Inv q (fst ra) (a_value (snd ra)))
         (snd (run (init_state replica info auto) evs)) /\
  Inv q (s_replica (fst (run (init_state replica info auto) evs)))
        (r_info (s_reg (fst (run (init_state replica info auto) evs)))).
Proof.
  intros q replica info auto evs Hi Hlow.
  destruct (run_spec q _ evs (init_inv q replica info auto Hi) Hlow) as [H1 [_ H3]]. split; [|exact H3].
  eapply Forall_impl; [|exact H1]. intros [r a] [Ha [Hb _]]. split; assumption.
Qed.
Print Assumptions C18_inv_on_every_write.

(* (1a) whatever happens to the replication factor (raised, lowered, while a migration is in flight): every value
        passed to the register is well-formed with at most one removing entry ... *)
Theorem C18_core_survives_factor_changes : forall replica info auto evs,
  wf info -> len (removings info) <= 1 ->
  Forall (fun ra => wf (a_value (snd ra)) /\ len (removings (a_value (snd ra))) <= 1)
         (snd (run (init_state replica info auto) evs)).
Proof.
  intros replica info auto evs Hw Hl.
  assert (Hi : Inv false replica info) by (split; [exact Hw|split; [exact Hl|discriminate]]).
  destruct (C18_inv_on_every_write false replica info auto evs Hi) as [H _]; [discriminate|].
  eapply Forall_impl; [|exact H]. intros ra [_ [Hv [Hlv _]]]. split; assumption.
Qed.
Print Assumptions C18_core_survives_factor_changes.

(* (1b) ... and a write that makes the set of non-removing replicas smaller (marking a removal) leaves a strict
        majority of the factor in effect at that moment; all other writes keep or enlarge that set *)
Theorem C18_shrinking_write_keeps_majority : forall replica info auto evs,
  wf info -> len (removings info) <= 1 ->
  Forall (fun ra => len (isr (a_value (snd ra))) < len (isr (a_before (snd ra))) ->
                    fst ra / 2 < len (isr (a_value (snd ra))))
         (snd (run (init_state replica info auto) evs)).
Proof.
  intros replica info auto evs Hw Hl.
  assert (Hi : Inv false replica info) by (split; [exact Hw|split; [exact Hl|discriminate]]).
  destruct (run_spec false _ evs (init_inv false replica info auto Hi)) as [H1 _]; [discriminate|].
  eapply Forall_impl; [|exact H1]. intros [r a] [_ [_ [_ Hs]]]. exact Hs.
Qed.
Print Assumptions C18_shrinking_write_keeps_majority.

(* (1c) lowering the factor keeps the full invariant of the stored value *)
Theorem C18_lowering_keeps_inv : forall r r' i, Inv true r i -> r' <= r -> Inv true r' i.
Proof. exact (Inv_lower true). Qed.
Print Assumptions C18_lowering_keeps_inv.

(* (1d) raising it does not: the statement "every written value is a strict majority of the configured factor"
        is FALSE across a raise. One replica, factor raised 1 -> 5 (six registered nodes), the replica's node is
        decommissioned: processRemovingNodes adds a second replica and writes a value with 2 of 5 - not a majority
        of 5 (it is still an improvement: (1b)). handleNamespaceMigrate refuses the same write and therefore never
        grows such a partition (the TODO in pd_coordinator.go). Replayed on the real coordinator: corpus/C18. *)
Definition raise_info : rinfo := mkInfo [1] [(1,1)] [] 1 [] 0.
Definition raise_events : list event :=
  [ ENodes [1;2;3;4;5;6] [];
    EAnswer [(1, Some (Some [(1,1)], true)); (2, Some (Some [(1,1)], true))];
    EReplica 5;
    EMarkNode 1;
    EProcess (PList [5;6;2;3;4]) ].
Theorem C18_majority_across_raise_refuted :
  Inv true 1 raise_info /\
  exists ra, In ra (snd (run (init_state 1 raise_info true) raise_events)) /\
             ~ (fst ra / 2 < len (isr (a_value (snd ra)))).
Proof.
  split.
  - split; [constructor; simpl|split; [vm_compute; discriminate|intros _; vm_compute; reflexivity]].
    + repeat constructor; simpl; intuition discriminate.
    + repeat constructor; simpl; intuition discriminate.
    + repeat constructor; simpl; intuition discriminate.
    + intros n id [H|[]]; inversion H; subst; vm_compute; discriminate.
    + constructor.
  - eexists. split; [vm_compute; left; reflexivity|]. vm_compute. discriminate.
Qed.
Print Assumptions C18_majority_across_raise_refuted.

(* (1e) handleNamespaceMigrate asks the placement for a node (allocNodeForNamespace) only for a partition with at
        most [replica] replicas: if the placement's panic answer propagates, the partition is not over-replicated.
        A replica list longer than a lowered factor therefore never reaches the placement from this flow as the
        partition's own list. *)
Theorem C18_migrate_consults_placement_only_when_not_over_replicated :
  forall replica env now r nepoch info cur ep place c r' i' w,
  1 <= replica ->
  handle_migrate replica env now r nepoch info cur ep place = (c, r', i', w) -> c = CPanic ->
  len (raft_nodes info) <= replica.
Proof. exact migrate_panic_not_over_replicated. Qed.
Print Assumptions C18_migrate_consults_placement_only_when_not_over_replicated.

(* (2) one step of the history: each attempt is made against the value stored at that moment (chain), never
       decreases MaxRaftID, keeps an id or draws a fresh one above MaxRaftID, adds at most one node, drops
       only a replica that was marked removing, and changes the replica set by at most one member
       (small_step: unchanged / one added / one marked-removing replica dropped); whatever the factor does *)
Theorem C18_history_steps : forall replica info auto evs,
  wf info -> len (removings info) <= 1 ->
  chain (set_epoch info 1) (map snd (snd (run (init_state replica info auto) evs)))
        (r_info (s_reg (fst (run (init_state replica info auto) evs)))) /\
  Forall (fun ra => trans (a_before (snd ra)) (a_value (snd ra))) (snd (run (init_state replica info auto) evs)).
Proof.
  intros replica info auto evs Hw Hl.
  assert (Hi : Inv false replica info) by (split; [exact Hw|split; [exact Hl|discriminate]]).
  destruct (run_spec false _ evs (init_inv false replica info auto Hi)) as [H1 [H2 _]]; [discriminate|].
  split; [exact H2|]. eapply Forall_impl; [|exact H1]. intros [r a] [_ [_ [Ht _]]]. exact Ht.
Qed.
Print Assumptions C18_history_steps.

(* (3) raft ids are never reused: an id newly assigned by any attempt (to a voter or a learner) occurs neither in
       the start layout nor in any value stored before that attempt *)
Theorem C18_ids_never_reused : forall replica info auto evs,
  wf info -> len (removings info) <= 1 ->
  never_reused (ids_of info) (map snd (snd (run (init_state replica info auto) evs))).
Proof.
  intros replica info auto evs Hw Hl.
  assert (Hi : Inv false replica info) by (split; [exact Hw|split; [exact Hl|discriminate]]).
  destruct (run_spec false _ evs (init_inv false replica info auto Hi)) as [H1 [H2 _]]; [discriminate|].
  eapply chain_never_reused; [exact H2| |].
  - apply Forall_forall. intros a Ha. apply in_map_iff in Ha. destruct Ha as [[r a'] [He Ha]]. simpl in He. subst a'.
    unfold tagged_ok in H1. rewrite Forall_forall in H1. destruct (H1 _ Ha) as [_ [[Hwv _] [Ht _]]]. split; assumption.
  - intros id Hid. unfold ids_of in Hid. apply in_map_iff in Hid. destruct Hid as [[n id'] [He Hid]]. simpl in He. subst.
    simpl. apply (wf_ids_max _ Hw n id Hid).
Qed.
Print Assumptions C18_ids_never_reused.

(* (3a) key consistency under an explicit role-separation hypothesis. L tells learner nodes from data nodes; the
        hypothesis is stated on the log: no write makes a learner-role node a voter, a data-role node a learner, or
        marks a learner-role node removing (the coordinator code checks none of this; the cluster keeps a node's
        role fixed). Then every written value and the final stored value have: every voter has a raft id, every
        removing entry belongs to a voter, RaftIDs has no key besides voters and learners. *)
Theorem C18_keys_consistent_under_role_separation : forall L replica info auto evs,
  wf info -> len (removings info) <= 1 ->
  keys_consistent_at L info ->
  Forall (fun ra => roles_respected L (a_before (snd ra)) (a_value (snd ra))) (snd (run (init_state replica info auto) evs)) ->
  Forall (fun ra => keys_consistent_at L (a_value (snd ra))) (snd (run (init_state replica info auto) evs)) /\
  keys_consistent_at L (r_info (s_reg (fst (run (init_state replica info auto) evs)))).
Proof.
  intros L replica info auto evs Hw Hl HK Hroles.
  assert (Hi : Inv false replica info) by (split; [exact Hw|split; [exact Hl|discriminate]]).
  destruct (run_spec false _ evs (init_inv false replica info auto Hi)) as [H1 [H2 _]]; [discriminate|].
  destruct (keys_consistent L _ _ _ H2) as [A B].
  - apply Forall_forall. intros a Ha. apply in_map_iff in Ha. destruct Ha as [[r a'] [He Ha]]. simpl in He. subst a'.
    unfold tagged_ok in H1. rewrite Forall_forall in H1. destruct (H1 _ Ha) as [_ [_ [Ht _]]]. exact Ht.
  - apply Forall_forall. intros a Ha. apply in_map_iff in Ha. destruct Ha as [[r a'] [He Ha]]. simpl in He. subst a'.
    rewrite Forall_forall in Hroles. apply (Hroles _ Ha).
  - exact HK.
  - split; [|exact B]. apply Forall_forall. intros [r a] Ha. simpl. rewrite Forall_forall in A. apply A.
    apply in_map_iff. exists (r, a). split; [reflexivity|exact Ha].
Qed.
Print Assumptions C18_keys_consistent_under_role_separation.

(* (4) in every state reachable from a valid layout, every attempt of every next event satisfies the clause of
       that event kind (step_P): for doCheckNamespaces and handleNamespaceMigrate, att_sync and att_alive;
       for rebalanceNamespace and processRemovingNodes, att_sync and att_mark_ready *)
Theorem C18_reachable_step : forall q replica info auto evs e,
  Inv q replica info ->
  (q = true -> lowering_only (init_state replica info auto) evs) ->
  let s := fst (run (init_state replica info auto) evs) in
  Forall (fun a => att_ok q (s_replica s) a /\ step_P s e a) (snd (step s e)).
Proof.
  intros q replica info auto evs e Hi Hlow s.
  destruct (run_spec q _ evs (init_inv q replica info auto Hi) Hlow) as [_ [_ H3]]. fold s in H3.
  assert (Hs := step_spec q s e H3).
  destruct (step s e) as [[s' rt] w]. destruct Hs as [[_ [H2 _]] _]. exact H2.
Qed.
Print Assumptions C18_reachable_step.

(* (4a) spelled out: a node is added by the control flows only when no removal is pending and every current
        replica answered synced; (4b) the coordinator marks a removal in doCheckNamespaces /
        handleNamespaceMigrate only when more than replica/2 of the replicas are REACHABLE: on a registered node
        AND answering the sync query (a registered node that hangs or answers not-synced does not count);
        (4c) in a balance round or a node decommission only when every remaining replica answered synced, and
        those are a strict majority *)
Theorem C18_add_only_when_synced : forall env a,
  att_sync env a -> new_node a ->
  removings (a_before a) = [] /\ forall n, In n (isr (a_before a)) -> synced_of env n = true.
Proof.
  intros env a Hs Hn. destruct (Hs Hn) as [H1 H2]. split; [exact H2|].
  intros n Hin. eapply all_ready_synced; eassumption.
Qed.
Print Assumptions C18_add_only_when_synced.

Theorem C18_mark_needs_alive_majority : forall replica env cur a,
  att_alive replica env cur a -> new_mark a ->
  replica / 2 < len (filter (fun n => mem n cur && synced_of env n) (raft_nodes (a_before a))).
Proof. intros replica env cur a H Hm. exact (H Hm). Qed.
Print Assumptions C18_mark_needs_alive_majority.

Theorem C18_mark_in_balance_needs_ready_majority : forall replica env a,
  att_ok true replica a -> att_mark_ready env a -> new_mark a ->
  replica / 2 < len (isr (a_before a)) /\ forall n, In n (isr (a_before a)) -> synced_of env n = true.
Proof.
  intros replica env a [[_ [_ Hq]] _] Hr Hm. split; [apply Hq; reflexivity|].
  intros n Hin. eapply all_ready_synced; [exact (Hr Hm)|exact Hin].
Qed.
Print Assumptions C18_mark_in_balance_needs_ready_majority.

(* (5) where valid layouts come from: the layout CreateNamespace writes for a partition is valid whenever the
       placement proposes distinct nodes (C17's subject) *)
Theorem C18_created_layout_valid : forall replica l i,
  NoDup l -> create_partition replica l = Some i -> Inv true replica i.
Proof. exact (create_partition_inv true). Qed.
Print Assumptions C18_created_layout_valid.

(* ---------- several partitions (Migrate/Multi.v) ----------
   [mrun m evs] runs events on a namespace with any number of partitions: a single-partition event on one partition
   (MOn), the shared events (MGlobal), and the rounds that loop over all partitions in an arbitrary order given in the
   event (Go map iteration), consulting an arbitrary placement answer per partition and use. Every partition is its
   own raft group: the single-partition results hold for each one separately. *)

(* (6) per partition: every attempt satisfies att_ok (Inv of the value before and of the value written, the
       permitted-change relation, the shrink clause) for the factor in effect, the attempts on the partition form a
       chain over its stored value, and at the end every partition's stored value satisfies Inv *)
Theorem C18_multi_partition : forall q m evs,
  MInv q m -> (q = true -> m_lowering_only m evs) ->
  MInv q (fst (mrun m evs)) /\
  forall pid sl, aget pid (m_parts m) = Some sl -> part_ok q pid sl (fst (mrun m evs)) (snd (mrun m evs)).
Proof. exact mrun_spec. Qed.
Print Assumptions C18_multi_partition.

(* (6a) ids are never reused within a partition, whatever happens to the other partitions and to the factor *)
Theorem C18_multi_ids_never_reused : forall m evs pid sl,
  MInv false m -> aget pid (m_parts m) = Some sl ->
  never_reused (ids_of (p_info sl)) (map snd (plog pid (snd (mrun m evs)))).
Proof.
  intros m evs pid sl Hi E.
  destruct (mrun_spec false m evs Hi) as [_ H]; [discriminate|].
  destruct (H pid sl E) as [sl' [_ [Hch Hall]]].
  eapply chain_never_reused; [exact Hch| |].
  - apply Forall_forall. intros a Ha. apply in_map_iff in Ha. destruct Ha as [[r a'] [He Ha]]. simpl in He. subst a'.
    rewrite Forall_forall in Hall. destruct (Hall _ Ha) as [_ [[Hwv _] [Ht _]]]. split; assumption.
  - intros id Hid. unfold ids_of in Hid. apply in_map_iff in Hid. destruct Hid as [[n id'] [He Hid]]. simpl in He. subst.
    destruct (Hi pid sl E) as [Hw _]. apply (wf_ids_max _ Hw n id Hid).
Qed.
Print Assumptions C18_multi_ids_never_reused.

(* (7) what one round may touch. A check round makes at most two update attempts per partition (finish a removal,
       then one migration step or one planned removal); a balance round - stopped at its first attempt, as the
       harness runs it - and a node-removal round touch a single partition. There is NO limit across partitions in
       a check round: the code's "migrate only one at once" throttle discards its result (parts[pid].Add), see
       C18_ex_two_partitions_one_round. *)
Theorem C18_check_round_limit : forall m full order ps pid,
  NoDup order -> (length (patts pid (snd (check_round m full order ps))) <= 2)%nat.
Proof. exact check_round_limit. Qed.
Print Assumptions C18_check_round_limit.

Theorem C18_balance_round_one_partition : forall m order p,
  exists pid, forall pa, In pa (snd (balance_round m order p)) -> fst pa = pid.
Proof. exact balance_round_limit. Qed.
Print Assumptions C18_balance_round_one_partition.

Theorem C18_removal_round_one_partition : forall m order p,
  exists pid, forall pa, In pa (snd (process_round m order p)) -> fst pa = pid.
Proof. exact process_round_limit. Qed.
Print Assumptions C18_removal_round_one_partition.

(* ---------- non-vacuity ---------- *)
(* a valid 3-replica layout on nodes 1,2,3; all five nodes registered and answering; node 3 is lost; after the
   wait interval the check marks it removing; the data nodes drop it; after the removing wait the check takes it
   out of RaftNodes and, in the same round, adds node 4 with the fresh id 4; then the learner driver is started,
   learner node 101 registers and gets the next id; register content at the end *)
Definition ex_info : rinfo := mkInfo [1;2;3] [(1,1);(2,2);(3,3)] [] 3 [] 0.
Definition ex_members (l : list (N * N)) : option (option (list (N * N)) * bool) := Some (Some l, true).
Definition ex_events : list event :=
  [ ENodes [1;2;3;4;5] [];
    EAnswer [(1, ex_members [(1,1);(2,2);(3,3)]); (2, ex_members [(1,1);(2,2);(3,3)]); (3, ex_members [(1,1);(2,2);(3,3)])];
    ENodes [1;2;4;5] [];
    ECheck true (PList [1;2;4]) (PList [1;2;4]);
    ETick 18;
    ECheck true (PList [1;2;4]) (PList [1;2;4]);
    EAnswer [(1, ex_members [(1,1);(2,2)]); (2, ex_members [(1,1);(2,2)]); (3, None)];
    ETick 6;
    ECheck true (PList [1;2;4]) (PList [1;2;4]);
    ETick 18;
    ECheck true (PList [1;2;4]) (PList [1;2;4]);
    ELStart true;
    ENodes [1;2;4;5] [(101, true)];
    ELCheck ].

Example C18_ex_valid : Inv true 3 ex_info.
Proof.
  split; [constructor; simpl|split; [vm_compute; discriminate|intros _; vm_compute; reflexivity]].
  - repeat constructor; simpl; intuition discriminate.
  - repeat constructor; simpl; intuition discriminate.
  - repeat constructor; simpl; intuition discriminate.
  - intros n id [H|[H|[H|[]]]]; inversion H; subst; vm_compute; discriminate.
  - constructor.
Qed.

Example C18_ex_run :
  let res := run (init_state 3 ex_info true) ex_events in
  map (fun ra => let a := snd ra in (raft_nodes (a_value a), map fst (removings (a_value a)), max_id (a_value a), a_ok a)) (snd res) =
    [ ([1;2;3], [3], 3, true);        (* node 3 marked removing *)
      ([1;2], [], 3, true);           (* removal finished *)
      ([1;2;4], [], 4, true);         (* replacement added with the fresh id 4 *)
      ([1;2;4], [], 5, true) ]        (* the learner driver adds learner 101 with the fresh id 5 *)
  /\ raft_ids (r_info (s_reg (fst res))) = [(1,1);(2,2);(4,4);(101,5)]
  /\ learners (r_info (s_reg (fst res))) = [101].
Proof. vm_compute. repeat split; reflexivity. Qed.

(* two partitions on nodes 1,2,3; node 3 is lost; after the wait interval ONE full check round marks node 3 removing
   in BOTH partitions *)
Definition ex2_events : list mevent :=
  [ MGlobal (ENodes [1;2;3;4;5] []);
    MOn 0 (EAnswer [(1, ex_members [(1,1);(2,2);(3,3)]); (2, ex_members [(1,1);(2,2);(3,3)]); (3, ex_members [(1,1);(2,2);(3,3)])]);
    MOn 1 (EAnswer [(1, ex_members [(1,1);(2,2);(3,3)]); (2, ex_members [(1,1);(2,2);(3,3)]); (3, ex_members [(1,1);(2,2);(3,3)])]);
    MGlobal (ENodes [1;2;4;5] []);
    MCheckAll true [1;0] [];
    MGlobal (ETick 18);
    MCheckAll true [1;0] [] ].
Example C18_ex_two_partitions_one_round :
  map (fun e => (fst (snd e), map fst (removings (a_value (snd (snd e))))))
      (snd (mrun (minit 3 [(0, ex_info); (1, ex_info)] true) ex2_events)) = [(1, [3]); (0, [3])].
Proof. vm_compute. reflexivity. Qed.
