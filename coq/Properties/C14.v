(* Properties/C14.v — C14: a checkpoint restores exactly the state at its log index.
   Only the property theorems (closed by [exact]) and non-vacuity examples. *)
From ZV Require Import Common.Bytes Ckpt.Consts Ckpt.Model Ckpt.Proofs Ckpt.ProofsName.
From Coq Require Import Permutation Sorted.
Open Scope N_scope.

(* ---------- (1) checkpoint directory names ---------- *)

(* the name made by GetCheckpointDir is read back by ParseUint(…, 16, 64) as the same term and
   index; it has exactly one dash, so purgeOldCheckpoint considers it, and Less never panics on it *)
Theorem C14_name_roundtrip : forall t i, t < 2 ^ 64 -> i < 2 ^ 64 ->
  term_of (enc_name t i) = t /\ index_of_name (enc_name t i) = i /\
  sortable (enc_name t i) = true /\ has_dash (enc_name t i) = true /\
  count_dash (enc_name t i) = 1%nat /\ parse_hex (after_dash (enc_name t i)) = (i, true).
Proof. exact name_roundtrip. Qed.
Print Assumptions C14_name_roundtrip.

Theorem C14_name_injective : forall t i t' i', t < 2 ^ 64 -> i < 2 ^ 64 -> t' < 2 ^ 64 -> i' < 2 ^ 64 ->
  enc_name t i = enc_name t' i' -> t = t' /\ i = i'.
Proof. exact enc_name_inj. Qed.
Print Assumptions C14_name_injective.

(* CheckpointSortNames.Less on generated names = lexicographic order on (term, index) *)
Theorem C14_less_is_term_then_index : forall t i t' i', t < 2 ^ 64 -> i < 2 ^ 64 -> t' < 2 ^ 64 -> i' < 2 ^ 64 ->
  less (enc_name t i) (enc_name t' i') = Some (if t =? t' then i <? i' else t <? t').
Proof. exact less_enc. Qed.
Print Assumptions C14_less_is_term_then_index.

(* ---------- (2) sort.Sort(CheckpointSortNames) ---------- *)

(* for every listing whose names carry a parsable term: no panic, a permutation, ascending by (term, index) *)
Theorem C14_sort_sorted : forall l, forallb sortable l = true ->
  exists s, go_sort l = Some s /\ Permutation s l /\ StronglySorted key_le s.
Proof. exact go_sort_sorted. Qed.
Print Assumptions C14_sort_sorted.

(* ---------- (3) purgeOldCheckpoint, for ALL directory listings, keepNum and latestSnapIndex ---------- *)

(* only names the glob matched are removed *)
Theorem C14_purge_only_candidates : forall keep names latest v,
  In v (purge_removed keep names latest) -> In v (glob_dash names).
Proof. exact purge_removed_incl. Qed.
Print Assumptions C14_purge_only_candidates.

(* a removed entry lies in the first n - keepNum positions of the sorted listing: the newest
   min(keepNum, n) checkpoints stay; at most n - keepNum entries go *)
Theorem C14_purge_keeps_newest : forall keep names latest s v,
  NoDup names -> go_sort (glob_dash names) = Some s ->
  In v (skipn (length s - keep) s) -> ~ In v (purge_removed keep names latest).
Proof. exact purge_newest_stay. Qed.
Print Assumptions C14_purge_keeps_newest.

Theorem C14_purge_count : forall keep names latest,
  (length (purge_removed keep names latest) + Nat.min keep (length (glob_dash names)) <= length (glob_dash names))%nat.
Proof. exact purge_removed_count. Qed.
Print Assumptions C14_purge_count.

(* never an entry with index >= latestSnapIndex. Hypothesis [index_monotone]: in the listing, the
   (term, index) order agrees with the index order — an invariant of raft snapshots (a later term
   never snapshots at a smaller index), NOT checked by purgeOldCheckpoint itself (see C14_purge_unsafe_without_monotone) *)
Theorem C14_purge_safe : forall keep names latest v,
  index_monotone (glob_dash names) ->
  In v (purge_removed keep names latest) -> index_of_name v < latest.
Proof. exact purge_index_safe. Qed.
Print Assumptions C14_purge_safe.

(* what is left in the directory *)
Theorem C14_purge_left : forall keep names latest n,
  In n (purge_left keep names latest) <-> In n names /\ ~ In n (purge_removed keep names latest).
Proof. exact purge_left_spec. Qed.
Print Assumptions C14_purge_left.

(* ---------- (4) GetLatestCheckpoint ---------- *)
Theorem C14_latest_checkpoint : forall names skip m c,
  latest_checkpoint names skip m = LSome c ->
  In c (glob_dash names) /\ m c = true /\
  (skip = 0%nat -> forall d, In d (glob_dash names) -> m d = true -> key_le d c).
Proof. exact latest_checkpoint_spec. Qed.
Print Assumptions C14_latest_checkpoint.

(* ---------- non-vacuity ---------- *)
Example C14_ex_name : enc_name 7 100 =
  [48;48;48;48;48;48;48;48;48;48;48;48;48;48;48;55;45;48;48;48;48;48;48;48;48;48;48;48;48;48;48;54;52].
Proof. vm_compute. reflexivity. Qed.
(* three checkpoints, keepNum 1, latest snapshot index 6: the two oldest go, the newest stays *)
Example C14_ex_purge :
  purge_removed 1 [enc_name 1 3; enc_name 1 5; enc_name 2 9] 10 = [enc_name 1 3; enc_name 1 5] /\
  purge_removed 1 [enc_name 1 3; enc_name 1 5; enc_name 2 9] 6 = [enc_name 1 3] /\
  purge_left 1 [enc_name 1 3; enc_name 1 5; enc_name 2 9] 6 = [enc_name 1 5; enc_name 2 9].
Proof. vm_compute. repeat split; reflexivity. Qed.
