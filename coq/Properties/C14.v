(* Properties/C14.v — C14: a checkpoint restores exactly the state at its log index.
   Only the property theorems (closed by [exact]) and non-vacuity examples. *)
From ZV Require Import Common.Bytes Ckpt.Consts Ckpt.Model Ckpt.Proofs Ckpt.ProofsName Ckpt.ProofsValue Ckpt.ProofsPlan Ckpt.ProofsChain Ckpt.ProofsFetch Ckpt.ProofsOrder Ckpt.ProofsCrash Ckpt.ProofsSource Ckpt.ProofsReuse Ckpt.ProofsCache.
From Coq Require Import Permutation Sorted.
Open Scope N_scope.

(* ---------- (1) checkpoint directory names ---------- *)

(* the name made by GetCheckpointDir is read back by ParseUint(…, 16, 64) as the same term and
   index; it has exactly one dash, so purgeOldCheckpoint considers it, and Less never panics on it *)
Theorem C14_name_roundtrip : forall t i, t < 2 ^ 64 -> i < 2 ^ 64 ->
  term_of (enc_name t i) = t /\ index_of_name (enc_name t i) = i /\
  sortable (enc_name t i) = true /\ has_dash (enc_name t i) = true /\
  count_dash (enc_name t i) = 1%nat /\ parse_hex (after_dash (enc_name t i)) = (i, true).
Proof. exact name_roundtrip. Qed.
Print Assumptions C14_name_roundtrip.

Theorem C14_name_injective : forall t i t' i', t < 2 ^ 64 -> i < 2 ^ 64 -> t' < 2 ^ 64 -> i' < 2 ^ 64 ->
  enc_name t i = enc_name t' i' -> t = t' /\ i = i'.
Proof. exact enc_name_inj. Qed.
Print Assumptions C14_name_injective.

(* CheckpointSortNames.Less on generated names = lexicographic order on (term, index) *)
Theorem C14_less_is_term_then_index : forall t i t' i', t < 2 ^ 64 -> i < 2 ^ 64 -> t' < 2 ^ 64 -> i' < 2 ^ 64 ->
  less (enc_name t i) (enc_name t' i') = Some (if t =? t' then i <? i' else t <? t').
Proof. exact less_enc. Qed.
Print Assumptions C14_less_is_term_then_index.

(* ---------- (2) sort.Sort(CheckpointSortNames) ---------- *)

(* for every listing whose names carry a parsable term: no panic, a permutation, ascending by (term, index) *)
Theorem C14_sort_sorted : forall l, forallb sortable l = true ->
  exists s, go_sort l = Some s /\ Permutation s l /\ StronglySorted key_le s.
Proof. exact go_sort_sorted. Qed.
Print Assumptions C14_sort_sorted.

(* ---------- (3) purgeOldCheckpoint, for ALL directory listings, keepNum and latestSnapIndex ---------- *)

(* only names the glob matched are removed *)
Theorem C14_purge_only_candidates : forall keep names latest v,
  In v (purge_removed keep names latest) -> In v (glob_dash names).
Proof. exact purge_removed_incl. Qed.
Print Assumptions C14_purge_only_candidates.

(* a removed entry lies in the first n - keepNum positions of the sorted listing: the newest
   min(keepNum, n) checkpoints stay; at most n - keepNum entries go *)
Theorem C14_purge_keeps_newest : forall keep names latest s v,
  NoDup names -> go_sort (glob_dash names) = Some s ->
  In v (skipn (length s - keep) s) -> ~ In v (purge_removed keep names latest).
Proof. exact purge_newest_stay. Qed.
Print Assumptions C14_purge_keeps_newest.

Theorem C14_purge_count : forall keep names latest,
  (length (purge_removed keep names latest) + Nat.min keep (length (glob_dash names)) <= length (glob_dash names))%nat.
Proof. exact purge_removed_count. Qed.
Print Assumptions C14_purge_count.

(* never an entry with index >= latestSnapIndex. Hypothesis [index_monotone]: in the listing, the
   (term, index) order agrees with the index order — an invariant of raft snapshots (a later term
   never snapshots at a smaller index), NOT checked by purgeOldCheckpoint itself (see C14_purge_unsafe_without_monotone) *)
Theorem C14_purge_safe : forall keep names latest v,
  index_monotone (glob_dash names) ->
  In v (purge_removed keep names latest) -> index_of_name v < latest.
Proof. exact purge_index_safe. Qed.
Print Assumptions C14_purge_safe.

(* what is left in the directory *)
Theorem C14_purge_left : forall keep names latest n,
  In n (purge_left keep names latest) <-> In n names /\ ~ In n (purge_removed keep names latest).
Proof. exact purge_left_spec. Qed.
Print Assumptions C14_purge_left.

(* a checkpoint is only discarded when a strictly newer one stays behind (keepNum >= 1, as every caller passes) *)
Theorem C14_purge_newer_stays : forall keep names latest v,
  NoDup names -> (1 <= keep)%nat -> In v (purge_removed keep names latest) ->
  exists w, In w (glob_dash names) /\ ~ In w (purge_removed keep names latest) /\ key_le v w /\ w <> v.
Proof. exact purge_newer_stays. Qed.
Print Assumptions C14_purge_newer_stays.

(* the index clause is false of purgeOldCheckpoint for listings that are not index_monotone
   (term 1 at index 100, term 2 at index 5, keepNum 1, latest 50: the index-100 checkpoint goes).
   Replayed on the Go code by corpus/C14/purge-nonmonotone.tsv (model = implementation); not a defect
   as long as raft produces the names. *)
Theorem C14_purge_unsafe_without_monotone_refuted :
  exists keep names latest v, NoDup names /\ In v (purge_removed keep names latest) /\ latest <= index_of_name v.
Proof. exact purge_unsafe_without_monotone. Qed.
Print Assumptions C14_purge_unsafe_without_monotone_refuted.

(* ---------- (4) GetLatestCheckpoint ---------- *)
Theorem C14_latest_checkpoint : forall names skip m c,
  latest_checkpoint names skip m = LSome c ->
  In c (glob_dash names) /\ m c = true /\
  (skip = 0%nat -> forall d, In d (glob_dash names) -> m d = true -> key_le d c).
Proof. exact latest_checkpoint_spec. Qed.
Print Assumptions C14_latest_checkpoint.

(* ---------- (5) restoreFromPath: the file plan, for ALL data and checkpoint directories ---------- *)

(* Hypotheses: names in a directory are unique, inode numbers below fs_next, the checkpoint's non-LOG
   entries are regular files, a directory entry names an existing inode. Then the restore succeeds,
   the data directory reads as the checkpoint on every non-LOG name (nothing written after the
   checkpoint is visible, nothing of it is missing), sst files are hard links of the checkpoint's
   files, other files fresh copies, LOG files are left alone, and no inode that existed before is
   modified — in particular the checkpoint directory reads exactly as before. *)
Theorem C14_restore_plan_correct : forall fs cur ck,
  NoDup (dnames cur) -> NoDup (dnames ck) -> store_ok fs ->
  (forall n j, In (n, j) ck -> is_log n = false -> is_regular fs j = true) ->
  (forall n j, In (n, j) ck -> exists m, inode_meta (fs_inodes fs) j = Some m) ->
  exists fs' cur',
    restore_plan fs cur ck = (fs', cur', true) /\
    (forall n, is_log n = false -> file_at fs' cur' n = file_at fs ck n) /\
    (forall n j, In (n, j) ck -> is_log n = false -> is_sst n = true -> dir_lookup cur' n = Some j) /\
    (forall n j, In (n, j) ck -> is_log n = false -> is_sst n = false ->
       exists i', dir_lookup cur' n = Some i' /\ fs_next fs <= i') /\
    (forall n, is_log n = true -> dir_lookup cur' n = dir_lookup cur n) /\
    extends fs fs' /\ (forall n, file_at fs' ck n = file_at fs ck n).
Proof. exact restore_plan_correct. Qed.
Print Assumptions C14_restore_plan_correct.

(* with no hypothesis on the directories at all (also when the restore fails half way): nothing
   that existed is modified *)
Theorem C14_restore_never_damages : forall fs cur ck fs' cur' ok,
  store_ok fs -> restore_plan fs cur ck = (fs', cur', ok) ->
  extends fs fs' /\ forall n, (exists m, file_at fs ck n = Some m) -> file_at fs' ck n = file_at fs ck n.
Proof. exact restore_never_damages. Qed.
Print Assumptions C14_restore_never_damages.

(* later engine activity does not change a checkpoint. Named hypotheses about the engine (an
   arbitrary function on the live directory): sst_immutable — a file the engine sees only under
   *.sst names is never rewritten; no_relink — nor given another kind of name. *)
Theorem C14_checkpoint_survives_engine :
  forall (engine_step : fsys -> list dirent -> fsys * list dirent),
  (forall fs d i m, inode_meta (fs_inodes fs) i = Some m -> only_sst_names d i ->
                    inode_meta (fs_inodes (fst (engine_step fs d))) i = Some m) ->
  (forall fs d i m, inode_meta (fs_inodes fs) i = Some m -> only_sst_names d i ->
                    only_sst_names (snd (engine_step fs d)) i) ->
  forall ck k fs d,
  (forall n j, In (n, j) ck -> (exists m, inode_meta (fs_inodes fs) j = Some m) /\ only_sst_names d j) ->
  forall n, file_at (fst (engine_run engine_step k fs d)) ck n = file_at fs ck n.
Proof. exact checkpoint_survives_engine. Qed.
Print Assumptions C14_checkpoint_survives_engine.

(* file level end to end (PARTIAL with respect to the property: what a file set decodes to, and
   that Backup's checkpoint decodes to the content of its instant, are the engine's business and are
   tied by the correspondence check only): restore, any engine activity, restore again — the engine
   reads what the checkpoint holds, and the checkpoint still reads the same. *)
Theorem C14_restore_write_restore_partial :
  forall (V : Type) (decode : (bytes -> option fmeta) -> V),
  (forall f g, (forall n, f n = g n) -> decode f = decode g) ->
  forall (engine_step : fsys -> list dirent -> fsys * list dirent),
  (forall fs d i m, inode_meta (fs_inodes fs) i = Some m -> only_sst_names d i ->
                    inode_meta (fs_inodes (fst (engine_step fs d))) i = Some m) ->
  (forall fs d i m, inode_meta (fs_inodes fs) i = Some m -> only_sst_names d i ->
                    only_sst_names (snd (engine_step fs d)) i) ->
  (forall fs d, store_ok fs -> NoDup (dnames d) ->
                store_ok (fst (engine_step fs d)) /\ NoDup (dnames (snd (engine_step fs d)))) ->
  forall fs cur ck k,
  NoDup (dnames cur) -> store_ok fs -> ck_ok fs ck ->
  (forall n i n', In (n, i) cur -> is_log n = true -> ~ In (n', i) ck) ->
  exists fs1 d1 fs3 d3,
    restore_plan fs cur ck = (fs1, d1, true) /\
    let '(fs2, d2) := engine_run engine_step k fs1 d1 in
    restore_plan fs2 d2 ck = (fs3, d3, true) /\
    content V decode fs1 d1 = content V decode fs ck /\ content V decode fs2 ck = content V decode fs ck /\
    content V decode fs3 d3 = content V decode fs ck /\ content V decode fs3 ck = content V decode fs ck.
Proof. exact restore_write_restore. Qed.
Print Assumptions C14_restore_write_restore_partial.

(* fetching a checkpoint from a peer on the same host (reuse of the previous checkpoint's sst files
   by hard link, then common.RunFileSync): nothing that existed is modified, whatever was reused *)
Theorem C14_fetch_local_never_damages : forall fs old_ck src,
  store_ok fs -> NoDup (map fst src) ->
  extends fs (fst (fetch_local fs old_ck src)) /\
  forall n, (exists m, file_at fs old_ck n = Some m) -> file_at (fst (fetch_local fs old_ck src)) old_ck n = file_at fs old_ck n.
Proof. exact fetch_local_never_damages. Qed.
Print Assumptions C14_fetch_local_never_damages.

(* the copy as it was before /repo 3dfe70c (cp onto the reused hard links): an sst number reused by
   the source with other content rewrites the inode the older checkpoint names. Witness replayed on
   the Go code by corpus/C14/fetch-sst-number-reuse.tsv (fixed). *)
Theorem C14_fetch_local_inplace_refuted :
  exists fs old_ck src n,
    store_ok fs /\ NoDup (map fst src) /\
    file_at (fst (fetch_local_inplace fs old_ck src)) old_ck n <> file_at fs old_ck n.
Proof. exact fetch_local_inplace_refuted. Qed.
Print Assumptions C14_fetch_local_inplace_refuted.

(* ---------- (5b) the order of steps inside one backup ---------- *)

(* the engine captures the checkpoint's view, then releases the apply loop (which only then applies
   further entries): for EVERY schedule of writes around these two events the checkpoint holds
   exactly the content of the Backup call — no write applied after the release is in it *)
Theorem C14_capture_before_release : forall l h0 s',
  engine_events l = [BCapture; BRelease] ->
  bsched_run (bstart h0) l = Some s' ->
  b_view s' = Some h0.
Proof. exact capture_before_release_safe. Qed.
Print Assumptions C14_capture_before_release.

(* the value-level step OBackup used by the theorems of (6) is this protocol with the safe order *)
Theorem C14_backup_is_capture_release : forall s t i l st',
  vs_pending s = None ->
  engine_events l = [BCapture; BRelease] ->
  bsched_run (bstart (vs_val s)) l = Some st' ->
  let s2 := run (fst (vstep s (OBackup t i (vs_val s)))) (writes_of l) in
  b_view st' = Some (vs_val s) /\
  vs_pending s2 = Some (enc_name t i, vs_val s) /\ vs_val s2 = b_val st'.
Proof. exact backup_protocol_refines. Qed.
Print Assumptions C14_backup_is_capture_release.

(* the opposite order (a notification sent before the engine call, a timer firing before the view is
   fixed) lets a later write into the checkpoint. This was the pebble engine before /repo ed153ff
   (corpus/C14/k1-pebble-checkpoint-timer.tsv); the rocksdb engine keeps a 20 ms timer and is on the
   safe side only while RocksDB fixes its file list and WAL length within those 20 ms. *)
Theorem C14_release_before_capture_refuted :
  exists l h0 s', engine_events l = [BRelease; BCapture] /\
    bsched_run (bstart h0) l = Some s' /\ b_view s' <> Some h0.
Proof. exact release_before_capture_refuted. Qed.
Print Assumptions C14_release_before_capture_refuted.

(* ---------- (5c) crashes inside a backup, a snapshot transfer, a restore ---------- *)

(* every prefix of the steps of backupLoop / of the transfer of PrepareSnapshot (= the process killed
   at any moment) leaves the checkpoint directory either refused by isBackupOKInPath or complete:
   whatever the engine makes of a half written directory (opens_partial), a backup that is accepted
   restores to the content of a complete checkpoint, never to garbage *)
Theorem C14_crashed_backup_never_restores_garbage : forall opens_partial garbage v k s,
  slot_safe s ->
  let s' := wrun s (firstn k (backup_steps v)) in
  backup_ok opens_partial s' = true -> exists w, cs_dir s' = DComplete w /\ restored_content garbage s' = w.
Proof. exact crashed_backup_never_restores_garbage. Qed.
Print Assumptions C14_crashed_backup_never_restores_garbage.

Theorem C14_crashed_fetch_never_restores_garbage : forall opens_partial garbage v k s,
  slot_safe s ->
  let s' := wrun s (firstn k (fetch_steps v)) in
  backup_ok opens_partial s' = true -> exists w, cs_dir s' = DComplete w /\ restored_content garbage s' = w.
Proof. exact crashed_fetch_never_restores_garbage. Qed.
Print Assumptions C14_crashed_fetch_never_restores_garbage.

(* an aborted fetch fails loudly (refused) and the next fetch, from whatever was left, succeeds *)
Theorem C14_crashed_fetch_is_refused : forall opens_partial v k s,
  (1 <= k <= 3)%nat -> backup_ok opens_partial (wrun s (firstn k (fetch_steps v))) = false.
Proof. exact crashed_fetch_is_refused. Qed.
Print Assumptions C14_crashed_fetch_is_refused.

Theorem C14_fetch_retry_completes : forall opens_partial v s,
  let s' := wrun s (fetch_steps v) in
  cs_dir s' = DComplete v /\ cs_marked s' = false /\ backup_ok opens_partial s' = true.
Proof. exact fetch_retry_completes. Qed.
Print Assumptions C14_fetch_retry_completes.

Theorem C14_backup_retry_completes : forall opens_partial v s,
  let s' := wrun s (backup_steps v) in
  cs_dir s' = DComplete v /\ cs_marked s' = false /\ backup_ok opens_partial s' = true.
Proof. exact backup_retry_completes. Qed.
Print Assumptions C14_backup_retry_completes.

(* a transfer whose copy command fails midway while the process lives on: the marker stays, the
   directory is refused, the next PrepareSnapshot transfers again; for any sequence of failed and
   crashed attempts an accepted backup is a complete one *)
Theorem C14_failed_fetch_keeps_marker : forall opens_partial v s,
  let s' := fetch_run v FFailed s in
  cs_marked s' = true /\ backup_ok opens_partial s' = false.
Proof. exact failed_fetch_keeps_marker. Qed.
Print Assumptions C14_failed_fetch_keeps_marker.

Theorem C14_failed_then_ok_fetches_again : forall op v,
  let s1 := prepare op v FFailed {| cs_dir := DAbsent; cs_marked := false |} in
  let s2 := prepare op v FOk s1 in
  backup_ok op s1 = false /\ cs_dir s2 = DComplete v /\ backup_ok op s2 = true.
Proof. exact failed_then_ok_fetches_again. Qed.
Print Assumptions C14_failed_then_ok_fetches_again.

Theorem C14_repeated_prepare_never_restores_garbage : forall op garbage v (attempts : list fetch_outcome) s,
  slot_safe s ->
  let s' := fold_left (fun st o => prepare op v o st) attempts s in
  backup_ok op s' = true -> exists w, cs_dir s' = DComplete w /\ restored_content garbage s' = w.
Proof. exact repeated_prepare_never_restores_garbage. Qed.
Print Assumptions C14_repeated_prepare_never_restores_garbage.

(* clearing the marker when the transfer is over whether or not it succeeded (seeded/C14-b2): the
   half directory passes for a backup, the retry fetches nothing, Restore brings back garbage *)
Theorem C14_unmark_on_failure_refuted :
  exists v garbage,
    let s1 := fetch_run_unmark_always v FFailed {| cs_dir := DAbsent; cs_marked := false |} in
    let s2 := prepare true v FOk s1 in
    backup_ok true s1 = true /\ s2 = s1 /\ restored_content garbage s2 <> v.
Proof. exact unmark_on_failure_refuted. Qed.
Print Assumptions C14_unmark_on_failure_refuted.

(* the code before /repo b3a9b47 (no marker): a half written directory the engine happens to open is
   accepted and restored. Replayed on the Go code by the CB / CF crash cases (pebble and mem backups,
   fetches on all engines restored other content). *)
Theorem C14_unmarked_backup_refuted :
  exists v k garbage, let s' := wrun {| cs_dir := DAbsent; cs_marked := false |} (firstn k (backup_steps_unmarked v)) in
    backup_ok true s' = true /\ restored_content garbage s' <> v.
Proof. exact unmarked_backup_refuted. Qed.
Print Assumptions C14_unmarked_backup_refuted.

Theorem C14_unmarked_fetch_refuted :
  exists v k garbage, let s' := wrun {| cs_dir := DAbsent; cs_marked := false |} (firstn k (fetch_steps_unmarked v)) in
    backup_ok true s' = true /\ restored_content garbage s' <> v.
Proof. exact unmarked_fetch_refuted. Qed.
Print Assumptions C14_unmarked_fetch_refuted.

(* a restore killed at any moment: the reopened db holds all of the old content or all of the
   checkpoint's (OpenRockDB finishes the interrupted restore) — and without the marker (before
   /repo d2f1422) a mixture, which the engine refused to open *)
Theorem C14_restore_crash_all_or_nothing : forall f k,
  let d := open_after_crash (rrun {| rs_data := DOld; rs_marked := None |} (firstn k (restore_steps f))) in
  d = DOld \/ d = DNew f.
Proof. exact restore_crash_all_or_nothing. Qed.
Print Assumptions C14_restore_crash_all_or_nothing.

Theorem C14_restore_crash_unmarked_refuted : forall f,
  exists k, open_after_crash (rrun {| rs_data := DOld; rs_marked := None |} (firstn k (restore_steps_unmarked f))) = DMixed.
Proof. exact restore_crash_unmarked_refuted. Qed.
Print Assumptions C14_restore_crash_unmarked_refuted.

(* the marker records WHICH backup directory is being restored; finishing from the store's local
   backup directory instead (seeded/C14-c1) ends a crashed RestoreFromRemoteBackup with the local
   checkpoint of the same name. Replayed on the Go code by the CRR crash cases. *)
Theorem C14_restore_resume_from_local_dir_refuted :
  exists k, let d := open_after_crash_local (rrun {| rs_data := DOld; rs_marked := None |} (firstn k (restore_steps FromRemote))) in
    d <> DOld /\ d <> DNew FromRemote.
Proof. exact restore_resume_from_local_dir_refuted. Qed.
Print Assumptions C14_restore_resume_from_local_dir_refuted.

(* finishing an interrupted restore = running the file plan again, on the checkpoint directory ck the
   marker records, on whatever is there: after k1
   entries examined by the removal loop and (then) k2 checkpoint entries copied, the plan still
   succeeds and ends with the checkpoint's content; the checkpoint is unharmed *)
Theorem C14_restore_resumes_from_any_crash : forall fs cur ck k1 k2,
  NoDup (dnames cur) -> NoDup (dnames ck) -> store_ok fs ->
  (forall n j, In (n, j) ck -> is_log n = false -> is_regular fs j = true) ->
  (forall n j, In (n, j) ck -> exists m, inode_meta (fs_inodes fs) j = Some m) ->
  let '(fs1, d1) := crash_state fs cur ck k1 k2 in
  exists fs' cur',
    restore_plan fs1 d1 ck = (fs', cur', true) /\
    (forall n, is_log n = false -> file_at fs' cur' n = file_at fs ck n) /\
    (forall n, file_at fs' ck n = file_at fs ck n).
Proof. exact restore_resumes_from_any_crash. Qed.
Print Assumptions C14_restore_resumes_from_any_crash.

(* ---------- (5d) fetching a snapshot: the source, the reuse of an older checkpoint ---------- *)

(* node.GetValidBackupInfo: the source chosen is a peer other than the asker that answered it holds
   the backup of exactly the requested (term,index) — the request carries that snapshot, the harness
   stub rejects any other — and it is not this node's own directory *)
Theorem C14_chosen_source_valid : forall local_id h myroot rl ns peers retry src,
  choose_source retry (valid_sources local_id h myroot rl ns peers) = Some src ->
  exists p, In p peers /\ src = source_of h rl ns p /\
            p_replica p <> local_id /\ p_has p = true /\ ~ (p_addr p = h /\ p_root p = myroot).
Proof. exact chosen_source_valid. Qed.
Print Assumptions C14_chosen_source_valid.

Theorem C14_source_found_when_available : forall local_id h myroot rl ns peers retry p,
  In p peers -> eligible local_id h myroot p = true ->
  exists src, choose_source retry (valid_sources local_id h myroot rl ns peers) = Some src.
Proof. exact source_found_when_available. Qed.
Print Assumptions C14_source_found_when_available.

Theorem C14_no_source_when_none : forall local_id h myroot rl ns peers retry,
  (forall p, In p peers -> eligible local_id h myroot p = false) ->
  choose_source retry (valid_sources local_id h myroot rl ns peers) = None.
Proof. exact no_source_when_none. Qed.
Print Assumptions C14_no_source_when_none.

Theorem C14_retries_reach_every_source : forall local_id h myroot rl ns peers src,
  In src (valid_sources local_id h myroot rl ns peers) ->
  exists retry, (retry < length (valid_sources local_id h myroot rl ns peers))%nat /\
                choose_source retry (valid_sources local_id h myroot rl ns peers) = Some src.
Proof. exact retries_reach_every_source. Qed.
Print Assumptions C14_retries_reach_every_source.

(* node.handleReuseOldCheckpoint: only the directory about to be transferred is ever changed — every
   other checkpoint keeps its files and inodes (the plan has no access to file contents at all); the
   checkpoint reused was fetched from the same source; each of its sst files is hard-linked in *)
Theorem C14_reuse_only_touches_new : forall b src newn skip r b' m,
  reuse_plan b src newn skip = UDone r b' -> m <> newn -> bd_lookup b' m = bd_lookup b m.
Proof. exact reuse_only_touches_new. Qed.
Print Assumptions C14_reuse_only_touches_new.

Theorem C14_reuse_source_matches : forall b src newn skip ln b',
  reuse_plan b src newn skip = UDone (Some ln) b' ->
  ln <> newn /\ In ln (glob_dash (map fst b)) /\ info_matches b src ln = true.
Proof. exact reuse_source_matches. Qed.
Print Assumptions C14_reuse_source_matches.

Theorem C14_reuse_links_all_sst : forall b src newn skip ln b' lc n j,
  reuse_plan b src newn skip = UDone (Some ln) b' ->
  bd_lookup b ln = Some lc -> NoDup (dnames (cd_files lc)) ->
  In (n, j) (cd_files lc) -> is_sst n = true ->
  exists nc, bd_lookup b' newn = Some nc /\ dir_lookup (cd_files nc) n = Some j.
Proof. exact reuse_links_all_sst. Qed.
Print Assumptions C14_reuse_links_all_sst.

(* ---------- (5e) the HyperLogLog write cache around Backup and Restore ---------- *)

(* Backup flushes the cache and then starts the checkpoint: the checkpoint holds the whole logical
   content (engine + cache) of the backup instant *)
Theorem C14_backup_flush_first_complete : forall s, backup_flush_then_capture s = h_logical s.
Proof. exact backup_flush_first_complete. Qed.
Print Assumptions C14_backup_flush_first_complete.

(* handing the request to backupLoop first and flushing afterwards (seeded/C14-d2): what was only in
   the cache is missing from the checkpoint. Replayed on the Go code by the HR cases. *)
Theorem C14_backup_capture_first_refuted : exists s, backup_capture_then_flush s <> h_logical s.
Proof. exact backup_capture_first_refuted. Qed.
Print Assumptions C14_backup_capture_first_refuted.

(* restoreFromPath lists the data directory after closeEng (whose cache flush may create files):
   that is restore_plan on what is really there, to which C14_restore_plan_correct applies *)
Theorem C14_restore_listed_when_closed : forall fs cur ck, restore_plan_listed fs cur cur ck = restore_plan fs cur ck.
Proof. exact restore_listed_when_closed. Qed.
Print Assumptions C14_restore_listed_when_closed.

(* listing it before closeEng (seeded/C14-d1): a WAL file created by the close-time flush survives the
   restore and is replayed. Replayed on the Go code by the HR cases with a 16 KB write buffer. *)
Theorem C14_restore_stale_listing_refuted :
  exists fs listed actual ck n,
    is_log n = false /\ file_at fs ck n = None /\
    let '(fs', cur', _) := restore_plan_listed fs listed actual ck in file_at fs' cur' n <> None.
Proof. exact restore_stale_listing_refuted. Qed.
Print Assumptions C14_restore_stale_listing_refuted.

(* ---------- (6) value level, for ALL histories ---------- *)

(* Backup(t,i) when the content is h; any operations while the copy runs; the copy completes; any
   later history (writes, other backups, restores, purges, ...) that does not start another backup
   named (t,i): a successful Restore(t,i) yields exactly h. *)
Theorem C14_backup_restore : forall s0 t i h during dg hf later s3,
  wf s0 -> vs_pending s0 = None ->
  Forall not_finish during ->
  Forall (not_backup_of (enc_name t i)) later ->
  let s1 := fst (vstep s0 (OBackup t i h)) in
  let s2 := fst (vstep (run s1 during) (OFinish dg hf)) in
  vstep (run s2 later) (ORestore t i) = (s3, ROk) ->
  vs_val s3 = h.
Proof. exact backup_restore. Qed.
Print Assumptions C14_backup_restore.

Theorem C14_restore_outcomes : forall s t i s' r,
  vstep s (ORestore t i) = (s', r) ->
  (r = ROk /\ exists c, ck_lookup (vs_cks s) (enc_name t i) = Some c /\ vs_val s' = ck_val c) \/
  (r = RNoBackup /\ s' = s /\ ck_lookup (vs_cks s) (enc_name t i) = None).
Proof. exact restore_outcomes. Qed.
Print Assumptions C14_restore_outcomes.

(* restoring never damages the checkpoint: while it exists it restores again to the same content and
   has the same on-disk digest *)
Theorem C14_restore_again : forall s t i s1 later s2 c,
  wf s -> vs_pending s = None ->
  vstep s (ORestore t i) = (s1, ROk) ->
  Forall (not_backup_of (enc_name t i)) later ->
  ck_lookup (vs_cks (run s1 later)) (enc_name t i) = Some c ->
  vstep (run s1 later) (ORestore t i) = (s2, ROk) ->
  ck_lookup (vs_cks s) (enc_name t i) = Some c /\ vs_val s2 = vs_val s1.
Proof. exact restore_again. Qed.
Print Assumptions C14_restore_again.

(* on another store that fetched the checkpoint directory *)
Theorem C14_copy_restore : forall a b t i b' c later b2,
  wf b -> pending_not (enc_name t i) b ->
  ck_lookup (vs_cks a) (enc_name t i) = Some c ->
  vcopy a b t i = (b', ROk) ->
  Forall (not_backup_of (enc_name t i)) later ->
  vstep (run b' later) (ORestore t i) = (b2, ROk) ->
  vs_val b2 = ck_val c.
Proof. exact copy_restore. Qed.
Print Assumptions C14_copy_restore.

(* a snapshot transferred into rocksdb_backup/remote from source src (ProposeOp_TransferRemoteSnap, with
   the "already transferred from the same source" shortcut) and applied by RestoreFromRemoteBackup
   after any history: the content restored is that of a checkpoint from THAT source *)
Theorem C14_transfer_apply_same_source : forall a b src t i b' later b2,
  wf b -> src <> 0 ->
  vtransfer a b src t i = (b', ROk) ->
  vstep (run b' later) (ORestoreRemote t i) = (b2, ROk) ->
  exists c, vs_val b2 = ck_val c /\ ck_src c = src /\
    ((ck_lookup (vs_remote b) (enc_name t i) = Some c) \/
     (exists ca, ck_lookup (vs_cks a) (enc_name t i) = Some ca /\ ck_val c = ck_val ca /\ ck_dg c = ck_dg ca)).
Proof. exact transfer_apply_same_source. Qed.
Print Assumptions C14_transfer_apply_same_source.

(* the shortcut keyed by (term,index) only (seeded/C14-c3): the other source's content is restored.
   Replayed on the Go code by the RS cases (two sources, equal (term,index), different content). *)
Theorem C14_transfer_any_source_refuted :
  exists a b src t i b' b2,
    wf b /\ src <> 0 /\ ck_lookup (vs_cks a) (enc_name t i) <> None /\
    vtransfer_any_source a b src t i = (b', ROk) /\
    vstep b' (ORestoreRemote t i) = (b2, ROk) /\
    (forall ca, ck_lookup (vs_cks a) (enc_name t i) = Some ca -> vs_val b2 <> ck_val ca).
Proof. exact transfer_any_source_refuted. Qed.
Print Assumptions C14_transfer_any_source_refuted.

(* the production path of a lagging replica: PrepareSnapshot (use the local checkpoint or fetch the
   peer's), later RestoreFromSnapshot *)
Theorem C14_fetch_restore : forall a b t i b' later b2,
  wf b -> pending_not (enc_name t i) b ->
  vfetch a b t i = (b', ROk) ->
  Forall (not_backup_of (enc_name t i)) later ->
  vstep (run b' later) (ORestore t i) = (b2, ROk) ->
  exists c, vs_val b2 = ck_val c /\
    (ck_lookup (vs_cks b) (enc_name t i) = Some c \/
     (ck_lookup (vs_cks b) (enc_name t i) = None /\ ck_lookup (vs_cks a) (enc_name t i) = Some c)).
Proof. exact fetch_restore. Qed.
Print Assumptions C14_fetch_restore.

(* what the store's own purge (after a backup, after a restore) discards was selected by
   purgeOldCheckpoint with keepNum >= 1: theorems (3) apply *)
Theorem C14_store_purge : forall s n c,
  ck_lookup (vs_cks s) n = Some c -> wf s -> ck_lookup (vs_cks (vpurge s)) n = None ->
  In n (purge_removed (keep_num s) (names_of (vs_cks s)) (vs_latest s)) /\ (1 <= keep_num s)%nat.
Proof. intros s n c H1 H2 H3. split; [exact (vpurge_discards s n c H1 H2 H3)|exact (keep_num_pos s)]. Qed.
Print Assumptions C14_store_purge.

(* ---------- what "full" would mean, and what is missing ---------- *)

(* the obligations on a storage engine that the file-level chain needs (hypotheses of
   C14_restore_write_restore_partial), bundled *)
Definition C14_engine_obligations (V : Type) (decode : (bytes -> option fmeta) -> V)
    (engine_step : fsys -> list dirent -> fsys * list dirent) : Prop :=
  (forall f g, (forall n, f n = g n) -> decode f = decode g) /\
  (forall fs d i m, inode_meta (fs_inodes fs) i = Some m -> only_sst_names d i ->
                    inode_meta (fs_inodes (fst (engine_step fs d))) i = Some m) /\
  (forall fs d i m, inode_meta (fs_inodes fs) i = Some m -> only_sst_names d i ->
                    only_sst_names (snd (engine_step fs d)) i) /\
  (forall fs d, store_ok fs -> NoDup (dnames d) ->
                store_ok (fst (engine_step fs d)) /\ NoDup (dnames (snd (engine_step fs d)))).

(* C14 in full for one engine: the engine meets the obligations above, a checkpoint directory it
   writes decodes to the content of the Backup call and it fixes that view before releasing the
   apply loop (engine_events = [BCapture; BRelease]); then every restore yields that content.
   The implication from the obligations is C14_restore_write_restore_partial + C14_capture_before_release
   + C14_backup_restore. That pebble, rocksdb and the mem engine meet the obligations is NOT proved:
   it is checked on every run by the correspondence (T, I, E, K cases) and the direct oracle, and for
   rocksdb's capture-before-release it rests on a 20 ms timer (open known finding). *)
Definition C14_full_for_engine (V : Type) (decode : (bytes -> option fmeta) -> V)
    (engine_step : fsys -> list dirent -> fsys * list dirent) : Prop :=
  C14_engine_obligations V decode engine_step ->
  forall fs cur ck k,
  NoDup (dnames cur) -> store_ok fs -> ck_ok fs ck ->
  (forall n i n', In (n, i) cur -> is_log n = true -> ~ In (n', i) ck) ->
  exists fs1 d1 fs3 d3,
    restore_plan fs cur ck = (fs1, d1, true) /\
    let '(fs2, d2) := engine_run engine_step k fs1 d1 in
    restore_plan fs2 d2 ck = (fs3, d3, true) /\
    content V decode fs1 d1 = content V decode fs ck /\ content V decode fs2 ck = content V decode fs ck /\
    content V decode fs3 d3 = content V decode fs ck /\ content V decode fs3 ck = content V decode fs ck.

Theorem C14_full_for_engine_partial : forall V decode engine_step, C14_full_for_engine V decode engine_step.
Proof.
  intros V decode engine_step [H1 [H2 [H3 H4]]] fs cur ck k.
  exact (restore_write_restore V decode H1 engine_step H2 H3 H4 fs cur ck k).
Qed.
Print Assumptions C14_full_for_engine_partial.

(* ---------- non-vacuity ---------- *)
Example C14_ex_name : enc_name 7 100 =
  [48;48;48;48;48;48;48;48;48;48;48;48;48;48;48;55;45;48;48;48;48;48;48;48;48;48;48;48;48;48;48;54;52].
Proof. vm_compute. reflexivity. Qed.
(* three checkpoints, keepNum 1, latest snapshot index 6: the two oldest go, the newest stays *)
Example C14_ex_purge :
  purge_removed 1 [enc_name 1 3; enc_name 1 5; enc_name 2 9] 10 = [enc_name 1 3; enc_name 1 5] /\
  purge_removed 1 [enc_name 1 3; enc_name 1 5; enc_name 2 9] 6 = [enc_name 1 3] /\
  purge_left 1 [enc_name 1 3; enc_name 1 5; enc_name 2 9] 6 = [enc_name 1 5; enc_name 2 9].
Proof. vm_compute. repeat split; reflexivity. Qed.

(* a history: backup at content 11, write 22 while copying, finish, write 33, restore -> 11; restore again -> 11 *)
Example C14_ex_history :
  let s := run (vinit 0 5) [OWrite 11; OBackup 1 7 11; OWrite 22; OFinish 99 22; OWrite 33] in
  vs_val s = 33 /\ vs_val (fst (vstep s (ORestore 1 7))) = 11 /\
  vs_val (run s [ORestore 1 7; OWrite 44; ORestore 1 7]) = 11 /\ wf s.
Proof. vm_compute. repeat split; try reflexivity; repeat constructor; intuition. Qed.
(* a file plan: data dir {000001.sst (same as ck), 000002.sst (stale), LOG, MANIFEST-1}, checkpoint {000001.sst, MANIFEST-2, LOG} *)
Example C14_ex_plan :
  let f s t := {| fm_kind := KFile; fm_size := s; fm_head := 0; fm_tail := t |} in
  let sst1 := [48;48;48;48;48;49;46;115;115;116] in let sst2 := [48;48;48;48;48;50;46;115;115;116] in
  let fs := {| fs_inodes := [(1, f 10 1); (2, f 20 2); (3, f 5 3); (4, f 7 4); (5, f 8 5); (6, f 9 6)]; fs_next := 10 |} in
  let cur := [(sst1, 1); (sst2, 2); ([76;79;71], 3); ([77;49], 4)] in
  let ck := [(sst1, 1); ([76;79;71], 5); ([77;50], 6)] in
  restore_plan fs cur ck =
    ({| fs_inodes := (10, f 9 6) :: fs_inodes fs; fs_next := 11 |}, [(sst1, 1); ([76;79;71], 3); ([77;50], 10)], true).
Proof. vm_compute. reflexivity. Qed.
