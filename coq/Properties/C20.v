(* Properties/C20.v — C20: all storage engines implement the same key-value contract. *)
From ZV Require Import Common.Bytes Eng.Consts Eng.Model Eng.Proofs.
Open Scope N_scope.

Theorem C20_clear_no_effect : forall d, committed (db_clear d) = committed d.
Proof. exact db_clear_committed. Qed.
Print Assumptions C20_clear_no_effect.
