(* Properties/C20.v — C20: all storage engines implement the same key-value contract.
   Only the property theorems (closed by [exact]) and non-vacuity examples.
   The engines' own cursors (rocksdb, pebble, radix / btree / skiplist) are tied to the ideal cursor of
   Eng/Cursor.v by the correspondence check only; everything above the cursor is proved here. *)
From ZV Require Import Common.Bytes Eng.Consts Eng.Model Eng.IndexKey Eng.Proofs.
Open Scope Z_scope.

(* ===== (1) the shared range/limit iterator (engine/iterator.go) ===== *)
(* for every sorted store, every option combination (min/max nil or set, any range type, direction, any
   offset and count incl. negative ones) and both kinds of engine cursor (clamped to the bounds or not):
   walking the wrapper yields exactly the declarative answer; it never faults and never runs away *)
Theorem C20_wrapper_correct : forall (bounded : bool) (m : smap) (o : iter_opts),
  ksorted m -> db_range_limit false bounded m o = Some (range_query m o).
Proof. exact wrapper_correct. Qed.
Print Assumptions C20_wrapper_correct.

Theorem C20_range_iterator_correct : forall (bounded : bool) (m : smap) (o : iter_opts),
  ksorted m -> db_range false bounded m o = Some (range_query m (no_limit o)).
Proof. exact range_iterator_correct. Qed.
Print Assumptions C20_range_iterator_correct.

Theorem C20_wrapper_engine_independent : forall m o,
  ksorted m -> db_range_limit false true m o = db_range_limit false false m o.
Proof. exact wrapper_engine_independent. Qed.
Print Assumptions C20_wrapper_engine_independent.

(* the same wrapper, transcribed over an arbitrary engine cursor (Eng/GenIter.v), run over the cursor each
   engine kind really provides: the radix iterator (mem), the ideal cursor (mem/btree, mem/skiplist), the
   cursor clamped to the bounds (pebble), and the clamped prefix_same_as_start cursor (rocksdb). All four
   return range_query; for rocksdb under the precondition that the read is prefix local: both bounds set,
   >= 3 bytes, same 3-byte prefix — which is what the data layer guarantees for every range read (its bounds
   are a start and a stop key of one data type in one table, so they share type byte and table-name length) *)
Theorem C20_engine_range_limit_correct : forall (k : ekind) (m : smap) (o : iter_opts),
  ksorted m -> read_in_contract k o = true -> engine_range_limit false k m o = Some (range_query m o).
Proof. exact engine_range_limit_correct. Qed.
Print Assumptions C20_engine_range_limit_correct.

Theorem C20_rocksdb_prefix_cursor_correct : forall m o,
  ksorted m -> prefix_local o = true -> engine_range_limit false KPrefix m o = Some (range_query m o).
Proof. exact prefix_correct. Qed.
Print Assumptions C20_rocksdb_prefix_cursor_correct.

(* forward reads position only with Min: it suffices that every key of the range carries Min's prefix, whatever
   Max is (FULLSCAN of one table uses Min = type|table|':' and Max = type|table|';' , whose third bytes differ) *)
Theorem C20_rocksdb_forward_read_correct : forall m o mn,
  ksorted m -> o_reverse o = false -> o_min o = Some mn ->
  (forall k, in_range o k = true -> pfx k = pfx mn) ->
  engine_range_limit false KPrefix m o = Some (range_query m o).
Proof. exact prefix_forward_correct. Qed.
Print Assumptions C20_rocksdb_forward_read_correct.

(* outside that precondition rocksdb does NOT answer like a sorted map (modelled, and checked against the real
   engine on multi-prefix stores): keys "aaa1","bbb1", forward range with nil bounds stops at the prefix change *)
Theorem C20_rocksdb_cross_prefix_differs :
  exists m o, ksorted m /\ prefix_local o = false /\
    engine_range_limit false KPrefix m o <> Some (range_query m o) /\
    engine_range_limit false KBounded m o = Some (range_query m o).
Proof.
  exists [([97;97;97;49]%N, [1%N]); ([98;98;98;49]%N, [2%N])], (mkopts None None 0%N 0 (-1) false).
  split; [apply sortedb_ksorted; reflexivity|]. vm_compute. repeat split; auto. discriminate.
Qed.
Print Assumptions C20_rocksdb_cross_prefix_differs.

(* the generic wrapper at the ideal cursor is the wrapper of Eng/RangeIter.v *)
Theorem C20_generic_wrapper_at_ideal : forall legacy fuel c o,
  g_run_iter ideal_ops fuel (g_wrap ideal_ops legacy c o) = run_iter fuel (wrap legacy c o).
Proof. intros. rewrite run_ideal, wrap_ideal. reflexivity. Qed.
Print Assumptions C20_generic_wrapper_at_ideal.

(* the constructor as it was before fix f53be95 violated the statement (defect E1) ... *)
Theorem C20_wrapper_legacy_refuted :
  exists (m : smap) (o : iter_opts), ksorted m /\ db_range_limit true false m o <> Some (range_query m o).
Proof. exact wrapper_legacy_refuted. Qed.
Print Assumptions C20_wrapper_legacy_refuted.

(* ... exactly through the fallback: without it (some key <= Max exists) it was correct, and engines that
   clamp the cursor (pebble, rocksdb) masked it completely *)
Theorem C20_wrapper_legacy_correct_without_fallback : forall bounded m o,
  ksorted m ->
  no_fallback o (get_iterator bounded (o_min o) (o_max o) (o_type o) m) ->
  db_range_limit true bounded m o = Some (range_query m o).
Proof. exact wrapper_legacy_correct_without_fallback. Qed.
Print Assumptions C20_wrapper_legacy_correct_without_fallback.

Theorem C20_wrapper_legacy_correct_bounded : forall m o,
  ksorted m -> db_range_limit true true m o = Some (range_query m o).
Proof. exact wrapper_legacy_correct_bounded. Qed.
Print Assumptions C20_wrapper_legacy_correct_bounded.

(* ===== (2) the ideal cursor ===== *)
Theorem C20_seek_first_ge : forall t c,
  ksorted (c_view c) ->
  match c_cur (c_seek t c) with
  | Some x => In x (c_view c) /\ bytes_leb t (fst x) = true /\
              (forall y, In y (c_view c) -> bytes_leb t (fst y) = true -> bytes_leb (fst x) (fst y) = true)
  | None => forall y, In y (c_view c) -> bytes_leb t (fst y) = false
  end.
Proof. exact seek_first_ge. Qed.
Print Assumptions C20_seek_first_ge.

Theorem C20_seek_for_prev_last_le : forall t c,
  ksorted (c_view c) ->
  match c_cur (c_seek_for_prev t c) with
  | Some x => In x (c_view c) /\ bytes_leb (fst x) t = true /\
              (forall y, In y (c_view c) -> bytes_leb (fst y) t = true -> bytes_leb (fst y) (fst x) = true)
  | None => forall y, In y (c_view c) -> bytes_leb (fst y) t = false
  end.
Proof. exact seek_for_prev_last_le. Qed.
Print Assumptions C20_seek_for_prev_last_le.

Theorem C20_prev_next : forall c, c_valid (c_next c) = true -> c_prev (c_next c) = c.
Proof. exact prev_next. Qed.
Print Assumptions C20_prev_next.

Theorem C20_next_prev : forall c, c_valid (c_prev c) = true -> c_next (c_prev c) = c.
Proof. exact next_prev. Qed.
Print Assumptions C20_next_prev.

(* the mem engine's radix iterator (engine/radix_iter.go: one-directional result iterators, re-seek at the current
   key on every change of direction) answers every raw cursor script exactly like the ideal cursor *)
Theorem C20_radix_refines_ideal : forall m ops,
  ksorted m -> rops_run false (r_new m) ops = cops_run false (mkcur m CInv) ops.
Proof. exact radix_script_is_ideal. Qed.
Print Assumptions C20_radix_refines_ideal.

(* the exclusive upper bound pebble/rocksdb install for a right-closed range is the closed bound *)
Theorem C20_upper_bound_successor : forall k mx, bytes_ltb k (mx ++ [0%N]) = bytes_leb k mx.
Proof. exact bytes_ltb_succ. Qed.
Print Assumptions C20_upper_bound_successor.

(* rocksdb iterates with prefix_same_as_start over a 3-byte prefix: a read whose two bounds share a prefix
   never needs a key outside it, so the clamped-cursor statement above covers the per-table reads *)
Theorem C20_prefix_local_range : forall n a b k,
  firstn n a = firstn n b -> (n <= length a)%nat -> (n <= length b)%nat ->
  bytes_leb a k = true -> bytes_leb k b = true -> firstn n k = firstn n a.
Proof. exact between_shares_prefix. Qed.
Print Assumptions C20_prefix_local_range.

(* ===== (3) sorted-map laws ===== *)
Theorem C20_find_insert_same : forall k v m, sm_find k (sm_insert k v m) = Some v.
Proof. exact find_insert_same. Qed.
Print Assumptions C20_find_insert_same.

Theorem C20_find_insert_other : forall k k2 v m, k2 <> k -> sm_find k2 (sm_insert k v m) = sm_find k2 m.
Proof. exact find_insert_other. Qed.
Print Assumptions C20_find_insert_other.

Theorem C20_find_remove_same : forall k m, ksorted m -> sm_find k (sm_remove k m) = None.
Proof. exact find_remove_same. Qed.
Print Assumptions C20_find_remove_same.

Theorem C20_find_remove_other : forall k k2 m, k2 <> k -> ksorted m -> sm_find k2 (sm_remove k m) = sm_find k2 m.
Proof. exact find_remove_other. Qed.
Print Assumptions C20_find_remove_other.

Theorem C20_insert_sorted : forall k v m, ksorted m -> ksorted (sm_insert k v m).
Proof. exact insert_sorted. Qed.
Print Assumptions C20_insert_sorted.

Theorem C20_remove_sorted : forall k m, ksorted m -> ksorted (sm_remove k m).
Proof. exact remove_sorted. Qed.
Print Assumptions C20_remove_sorted.

Theorem C20_find_in : forall k v m, ksorted m -> (sm_find k m = Some v <-> In (k, v) m).
Proof. exact find_in. Qed.
Print Assumptions C20_find_in.

Theorem C20_range_is_filter : forall lo hi m k v,
  In (k, v) (sm_range lo hi m) <-> In (k, v) m /\ bytes_leb lo k = true /\ bytes_ltb k hi = true.
Proof. exact range_in. Qed.
Print Assumptions C20_range_is_filter.

Theorem C20_range_sorted : forall lo hi m, ksorted m -> ksorted (sm_range lo hi m).
Proof. exact range_sorted. Qed.
Print Assumptions C20_range_sorted.

Theorem C20_sorted_map_canonical : forall m1 m2,
  ksorted m1 -> ksorted m2 -> (forall k, sm_find k m1 = sm_find k m2) -> m1 = m2.
Proof. exact ksorted_ext. Qed.
Print Assumptions C20_sorted_map_canonical.

Theorem C20_sortedb_reflects : forall m, sortedb m = true <-> ksorted m.
Proof. exact sortedb_ksorted. Qed.
Print Assumptions C20_sortedb_reflects.

(* ===== (4) write batches ===== *)
(* nothing of an uncommitted batch is visible *)
Theorem C20_uncommitted_invisible : forall d ops k,
  db_get (db_adds d ops) k = db_get d k /\ db_exist (db_adds d ops) k = db_exist d k.
Proof. exact uncommitted_invisible. Qed.
Print Assumptions C20_uncommitted_invisible.

Theorem C20_uncommitted_invisible_store : forall ops d, committed (db_adds d ops) = committed d.
Proof. exact db_adds_committed. Qed.
Print Assumptions C20_uncommitted_invisible_store.

(* a committed batch is visible completely: the store is the fold of its operations, in order *)
Theorem C20_commit_visible : forall m ops m',
  apply_ops m ops = Some m' -> db_commit (db_adds (mkdb m []) ops) = (mkdb m' [], true).
Proof. exact commit_visible. Qed.
Print Assumptions C20_commit_visible.

Theorem C20_commit_all_or_nothing : forall d,
  (exists m', apply_ops (committed d) (pending d) = Some m' /\ db_commit d = (mkdb m' [], true)) \/
  (apply_ops (committed d) (pending d) = None /\ db_commit d = (mkdb (committed d) [], false)).
Proof. exact commit_all_or_nothing. Qed.
Print Assumptions C20_commit_all_or_nothing.

(* a cleared batch has no effect *)
Theorem C20_cleared_no_effect : forall d ops,
  pending d = [] -> db_commit (db_clear (db_adds d ops)) = (d, true).
Proof. exact cleared_no_effect. Qed.
Print Assumptions C20_cleared_no_effect.

Theorem C20_commit_sequential : forall m a b m1 m2,
  apply_ops m a = Some m1 -> apply_ops m1 b = Some m2 -> apply_ops m (a ++ b) = Some m2.
Proof. exact commit_sequential. Qed.
Print Assumptions C20_commit_sequential.

Theorem C20_batch_keeps_sorted : forall ops m m', ksorted m -> apply_ops m ops = Some m' -> ksorted m'.
Proof. exact apply_ops_sorted. Qed.
Print Assumptions C20_batch_keeps_sorted.

(* counter merge: addition modulo 2^64, associative and commutative *)
Theorem C20_add64_is_mod : forall a b, add64 a b = ((a + b) mod 2 ^ 64)%N.
Proof. exact add64_mod. Qed.
Print Assumptions C20_add64_is_mod.

Theorem C20_add64_comm : forall a b, add64 a b = add64 b a.
Proof. exact add64_comm. Qed.
Print Assumptions C20_add64_comm.

Theorem C20_add64_assoc : forall a b c, add64 (add64 a b) c = add64 a (add64 b c).
Proof. exact add64_assoc. Qed.
Print Assumptions C20_add64_assoc.

Theorem C20_counter_roundtrip : forall x, (x < 2 ^ 64)%N -> counter_of (le_encode 8 x) = Some x.
Proof. exact counter_of_encode. Qed.
Print Assumptions C20_counter_roundtrip.

Theorem C20_merge_value : forall a b, (a < 2 ^ 64)%N -> (b < 2 ^ 64)%N ->
  merge_value (Some (le_encode 8 a)) (le_encode 8 b) = Some (le_encode 8 (add64 a b)).
Proof. exact merge_value_counters. Qed.
Print Assumptions C20_merge_value.

Theorem C20_merge_merge : forall m k a b,
  (a < 2 ^ 64)%N -> (b < 2 ^ 64)%N ->
  (exists x, counter_of (match sm_find k m with Some v => v | None => [] end) = Some x) ->
  apply_ops m [BMerge k (le_encode 8 a); BMerge k (le_encode 8 b)] =
  apply_op m (BMerge k (le_encode 8 (add64 a b))).
Proof. exact merge_merge. Qed.
Print Assumptions C20_merge_merge.

Theorem C20_merge_commute_same_key : forall m k a b,
  (a < 2 ^ 64)%N -> (b < 2 ^ 64)%N ->
  (exists x, counter_of (match sm_find k m with Some v => v | None => [] end) = Some x) ->
  apply_ops m [BMerge k (le_encode 8 a); BMerge k (le_encode 8 b)] =
  apply_ops m [BMerge k (le_encode 8 b); BMerge k (le_encode 8 a)].
Proof. exact merge_commute_same_key. Qed.
Print Assumptions C20_merge_commute_same_key.

Theorem C20_merge_commute_other_key : forall m k1 k2 v1 v2,
  ksorted m -> k1 <> k2 ->
  apply_ops m [BMerge k1 v1; BMerge k2 v2] = apply_ops m [BMerge k2 v2; BMerge k1 v1].
Proof. exact merge_commute_other_key. Qed.
Print Assumptions C20_merge_commute_other_key.

(* delete-range removes exactly the keys of [start, end), and equals deleting them one by one *)
Theorem C20_delete_range_lookup : forall lo hi m k,
  ksorted m -> sm_find k (sm_remove_range lo hi m) = if in_co lo hi k then None else sm_find k m.
Proof. exact find_remove_range. Qed.
Print Assumptions C20_delete_range_lookup.

Theorem C20_delete_range_is_remove_of_range : forall lo hi m,
  ksorted m ->
  sm_remove_range lo hi m = fold_left (fun m k' => sm_remove k' m) (map fst (sm_range lo hi m)) m.
Proof. exact delete_range_is_remove_of_range. Qed.
Print Assumptions C20_delete_range_is_remove_of_range.

(* ===== (4b) the mem engine's radix index keys (engine/radixdb toIndexKey, fix c38de4c) ===== *)
(* the index keys are ordered like the raw keys, none is a prefix of another, and decoding inverts encoding:
   what the radix iterators need for every key, including keys that contain 0x00 *)
Theorem C20_index_key_order : forall a b, bytes_cmp (to_index_key a) (to_index_key b) = bytes_cmp a b.
Proof. exact index_key_order. Qed.
Print Assumptions C20_index_key_order.

Theorem C20_index_key_prefix_free : forall a b, is_prefix (to_index_key a) (to_index_key b) = true -> a = b.
Proof. exact index_key_no_proper_prefix. Qed.
Print Assumptions C20_index_key_prefix_free.

Theorem C20_index_key_roundtrip : forall k, from_index_key (to_index_key k) = k.
Proof. exact index_key_roundtrip. Qed.
Print Assumptions C20_index_key_roundtrip.

(* ===== (5) whole scripts: batches, commits, clears and reads, from the empty engine ===== *)
Theorem C20_reachable_sorted : forall k ss, ksorted (committed (run_db k db_empty ss)).
Proof. exact reachable_from_empty_sorted. Qed.
Print Assumptions C20_reachable_sorted.

(* every read of every script is answered as the sorted-map reference answers it (excepted: raw cursors with
   bounds, which are engine specific, and on rocksdb range reads that are not prefix local and raw cursors) *)
Theorem C20_script_refines_reference : forall (k : ekind) ss d,
  ksorted (committed d) -> forallb (step_portable k) ss = true ->
  run_script k d ss = ref_script d ss.
Proof. exact script_refines_reference. Qed.
Print Assumptions C20_script_refines_reference.

Theorem C20_script_engine_independent : forall (k1 k2 : ekind) ss,
  forallb (step_portable k1) ss = true -> forallb (step_portable k2) ss = true ->
  run_script k1 db_empty ss = run_script k2 db_empty ss.
Proof. exact script_engine_independent. Qed.
Print Assumptions C20_script_engine_independent.

(* ===== (6) the schedule quantifier: a reader concurrent with the committing writer ===== *)
(* commits are atomic steps of the model (the concurrent mode of the harness checks that the engines' are):
   wherever the reads fall between the writer's operations, each observes the store after exactly the commits
   that precede it, never anything of the open batch, and the number of commits seen never decreases *)
Theorem C20_reads_see_commit_prefix : forall evs d,
  observe d evs = map (state_at d evs) (commits_before_reads 0 evs).
Proof. exact reads_see_commit_prefix. Qed.
Print Assumptions C20_reads_see_commit_prefix.

Theorem C20_reads_are_monotone : forall evs i j,
  let l := commits_before_reads 0 evs in
  (i < j < length l)%nat -> (nth i l 0 <= nth j l 0)%nat.
Proof. exact reads_are_monotone. Qed.
Print Assumptions C20_reads_are_monotone.

Theorem C20_cleared_batch_never_shows : forall d ops evs j,
  pending d = [] -> state_at d (map EOp ops ++ EClear :: evs) j = state_at d evs j.
Proof. exact state_at_open_batch. Qed.
Print Assumptions C20_cleared_batch_never_shows.

(* ---------- non-vacuity ---------- *)
(* keys "a","b","c": reverse closed [a,c] with offset 1, count 1 yields "b"; the E1 witness yields nothing *)
Example C20_ex_query :
  let m := [([97%N], [1%N]); ([98%N], [2%N]); ([99%N], [3%N])] in
  ksorted m /\
  db_range_limit false false m (mkopts (Some [97%N]) (Some [99%N]) 0%N 1 1 true) = Some [([98%N], [2%N])] /\
  db_range_limit false true m (mkopts (Some [97%N]) (Some [99%N]) 0%N 0 (-1) true)
    = Some [([99%N], [3%N]); ([98%N], [2%N]); ([97%N], [1%N])].
Proof. split; [apply sortedb_ksorted; reflexivity|vm_compute; auto]. Qed.

Example C20_ex_e1 :
  db_range_limit false false e1_store e1_opts = Some [] /\
  db_range_limit true true e1_store e1_opts = Some [] /\
  db_range_limit true false e1_store e1_opts = Some [([98%N], [1%N])].
Proof. exact e1_after_fix. Qed.

(* a reader between two commits sees the first batch completely and nothing of the second *)
Example C20_ex_schedule :
  observe db_empty [EOp (BPut [97%N] [1%N]); ERead; EOp (BPut [98%N] [2%N]); ECommit; ERead;
                    EOp (BDel [97%N]); ERead; EClear; EOp (BPut [99%N] [3%N]); ECommit; ERead]
  = [[]; [([97%N], [1%N]); ([98%N], [2%N])]; [([97%N], [1%N]); ([98%N], [2%N])];
     [([97%N], [1%N]); ([98%N], [2%N]); ([99%N], [3%N])]].
Proof. vm_compute. reflexivity. Qed.

(* the old encoding (key ++ [0]) made "k" a prefix of "k\000..."; the new one does not *)
Example C20_ex_index_key :
  is_prefix ([107%N] ++ [0%N]) ([107%N; 0%N] ++ [0%N]) = true /\
  is_prefix (to_index_key [107%N]) (to_index_key [107%N; 0%N]) = false /\
  to_index_key [107%N; 0%N] = [107%N; 0%N; 255%N; 0%N; 0%N].
Proof. vm_compute. auto. Qed.

(* a script: put b, merge counter c twice (2^64-1 then 2: wraps to 1), delete-range [a,b\0), commit, read *)
Example C20_ex_script :
  run_script KRadix db_empty
    [SPut [98%N] [7%N]; SMerge [99%N] (le_encode 8 18446744073709551615); SMerge [99%N] (le_encode 8 2);
     SGet [98%N]; SDelRange [97%N] [98%N; 0%N]; SCommit; SGet [98%N]; SGet [99%N]]
  = [RNone; RNone; RNone; RVal None; RNone; RCommit true; RVal None; RVal (Some (le_encode 8 1))].
Proof. vm_compute. reflexivity. Qed.
