(* Properties/C19.v — C19: cross-cluster log replay applies each source entry exactly once.
   Only the property theorems (closed by [exact]) and non-vacuity examples; the model is Sync/Model.v,
   the proofs are in Sync/Proofs.v.

   Reading guide.  [run ops] is the receiving replica after an arbitrary schedule [ops] of deliveries (with or
   without the grpc pre-filter, with timestamp mismatches and rejected proposals), commits of in-flight
   proposals in batches, lost proposals, local writes, snapshots and restarts.  [n_log] is what the local raft
   group committed, [n_cur] the store + synced map in memory.  [deliveries c l] are the entries of l made on
   behalf of source cluster c (log entries, remote snapshot transfer / apply / skip requests);
   [Follows c src 0 ds k] says the delivery sequence ds follows the source log src: a log entry is a re-delivery
   of one of the first entries or exactly the next new one; a snapshot apply request is stale, or fails for want
   of a checkpoint, or carries the source's own state at one of its positions not behind what is covered; k
   source entries are covered in all (duplicates, stale re-sends, overlapping batches, failed and repeated
   snapshot requests are all allowed; jumping over an undelivered entry is not, nor is a "skipped" snapshot).
   [no_foreign_snap c l]: no OTHER cluster's snapshot is installed (a remote snapshot replaces the whole store).
   [Inv c src k st]: the data replicated from c is exactly the first k source payloads, each once and in
   order, and the recorded position is the k-th entry's (absent for k = 0). *)
From Coq Require Import List NArith Bool Arith Sorted.
From ZV Require Import Sync.Consts Sync.Model Sync.Proofs Sync.Sender Sync.ProofsSender Sync.Conflict Sync.ProofsConflict.
Import ListNotations.
Open Scope N_scope.

(* (1) exactly once, over all schedules: hypothesis = well-formed source log + deliveries follow it *)
Theorem C19_replay_idempotent : forall ops c src k,
  c <> 0 -> wf_source c src ->
  no_foreign_snap c (n_log (run ops)) ->
  Follows c src 0 (deliveries c (n_log (run ops))) k ->
  proj c (r_journal (n_cur (run ops))) = map s_payload (firstn k src) /\
  synced_at src k (synced_of (n_cur (run ops)) c).
Proof. exact replay_idempotent. Qed.
Print Assumptions C19_replay_idempotent.

(* the same for any committed local log, from the empty replica *)
Theorem C19_replay_idempotent_log : forall c src l k,
  wf_source c src -> no_local_tag c l -> no_foreign_snap c l -> Follows c src 0 (deliveries c l) k ->
  Inv c src k (apply_log init_r l).
Proof. exact replay_idempotent_log. Qed.
Print Assumptions C19_replay_idempotent_log.

(* (1b) at most once, for ANY delivery order (re-ordering with older entries, gaps, losses, retries): over all
        schedules whose deliveries are entries of the well-formed source log, the data replicated from c is the
        payload image of a SUB-SEQUENCE of the source log (so every source entry contributes at most once, in
        source order) and the recorded position is the position of the last applied entry *)
Theorem C19_at_most_once : forall ops c src,
  c <> 0 -> wf_source c src -> no_snap_ops ops ->
  (forall e, In e (delivered ops) -> s_cluster e = c -> In e src) ->
  exists acc, Sublist acc src /\
    proj c (r_journal (n_cur (run ops))) = map s_payload acc /\
    synced_last acc (synced_of (n_cur (run ops)) c).
Proof. exact at_most_once_sched. Qed.
Print Assumptions C19_at_most_once.

(* the same with the remote snapshot branch, read on the committed log: whatever the order of log entries and
   of failing / repeated / stale snapshot requests that carry the source's own state *)
Theorem C19_at_most_once_log : forall ops c src,
  c <> 0 -> wf_source c src -> no_foreign_snap c (n_log (run ops)) ->
  (forall le, In le (deliveries c (n_log (run ops))) -> src_delivery c src le) ->
  exists acc, Sublist acc src /\
    proj c (r_journal (n_cur (run ops))) = map s_payload acc /\
    synced_last acc (synced_of (n_cur (run ops)) c).
Proof. exact at_most_once. Qed.
Print Assumptions C19_at_most_once_log.

(* (2) when everything was delivered, the replicated data is the source cluster's own data *)
Theorem C19_replay_equals_source : forall ops c src,
  c <> 0 -> wf_source c src ->
  no_foreign_snap c (n_log (run ops)) ->
  Follows c src 0 (deliveries c (n_log (run ops))) (length src) ->
  proj c (r_journal (n_cur (run ops))) = proj c (r_journal (source_state c src)).
Proof. exact replay_equals_source. Qed.
Print Assumptions C19_replay_equals_source.

(* (3) the recorded position of every cluster never moves backwards, whatever the next step is
       (no hypothesis on the source log or on the schedule) *)
Theorem C19_synced_monotone : forall ops o c,
  ss_le (synced_of (n_cur (run ops)) c) (synced_of (n_cur (run (ops ++ [o]))) c).
Proof. exact synced_monotone. Qed.
Print Assumptions C19_synced_monotone.

Theorem C19_synced_monotone_many : forall ops ops' c,
  ss_le (synced_of (n_cur (run ops)) c) (synced_of (n_cur (run (ops ++ ops'))) c).
Proof. exact synced_monotone_many. Qed.
Print Assumptions C19_synced_monotone_many.

(* (4) snapshot + restart: restoring the newest snapshot (or nothing) and replaying the log tail through
       the same filter reproduces the state before the restart — data and every synced position *)
Theorem C19_restart_commutes : forall ops,
  n_cur (run (ops ++ [ORestart])) = n_cur (run ops) /\ n_log (run (ops ++ [ORestart])) = n_log (run ops).
Proof. exact restart_commutes. Qed.
Print Assumptions C19_restart_commutes.

Theorem C19_state_is_log_replay : forall ops, n_cur (run ops) = apply_log init_r (n_log (run ops)).
Proof. exact run_refines_log. Qed.
Print Assumptions C19_state_is_log_replay.

(* (5) the position is recorded only after the entry's effect: in every state the apply loop passes through,
       a changed synced map implies the entry's data is already applied; and under (1)'s hypotheses the
       position never runs ahead of the replicated data *)
Theorem C19_position_changes_after_data : forall st le x,
  In x (apply_phases st le) -> r_synced x <> r_synced st -> r_journal x = r_journal (apply_entry st le).
Proof. exact position_changes_after_data. Qed.
Print Assumptions C19_position_changes_after_data.

Theorem C19_position_after_effect : forall c src l le k x,
  wf_source c src -> no_local_tag c (l ++ [le]) -> no_foreign_snap c (l ++ [le]) ->
  Follows c src 0 (deliveries c (l ++ [le])) k ->
  In x (apply_phases (apply_log init_r l) le) -> covered c src x.
Proof. exact position_after_effect. Qed.
Print Assumptions C19_position_after_effect.

(* (5b) errors and retries: an application that is ignored (filtered duplicate, transfer request) or FAILS (snapshot
        apply without a usable checkpoint) leaves the store and every recorded position exactly as they were;
        the retry after a failed snapshot apply installs it, and every further repetition is filtered *)
Theorem C19_ignored_or_failed_no_advance : forall st le,
  match le with
  | LSync e | LSkip e => is_already_applied (r_synced st) e = true
  | LSnap e content => is_already_applied (r_synced st) e = true \/ content = None
  | LXfer _ => True
  | LLocal _ _ => False
  end -> apply_entry st le = st.
Proof. exact ignored_or_failed_no_advance. Qed.
Print Assumptions C19_ignored_or_failed_no_advance.

Theorem C19_snap_retry_once : forall st e j reps,
  0 < s_index e -> is_already_applied (r_synced st) e = false ->
  let st1 := apply_entry (apply_entry st (LSnap e None)) (LSnap e (Some j)) in
  r_journal st1 = j /\
  (exists o', synced_of st1 (s_cluster e) = Some o' /\ pos_eq o' e) /\
  apply_log st1 (map (fun content => LSnap e content) reps) = st1.
Proof. exact snap_retry_once. Qed.
Print Assumptions C19_snap_retry_once.

(* (6) the receive-side pre-filter of ApplyRaftReqs is sound: what it drops against the position it read —
       however stale — is dropped by the apply-side filter in every later state, so it never changes the data *)
Theorem C19_prefilter_sound : forall st l e,
  0 < s_index e -> prefilter (r_synced st) e = true ->
  apply_entry (apply_log st l) (LSync e) = apply_log st l.
Proof. exact prefilter_sound. Qed.
Print Assumptions C19_prefilter_sound.

(* (7) SAFETY of the composed system sender x receiver (Sync/Sender.v): the source side's send loop (buffer kept and
       grown on errors, dropped unsent when the remote position fetched at loop start covers it), learner restarts,
       requests lost before and responses lost after the receiver handled them, the snapshot hand-over
       (PrepareSnapshot shortcut, NotifyTransferSnap, NotifyApplySnap with or without the checkpoint, the
       ApplySuccess answer of GetApplySnapStatus), and the receiver's own snapshots, crashes, local writes and status
       time-outs, interleaved in ANY order.  The data replicated from the source is always exactly its first K
       entries, each once and in order, the recorded position is the K-th entry's, and what the sender regards as
       done lies within them: the position never covers an entry whose data is missing.
       TWO learners of the source are modelled (each forwarding or stand-by, roles switched at any time): a stand-by
       passes an entry only once the receiver's position covers it; a learner's own raft snapshot is taken only with
       its send buffer drained (GetSnapshot fails on the time-out), and a restarted learner replays from that snapshot.
       For both learners, what they regard as done and the point they would replay from lie within the K entries.
       Not modelled: "normal init" mode (a skipped snapshot advances the position by the operator's decision).
       C19_learner_snapshot_with_backlog_refuted: if the learner's snapshot were taken with a backlog (a GetSnapshot that
       swallows its time-out), a restart loses the backlog and the receiver ends with entry 3 under position (1,3)
       but without entry 2. *)
Theorem C19_sender_safety : forall c src evs,
  c <> 0 -> wf_source c src ->
  exists K,
    proj c (r_journal (n_cur (fst (sys_run c src evs)))) = map s_payload (firstn K src) /\
    synced_at src K (synced_of (n_cur (fst (sys_run c src evs))) c) /\
    (sd_buf (fst (snd (sys_run c src evs))) <= K)%nat /\ (sd_snap (fst (snd (sys_run c src evs))) <= K)%nat /\
    (sd_buf (snd (snd (sys_run c src evs))) <= K)%nat /\ (sd_snap (snd (snd (sys_run c src evs))) <= K)%nat.
Proof. exact sender_safety. Qed.
Print Assumptions C19_sender_safety.

Theorem C19_learner_snapshot_with_backlog_refuted :
  r_journal (n_cur (fst (sys_run_loose 1 loose_src loose_evs))) = [(1, 10); (1, 30)] /\
  synced_of (n_cur (fst (sys_run_loose 1 loose_src loose_evs))) 1 = Some (mkSS 1 3 1003) /\
  r_journal (n_cur (fst (sys_run 1 loose_src loose_evs))) = [(1, 10); (1, 20); (1, 30)].
Proof. exact learner_snapshot_with_backlog_refuted. Qed.
Print Assumptions C19_learner_snapshot_with_backlog_refuted.

(* (8) the receiver that is NOT syncer-only (Sync/Conflict.v: key versions, the conflict pre-check per command).
       The code runs the pre-check on live apply only (recheck = false): a restart changes the data — the open
       known finding, with its witness; if the pre-check also ran on replay (recheck = true, the candidate repair), or
       on a syncer-only receiver, restart commutes whenever the mode flag does not change. *)
Theorem C19_m0_restart_refuted :
  cd_journal (cs_data (cn_cur (crun false m0_witness))) = [(1, 10)] /\
  cs_synced (cn_cur (crun false m0_witness)) = [(1, mkSS 1 2 1000)] /\
  cd_journal (cs_data (cn_cur (crun false (m0_witness ++ [CRestart])))) = [(1, 10); (1, 20)].
Proof. exact m0_restart_refuted. Qed.
Print Assumptions C19_m0_restart_refuted.

Theorem C19_conflict_restart_commutes : forall recheck m ops,
  m = false \/ recheck = true -> mode_const m ops ->
  cn_cur (crun recheck ((CMode m :: ops) ++ [CRestart])) = cn_cur (crun recheck (CMode m :: ops)).
Proof. exact conflict_restart_commutes. Qed.
Print Assumptions C19_conflict_restart_commutes.

(* (9) an acknowledged ApplyRaftReqs call was proposed and applied: after a call that answered success every entry of
       the batch is covered by the recorded position of its cluster (it was filtered as already applied, or proposed,
       committed and applied); a call that reaches a raft group that is not ready is refused and changes nothing *)
Theorem C19_ack_implies_applied : forall nd b e tsok,
  n_pending nd = [] -> snd (step nd (ORpc b)) = ROk -> In (e, tsok) b -> 0 < s_index e ->
  is_already_applied (r_synced (n_cur (fst (step nd (ORpc b))))) e = true.
Proof. exact ack_implies_applied. Qed.
Print Assumptions C19_ack_implies_applied.

Theorem C19_not_ready_is_refused : forall nd b, step nd (ORpcDown b) = (nd, RErr).
Proof. exact not_ready_is_refused. Qed.
Print Assumptions C19_not_ready_is_refused.

(* (10) where a position advance can come from: the synced map changes only when an unfiltered entry is applied and then
        records that entry's own (cluster, term, index) - a replayed log entry, a SUCCESSFUL ApplyRemoteSnap of that
        very snapshot, or a skipped snapshot; a TransferRemoteSnap request never moves a position whatever the status
        table of the replica holds.  The snapshot saved by a node carries the positions captured AT the index where
        GetSnapshot ran (model op OSnapLate), so C19_restart_commutes covers the two-phase snapshot as well. *)
Theorem C19_position_advance_source : forall st le,
  r_synced (apply_entry st le) <> r_synced st ->
  exists e, is_already_applied (r_synced st) e = false /\
    r_synced (apply_entry st le) = postprocess (r_synced st) e /\
    (le = LSync e \/ (exists j, le = LSnap e (Some j)) \/ le = LSkip e).
Proof. exact position_advance_source. Qed.
Print Assumptions C19_position_advance_source.

Theorem C19_transfer_never_moves_position : forall st e, apply_entry st (LXfer e) = st.
Proof. exact transfer_never_moves_position. Qed.
Print Assumptions C19_transfer_never_moves_position.

(* ---------- non-vacuity and the role of the hypotheses ---------- *)

Definition ex_src : list sentry :=
  [mkS 1 2 5 1005 250; mkS 1 2 6 1006 300; mkS 1 3 8 1008 400].
Definition e5 := mkS 1 2 5 1005 250.
Definition e6 := mkS 1 2 6 1006 300.
Definition e8 := mkS 1 3 8 1008 400.

Example C19_ex_wf : wf_source 1 ex_src.
Proof.
  split.
  - repeat constructor; cbn; reflexivity.
  - repeat constructor; cbn; try reflexivity; try discriminate.
Qed.

(* a schedule with duplicates, a stale re-send, an overlapping batch, a failed and a lost proposal, a local
   write, a snapshot and two restarts: all three entries applied once, position = (3, 8) *)
Definition ex_ops : list op :=
  [ODeliver e5 true true false; ODeliver e5 true true false; OCommit 2; OSnap;
   ODeliver e6 false true false; ODeliver e6 true false false; ODeliver e6 true true false; OLose;
   ORestart; OLocal 7;
   ORpc [(e5, true); (e6, true); (e6, true)]; ODeliver e5 true true true;
   ODeliver e8 true true false; ODeliver e6 true true false; OCommit 5; ORestart].

Example C19_ex_run :
  r_journal (n_cur (run ex_ops)) = [(1, 250); (0, 7); (1, 300); (1, 400)] /\
  synced_of (n_cur (run ex_ops)) 1 = Some (mkSS 3 8 1008) /\
  deliveries 1 (n_log (run ex_ops)) = map LSync [e5; e5; e6; e6; e8; e6].
Proof. vm_compute. repeat split; reflexivity. Qed.

Example C19_ex_follows : Follows 1 ex_src 0 (deliveries 1 (n_log (run ex_ops))) 3.
Proof.
  replace (deliveries 1 (n_log (run ex_ops))) with (map LSync [e5; e5; e6; e6; e8; e6]) by (vm_compute; reflexivity).
  cbn [map].
  apply F_next; [reflexivity|]. eapply (F_old _ _ _ 0%nat); [reflexivity|auto|].
  apply F_next; [reflexivity|]. eapply (F_old _ _ _ 1%nat); [reflexivity|auto|].
  apply F_next; [reflexivity|]. eapply (F_old _ _ _ 1%nat); [reflexivity|auto|]. constructor.
Qed.

(* the remote snapshot branch: a failing apply (no checkpoint) changes nothing, the retry installs the source's
   state at entry 6 (position (2,6)) although only entry 5 had been replayed; entries 5 and 6 re-sent afterwards
   and a repeated snapshot request are filtered; entry 8 is applied: the source's data, each entry once *)
Definition ex_snap_ops : list op :=
  [ODeliver e5 true true false; OCommit 1;
   OXfer 1 2 6; OCommit 1;
   OSnapReq 1 2 6 None; OCommit 1;
   OXfer 1 2 6; OCommit 1;
   OSnapReq 1 2 6 (Some (src_snapshot 1 ex_src 1)); OCommit 1; OSnap;
   ODeliver e5 true true false; ODeliver e6 true true false; ODeliver e8 true true false; OCommit 3;
   OXfer 1 2 6; OCommit 1; ORestart].

Example C19_ex_snap_run :
  r_journal (n_cur (run ex_snap_ops)) = [(1, 250); (1, 300); (1, 400)] /\
  synced_of (n_cur (run ex_snap_ops)) 1 = Some (mkSS 3 8 1008) /\
  proj 1 (r_journal (n_cur (run ex_snap_ops))) = proj 1 (r_journal (source_state 1 ex_src)).
Proof. vm_compute. repeat split; reflexivity. Qed.


(* the composed system really moves: feed and send with a lost response (re-send), a learner restart, a snapshot
   hand-over for the raft snapshot covering 2 entries whose first apply finds no checkpoint, a receiver crash, then
   the rest: everything arrives, once *)
Definition ex_evs : list ev :=
  [EFeed true; ESend true FRespLost; EFeed true; ESend true FReqLost; EFeed false; ELearnerSnapshot true;
   ELearnerRestart true; EFeed true;
   ENotifyTransfer 2 FNone; ENotifyApply 2 false FRespLost; ENotifyTransfer 2 FNone; ENotifyApply 2 true FNone;
   ERecv ORestart; ESnapDone true 2; EFeed false; EFeed false; ESwitch true false; ESwitch false true;
   EFeed false; ESend false FNone; ERecv OSnap; ERecv ORestart].

Example C19_ex_sys :
  r_journal (n_cur (fst (sys_run 1 ex_src ex_evs))) = [(1, 250); (1, 300); (1, 400)] /\
  sd_buf (snd (snd (sys_run 1 ex_src ex_evs))) = 3%nat.
Proof. vm_compute. split; reflexivity. Qed.

(* X1: what the well-formedness hypothesis is for.  (a) a source "log" whose term decreases: the later entry
   (term 1, index 6) is dropped for ever after (term 2, index 5) — the filter compares terms first *)
Example C19_x1_term_decrease_dropped :
  let a := mkS 1 2 5 0 10 in let b := mkS 1 1 6 0 20 in
  r_journal (apply_log init_r [LSync a; LSync b]) = [(1, 10)] /\
  synced_of (apply_log init_r [LSync a; LSync b]) 1 = Some (mkSS 2 5 0).
Proof. vm_compute. split; reflexivity. Qed.

(* (b) a later term with a smaller index (cannot happen in a raft log) is dropped as well *)
Example C19_x1_later_term_smaller_index_dropped :
  let a := mkS 1 2 5 0 10 in let b := mkS 1 3 4 0 20 in
  r_journal (apply_log init_r [LSync a; LSync b]) = [(1, 10)].
Proof. vm_compute. reflexivity. Qed.

(* (c) index 0 / term 0 is not a raft position: such an entry is never recorded and is applied every time *)
Example C19_x1_zero_position_repeats :
  let z := mkS 1 0 0 0 10 in
  r_journal (apply_log init_r [LSync z; LSync z]) = [(1, 10); (1, 10)].
Proof. vm_compute. reflexivity. Qed.

(* what the Follows hypothesis is for: the apply path only LOGS a gap (isContinueCommit); if a newer entry
   commits before an older undelivered one, the older one is filtered for ever: at most once still holds,
   "nothing skipped" does not.  Stated as a refutation of the unconditional reading. *)
Definition C19_no_skip_unconditional : Prop :=
  forall c src l, wf_source c src -> no_local_tag c l ->
    (forall le, In le l -> exists e, le = LSync e) ->
    (forall e, In e src <-> In (LSync e) (deliveries c l)) ->
    proj c (r_journal (apply_log init_r l)) = map s_payload src.

Theorem C19_no_skip_unconditional_refuted : ~ C19_no_skip_unconditional.
Proof. exact no_skip_unconditional_refuted. Qed.
Print Assumptions C19_no_skip_unconditional_refuted.
