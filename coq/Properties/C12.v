(* Properties/C12.v — C12: keys never interfere; the order-preserving codec round-trips.
   This file contains only the property theorems (closed by [exact]) and non-vacuity examples. *)
From ZV Require Import Common.Bytes Codec.Consts Codec.MemCmp Codec.Keys Codec.RangeOps Codec.HIndex Codec.Proofs Codec.Isolation.
From ZV Require Data.Base Data.MapK Data.Run.
Open Scope N_scope.

(* ---------- (a) the memcomparable codec: byte strings ---------- *)

(* DecodeBytes inverts EncodeBytes and returns exactly the leftover, for ALL byte strings *)
Theorem C12_bytes_roundtrip : forall d r, decode_bytes false (encode_bytes d ++ r) = Ok (r, d).
Proof. exact decode_encode_bytes. Qed.
Print Assumptions C12_bytes_roundtrip.

(* order of encodings = order of payloads (bytes.Compare), whatever follows the encodings *)
Theorem C12_bytes_order : forall a b, bytes_cmp (encode_bytes a) (encode_bytes b) = bytes_cmp a b.
Proof. exact encode_bytes_cmp. Qed.
Print Assumptions C12_bytes_order.

Theorem C12_bytes_order_in_context : forall a b x y,
  bytes_cmp (encode_bytes a ++ x) (encode_bytes b ++ y) =
  match bytes_cmp a b with Eq => bytes_cmp x y | c => c end.
Proof. exact encode_bytes_cmp_app. Qed.
Print Assumptions C12_bytes_order_in_context.

(* prefix-freeness: no encoding is a proper prefix of another *)
Theorem C12_bytes_prefix_free : forall a b x y, encode_bytes a ++ x = encode_bytes b ++ y -> a = b /\ x = y.
Proof. exact encode_bytes_app_inj. Qed.
Print Assumptions C12_bytes_prefix_free.

(* ---------- (a) int64 ---------- *)

Theorem C12_int_roundtrip : forall v r, int64_ok v -> decode_int (encode_int v ++ r) = Ok (r, v).
Proof. exact decode_encode_int. Qed.
Print Assumptions C12_int_roundtrip.

Theorem C12_int_order : forall v w, int64_ok v -> int64_ok w ->
  bytes_cmp (encode_int v) (encode_int w) = (v ?= w)%Z.
Proof. exact encode_int_cmp. Qed.
Print Assumptions C12_int_order.

Theorem C12_int_desc_roundtrip : forall v r, int64_ok v -> decode_int_desc (encode_int_desc v ++ r) = Ok (r, v).
Proof. exact decode_encode_int_desc. Qed.
Print Assumptions C12_int_desc_roundtrip.

Theorem C12_int_desc_order : forall v w, int64_ok v -> int64_ok w ->
  bytes_cmp (encode_int_desc v) (encode_int_desc w) = (w ?= v)%Z.
Proof. exact encode_int_desc_cmp. Qed.
Print Assumptions C12_int_desc_order.

(* ---------- (a) descending variants: round trip and REVERSED order ---------- *)

Theorem C12_bytes_desc_roundtrip : forall d r, bytes_ok d = true -> decode_bytes true (encode_bytes_desc d ++ r) = Ok (r, d).
Proof. exact decode_encode_bytes_desc. Qed.
Print Assumptions C12_bytes_desc_roundtrip.

Theorem C12_bytes_desc_order : forall a b, bytes_ok a = true -> bytes_ok b = true ->
  bytes_cmp (encode_bytes_desc a) (encode_bytes_desc b) = bytes_cmp b a.
Proof. exact encode_bytes_desc_cmp. Qed.
Print Assumptions C12_bytes_desc_order.

Theorem C12_uint_desc_roundtrip : forall u r, u < two64 -> decode_uint_desc (encode_uint_desc u ++ r) = Ok (r, u).
Proof. exact decode_encode_uint_desc. Qed.
Print Assumptions C12_uint_desc_roundtrip.

Theorem C12_uint_desc_order : forall u w, u < two64 -> w < two64 ->
  bytes_cmp (encode_uint_desc u) (encode_uint_desc w) = (w ?= u).
Proof. exact encode_uint_desc_cmp. Qed.
Print Assumptions C12_uint_desc_order.

Theorem C12_float_desc_roundtrip : forall u r, float_ok u -> decode_float_desc (encode_float_desc u ++ r) = Ok (r, float_norm u).
Proof. exact decode_encode_float_desc. Qed.
Print Assumptions C12_float_desc_roundtrip.

Theorem C12_float_desc_order : forall a b, float_ok a -> float_ok b ->
  bytes_cmp (encode_float_desc a) (encode_float_desc b) = (float_key b ?= float_key a)%Z.
Proof. exact encode_float_desc_cmp. Qed.
Print Assumptions C12_float_desc_order.

(* ---------- (a) float64 by bit pattern ---------- *)

(* exact round trip except that -0 comes back as +0 (the same float value) *)
Theorem C12_float_roundtrip : forall u r, float_ok u -> decode_float (encode_float u ++ r) = Ok (r, float_norm u).
Proof. exact decode_encode_float. Qed.
Print Assumptions C12_float_roundtrip.

Theorem C12_float_order : forall a b, float_ok a -> float_ok b ->
  bytes_cmp (encode_float a) (encode_float b) = (float_key a ?= float_key b)%Z.
Proof. exact encode_float_cmp. Qed.
Print Assumptions C12_float_order.

(* the model's float order/equality (diffed against Go's < and ==) are exactly the order/equality of the images *)
Theorem C12_float_ltb : forall a b, float_ok a -> float_ok b ->
  float_ltb a b = true <-> float_to_cmp a < float_to_cmp b.
Proof. exact float_ltb_spec. Qed.
Print Assumptions C12_float_ltb.

Theorem C12_float_eqb : forall a b, float_ok a -> float_ok b ->
  float_eqb a b = true <-> float_to_cmp a = float_to_cmp b.
Proof. exact float_eqb_spec. Qed.
Print Assumptions C12_float_eqb.

(* NaN is NOT covered: the clause "for all float64 values" is false of the faithful model *)
Theorem C12_float_nan_refuted :
  exists nan sub, float_is_nan nan = true /\ float_is_nan sub = false /\
    decode_float (encode_float nan) = Ok ([], sub) /\ encode_float nan = encode_float sub.
Proof.
  exists 9221120237041090561, 2251799813685246.
  destruct float_nan_not_roundtrip as (A & B & C & D). auto.
Qed.
Print Assumptions C12_float_nan_refuted.

(* ---------- (a) tuples: EncodeMemCmpKey / Decode ---------- *)

(* Decode inverts EncodeMemCmpKey on every non-empty tuple of values within the contract
   (int64, non-NaN float64, any byte string, nil); -0.0 comes back as +0.0 *)
Theorem C12_tuple_roundtrip : forall vs, vs <> [] -> Forall mval_ok vs ->
  decode_vals (encode_vals vs) = Ok (map mval_norm vs).
Proof. exact decode_encode_vals. Qed.
Print Assumptions C12_tuple_roundtrip.

(* order of encodings = lexicographic order of the tuples (kind first, then value; a prefix is smaller) *)
Theorem C12_tuple_order : forall a b, Forall mval_ok a -> Forall mval_ok b ->
  bytes_cmp (encode_vals a) (encode_vals b) = tuple_cmp a b.
Proof. exact encode_vals_cmp. Qed.
Print Assumptions C12_tuple_order.

Theorem C12_tuple_inj : forall a b, Forall mval_ok a -> Forall mval_ok b ->
  encode_vals a = encode_vals b -> map mval_norm a = map mval_norm b.
Proof. exact encode_vals_inj. Qed.
Print Assumptions C12_tuple_inj.

Theorem C12_peek_length : forall v r, peek (encode_val v ++ r) = Ok (length (encode_val v)).
Proof. exact peek_encode. Qed.
Print Assumptions C12_peek_length.

Theorem C12_cut_one : forall v r, cut_one (encode_val v ++ r) = Ok (encode_val v, r).
Proof. exact cut_one_encode. Qed.
Print Assumptions C12_cut_one.

(* ---------- (b) injectivity over the whole key universe ---------- *)

(* two well-formed keys of ANY types (kv, size/meta records, hash/set/zset members, list elements,
   zset score index, bitmap segments, json) with the same engine key are the same key
   (up to the sign of a zero score). Guards (wf_ekey): table names without ':', collection keys
   shorter than 65536, int64 sequence numbers / indexes, non-NaN scores. No length limit on tables. *)
Theorem C12_keys_injective : forall x y, wf_ekey x -> wf_ekey y ->
  encode_ekey x = encode_ekey y -> ekey_norm x = ekey_norm y.
Proof. exact ekey_inj. Qed.
Print Assumptions C12_keys_injective.

(* ---------- (c) ranges contain exactly their own keys ---------- *)

Theorem C12_collection_range : forall dt t k x, is_coll_type dt = true -> no_sep t -> len16 k -> wf_ekey x ->
  in_range (coll_start_key dt t k) (coll_stop_key dt t k) (encode_ekey x) = true <->
  exists sub, x = KColl dt t k sub.
Proof. exact coll_range_iff. Qed.
Print Assumptions C12_collection_range.

Theorem C12_list_range : forall t k x, no_sep t -> len16 k -> wf_ekey x ->
  in_range_closed (l_encode_list_key t k list_min_seq) (l_encode_list_key t k list_max_seq) (encode_ekey x) = true <->
  exists seq, x = KList t k seq /\ (list_min_seq <= seq <= list_max_seq)%Z.
Proof. exact list_range_iff. Qed.
Print Assumptions C12_list_range.

Theorem C12_zscore_range : forall t k x, no_sep t -> wf_ekey x ->
  in_range (z_encode_start_key t k) (z_encode_stop_key t k) (encode_ekey x) = true <->
  exists sc m, x = KZScore t k sc m.
Proof. exact zscore_range_iff. Qed.
Print Assumptions C12_zscore_range.

Theorem C12_zscore_one_score_range : forall t k sc x, no_sep t -> float_ok sc -> wf_ekey x ->
  in_range (z_encode_start_score_key t k sc) (z_encode_stop_score_key t k sc) (encode_ekey x) = true <->
  exists sc' m, x = KZScore t k sc' m /\ float_key sc' = float_key sc.
Proof. exact zscore_score_range_iff. Qed.
Print Assumptions C12_zscore_one_score_range.

Theorem C12_bitmap_range : forall t k x, no_sep t -> wf_ekey x ->
  in_range (encode_bitmap_key t k 0) (encode_bitmap_stop_key t k) (encode_ekey x) = true <->
  exists i, x = KBitmap t k i /\ (0 <= i)%Z.
Proof. exact bitmap_range_iff. Qed.
Print Assumptions C12_bitmap_range.

(* the whole-table range of one data type holds exactly the keys of that type and table *)
Theorem C12_table_range : forall dt t x, is_table_type dt = true -> no_sep t -> wf_ekey x ->
  in_range (encode_data_table_start dt t) (encode_data_table_end dt t) (encode_ekey x) = true <->
  ekey_type x = dt /\ ekey_table x = t.
Proof. exact table_range_iff. Qed.
Print Assumptions C12_table_range.

(* the meta-record range of a whole-table delete (getTableMetaRange) *)
Theorem C12_table_meta_range : forall ty t x, is_meta_type ty = true -> no_sep t -> wf_ekey x ->
  (exists lo hi, get_table_meta_range ty t [] None = Ok (lo, hi) /\
     (in_range lo hi (encode_ekey x) = true <-> exists rk, x = KMeta ty t rk)).
Proof. exact table_meta_range_whole. Qed.
Print Assumptions C12_table_meta_range.

(* whole-table delete (DeleteTableRange -> getTableDataRange(dt, table, nil, nil)): the engine ranges of one
   data type hold exactly the keys of that type and table (zset: member keys and score-index keys) *)
Theorem C12_whole_table_data_range : forall dt t x,
  dt = kv_type \/ dt = hash_type \/ dt = set_type \/ dt = zset_type \/ dt = list_type ->
  no_sep t -> wf_ekey x -> ekey_key_nonempty x ->
  exists rs, get_table_data_range dt t [] None = Ok rs /\
    (in_ranges rs (encode_ekey x) = true <->
     (ekey_type x = dt \/ (dt = zset_type /\ ekey_type x = zscore_type)) /\ ekey_table x = t).
Proof. exact whole_table_data_range. Qed.
Print Assumptions C12_whole_table_data_range.

(* stop keys are the start keys with the last byte (the separator 0x3A) + 1: no overflow *)
Theorem C12_table_end_no_overflow : forall dt t, exists q,
  encode_data_table_start dt t = q ++ [table_start_sep] /\
  encode_data_table_end dt t = q ++ [table_start_sep + 1] /\ table_start_sep + 1 < 256.
Proof. exact table_end_spec. Qed.
Print Assumptions C12_table_end_no_overflow.

Theorem C12_coll_stop_no_overflow : forall dt t k,
  coll_start_key dt t k = coll_base dt t k ++ [coll_start_sep] /\
  coll_stop_key dt t k = coll_base dt t k ++ [coll_start_sep + 1] /\ coll_start_sep + 1 < 256.
Proof. exact coll_stop_spec. Qed.
Print Assumptions C12_coll_stop_no_overflow.

(* ---------- (c') range OPERATIONS: clear / full read of one collection, with the bound types the code passes ---------- *)
(* the bound type of every function is read from the source (Consts.v, rtype_<file>_<func>); [xs] is any
   population of well-formed keys of all types, [map encode_ekey xs] the engine's key space *)

Theorem C12_hash_clear_exact : forall t k xs, no_sep t -> len16 k -> Forall wf_ekey xs ->
  hash_clear_keys t k (map encode_ekey xs) = map encode_ekey (filter (is_member_of hash_type t k) xs).
Proof. exact hash_clear_exact. Qed.
Print Assumptions C12_hash_clear_exact.

Theorem C12_hash_read_exact : forall t k xs, no_sep t -> len16 k -> Forall wf_ekey xs ->
  hash_read_keys t k (map encode_ekey xs) = map encode_ekey (filter (is_member_of hash_type t k) xs).
Proof. exact hash_read_exact. Qed.
Print Assumptions C12_hash_read_exact.

Theorem C12_set_clear_exact : forall t k xs, no_sep t -> len16 k -> Forall wf_ekey xs ->
  set_clear_keys t k (map encode_ekey xs) = map encode_ekey (filter (is_member_of set_type t k) xs).
Proof. exact set_clear_exact. Qed.
Print Assumptions C12_set_clear_exact.

Theorem C12_set_read_exact : forall t k xs, no_sep t -> len16 k -> Forall wf_ekey xs ->
  set_read_keys t k (map encode_ekey xs) = map encode_ekey (filter (is_member_of set_type t k) xs).
Proof. exact set_read_exact. Qed.
Print Assumptions C12_set_read_exact.

Theorem C12_bitmap_clear_exact : forall t k xs, no_sep t -> Forall wf_ekey xs ->
  bitmap_clear_keys t k (map encode_ekey xs) = map encode_ekey (filter (is_bitmap_seg_of t k) xs).
Proof. exact bitmap_clear_exact. Qed.
Print Assumptions C12_bitmap_clear_exact.

Theorem C12_list_clear_exact : forall t k head tail xs, no_sep t -> len16 k -> Forall wf_ekey xs ->
  (0 <= head)%Z -> int64_ok head -> (0 <= tail)%Z -> int64_ok tail ->
  list_clear_keys t k head tail (map encode_ekey xs) = map encode_ekey (filter (is_list_elem_of t k head tail) xs).
Proof. exact list_clear_exact. Qed.
Print Assumptions C12_list_clear_exact.

Theorem C12_zset_clear_exact : forall t k xs, no_sep t -> Forall wf_ekey xs ->
  zset_clear_score_keys t k (map encode_ekey xs) = map encode_ekey (filter (is_zscore_of t k) xs).
Proof. exact zset_clear_score_keys_exact. Qed.
Print Assumptions C12_zset_clear_exact.

Theorem C12_zset_clear_member_keys : forall t k sc m, len16 t -> float_ok sc ->
  zset_member_key_of_score_key t k (encode_ekey (KZScore t k sc m)) = Some (encode_ekey (KColl zset_type t k m)).
Proof. exact zset_member_key_of_score_key_spec. Qed.
Print Assumptions C12_zset_clear_member_keys.

(* the element with the EMPTY sub-key is stored under the range's start key, so the left bound must be
   closed: an iteration with an open left bound skips it, and a clear built on it leaves it behind *)
Theorem C12_open_left_bound_misses_empty_member : forall dt t k,
  in_range_t range_open (coll_start_key dt t k) (coll_stop_key dt t k) (encode_ekey (KColl dt t k [])) = false /\
  in_range_t range_lopen (coll_start_key dt t k) (coll_stop_key dt t k) (encode_ekey (KColl dt t k [])) = false /\
  in_range_t range_ropen (coll_start_key dt t k) (coll_stop_key dt t k) (encode_ekey (KColl dt t k [])) = true.
Proof. exact open_left_bound_misses_empty_member. Qed.
Print Assumptions C12_open_left_bound_misses_empty_member.

Theorem C12_clear_with_open_bound_refuted : exists t k xs, no_sep t /\ len16 k /\ Forall wf_ekey xs /\
  range_iter range_open (coll_start_key set_type t k) (coll_stop_key set_type t k) (map encode_ekey xs) <>
  map encode_ekey (filter (is_member_of set_type t k) xs).
Proof. exact clear_with_open_bound_refuted. Qed.
Print Assumptions C12_clear_with_open_bound_refuted.

(* whole-table delete (HTTP POST /kv/delrange/:ns/:table with delete_all -> DeleteTableRange(table, nil, nil)):
   the deleted engine ranges hold exactly the keys of that table, of every data type (kv, hash, set, zset +
   score index, list, bitmap, json) and every size/meta record. Model = the code after fix afc5d56. *)
Theorem C12_delete_table_exact : forall t x, no_sep t -> wf_ekey x -> ekey_key_nonempty x ->
  in_ranges (delete_table_ranges t) (encode_ekey x) = true <->
  ekey_table x = t /\ table_delete_covers (ekey_type x) = true.
Proof. exact delete_table_exact. Qed.
Print Assumptions C12_delete_table_exact.

(* the ranges of the code BEFORE the fix left the bitmap and json keys of the table behind (genuine defect,
   reproduced end-to-end, fixed in the repository) *)
Theorem C12_delete_table_before_fix_refuted :
  let old_ranges t := firstn 11 (delete_table_ranges t) in
  exists t x, no_sep t /\ wf_ekey x /\ ekey_table x = t /\ table_delete_covers (ekey_type x) = true /\
              in_ranges (old_ranges t) (encode_ekey x) = false.
Proof. exact delete_table_without_bitmap_json_refuted. Qed.
Print Assumptions C12_delete_table_before_fix_refuted.

(* LTRIM dropping more than RangeDeleteNum elements at one end: one engine DeleteRange [key(a), key(b)) over the
   sequence keys. It removes exactly the elements below the new head / above the new tail of the addressed
   list, nothing of any other key; the new head survives, and an upper bound one sequence later would take it *)
Theorem C12_ltrim_head_exact : forall t k head start xs, no_sep t -> len16 k -> Forall wf_ekey xs ->
  (0 <= head)%Z -> (0 < start)%Z -> int64_ok head -> int64_ok (head + start) ->
  delete_range (fst (ltrim_head_range t k head start)) (snd (ltrim_head_range t k head start)) (map encode_ekey xs) =
  map encode_ekey (filter (fun x => negb (is_list_elem_of t k head (head + start - 1) x)) xs).
Proof. exact ltrim_head_exact. Qed.
Print Assumptions C12_ltrim_head_exact.

Theorem C12_ltrim_tail_exact : forall t k head stop llen xs, no_sep t -> len16 k -> Forall wf_ekey xs ->
  (0 <= head)%Z -> (0 <= stop)%Z -> (stop < llen)%Z -> int64_ok head -> int64_ok (head + llen) ->
  delete_range (fst (ltrim_tail_range t k head stop llen)) (snd (ltrim_tail_range t k head stop llen)) (map encode_ekey xs) =
  map encode_ekey (filter (fun x => negb (is_list_elem_of t k (head + stop + 1) (head + llen - 1) x)) xs).
Proof. exact ltrim_tail_exact. Qed.
Print Assumptions C12_ltrim_tail_exact.

Theorem C12_ltrim_head_bound : forall t k head start, no_sep t -> len16 k ->
  (0 <= head)%Z -> (0 < start)%Z -> int64_ok head -> int64_ok (head + start) -> int64_ok (head + start + 1) ->
  in_range (fst (ltrim_head_range t k head start)) (snd (ltrim_head_range t k head start))
           (encode_ekey (KList t k (head + start))) = false /\
  in_range (l_encode_list_key t k head) (l_encode_list_key t k (head + start + 1))
           (encode_ekey (KList t k (head + start))) = true.
Proof. exact ltrim_head_keeps_new_head. Qed.
Print Assumptions C12_ltrim_head_bound.

(* ---------- the guards are the ones the code provides, and they are necessary ---------- *)

(* extractTableFromRedisKey yields a ':'-free table and is inverted by packRedisKey *)
Theorem C12_extract_table_guard : forall raw t k, extract_table raw = Ok (t, k) -> raw = pack_redis_key t k /\ no_sep t.
Proof. exact extract_table_no_sep. Qed.
Print Assumptions C12_extract_table_guard.

Theorem C12_extract_table_pack : forall t k, no_sep t -> extract_table (pack_redis_key t k) = Ok (t, k).
Proof. exact extract_table_pack. Qed.
Print Assumptions C12_extract_table_pack.

(* convertRedisKeyToDBKVKey accepts exactly well-formed KV keys within the size limit *)
Theorem C12_kv_key_guard : forall raw t dbk, convert_redis_key_to_db_kv_key raw = Ok (t, dbk) ->
  exists rk, raw = pack_redis_key t rk /\ no_sep t /\ t <> [] /\ dbk = encode_ekey (KKV t rk) /\
             N.of_nat (length raw) <= max_key_size.
Proof. exact convert_kv_key_spec. Qed.
Print Assumptions C12_kv_key_guard.

(* the keys of table T are exactly the redis keys with the prefix "T:" (separator included): the stop condition
   of the index build scan; the bare table name as prefix also covers tables whose names extend T *)
Theorem C12_table_of_key_by_prefix : forall t raw, no_sep t ->
  (is_prefix (t ++ [table_start_sep]) raw <-> exists k, extract_table raw = Ok (t, k)).
Proof. exact table_prefix_of_redis_key. Qed.
Print Assumptions C12_table_of_key_by_prefix.

Theorem C12_bare_table_prefix_refuted : exists t raw t' k,
  no_sep t /\ is_prefix t raw /\ extract_table raw = Ok (t', k) /\ t' <> t.
Proof. exact bare_table_prefix_refuted. Qed.
Print Assumptions C12_bare_table_prefix_refuted.

(* the meta record that decides about an element key (compaction filter, collHeaderMeta): encodeMetaKey(dt, name)
   is the meta record of the SAME (type, table, key); same-named collections of different types have different
   meta records, so a decision (or a cache) keyed by the name alone mixes them up *)
Theorem C12_meta_record_of_element : forall dt t rk, is_elem_type dt = true ->
  encode_meta_key dt (pack_redis_key t rk) = Ok (encode_ekey (KMeta (meta_type_of dt) t rk)) /\
  is_meta_type (meta_type_of dt) = true.
Proof. exact meta_key_of_element_type. Qed.
Print Assumptions C12_meta_record_of_element.

Theorem C12_meta_records_of_types_differ : forall dt dt' raw k k', is_elem_type dt = true -> is_elem_type dt' = true ->
  meta_type_of dt <> meta_type_of dt' ->
  encode_meta_key dt raw = Ok k -> encode_meta_key dt' raw = Ok k' -> k <> k'.
Proof. exact meta_keys_of_types_differ. Qed.
Print Assumptions C12_meta_records_of_types_differ.

(* the u16 guard follows from common.CheckKey: raw and versioned collection keys fit the length field *)
Theorem C12_verkey_fits_u16 : forall ver rk, N.of_nat (length rk) <= max_key_size -> len16 (encode_ver_key ver rk).
Proof. exact verkey_len16. Qed.
Print Assumptions C12_verkey_fits_u16.
Theorem C12_rawkey_fits_u16 : forall rk, N.of_nat (length rk) <= max_key_size -> len16 rk.
Proof. exact rawkey_len16. Qed.
Print Assumptions C12_rawkey_fits_u16.

(* without the ':' guard KV keys collide; without the length guard collection keys collide *)
Theorem C12_injective_without_table_guard_refuted :
  exists x y, x <> y /\ encode_ekey x = encode_ekey y /\ wf_ekey x /\ ~ wf_ekey y.
Proof. eexists _, _. exact kv_without_table_guard_collides. Qed.
Print Assumptions C12_injective_without_table_guard_refuted.

Theorem C12_injective_without_len_guard_refuted :
  exists x y, x <> y /\ encode_ekey x = encode_ekey y /\ wf_ekey y /\ ~ wf_ekey x.
Proof. exact coll_without_len_guard_collides. Qed.
Print Assumptions C12_injective_without_len_guard_refuted.

(* ---------- key decoders invert the encoders ---------- *)

Theorem C12_decode_table_prefix : forall dt t r, dt <> kv_type -> len16 t ->
  decode_table_prefix (table_prefix dt t ++ r) dt = Ok (t, r).
Proof. exact decode_table_prefix_encode. Qed.
Print Assumptions C12_decode_table_prefix.

Theorem C12_decode_coll_key : forall dt t k s, is_coll_type dt = true -> len16 t -> len16 k ->
  decode_coll_sub_key (coll_key dt t k s) = Ok (dt, t, k, s).
Proof. exact decode_coll_sub_key_encode. Qed.
Print Assumptions C12_decode_coll_key.

Theorem C12_decode_list_key : forall t k seq, len16 t -> len16 k -> int64_ok seq ->
  l_decode_list_key (l_encode_list_key t k seq) = Ok (t, k, seq).
Proof. exact l_decode_list_key_encode. Qed.
Print Assumptions C12_decode_list_key.

Theorem C12_decode_zscore_key : forall t k m sc, len16 t -> float_ok sc ->
  z_decode_score_key (z_encode_score_key false false t k m sc) = Ok (t, k, m, float_norm sc).
Proof. exact z_decode_score_key_encode. Qed.
Print Assumptions C12_decode_zscore_key.

Theorem C12_decode_bitmap_key : forall t k i, len16 t -> int64_ok i ->
  decode_bitmap_key (encode_bitmap_key t k i) = Ok (t, k, i).
Proof. exact decode_bitmap_key_encode. Qed.
Print Assumptions C12_decode_bitmap_key.

Theorem C12_decode_json_key : forall t k, len16 t -> decode_json_key (encode_json_key t k) = Ok (t, k).
Proof. exact decode_json_key_encode. Qed.
Print Assumptions C12_decode_json_key.

(* the versioned key memcmp(key, ':', version, ':') round-trips for every key and int64 version *)
Theorem C12_decode_ver_key : forall ver k, int64_ok ver -> decode_ver_key (encode_ver_key ver k) = Ok (k, ver).
Proof. exact decode_ver_key_encode. Qed.
Print Assumptions C12_decode_ver_key.

Theorem C12_decode_kv_key : forall k, decode_kv_key (encode_kv_key k) = Ok k.
Proof. exact decode_kv_key_encode. Qed.
Print Assumptions C12_decode_kv_key.

Theorem C12_decode_size_key : forall ty k, decode_size_key ty (size_key ty k) = Ok k.
Proof. exact decode_size_key_encode. Qed.
Print Assumptions C12_decode_size_key.

Theorem C12_decode_exp_time_key : forall dt k w, int64_ok w ->
  exp_decode_time_key (exp_encode_time_key dt k w) = Ok (dt, k, w).
Proof. exact exp_decode_time_key_encode. Qed.
Print Assumptions C12_decode_exp_time_key.

Theorem C12_decode_exp_meta_key : forall dt k, exp_decode_meta_key (exp_encode_meta_key dt k) = Ok (dt, k).
Proof. exact exp_decode_meta_key_encode. Qed.
Print Assumptions C12_decode_exp_meta_key.

(* multi-key reads of the Map model are slot-wise single-key reads (a refused key reads nil / counts 0) *)
Theorem C12_mget_slotwise : forall compact now ks m,
  Data.MapK.kquery compact now (Data.MapK.KQmget ks) m =
  Data.Base.RArr (map (fun k => match Data.MapK.kquery compact now (Data.MapK.KQget k) m with
                                | Data.Base.RErr => Data.Base.RNil
                                | r => r
                                end) ks).
Proof. exact mget_slotwise. Qed.
Print Assumptions C12_mget_slotwise.

Theorem C12_exists_slotwise : forall compact now ks m, length ks <> 1%nat ->
  Data.MapK.kquery compact now (Data.MapK.KQexists ks) m =
  Data.Base.RInt (Z.of_nat (length (filter (fun k =>
    match Data.MapK.kquery compact now (Data.MapK.KQexists [k]) m with Data.Base.RInt 1 => true | _ => false end) ks))).
Proof. exact exists_slotwise. Qed.
Print Assumptions C12_exists_slotwise.

(* ---------- index keys (hash secondary index) ---------- *)

Theorem C12_hindex_number_roundtrip : forall t n v pk, len16 t -> len16 n -> int64_ok v ->
  decode_hset_index_number_key (encode_hset_index_number_key t n v pk false) = Ok (t, n, v, pk).
Proof. exact decode_hset_index_number_key_encode. Qed.
Print Assumptions C12_hindex_number_roundtrip.

Theorem C12_hindex_string_roundtrip : forall t n v pk, len16 t -> len16 n ->
  decode_hset_index_string_key (encode_hset_index_string_key t n v pk false) = Ok (t, n, v, pk).
Proof. exact decode_hset_index_string_key_encode. Qed.
Print Assumptions C12_hindex_string_roundtrip.

(* entries of one index sort by indexed value, then by primary key *)
Theorem C12_hindex_number_order : forall t n v pk v' pk', int64_ok v -> int64_ok v' ->
  bytes_cmp (encode_hset_index_number_key t n v pk false) (encode_hset_index_number_key t n v' pk' false) =
  match (v ?= v')%Z with Eq => bytes_cmp pk pk' | c => c end.
Proof. exact hset_index_number_key_order. Qed.
Print Assumptions C12_hindex_number_order.

Theorem C12_hindex_string_order : forall t n v pk v' pk',
  bytes_cmp (encode_hset_index_string_key t n v pk false) (encode_hset_index_string_key t n v' pk' false) =
  match bytes_cmp v v' with Eq => bytes_cmp pk pk' | c => c end.
Proof. exact hset_index_string_key_order. Qed.
Print Assumptions C12_hindex_string_order.

(* the (table, index name) prefix is self-delimiting, and a value's [start, stop) range holds exactly its entries *)
Theorem C12_hindex_prefix_inj : forall t n t' n' x y, len16 t -> len16 n -> len16 t' -> len16 n' ->
  hindex_prefix t n ++ x = hindex_prefix t' n' ++ y -> t = t' /\ n = n' /\ x = y.
Proof. exact hindex_prefix_app_inj. Qed.
Print Assumptions C12_hindex_prefix_inj.

Theorem C12_hindex_value_range : forall t n v v' pk, int64_ok v -> int64_ok v' ->
  in_range (encode_hset_index_number_key t n v [] false) (encode_hset_index_number_key t n v [] true)
           (encode_hset_index_number_key t n v' pk false) = true <-> v' = v.
Proof. exact hset_index_number_value_range. Qed.
Print Assumptions C12_hindex_value_range.

(* ---------- (d) isolation of (type, table, key), down to the engine's byte keys ---------- *)
(* over the data builder's Map model (coq/Data, read-only): see Codec/Isolation.v *)

(* the byte encoding of Map's structured keys (meta, element, score-index, sequence, string keys; versioned
   collection keys under wait_compact) is injective on the keys Map produces *)
Theorem C12_map_keys_bytes_injective : forall compact score_bits (score_dom : Data.Base.score -> Prop),
  (forall s, score_dom s -> float_ok (score_bits s)) ->
  (forall a b, score_dom a -> score_dom b -> float_norm (score_bits a) = float_norm (score_bits b) -> a = b) ->
  forall a b ka, mkey_ok compact score_dom a -> mkey_ok compact score_dom b ->
  mkey_bytes compact score_bits a = Some ka -> mkey_bytes compact score_bits b = Some ka -> a = b.
Proof. exact mkey_bytes_inj. Qed.
Print Assumptions C12_map_keys_bytes_injective.

(* Map-level frame: every command of Data.Run.cmd (hash, set, zset, list, kv, *EXPIRE/*PERSIST; both expiry policies) leaves
   the record of every (type, "table:key") it does not address unchanged *)
Theorem C12_map_step_frame : forall compact now ts c s,
  let s' := fst (Data.Run.map_step compact now ts c s) in
  (forall k, ~ In (hash_type, k) (cmd_targets c) -> rec_hash s' k = rec_hash s k) /\
  (forall k, ~ In (set_type, k) (cmd_targets c) -> rec_set s' k = rec_set s k) /\
  (forall k, ~ In (zset_type, k) (cmd_targets c) -> rec_zset s' k = rec_zset s k) /\
  (forall k, ~ In (list_type, k) (cmd_targets c) -> rec_list s' k = rec_list s k) /\
  (forall k, ~ In (kv_type, k) (cmd_targets c) -> rec_kv s' k = rec_kv s k).
Proof. exact map_step_frame. Qed.
Print Assumptions C12_map_step_frame.

(* the byte-keyed engine (image of the structured map under the codec) is a function of the byte key ... *)
Theorem C12_engine_functional : forall compact score_bits (score_dom : Data.Base.score -> Prop),
  (forall s, score_dom s -> float_ok (score_bits s)) ->
  (forall a b, score_dom a -> score_dom b -> float_norm (score_bits a) = float_norm (score_bits b) -> a = b) ->
  forall s b v v', engine compact score_bits score_dom s b v -> engine compact score_bits score_dom s b v' -> v = v'.
Proof. exact engine_functional. Qed.
Print Assumptions C12_engine_functional.

(* ... and a command leaves the content under every engine byte key owned by another (type, table:key) unchanged *)
Theorem C12_engine_frame : forall compact score_bits (score_dom : Data.Base.score -> Prop),
  (forall s, score_dom s -> float_ok (score_bits s)) ->
  (forall a b, score_dom a -> score_dom b -> float_norm (score_bits a) = float_norm (score_bits b) -> a = b) ->
  forall now ts c s b v k, mkey_ok compact score_dom k -> mkey_bytes compact score_bits k = Some b ->
  ~ In (mkey_owner k) (cmd_targets c) ->
  (engine compact score_bits score_dom s b v <->
   engine compact score_bits score_dom (fst (Data.Run.map_step compact now ts c s)) b v).
Proof.
  intros compact sb sd H1 H2 now ts c s b v k Hk Eb Hn. split.
  - now apply (engine_frame compact sb sd H1 H2 now ts c s b v k).
  - now apply (engine_frame_rev compact sb sd H1 H2 now ts c s b v k).
Qed.
Print Assumptions C12_engine_frame.

(* ---------- non-vacuity ---------- *)
Example C12_ex_bytes : encode_bytes [1; 2; 3] = [1; 2; 3; 0; 0; 0; 0; 0; 250] /\
  encode_bytes [1; 2; 3; 4; 5; 6; 7; 8] = [1; 2; 3; 4; 5; 6; 7; 8; 255; 0; 0; 0; 0; 0; 0; 0; 0; 247].
Proof. split; vm_compute; reflexivity. Qed.
Example C12_ex_wf : wf_ekey (KColl 22 [116] [107; 58; 107] [102]) /\ wf_ekey (KZScore [116] [107] 0 [109]) /\
  encode_ekey (KColl 22 [116] [107] [102]) = [22; 0; 1; 116; 58; 0; 1; 107; 58; 102].
Proof.
  repeat split; try (vm_compute; reflexivity); try (intros [H|[]]; discriminate H).
Qed.
Example C12_ex_score_hyps :
  (forall s, ex_score_dom s -> float_ok (ex_score_bits s)) /\
  (forall a b, ex_score_dom a -> ex_score_dom b -> float_norm (ex_score_bits a) = float_norm (ex_score_bits b) -> a = b).
Proof. exact score_hypotheses_satisfiable. Qed.
Example C12_ex_float_ok : float_ok 13830554455654793216 (* -0.5 *) /\ int64_ok (-9223372036854775808).
Proof. split; [split; vm_compute; reflexivity|unfold int64_ok; lia]. Qed.
