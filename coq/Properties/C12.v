(* Properties/C12.v — C12: keys never interfere; the order-preserving codec round-trips.
   This file contains only the property theorems (closed by [exact]) and non-vacuity examples. *)
From ZV Require Import Common.Bytes Codec.Consts Codec.MemCmp Codec.Keys Codec.Proofs.
Open Scope N_scope.

(* ---------- (a) the memcomparable codec: byte strings ---------- *)

(* DecodeBytes inverts EncodeBytes and returns exactly the leftover, for ALL byte strings *)
Theorem C12_bytes_roundtrip : forall d r, decode_bytes false (encode_bytes d ++ r) = Ok (r, d).
Proof. exact decode_encode_bytes. Qed.
Print Assumptions C12_bytes_roundtrip.

(* order of encodings = order of payloads (bytes.Compare), whatever follows the encodings *)
Theorem C12_bytes_order : forall a b, bytes_cmp (encode_bytes a) (encode_bytes b) = bytes_cmp a b.
Proof. exact encode_bytes_cmp. Qed.
Print Assumptions C12_bytes_order.

Theorem C12_bytes_order_in_context : forall a b x y,
  bytes_cmp (encode_bytes a ++ x) (encode_bytes b ++ y) =
  match bytes_cmp a b with Eq => bytes_cmp x y | c => c end.
Proof. exact encode_bytes_cmp_app. Qed.
Print Assumptions C12_bytes_order_in_context.

(* prefix-freeness: no encoding is a proper prefix of another *)
Theorem C12_bytes_prefix_free : forall a b x y, encode_bytes a ++ x = encode_bytes b ++ y -> a = b /\ x = y.
Proof. exact encode_bytes_app_inj. Qed.
Print Assumptions C12_bytes_prefix_free.

(* ---------- (a) int64 ---------- *)

Theorem C12_int_roundtrip : forall v r, int64_ok v -> decode_int (encode_int v ++ r) = Ok (r, v).
Proof. exact decode_encode_int. Qed.
Print Assumptions C12_int_roundtrip.

Theorem C12_int_order : forall v w, int64_ok v -> int64_ok w ->
  bytes_cmp (encode_int v) (encode_int w) = (v ?= w)%Z.
Proof. exact encode_int_cmp. Qed.
Print Assumptions C12_int_order.

Theorem C12_int_desc_roundtrip : forall v r, int64_ok v -> decode_int_desc (encode_int_desc v ++ r) = Ok (r, v).
Proof. exact decode_encode_int_desc. Qed.
Print Assumptions C12_int_desc_roundtrip.

Theorem C12_int_desc_order : forall v w, int64_ok v -> int64_ok w ->
  bytes_cmp (encode_int_desc v) (encode_int_desc w) = (w ?= v)%Z.
Proof. exact encode_int_desc_cmp. Qed.
Print Assumptions C12_int_desc_order.

(* ---------- (a) float64 by bit pattern ---------- *)

(* exact round trip except that -0 comes back as +0 (the same float value) *)
Theorem C12_float_roundtrip : forall u r, float_ok u -> decode_float (encode_float u ++ r) = Ok (r, float_norm u).
Proof. exact decode_encode_float. Qed.
Print Assumptions C12_float_roundtrip.

Theorem C12_float_order : forall a b, float_ok a -> float_ok b ->
  bytes_cmp (encode_float a) (encode_float b) = (float_key a ?= float_key b)%Z.
Proof. exact encode_float_cmp. Qed.
Print Assumptions C12_float_order.

(* the model's float order/equality (diffed against Go's < and ==) are exactly the order/equality of the images *)
Theorem C12_float_ltb : forall a b, float_ok a -> float_ok b ->
  float_ltb a b = true <-> float_to_cmp a < float_to_cmp b.
Proof. exact float_ltb_spec. Qed.
Print Assumptions C12_float_ltb.

Theorem C12_float_eqb : forall a b, float_ok a -> float_ok b ->
  float_eqb a b = true <-> float_to_cmp a = float_to_cmp b.
Proof. exact float_eqb_spec. Qed.
Print Assumptions C12_float_eqb.

(* NaN is NOT covered: the clause "for all float64 values" is false of the faithful model *)
Theorem C12_float_nan_refuted :
  exists nan sub, float_is_nan nan = true /\ float_is_nan sub = false /\
    decode_float (encode_float nan) = Ok ([], sub) /\ encode_float nan = encode_float sub.
Proof.
  exists 9221120237041090561, 2251799813685246.
  destruct float_nan_not_roundtrip as (A & B & C & D). auto.
Qed.
Print Assumptions C12_float_nan_refuted.

(* ---------- non-vacuity ---------- *)
Example C12_ex_bytes : encode_bytes [1; 2; 3] = [1; 2; 3; 0; 0; 0; 0; 0; 250] /\
  encode_bytes [1; 2; 3; 4; 5; 6; 7; 8] = [1; 2; 3; 4; 5; 6; 7; 8; 255; 0; 0; 0; 0; 0; 0; 0; 0; 247].
Proof. split; vm_compute; reflexivity. Qed.
Example C12_ex_float_ok : float_ok 13830554455654793216 (* -0.5 *) /\ int64_ok (-9223372036854775808).
Proof. split; [split; vm_compute; reflexivity|unfold int64_ok; lia]. Qed.
