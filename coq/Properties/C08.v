(* Properties/C08.v — C08: commands behave like Redis on ZanRedisDB's per-type keyspaces.
   Only the property theorems (closed by [exact]) and non-vacuity examples.

   Spec  = coq/Data/Spec*.v, the simple reference model (Redis semantics + documented deviations);
   Map   = coq/Data/Map*.v, the rockredis algorithm over structured engine keys (post-fix working tree).
   A trace is the list of replies of a command sequence run from the empty store; a write runs at its raft
   timestamp, a read at the wall clock [now] of the serving node (any value: it is universally quantified).
   Quantifier: all command sequences with strictly increasing positive raft timestamps, both expiry
   policies (compact = true: wait_compact / false: local_deletion), TTL commands included.  The
   implementation is tied to BOTH models on every check run (three-way comparison impl / Map / Spec
   over all five types). *)
From ZV Require Import Common.Bytes Data.Consts Data.Base Data.MapEq Data.Map Data.MapL Data.MapK Data.Spec Data.SpecL Data.SpecK Data.Run
  Data.RepColl Data.RepState Data.RefHS Data.RefCmd Data.RefK Data.RefL Data.MapZ Data.ExpFacts Data.C08Proofs.
Open Scope Z_scope.

(* the unconditional statement *)
Definition C08_full : Prop := forall (compact : bool) (now : Z) (cs : list (Z * cmd)),
  map_trace compact now cs m_init = spec_trace compact now cs s_init.

(* (1) ALL FIVE TYPES, every command of the model — the expiry commands SETEX EXPIRE PERSIST TTL, HEXPIRE HPERSIST HTTL,
   SEXPIRE SPERSIST STTL, ZEXPIRE ZPERSIST ZTTL, LEXPIRE LPERSIST LTTL (Spec: a key whose expiry second is not after
   the second of a command's clock is absent for that command; declared reply conventions in Data/SpecK.v, Data/Exp.v),
   strings SET SETNX GETSET INCR INCRBY APPEND SETRANGE DEL, hashes
   HSET HSETNX HMSET HDEL HINCRBY HCLEAR, sets SADD SREM SPOP SCLEAR, sorted sets ZADD ZINCRBY ZREM ZREMRANGEBYRANK
   ZREMRANGEBYSCORE ZREMRANGEBYLEX ZCLEAR, lists LPUSH RPUSH LPOP RPOP LSET LTRIM LCLEAR, and every read (GET MGET
   GETRANGE STRLEN EXISTS; HGET HMGET HEXISTS HLEN HGETALL HKEYS HVALS HKEYEXIST; SCARD SISMEMBER SMEMBERS SRANDMEMBER
   SKEYEXIST; ZCARD ZSCORE ZRANGE ZREVRANGE ZRANGEBYSCORE ZREVRANGEBYSCORE ZRANGEBYLEX ZCOUNT ZLEXCOUNT ZRANK ZREVRANK
   ZKEYEXIST; LLEN LINDEX LRANGE LKEYEXIST), malformed / failing commands included: the Map model gives the Spec reply,
   command by command.  Hypotheses, both explicit in the statement:
     * [short_enough cs]: fewer than (2^61 - 1000) / 5000 (about 4.6e14) commands, so that no list can use up the
       sequence numbers on one side (every command moves head or tail by at most MAX_BATCH_NUM; invariant LBS);
     * [increasing 0 cs]: needed ONLY under wait_compact, and there only because the generation of a collection
       re-created after a clear or after its expiry is the timestamp of the re-creation (see (1b) for local_deletion
       and C08_full_refuted for equal timestamps). *)
Theorem C08_all_commands : forall (compact : bool) (now : Z) (cs : list (Z * cmd)),
  increasing 0 cs -> short_enough cs ->
  map_trace compact now cs m_init = spec_trace compact now cs s_init.
Proof. exact all_sequences_ref. Qed.
Print Assumptions C08_all_commands.

(* (1b) local_deletion: the order of the timestamps is irrelevant (positive timestamps in any order, equal ones too) *)
Theorem C08_all_commands_local_any_timestamps : forall (now : Z) (cs : list (Z * cmd)),
  positive_ts cs -> short_enough cs -> map_trace false now cs m_init = spec_trace false now cs s_init.
Proof. exact local_all_sequences_ref. Qed.
Print Assumptions C08_all_commands_local_any_timestamps.

(* (1c) the unconditional statement is FALSE of the faithful model: under wait_compact a hash that expires in the
   second of its creation and is written again at the same timestamp is renewed with the generation it already had
   and shows the expired field again (HSET k a 1; HEXPIRE k 0; HSET k b 1; HKEYS k all at ts 5 s).  Open finding of
   C10 (generation = timestamp). *)
Theorem C08_full_refuted : ~ C08_full.
Proof. intros H. exact (equal_ts_expire_breaks (H true 0 equal_ts_expire_cs)). Qed.
Print Assumptions C08_full_refuted.

(* (1d) the clear variant of that collision (SADD k a; SCLEAR k; SADD k b; SMEMBERS k at one timestamp), reported in
   round 1, is repaired in /repo (1dcd66e): the model follows the repaired code and agrees with the reference *)
Theorem C08_equal_timestamps_clear_repaired :
  map_trace true 0 equal_ts_cs m_init = spec_trace true 0 equal_ts_cs s_init.
Proof. exact equal_ts_clear_fixed. Qed.
Print Assumptions C08_equal_timestamps_clear_repaired.

(* (2) the resulting data: after such a sequence every stored hash / set / sorted-set record abstracts (as a finite
   map, current generation only) to the Spec value at the same key, every list record abstracts (values at the
   sequences head..tail) to the Spec list, with the same expiry second, and the string stores are equal *)
Theorem C08_all_commands_data : forall (compact : bool) (now : Z) (cs : list (Z * cmd)),
  increasing 0 cs -> short_enough cs ->
  simS compact (last_ts 0 cs) (map_run compact now cs m_init) (spec_run compact now cs s_init).
Proof.
  intros compact now cs I Sh.
  exact (proj2 (trace_ref compact now cs 0 0 m_init s_init (simS_init compact) (Z.le_refl 0) I (LBS_init) (Z.le_refl 0) Sh)).
Qed.
Print Assumptions C08_all_commands_data.

(* (2b) the table key counter (number of keys stored in a table: strings and collections of every type, an expired
   key counted until it is rewritten or compacted) is the same number in both models; the harness compares it with
   GetTableKeyCount of the implementation at the end of every generated sequence *)
Theorem C08_table_key_counts_agree : forall (compact : bool) (clock : Z) (ms : mstate) (ss : sstate) (t : bytes),
  simS compact clock ms ss -> map_table_count t ms = spec_table_count t ss.
Proof. exact table_counts_agree. Qed.
Print Assumptions C08_table_key_counts_agree.

(* (3) one step, from any related pair of states (incl. failing commands) *)
Theorem C08_step : forall (compact : bool) (clock now ts : Z) (c : cmd) (bnd : Z) (ms : mstate) (ss : sstate),
  simS compact clock ms ss -> 0 <= clock < ts ->
  LBS bnd ms -> 0 <= bnd -> bnd + max_batch_num < seq_room ->
  snd (map_step compact now ts c ms) = snd (spec_step compact now ts c ss) /\
  simS compact ts (fst (map_step compact now ts c ms)) (fst (spec_step compact now ts c ss)).
Proof. exact step_ref. Qed.
Print Assumptions C08_step.

(* (4) strings: the two models are the same function on duplicate-free stores, for every policy and timestamp *)
Theorem C08_kv : forall (compact : bool) (ts : Z) (c : kcmd) (m : kstore),
  NoDup (map fst m) -> MapK.kstep compact ts c m = SpecK.kstep compact ts c m.
Proof. exact kstep_ref. Qed.
Print Assumptions C08_kv.

(* (5) sanity of the reference model *)
Theorem C08_spec_sadd_repeated_member_counts_once : forall m r (s : sset),
  sadd_loop (m :: m :: r) s = sadd_loop (m :: r) s.
Proof. exact spec_sadd_repeated. Qed.
Print Assumptions C08_spec_sadd_repeated_member_counts_once.

Theorem C08_spec_hdel_repeated_field_counts_once : forall f r (h : shash),
  NoDup (map fst h) -> del_loop (f :: f :: r) h = del_loop (f :: r) h.
Proof. exact spec_hdel_repeated. Qed.
Print Assumptions C08_spec_hdel_repeated_field_counts_once.

Theorem C08_spec_last_element_removes_key : forall key f x, key_ok key = true -> subkey_ok f = true ->
  let h := fst (Spec.hdel key [f] [(f, x)]) in Spec.hkeyexist key h = RInt 0 /\ Spec.hlen key h = RInt 0.
Proof. exact spec_last_field_removes_key. Qed.
Print Assumptions C08_spec_last_element_removes_key.

(* LRANGE / LTRIM index normalisation is Redis's rule: start' = max 0 (start or len+start),
   stop' = min (len-1) (stop or len+stop), empty iff stop' < start' or start' >= len *)
Theorem C08_spec_index_rule : forall len start stop a b, SpecL.norm_range len start stop = Some (a, b) ->
  0 <= a <= b /\ b < len /\
  a = Z.max 0 (if start <? 0 then len + start else start) /\
  b = Z.min (len - 1) (if stop <? 0 then len + stop else stop).
Proof. exact spec_norm_range_bounds. Qed.
Print Assumptions C08_spec_index_rule.

Theorem C08_spec_index_rule_empty : forall len start stop, SpecL.norm_range len start stop = None <->
  (Z.min (len - 1) (if stop <? 0 then len + stop else stop) < Z.max 0 (if start <? 0 then len + start else start) \/
   len <= Z.max 0 (if start <? 0 then len + start else start)).
Proof. exact spec_norm_range_empty. Qed.
Print Assumptions C08_spec_index_rule_empty.

(* expiry in the reference model: clocks do not go back, an expired key stays expired *)
Theorem C08_spec_expired_stays_expired : forall compact e t t', 0 < t <= t' ->
  dead compact e t = true -> dead compact e t' = true.
Proof. exact dead_mono. Qed.
Print Assumptions C08_spec_expired_stays_expired.

(* ---------- non-vacuity ---------- *)
Local Open Scope N_scope.
Definition kk : bytes := [116; 58; 107].
Definition ba : bytes := [97]. Definition bb : bytes := [98]. Definition b1 : bytes := [49]. Definition b9 : bytes := [57].
Local Close Scope N_scope.
Definition ex_cs8 : list (Z * cmd) :=
  [ (1, CHmset kk [(ba, b1); (ba, b9); (bb, b1)]);
    (2, CHincrby kk ba 1);
    (3, CSadd kk [ba; ba; bb]);
    (4, CSrem kk [ba; ba]);
    (5, CK (KCset kk b9));
    (6, CK (KCincrby kk 1));
    (7, CHdel kk [bb; bb]);
    (8, CL kk (LCpush false [ba; bb; b1]));
    (9, CL kk (LCtrim (-2) 9223372036854775807));
    (10, CZ kk (ZCadd [(SFin 2, ba); (SFin 1, ba); (SFin 1, bb)]));
    (11, CZ kk (ZCincrby (SFin 0) ba));
    (12, CZ kk (ZCremrangebyrank 1 9223372036854775807));
    (13, QHgetall kk); (14, QSmembers kk); (15, QK (KQget kk)); (16, QL kk (LQrange 0 (-1)));
    (17, QZ kk (ZQrange false 0 (-1) true)) ].
Example C08_ex_admissible : increasing 0 ex_cs8 /\ short_enough ex_cs8.
Proof. split; [cbn; repeat split; reflexivity|]. vm_compute. reflexivity. Qed.
Example C08_ex_trace : spec_trace true 0 ex_cs8 s_init =
  [RNil; RInt 10; RInt 2; RInt 1; RInt 1; RInt 10; RInt 1; RInt 3; RNil; RInt 2; RFloat (SFin 1); RInt 1;
   RArr [RBulk ba; RBulk [49; 48]%N]; RArr [RBulk bb]; RBulk [49; 48]%N; RArr [RBulk bb; RBulk ba];
   RArr [RBulk ba; RFloat (SFin 1)]].
Proof. vm_compute. reflexivity. Qed.

(* TTL commands (wait_compact; timestamps in ns, read clock 100 s): a hash with a 5 s expiry set at second 1 is
   present for the write at second 3 (which keeps the expiry), absent for the write at second 7 (which starts a
   fresh hash without expiry); HDEL on the expired hash replies 0; a string with SETEX 2 at second 8 is gone
   for the reader at second 100; PERSIST keeps the list *)
Definition sec (n : Z) : Z := n * 1000000000.
Definition ex_ttl : list (Z * cmd) :=
  [ (sec 1, CHset false kk ba b1); (sec 1 + 1, CExpire TH kk 5);
    (sec 3, CHset false kk bb b1); (sec 3 + 1, QTtl TH kk);
    (sec 7, CHdel kk [ba]); (sec 7 + 1, CHset false kk b9 b9); (sec 7 + 2, QHkeys kk); (sec 7 + 3, QTtl TH kk);
    (sec 8, CK (KCsetex kk 2 b1)); (sec 8 + 1, QK (KQget kk));
    (sec 9, CL kk (LCpush true [ba])); (sec 9 + 1, CExpire TL kk 1); (sec 9 + 2, CPersist TL kk);
    (sec 12, QL kk LQlen) ].
Example C08_ex_ttl_admissible : increasing 0 ex_ttl /\ short_enough ex_ttl.
Proof. split; [cbn; repeat split; reflexivity|]. vm_compute. reflexivity. Qed.
Example C08_ex_ttl_trace : spec_trace true (sec 100) ex_ttl s_init =
  [RInt 1; RInt 1; RInt 1; RInt (-1); RInt 0; RInt 1; RArr [RBulk b9]; RInt (-1); RNil; RNil; RInt 1; RInt 1; RInt 1; RInt 1].
Proof. vm_compute. reflexivity. Qed.
(* the same sequence read at second 4: the TTL of the hash is visible, the string is not yet written *)
Example C08_ex_ttl_clock : spec_trace true (sec 4) (firstn 4 ex_ttl) s_init = [RInt 1; RInt 1; RInt 1; RInt 2].
Proof. vm_compute. reflexivity. Qed.
