(* Properties/C08.v — C08: commands behave like Redis on ZanRedisDB's per-type keyspaces.
   Only the property theorems (closed by [exact]) and non-vacuity examples.

   Spec  = coq/Data/Spec*.v, the simple reference model (Redis semantics + documented deviations);
   Map   = coq/Data/Map*.v, the rockredis algorithm over structured engine keys (post-fix working tree).
   A trace is the list of replies of a command sequence run from the empty store.  Quantifier: all
   command sequences with strictly increasing positive raft timestamps, both expiry policies
   (compact = true / false).  The implementation is tied to BOTH models on every check run (three-way
   comparison impl / Map / Spec over all five types). *)
From ZV Require Import Common.Bytes Data.Consts Data.Base Data.MapEq Data.Map Data.MapL Data.MapK Data.Spec Data.SpecL Data.SpecK Data.Run
  Data.RepColl Data.RepState Data.RefHS Data.RefCmd Data.RefK Data.RefL Data.MapZ Data.C08Proofs.
Open Scope Z_scope.

(* the unconditional statement *)
Definition C08_full : Prop := forall (compact : bool) (cs : list (Z * cmd)),
  map_trace compact cs m_init = spec_trace cs s_init.

(* (1) ALL FIVE TYPES, every command of the model — strings SET SETNX GETSET INCR INCRBY APPEND SETRANGE DEL, hashes
   HSET HSETNX HMSET HDEL HINCRBY HCLEAR, sets SADD SREM SPOP SCLEAR, sorted sets ZADD ZINCRBY ZREM ZREMRANGEBYRANK
   ZREMRANGEBYSCORE ZREMRANGEBYLEX ZCLEAR, lists LPUSH RPUSH LPOP RPOP LSET LTRIM LCLEAR, and every read (GET MGET
   GETRANGE STRLEN EXISTS; HGET HMGET HEXISTS HLEN HGETALL HKEYS HVALS HKEYEXIST; SCARD SISMEMBER SMEMBERS SRANDMEMBER
   SKEYEXIST; ZCARD ZSCORE ZRANGE ZREVRANGE ZRANGEBYSCORE ZREVRANGEBYSCORE ZRANGEBYLEX ZCOUNT ZLEXCOUNT ZRANK ZREVRANK
   ZKEYEXIST; LLEN LINDEX LRANGE LKEYEXIST), malformed / failing commands included: the Map model gives the Spec reply,
   command by command.  Hypotheses, both explicit in the statement:
     * [short_enough cs]: fewer than (2^61 - 1000) / 5000 (about 4.6e14) commands, so that no list can use up the
       sequence numbers on one side (every command moves head or tail by at most MAX_BATCH_NUM; invariant LBS);
     * [increasing 0 cs]: needed ONLY under wait_compact, and there only because the generation of a re-created
       collection is its creation timestamp (see (1b) for local_deletion and C08_full_refuted for equal timestamps). *)
Theorem C08_all_commands : forall (compact : bool) (cs : list (Z * cmd)),
  increasing 0 cs -> short_enough cs ->
  map_trace compact cs m_init = spec_trace cs s_init.
Proof. exact all_sequences_ref. Qed.
Print Assumptions C08_all_commands.

(* (1b) local_deletion: the timestamps are irrelevant *)
Theorem C08_all_commands_local_any_timestamps : forall (cs : list (Z * cmd)),
  short_enough cs -> map_trace false cs m_init = spec_trace cs s_init.
Proof. exact local_all_sequences_ref. Qed.
Print Assumptions C08_all_commands_local_any_timestamps.

(* (1c) the unconditional statement is FALSE of the faithful model: under wait_compact a set cleared and re-created
   at the timestamp of its creation enumerates the cleared member again (SADD k a; SCLEAR k; SADD k b; SMEMBERS k
   all at ts 5).  Replayed on the Go code with one multi-request list; open finding of C10. *)
Theorem C08_full_refuted : ~ C08_full.
Proof. intros H. exact (equal_ts_breaks (H true equal_ts_cs)). Qed.
Print Assumptions C08_full_refuted.

(* (2) the resulting data: after such a sequence every stored hash / set / sorted-set record abstracts (as a finite
   map, current generation only) to the Spec value at the same key, every list record abstracts (values at the
   sequences head..tail) to the Spec list, and the string stores are equal *)
Theorem C08_all_commands_data : forall (compact : bool) (cs : list (Z * cmd)),
  increasing 0 cs -> short_enough cs ->
  simS compact (last_ts 0 cs) (map_run compact cs m_init) (spec_run cs s_init).
Proof.
  intros compact cs I Sh.
  exact (proj2 (trace_ref compact cs 0 0 m_init s_init (simS_init compact) (Z.le_refl 0) I (LBS_init) (Z.le_refl 0) Sh)).
Qed.
Print Assumptions C08_all_commands_data.

(* (3) one step, from any related pair of states (incl. failing commands) *)
Theorem C08_step : forall (compact : bool) (clock ts : Z) (c : cmd) (bnd : Z) (ms : mstate) (ss : sstate),
  simS compact clock ms ss -> 0 <= clock < ts ->
  LBS bnd ms -> 0 <= bnd -> bnd + max_batch_num < seq_room ->
  snd (map_step compact ts c ms) = snd (spec_step c ss) /\
  simS compact ts (fst (map_step compact ts c ms)) (fst (spec_step c ss)).
Proof. exact step_ref. Qed.
Print Assumptions C08_step.

(* (4) strings: the two models are literally the same function on duplicate-free stores *)
Theorem C08_kv : forall (ts : Z) (c : kcmd) (m : list (bytes * bytes)),
  NoDup (map fst m) -> MapK.kstep ts c m = SpecK.kstep c m.
Proof. exact kstep_ref. Qed.
Print Assumptions C08_kv.

(* (5) sanity of the reference model *)
Theorem C08_spec_sadd_repeated_member_counts_once : forall m r (s : sset),
  sadd_loop (m :: m :: r) s = sadd_loop (m :: r) s.
Proof. exact spec_sadd_repeated. Qed.
Print Assumptions C08_spec_sadd_repeated_member_counts_once.

Theorem C08_spec_hdel_repeated_field_counts_once : forall f r (h : shash),
  NoDup (map fst h) -> del_loop (f :: f :: r) h = del_loop (f :: r) h.
Proof. exact spec_hdel_repeated. Qed.
Print Assumptions C08_spec_hdel_repeated_field_counts_once.

Theorem C08_spec_last_element_removes_key : forall key f x, key_ok key = true -> subkey_ok f = true ->
  let h := fst (Spec.hdel key [f] [(f, x)]) in Spec.hkeyexist key h = RInt 0 /\ Spec.hlen key h = RInt 0.
Proof. exact spec_last_field_removes_key. Qed.
Print Assumptions C08_spec_last_element_removes_key.

(* LRANGE / LTRIM index normalisation is Redis's rule: start' = max 0 (start or len+start),
   stop' = min (len-1) (stop or len+stop), empty iff stop' < start' or start' >= len *)
Theorem C08_spec_index_rule : forall len start stop a b, SpecL.norm_range len start stop = Some (a, b) ->
  0 <= a <= b /\ b < len /\
  a = Z.max 0 (if start <? 0 then len + start else start) /\
  b = Z.min (len - 1) (if stop <? 0 then len + stop else stop).
Proof. exact spec_norm_range_bounds. Qed.
Print Assumptions C08_spec_index_rule.

Theorem C08_spec_index_rule_empty : forall len start stop, SpecL.norm_range len start stop = None <->
  (Z.min (len - 1) (if stop <? 0 then len + stop else stop) < Z.max 0 (if start <? 0 then len + start else start) \/
   len <= Z.max 0 (if start <? 0 then len + start else start)).
Proof. exact spec_norm_range_empty. Qed.
Print Assumptions C08_spec_index_rule_empty.

(* ---------- non-vacuity ---------- *)
Local Open Scope N_scope.
Definition kk : bytes := [116; 58; 107].
Definition ba : bytes := [97]. Definition bb : bytes := [98]. Definition b1 : bytes := [49]. Definition b9 : bytes := [57].
Local Close Scope N_scope.
Definition ex_cs8 : list (Z * cmd) :=
  [ (1, CHmset kk [(ba, b1); (ba, b9); (bb, b1)]);
    (2, CHincrby kk ba 1);
    (3, CSadd kk [ba; ba; bb]);
    (4, CSrem kk [ba; ba]);
    (5, CK (KCset kk b9));
    (6, CK (KCincrby kk 1));
    (7, CHdel kk [bb; bb]);
    (8, CL kk (LCpush false [ba; bb; b1]));
    (9, CL kk (LCtrim (-2) 9223372036854775807));
    (10, CZ kk (ZCadd [(SFin 2, ba); (SFin 1, ba); (SFin 1, bb)]));
    (11, CZ kk (ZCincrby (SFin 0) ba));
    (12, CZ kk (ZCremrangebyrank 1 9223372036854775807));
    (13, QHgetall kk); (14, QSmembers kk); (15, QK (KQget kk)); (16, QL kk (LQrange 0 (-1)));
    (17, QZ kk (ZQrange false 0 (-1) true)) ].
Example C08_ex_admissible : increasing 0 ex_cs8 /\ short_enough ex_cs8.
Proof. split; [cbn; repeat split; reflexivity|]. vm_compute. reflexivity. Qed.
Example C08_ex_trace : spec_trace ex_cs8 s_init =
  [RNil; RInt 10; RInt 2; RInt 1; RInt 1; RInt 10; RInt 1; RInt 3; RNil; RInt 2; RFloat (SFin 1); RInt 1;
   RArr [RBulk ba; RBulk [49; 48]%N]; RArr [RBulk bb]; RBulk [49; 48]%N; RArr [RBulk bb; RBulk ba];
   RArr [RBulk ba; RFloat (SFin 1)]].
Proof. vm_compute. reflexivity. Qed.
