(* Properties/C02.v — C02: replicas never apply different entries at the same index; the hand-out
   is index-increasing without gaps.
   This file contains only property theorems (closed by [exact]) and non-vacuity examples.

   What is here: theorems about the log layer of the fork (raftLog / unstable), stated about the
   model coq/Raft/Model.v, which is diffed against the real raftLog over MemoryStorage and
   RocksStorage on every run. State-machine safety of the protocol over all schedules is proved
   on the abstract protocol in coq/RaftAbs by the raftabs group.

   The abstract-protocol theorems (coq/RaftAbs) are stated at the end of this file. *)
From ZV Require Import Raft.Consts Raft.Model Raft.Proofs Raft.ProofsLog Raft.ProofsStore Raft.ProofsRocks Raft.Core Raft.ProofsCore.
From Coq Require Import List NArith.
Import ListNotations.
Open Scope N_scope.

(* The full statement quantifies over the cluster semantics (all schedules, fault sequences,
   configurations); that semantics is coq/RaftAbs/Model.v and the full theorem is stated there. *)

(* (1) unstable.truncateAndAppend is list surgery: the entries below the first new index are kept,
       everything from it on is replaced by the new entries; offsets follow; never panics when the
       new entries attach without a hole *)
Theorem C02_truncate_and_append_partial : forall u ents after,
  wf_u u -> contig after ents -> ents <> [] -> after <= u_off u + nlen (u_ents u) ->
  exists u', u_truncate_and_append u ents = Ok u' /\
    u_ents u' = filter (fun e => eindex e <? after) (u_ents u) ++ ents /\
    u_off u' = N.min (u_off u) after /\ u_snap u' = u_snap u /\ wf_u u'.
Proof. exact truncate_and_append_surgery. Qed.
Print Assumptions C02_truncate_and_append_partial.

(* (2) unstable.stableTo(i, t) either changes nothing or drops exactly the entries up to i, and
       only when the entry at i has term t *)
Theorem C02_stable_to_drops_prefix : forall u i t,
  wf_u u -> (forall si st, u_snap u = Some (si, st) -> si < u_off u) ->
  exists u', u_stable_to u i t = Ok u' /\
    (u' = u \/
     (u_off u <= i /\ nnth (i - u_off u) (u_ents u) <> None /\
      (forall e, nnth (i - u_off u) (u_ents u) = Some e -> eterm e = t) /\
      u_ents u' = filter (fun e => i <? eindex e) (u_ents u) /\ u_off u' = i + 1 /\ u_snap u' = u_snap u)) /\
    wf_u u'.
Proof. exact stable_to_drops_prefix. Qed.
Print Assumptions C02_stable_to_drops_prefix.

(* (3) limitSize hands out a non-empty prefix: the size limit can shorten a hand-out, never reorder
       it or skip an entry *)
Theorem C02_limit_size_prefix : forall ents max,
  exists k, limit_size ents max = firstn k ents /\ (ents <> [] -> (0 < k)%nat).
Proof. exact limit_size_prefix. Qed.
Print Assumptions C02_limit_size_prefix.

(* (4) raftLog.maybeAppend over MemoryStorage, for every log state with contiguous unstable entries
       that attach to the stored log without a hole, and every contiguous batch of entries:
       if it returns (does not panic) then
       - the commit index only grows, the applied cursor and the storage are untouched,
       - the term found at every index at or below the old commit index is unchanged
         (a conflict at or below the commit index is the panic outcome, see the example below),
       - if the batch was accepted the result is index+len(ents) and, provided the commit index is
         not below the dummy index, the log now holds at every index of the batch the batch's term
         (the log-matching step). *)
Theorem C02_maybe_append_partial : forall l idx lt cm ents r l',
  is_mem l -> wf_u (l_u l) -> contig (idx + 1) ents ->
  (forall lv, l_last_index l = Ok (lv, l) -> u_off (l_u l) <= lv + 1) ->
  l_maybe_append l idx lt cm ents = Ok (r, l') ->
  l_committed l <= l_committed l' /\ l_applied l' = l_applied l /\ l_st l' = l_st l /\ wf_u (l_u l') /\
  (forall i, i <= l_committed l -> term_of (l_term l' i) = term_of (l_term l i)) /\
  (forall n, r = Some n -> n = idx + nlen ents /\
     ((forall fv, l_first_index l = Ok (fv, l) -> fv - 1 <= l_committed l) ->
      forall x, In x ents -> term_of (l_term l' (eindex x)) = Ok (eterm x))).
Proof. exact maybe_append_below_commit. Qed.
Print Assumptions C02_maybe_append_partial.

(* (5) raftLog.slice on a well-formed log over MemoryStorage, for a range inside [firstIndex,
       lastIndex+1): never panics, and returns a non-empty contiguous run starting at lo, each entry
       being the log's entry at its index (from storage below the unstable offset, from the unstable
       entries above), at most hi-lo long (the size limit can only shorten it) *)
Theorem C02_slice_returns_log_entries : forall l m off lo hi max,
  wf_mlog l m off -> mfirst l off <= lo -> lo < hi -> hi <= mlast l m off + 1 ->
  exists es, l_slice l lo hi max = Ok (es, l) /\ good (l_u l) m off lo es /\ nlen es <= hi - lo.
Proof. exact l_slice_spec. Qed.
Print Assumptions C02_slice_returns_log_entries.

(* (6) raftLog.nextEnts: hands out exactly the log's entries from max(applied+1, firstIndex) on,
       contiguous, none beyond the commit index, non-empty whenever something is committed and
       unapplied; nothing otherwise *)
Theorem C02_next_ents_handout : forall l m off,
  wf_mlog l m off -> l_committed l <= mlast l m off ->
  let lo := N.max (l_applied l + 1) (mfirst l off) in
  (lo <= l_committed l ->
     exists es, l_next_ents l = Ok (es, l) /\ good (l_u l) m off lo es /\ (forall e, In e es -> eindex e <= l_committed l)) /\
  (l_committed l < lo -> l_next_ents l = Ok ([], l)).
Proof. exact next_ents_spec. Qed.
Print Assumptions C02_next_ents_handout.

(* (7) node.Advance after a hand-out (applied cursor := index of the last handed-out entry, not the
       commit index): it succeeds, and the next hand-out starts at exactly the next index — the
       hand-out is index-increasing without gaps also when the size limit cut it short *)
Theorem C02_advance_gap_free : forall l m off es,
  wf_mlog l m off -> l_committed l <= mlast l m off ->
  l_next_ents l = Ok (es, l) -> es <> [] ->
  exists l2 e, last_opt es = Some e /\ advance_applied l es 0 = Ok l2 /\
    l_applied l2 = eindex e /\ l_committed l2 = l_committed l /\ l_u l2 = l_u l /\ l_st l2 = l_st l /\
    wf_mlog l2 m off /\
    N.max (l_applied l2 + 1) (mfirst l2 off) = eindex e + 1.
Proof. exact advance_after_handout. Qed.
Print Assumptions C02_advance_gap_free.


(* (7b) Ready.appliedCursor / Advance when the Ready carries a SNAPSHOT and the committed entries after it (MsgSnap and
        the following MsgApp handled by one StepNode): the cursor is the last committed entry — the maximum of the
        snapshot index and every handed-out index — so the next hand-out starts after it and nothing is handed out twice *)
Theorem C02_applied_cursor_is_max : forall cents snap lo, contig lo cents -> cents <> [] -> snap < lo ->
  applied_cursor cents snap = lo + nlen cents - 1 /\
  applied_cursor cents snap = N.max snap (lo + nlen cents - 1) /\
  snap < applied_cursor cents snap /\
  forall x, In x cents -> eindex x <= applied_cursor cents snap.
Proof. exact applied_cursor_max. Qed.
Print Assumptions C02_applied_cursor_is_max.

Theorem C02_advance_after_snapshot_and_entries : forall l cents snap lo l',
  contig lo cents -> cents <> [] -> snap < lo -> advance_applied l cents snap = Ok l' ->
  l_applied l' = lo + nlen cents - 1 /\ snap < l_applied l' /\ (forall x, In x cents -> eindex x <= l_applied l') /\
  l_committed l' = l_committed l /\ l_u l' = l_u l /\ l_st l' = l_st l.
Proof. exact advance_applied_after_snapshot_and_entries. Qed.
Print Assumptions C02_advance_after_snapshot_and_entries.

(* (8) raft.maybeCommit's index selection (sort the voters' Match, take element len-quorum): the chosen
       index is one of the Match values and at least quorum-many voters have Match >= it — an index is
       only offered for commit when a majority of the voter list holds it *)
Theorem C02_commit_index_has_quorum : forall ms c, commit_index ms = Some c ->
  quorum (nlen ms) <= nlen (filter (fun m => c <=? m) ms) /\ In c ms.
Proof. exact commit_index_has_quorum. Qed.
Print Assumptions C02_commit_index_has_quorum.

(* (9) the commit index: commitTo never decreases it; raftLog.maybeCommit(maxIndex, term) moves it only
       to an index above it whose entry carries exactly that term (the leader passes its current term:
       entries of earlier terms are never committed by counting replicas) *)
Theorem C02_commit_to_monotone : forall l c l', l_commit_to l c = Ok l' ->
  l_committed l <= l_committed l' /\ (l_committed l' = l_committed l \/ l_committed l' = c) /\
  l_applied l' = l_applied l /\ l_u l' = l_u l.
Proof. exact commit_to_monotone. Qed.
Print Assumptions C02_commit_to_monotone.

Theorem C02_maybe_commit_current_term_only : forall l mi t b l', l_maybe_commit l mi t = Ok (b, l') ->
  (b = true -> l_committed l < mi /\ l_committed l' = mi /\
               (term_of (l_term l mi) = Ok t \/ (term_of (l_term l mi) = Err ErrCompacted /\ t = 0))) /\
  (b = false -> l_committed l' = l_committed l) /\
  l_applied l' = l_applied l /\ l_u l' = l_u l.
Proof. exact maybe_commit_current_term_only. Qed.
Print Assumptions C02_maybe_commit_current_term_only.

(* (9b) the same two facts on the transcription of raft.maybeCommit in coq/Raft/Core.v (compared with the Go
        handlers case by case on every run): the leader's commit index moves only to an index reached by the
        Match of a majority of the VOTERS (learners' progress is not counted) whose entry has the current term *)
Theorem C02_core_maybe_commit_quorum : forall r r', maybe_commit r = Ok (true, r') ->
  exists mci, committed r' = mci /\ committed r < mci /\
    quorum (nlen (r_prs r)) <= nlen (filter (fun p => mci <=? p_match p) (r_prs r)) /\
    (term_of (l_term (r_log r) mci) = Ok (r_term r) \/ (term_of (l_term (r_log r) mci) = Err ErrCompacted /\ r_term r = 0)).
Proof. exact core_maybe_commit_quorum. Qed.
Print Assumptions C02_core_maybe_commit_quorum.

(* (9c) sendHeartbeat: the commit index a heartbeat carries is at most the destination's Match (and the
        leader's commit index) — a follower is never told to commit an index it has not been matched on *)
Theorem C02_heartbeat_commit_le_match : forall r to r', send_heartbeat r to = Ok r' ->
  exists pr x, get_progress r to = Some pr /\ r_msgs r' = r_msgs r ++ [x] /\ m_type x = msg_heartbeat /\
               m_to x = to /\ m_commit x <= p_match pr /\ m_commit x <= committed r /\ m_ents x = [].
Proof. exact send_heartbeat_commit. Qed.
Print Assumptions C02_heartbeat_commit_le_match.

(* (10) raftLog.restore (snapshot from the leader): commit index = snapshot index, nothing unstable but the
        snapshot, first index right after it, and the term at the snapshot index is the snapshot's *)
Theorem C02_restore_spec : forall l m off si st,
  l_st l = SMem m -> wf_ms m -> ms_offset m = Ok off ->
  let l' := l_restore l si st in
  wf_mlog l' m off /\ l_committed l' = si /\ l_applied l' = l_applied l /\
  mfirst l' off = si + 1 /\ mlast l' m off = si /\
  u_ents (l_u l') = [] /\ u_snap (l_u l') = Some (si, st) /\
  term_of (l_term l' si) = Ok st.
Proof. exact restore_spec. Qed.
Print Assumptions C02_restore_spec.

(* ---------------------------------------------------------------------------------------- *)
(* (11)-(15): the same statements for logs over RocksStorage (the storage used in production). Raft/ProofsRocks.v
   shows that in a good RocksStorage state (cache invariant + contiguous key space containing the snapshot index;
   kept by every operation raft issues, C03_rocks_good_reachable) every raftLog operation gives the result it gives
   over the MemoryStorage holding the same entries (to_mem), whatever the cached first/last index hold. *)

(* (11) maybeAppend simulates: same answer, same panic, and the resulting logs correspond *)
Theorem C02_rocks_maybe_append_simulates : forall l idx lt cm ents, rgood l ->
  sim (l_maybe_append l idx lt cm ents) (l_maybe_append (to_mem l) idx lt cm ents).
Proof. exact sim_maybe_append. Qed.
Print Assumptions C02_rocks_maybe_append_simulates.

Theorem C02_rocks_next_ents_simulates : forall l, rgood l -> sim (l_next_ents l) (l_next_ents (to_mem l)).
Proof. exact sim_next_ents. Qed.
Print Assumptions C02_rocks_next_ents_simulates.

(* (12) = (4) over RocksStorage *)
Theorem C02_rocks_maybe_append_partial : forall l idx lt cm ents r l',
  rgood l -> wf_u (l_u l) -> contig (idx + 1) ents ->
  (forall lv l1, l_last_index l = Ok (lv, l1) -> u_off (l_u l) <= lv + 1) ->
  l_maybe_append l idx lt cm ents = Ok (r, l') ->
  l_committed l <= l_committed l' /\ l_applied l' = l_applied l /\ rgood l' /\ wf_u (l_u l') /\
  (forall i, i <= l_committed l -> term_of (l_term l' i) = term_of (l_term l i)) /\
  (forall n, r = Some n -> n = idx + nlen ents /\
     ((forall fv l1, l_first_index l = Ok (fv, l1) -> fv - 1 <= l_committed l) ->
      forall x, In x ents -> term_of (l_term l' (eindex x)) = Ok (eterm x))).
Proof. exact maybe_append_rocks. Qed.
Print Assumptions C02_rocks_maybe_append_partial.

(* (13) = (5) over RocksStorage: r_log_entry reads the unstable part, else the engine's key i *)
Theorem C02_rocks_slice_returns_log_entries : forall l s lo hi max,
  wf_rlog l s -> mfirst l (rs_off s) <= lo -> lo < hi -> hi <= rlast l s + 1 ->
  exists es l', l_slice l lo hi max = Ok (es, l') /\ rgood l' /\ to_mem l' = to_mem l /\
                rgood_ents (l_u l) s lo es /\ nlen es <= hi - lo.
Proof. exact slice_spec_rocks. Qed.
Print Assumptions C02_rocks_slice_returns_log_entries.

(* (14) = (6) over RocksStorage *)
Theorem C02_rocks_next_ents_handout : forall l s,
  wf_rlog l s -> l_committed l <= rlast l s ->
  let lo := N.max (l_applied l + 1) (mfirst l (rs_off s)) in
  (lo <= l_committed l ->
     exists es l', l_next_ents l = Ok (es, l') /\ rgood l' /\ to_mem l' = to_mem l /\
                   rgood_ents (l_u l) s lo es /\ (forall e, In e es -> eindex e <= l_committed l)) /\
  (l_committed l < lo -> exists l', l_next_ents l = Ok ([], l') /\ rgood l' /\ to_mem l' = to_mem l).
Proof. exact next_ents_spec_rocks. Qed.
Print Assumptions C02_rocks_next_ents_handout.

(* (15) = (7) over RocksStorage *)
Theorem C02_rocks_advance_gap_free : forall l s es l1,
  wf_rlog l s -> l_committed l <= rlast l s ->
  l_next_ents l = Ok (es, l1) -> es <> [] ->
  exists l2 e, last_opt es = Some e /\ advance_applied l1 es 0 = Ok l2 /\
    l_applied l2 = eindex e /\ l_committed l2 = l_committed l /\ l_u l2 = l_u l /\ rgood l2 /\
    N.max (l_applied l2 + 1) (mfirst l2 (rs_off s)) = eindex e + 1.
Proof. exact advance_after_handout_rocks. Qed.
Print Assumptions C02_rocks_advance_gap_free.

(* ====================================================================================== *)
(* The property over all schedules, on the abstract protocol of coq/RaftAbs (Model.v: per-node term /
   vote / role / log / commit / configuration, the network as grant, ack and campaign records, crash and
   restart from the persisted part, snapshots as compacted prefixes). "_fixed": every node keeps its
   configuration (any voter list, any learner list) — no hypothesis. "_reconf_partial": arbitrary
   configuration changes under the explicit hypothesis Overlap (any two voter lists a majority was
   counted over have intersecting majorities). The tie to the Go code: every check run replays traces of
   the real cluster through the extracted acceptor (RaftAbs/Acceptor.v, proved sound in
   AcceptorSound.v): an accepted trace is a trace of this protocol. *)
From ZV Require RaftAbs.Theorems.
Module AM := ZV.RaftAbs.Model. Module AS := ZV.RaftAbs.Safety. Module AL := ZV.RaftAbs.ListFacts.
Module AI := ZV.RaftAbs.Inv. Module AA := ZV.RaftAbs.Acceptor. Module AT := ZV.RaftAbs.Theorems.

Theorem C02_log_matching_fixed : forall (cf : AM.config) (log0 : list AM.entry), AM.init_ok cf log0 ->
  forall s, AM.steps_fixed (AM.init cf log0) s ->
  forall (i j k : nat) e e',
    nth_error (AM.log (AM.nodes s i)) k = Some e -> nth_error (AM.log (AM.nodes s j)) k = Some e' ->
    AM.eterm e = AM.eterm e' ->
    firstn (S k) (AM.log (AM.nodes s i)) = firstn (S k) (AM.log (AM.nodes s j)).
Proof. exact AT.log_matching_fixed. Qed.
Print Assumptions C02_log_matching_fixed.

(* state-machine safety: two nodes agree on every index both have committed *)
Theorem C02_state_machine_safety_fixed : forall (cf : AM.config) (log0 : list AM.entry), AM.init_ok cf log0 ->
  forall s, AM.steps_fixed (AM.init cf log0) s ->
  forall (i j k : nat) e e',
    (k < AM.commit (AM.nodes s i))%nat -> (k < AM.commit (AM.nodes s j))%nat ->
    nth_error (AM.log (AM.nodes s i)) k = Some e -> nth_error (AM.log (AM.nodes s j)) k = Some e' -> e = e'.
Proof. exact AT.state_machine_safety_fixed. Qed.
Print Assumptions C02_state_machine_safety_fixed.

(* every node's application cursor stays inside the global committed log *)
Theorem C02_applied_prefix_global_fixed : forall (cf : AM.config) (log0 : list AM.entry), AM.init_ok cf log0 ->
  forall s, AM.steps_fixed (AM.init cf log0) s ->
  forall j : nat, (AM.app s j <= length (AM.gcommit s))%nat.
Proof. exact AT.applied_prefix_global_fixed. Qed.
Print Assumptions C02_applied_prefix_global_fixed.

(* an index applied anywhere is never replaced later, whatever happens next (crash/restart included) *)
Theorem C02_applied_never_replaced_fixed : forall (cf : AM.config) (log0 : list AM.entry), AM.init_ok cf log0 ->
  forall s, AM.steps_fixed (AM.init cf log0) s ->
  forall s' (i j k : nat), AM.steps_fixed s s' -> (k < AM.app s i)%nat -> (k < AM.app s' j)%nat ->
    nth_error (AM.gcommit s') k = nth_error (AM.gcommit s) k.
Proof. exact AT.applied_never_replaced_fixed. Qed.
Print Assumptions C02_applied_never_replaced_fixed.

Theorem C02_state_machine_safety_reconf_partial : forall (cf : AM.config) (log0 : list AM.entry), AM.init_ok cf log0 ->
  forall s, AM.reachable cf log0 s -> AI.Overlap s ->
  forall (i j k : nat) e e',
    (k < AM.commit (AM.nodes s i))%nat -> (k < AM.commit (AM.nodes s j))%nat ->
    nth_error (AM.log (AM.nodes s i)) k = Some e -> nth_error (AM.log (AM.nodes s j)) k = Some e' -> e = e'.
Proof. exact AT.state_machine_safety_reconf_partial. Qed.
Print Assumptions C02_state_machine_safety_reconf_partial.


(* what remains unproved: state-machine safety for every protocol run under arbitrary configuration changes
   with neither Overlap nor the per-step checks of steps_ok (see the _checked theorems below) *)
Definition C02_full : Prop :=
  forall (cf : AM.config) (log0 : list AM.entry), AM.init_ok cf log0 ->
  forall s, AM.reachable cf log0 s ->
  forall (i j k : nat) e e',
    (k < AM.commit (AM.nodes s i))%nat -> (k < AM.commit (AM.nodes s j))%nat ->
    nth_error (AM.log (AM.nodes s i)) k = Some e -> nth_error (AM.log (AM.nodes s j)) k = Some e' -> e = e'.

(* every node's committed prefix is a prefix of the global committed log *)
Theorem C02_committed_prefix_global_fixed : forall (cf : AM.config) (log0 : list AM.entry), AM.init_ok cf log0 ->
  forall s, AM.steps_fixed (AM.init cf log0) s ->
  forall j : nat, (AM.commit (AM.nodes s j) <= length (AM.log (AM.nodes s j)))%nat /\
    AL.prefix (firstn (AM.commit (AM.nodes s j)) (AM.log (AM.nodes s j))) (AM.gcommit s).
Proof. exact AT.committed_prefix_global_fixed. Qed.
Print Assumptions C02_committed_prefix_global_fixed.


(* runs checked step by step ("steps_ok": every step additionally satisfies the two decidable conditions the
   acceptor evaluates — a candidate only wins a term without an elected leader, a leader only commits a prefix
   comparable with the committed log): arbitrary membership changes, NO Overlap hypothesis. Every accepted
   implementation trace is such a run (accepted_run_checked, stated in Properties/C03.v). *)
Theorem C02_log_matching_checked : forall (cf : AM.config) (log0 : list AM.entry), AM.init_ok cf log0 ->
  forall s, AS.steps_ok (AM.init cf log0) s ->
  forall (i j k : nat) e e',
    nth_error (AM.log (AM.nodes s i)) k = Some e -> nth_error (AM.log (AM.nodes s j)) k = Some e' ->
    AM.eterm e = AM.eterm e' ->
    firstn (S k) (AM.log (AM.nodes s i)) = firstn (S k) (AM.log (AM.nodes s j)).
Proof. exact AT.log_matching_checked. Qed.
Print Assumptions C02_log_matching_checked.

Theorem C02_state_machine_safety_checked : forall (cf : AM.config) (log0 : list AM.entry), AM.init_ok cf log0 ->
  forall s, AS.steps_ok (AM.init cf log0) s ->
  forall (i j k : nat) e e',
    (k < AM.commit (AM.nodes s i))%nat -> (k < AM.commit (AM.nodes s j))%nat ->
    nth_error (AM.log (AM.nodes s i)) k = Some e -> nth_error (AM.log (AM.nodes s j)) k = Some e' -> e = e'.
Proof. exact AT.state_machine_safety_checked. Qed.
Print Assumptions C02_state_machine_safety_checked.

Theorem C02_applied_never_replaced_checked : forall (cf : AM.config) (log0 : list AM.entry), AM.init_ok cf log0 ->
  forall s, AS.steps_ok (AM.init cf log0) s ->
  forall s' (i j k : nat), AS.steps_ok s s' -> (k < AM.app s i)%nat -> (k < AM.app s' j)%nat ->
    nth_error (AM.gcommit s') k = nth_error (AM.gcommit s) k.
Proof. exact AT.applied_never_replaced_checked. Qed.
Print Assumptions C02_applied_never_replaced_checked.

(* ---------- non-vacuity ---------- *)
Example C02_ex_truncate :
  u_truncate_and_append (mkU None [mkE 1 5 1 10; mkE 1 6 2 10; mkE 1 7 3 10] 5) [mkE 2 6 9 10] =
  Ok (mkU None [mkE 1 5 1 10; mkE 2 6 9 10] 5).
Proof. vm_compute. reflexivity. Qed.
Example C02_ex_conflict_below_commit_panics :
  (* a conflicting entry at a committed index is a panic, not a silent overwrite *)
  match new_log (SMem ms_new) no_limit with
  | Ok l0 =>
    match l_append l0 [mkE 1 1 7 10; mkE 1 2 8 10] with
    | Ok (_, l1) => match l_commit_to l1 2 with
                    | Ok l2 => l_maybe_append l2 1 1 2 [mkE 2 2 9 10] = Panic
                    | _ => False end
    | _ => False end
  | _ => False end.
Proof. vm_compute. reflexivity. Qed.
Example C02_ex_handout :
  (* storage holds 1..3, unstable holds 4..5, committed 4, applied 1, one entry per hand-out *)
  let m := mkMS 0 0 [mkE 0 0 0 0; mkE 1 1 11 10; mkE 1 2 12 10; mkE 1 3 13 10] in
  let l := mkL (SMem m) (mkU None [mkE 2 4 14 10; mkE 2 5 15 10] 4) 4 1 0 in
  wf_mlog l m 0 /\ l_next_ents l = Ok ([mkE 1 2 12 10], l) /\
  l_next_ents (mkL (SMem m) (mkU None [mkE 2 4 14 10; mkE 2 5 15 10] 4) 4 1 no_limit) =
    Ok ([mkE 1 2 12 10; mkE 1 3 13 10; mkE 2 4 14 10], mkL (SMem m) (mkU None [mkE 2 4 14 10; mkE 2 5 15 10] 4) 4 1 no_limit).
Proof.
  split; [|split; vm_compute; reflexivity].
  unfold wf_mlog. cbn. repeat split; try (vm_compute; reflexivity); try discriminate.
  exists (mkE 0 0 0 0), [mkE 1 1 11 10; mkE 1 2 12 10; mkE 1 3 13 10]. split; [reflexivity|]. cbn. repeat split.
Qed.
Example C02_ex_rocks_handout :
  (* the engine holds 1..3 after a restart of the storage object, committed 3, applied 1: nextEnts hands out 2..3 *)
  let s := fold_left rs_step [RAppend [mkE 1 1 11 10; mkE 1 2 12 10; mkE 1 3 13 10]; RReopen] rs_new in
  match new_log (SRocks s) no_limit with
  | Ok l => match l_next_ents (set_applied (set_committed l 3) 1) with
            | Ok (es, _) => es = [mkE 1 2 12 10; mkE 1 3 13 10]
            | _ => False end
  | _ => False end.
Proof. vm_compute. reflexivity. Qed.
Example C02_ex_applied_cursor : applied_cursor [mkE 3 10 0 0; mkE 3 11 0 0] 9 = 11 /\ applied_cursor [] 9 = 9 /\
                                applied_cursor [mkE 3 10 0 0] 0 = 10 /\ applied_cursor [] 0 = 0.
Proof. vm_compute. repeat split. Qed.
