(* Properties/C15.v — C15: every key is served by exactly one partition, the one clients compute.
   This file contains only the property theorems (closed by [exact]) and non-vacuity examples. *)
From ZV Require Import Common.Bytes Part.Consts Part.Model Part.Proofs.
From Coq Require Import Permutation.
Open Scope N_scope.

(* (1) the partition index is in range for every key and every partition count >= 1
       (in particular 1..1024), and exists iff the count is positive *)
Theorem C15_partition_in_range : forall (pk : bytes) (n : N), 0 < n -> part_of pk n < n.
Proof. exact part_of_lt. Qed.
Print Assumptions C15_partition_in_range.

Theorem C15_partition_defined_iff : forall pk n, (exists p, part pk n = Some p /\ p < n) <-> 0 < n.
Proof. exact part_some_iff. Qed.
Print Assumptions C15_partition_defined_iff.

(* (2) exactly one partition: the mapping is a function *)
Theorem C15_partition_unique : forall pk n p q, part pk n = Some p -> part pk n = Some q -> p = q.
Proof. exact part_functional. Qed.
Print Assumptions C15_partition_unique.

(* (3) the hash is a uint32, so Go's int(uint32) % n never sees a negative dividend *)
Theorem C15_hash_is_uint32 : forall pk, hashed_key pk < 2 ^ 32.
Proof. exact hashed_key_lt. Qed.
Print Assumptions C15_hash_is_uint32.

(* (4) namespace extraction splits at the first separator, namespace non-empty *)
Theorem C15_extract_namespace : forall raw ns real,
  extract_namespace raw = Some (ns, real) ->
  raw = ns ++ ns_sep :: real /\ ns <> [] /\ ~ In ns_sep ns.
Proof. exact extract_namespace_spec. Qed.
Print Assumptions C15_extract_namespace.

(* (5) grouping of a multi-key command: the sub-command sent to partition p carries exactly the
       keys routed to p, in argument order and with multiplicity; no empty sub-command; the
       dispatched keys are a permutation of the received ones *)
Theorem C15_group_exact : forall pnum keys p,
  group_of p (group_keys pnum keys) = filter (fun k => part_of (route_key k) pnum =? p) keys.
Proof. intros; apply (group_by_filter (fun k => part_of (route_key k) pnum)). Qed.
Print Assumptions C15_group_exact.

Theorem C15_group_entries : forall pnum keys p m,
  In (p, m) (group_keys pnum keys) ->
  m = filter (fun k => part_of (route_key k) pnum =? p) keys /\ m <> [].
Proof. intros pnum keys; apply (group_by_entries (fun k => part_of (route_key k) pnum)). Qed.
Print Assumptions C15_group_entries.

Theorem C15_group_perm : forall pnum keys,
  Permutation (concat (map snd (group_keys pnum keys))) keys.
Proof. intros; apply (group_by_perm (fun k => part_of (route_key k) pnum)). Qed.
Print Assumptions C15_group_perm.

Theorem C15_group_kv_exact : forall pnum kvs p,
  group_of p (group_kvs pnum kvs) = filter (fun kv => part_of (route_key (fst kv)) pnum =? p) kvs.
Proof. intros; apply (group_by_filter (fun kv => part_of (route_key (fst kv)) pnum)). Qed.
Print Assumptions C15_group_kv_exact.

(* (6) combined replies equal the single-store replies, for all key lists (duplicates included)
       and all stores; the per-partition stores after DEL are the slices of the single store *)
Theorem C15_merged_del : forall pnum ks s, merged_del pnum ks s = fst (del_keys ks s).
Proof. exact merged_del_eq. Qed.
Print Assumptions C15_merged_del.

Theorem C15_merged_exists : forall pnum ks s, merged_exists pnum ks s = exists_keys ks s.
Proof. exact merged_exists_eq. Qed.
Print Assumptions C15_merged_exists.

Theorem C15_merged_del_store : forall pnum ks s p,
  snd (del_keys (group_of p (group_keys pnum ks)) (pstore pnum s p)) =
  pstore pnum (snd (del_keys ks s)) p.
Proof. exact merged_del_store. Qed.
Print Assumptions C15_merged_del_store.

(* (7) PLSET: one status per key/value pair; all OK when all partitions succeed.
   (The positional attribution of statuses when one partition fails follows Go map order in
   server/merge.go and is therefore stated only as a count; see DESIGN.md P1.) *)
Theorem C15_plset_all_ok : forall pnum kvs,
  plset_reply (fun _ => true) (group_kvs pnum kvs) = repeat true (length kvs).
Proof. exact plset_reply_all_ok. Qed.
Print Assumptions C15_plset_all_ok.

Theorem C15_plset_count : forall ok pnum kvs,
  length (plset_reply ok (group_kvs pnum kvs)) = length kvs.
Proof. exact plset_reply_length. Qed.
Print Assumptions C15_plset_count.

(* ---------- non-vacuity: concrete values ---------- *)
(* "hello" hashes to the reference MurmurHash3_x86_32 value 613153351 *)
Example C15_ex_hello : hashed_key [104;101;108;108;111] = 613153351.
Proof. vm_compute. reflexivity. Qed.
Example C15_ex_group :
  group_keys 4 [[110;58;97]; [110;58;98]; [110;58;97]; [110;58;99]] <> [] /\
  fst (del_keys [[110;58;97]; [110;58;98]; [110;58;97]] [[110;58;97]; [110;58;120]]) = 1.
Proof. split; [vm_compute; discriminate|vm_compute; reflexivity]. Qed.

(* (8) PLSET data: for every pair list (duplicates included) and every key, the value found in the
   store of the key's own partition after the merged PLSET is the value a single store would hold
   after the same SETs in order *)
Theorem C15_plset_value : forall pnum l k, plset_get pnum l k = kv_get k (apply_sets l []).
Proof. exact plset_get_eq. Qed.
Print Assumptions C15_plset_value.

(* (9) the partition count used for routing is always the newest configured one: for every history
   of partition initialisations (also with a changed count while partitions of the old generation
   are still registered) and stops, a served command is served by the partition the client computes
   from the newest configured count, which is hosted; otherwise it is rejected *)
From ZV Require Import Part.NsMeta Part.NsMetaProofs.
Theorem C15_route_uses_newest_conf : forall evs pk p,
  ns_route (ns_run evs) pk = Served p ->
  exists n, newest_conf evs None = Some n /\ 0 < n /\ p = part_of pk n /\ In p (hosted (ns_run evs)).
Proof. exact ns_route_correct. Qed.
Print Assumptions C15_route_uses_newest_conf.

Example C15_ex_reconf :
  ns_route (ns_run [NsInit 0 2; NsInit 1 2; NsStop 0; NsInit 0 3; NsInit 2 3]) [116;58;97] <> Rejected.
Proof. vm_compute. discriminate. Qed.

(* (10) a merged multi-key command dispatches every key to its own hosted partition, or is rejected as a
   whole when some key's partition is not hosted here — never answered from a subset of the keys *)
Theorem C15_merged_all_or_reject : forall s pks l,
  ns_route_all s pks = Some l ->
  length l = length pks /\ forall i pk, nth_error pks i = Some pk ->
                                        exists p, nth_error l i = Some p /\ ns_route s pk = Served p.
Proof. exact ns_route_all_some. Qed.
Print Assumptions C15_merged_all_or_reject.

Theorem C15_merged_rejects_unhosted : forall s pks pk,
  In pk pks -> ns_route s pk = Rejected -> ns_route_all s pks = None.
Proof. exact ns_route_all_rejects. Qed.
Print Assumptions C15_merged_rejects_unhosted.

(* (11) MGET is the one multi-key command the server does not split over the partitions: it is executed by the
   partition of its first key, and only when that partition owns EVERY key; otherwise it is rejected. When it is
   answered, the values are those of one store holding all the data — never "missing" for a key that exists in
   another partition. *)
Theorem C15_mget_served_by_owner : forall pnum ks p,
  mget_route pnum ks = Some p -> ks <> [] /\ forall k, In k ks -> part_of (route_key k) pnum = p.
Proof. exact mget_route_owner. Qed.
Print Assumptions C15_mget_served_by_owner.

Theorem C15_mget_rejected_iff : forall pnum ks,
  mget_route pnum ks = None <->
  ks = [] \/ exists k0 r k, ks = k0 :: r /\ In k r /\ part_of (route_key k) pnum <> part_of (route_key k0) pnum.
Proof. exact mget_route_none. Qed.
Print Assumptions C15_mget_rejected_iff.

Theorem C15_mget_as_one_store : forall pnum ks s vs,
  mget_reply pnum ks s = Some vs -> vs = map (fun k => kv_get k s) ks.
Proof. exact mget_reply_single_store. Qed.
Print Assumptions C15_mget_as_one_store.

Example C15_ex_mget :
  mget_reply 6 [[116;58;97]; [116;58;97]] [([116;58;97], [49])] = Some [Some [49]; Some [49]] /\
  exists b, mget_reply 6 [[116;58;97]; b] [([116;58;97], [49]); (b, [50])] = None.
Proof. split; [vm_compute; reflexivity|]. exists [116;58;98]. vm_compute. reflexivity. Qed.

(* (11b) on a node that hosts only some partitions, an MGET is answered only when every key is served here by
   the same partition; a key whose partition is not hosted (or not ready) makes the command fail — it is never
   read in the first key's partition *)
Theorem C15_mget_on_partial_node : forall s pks p,
  ns_mget_route s pks = Some p -> pks <> [] /\ forall pk, In pk pks -> ns_route s pk = Served p.
Proof. exact ns_mget_route_served. Qed.
Print Assumptions C15_mget_on_partial_node.

Theorem C15_mget_rejects_unhosted : forall s pks pk,
  In pk pks -> ns_route s pk = Rejected -> ns_mget_route s pks = None.
Proof. exact ns_mget_route_rejects_unhosted. Qed.
Print Assumptions C15_mget_rejects_unhosted.

(* (12) a partition's part of a merged DEL / EXISTS fails when it names more than [lim] keys (MAX_BATCH_NUM); a
   failed part fails the whole command. So the answer is the one-store count or an error, never the count of the
   other parts alone. *)
Theorem C15_merged_exists_count_or_error : forall lim pnum ks s c,
  merged_exists_lim lim pnum ks s = Some c -> c = exists_keys ks s.
Proof. exact merged_exists_lim_eq. Qed.
Print Assumptions C15_merged_exists_count_or_error.

Theorem C15_merged_del_count_or_error : forall lim pnum ks s c,
  merged_del_lim lim pnum ks s = Some c -> c = fst (del_keys ks s).
Proof. exact merged_del_lim_eq. Qed.
Print Assumptions C15_merged_del_count_or_error.

Theorem C15_merged_error_iff_part_over_limit : forall lim pnum ks s,
  merged_exists_lim lim pnum ks s = None <->
  exists p l, In (p, l) (group_keys pnum ks) /\ (lim < length l)%nat.
Proof. exact merged_lim_error_iff. Qed.
Print Assumptions C15_merged_error_iff_part_over_limit.

Example C15_ex_limit :
  merged_exists_lim 1 2 [[116;58;97]; [116;58;97]] [[116;58;97]] = None /\
  merged_exists_lim 2 2 [[116;58;97]; [116;58;97]] [[116;58;97]] = Some 2.
Proof. vm_compute. split; reflexivity. Qed.

(* (13) the name under which a partition's replica group is registered (namespace ++ "-" ++ decimal index) is
   injective: no two (namespace, partition) pairs share a group — also for namespaces whose names end in digits
   or contain '-' ("vq1" partition 10 vs "vq11" partition 0). *)
From ZV Require Import Part.NsName Part.NsNameProofs.
Theorem C15_group_name_injective : forall ns ns' p p',
  ns_desp ns p = ns_desp ns' p' -> ns = ns' /\ p = p'.
Proof. exact ns_desp_inj. Qed.
Print Assumptions C15_group_name_injective.

Example C15_ex_group_names : ns_desp [118;113;49] 10 <> ns_desp [118;113;49;49] 0.
Proof. vm_compute. discriminate. Qed.
