(* Properties/C09.v — C09: counting commands always agree with enumerating commands.
   Only the property theorems (closed by [exact]) and non-vacuity examples.

   Model: coq/Data/Map*.v (the rockredis algorithm over structured engine keys, post-fix working tree),
   run by Run.map_step / map_run from the empty store.  Quantifier: ALL command sequences cs (writes,
   reads, failing commands) whose raft timestamps are strictly increasing and positive
   ([increasing 0 cs]; production proposes every entry with its own time.Now().UnixNano()), under BOTH
   expiry policies (compact = true: wait_compact generations; false: local_deletion), after EVERY prefix,
   the expiry commands included (EXPIRE / PERSIST of every type, SETEX); the agreement is stated for what a reader with
   ANY wall clock [now] sees (an expired collection is seen as absent: Run.xview). *)
From ZV Require Import Common.Bytes Data.Consts Data.Base Data.Map Data.MapZ Data.MapL Data.Run
  Data.RepColl Data.RepHS Data.RepL Data.RepZ Data.RepRead Data.RepState Data.PreFix Data.ExpFacts Data.C09Proofs.
Open Scope Z_scope.

(* (1) the representation invariant holds after every command sequence: stored size = number of element
       keys of the current generation and never 0; zset member->score and score->member keys in bijection;
       list element keys are exactly the sequences head..tail; no element key without a meta key under
       local_deletion; element keys unique *)
Theorem C09_invariant_after_every_sequence : forall (compact : bool) (now : Z) (cs : list (Z * cmd)),
  increasing 0 cs -> RepS compact (last_ts 0 cs) (map_run compact now cs m_init).
Proof. exact rep_all_sequences. Qed.
Print Assumptions C09_invariant_after_every_sequence.

(* (2) one step, including commands that fail: the invariant is kept by every command whose timestamp is
       above everything applied so far *)
Theorem C09_invariant_step : forall (compact : bool) (clock now ts : Z) (c : cmd) (s : mstate),
  RepS compact clock s -> 0 <= clock < ts -> RepS compact ts (fst (map_step compact now ts c s)).
Proof. exact map_step_rep. Qed.
Print Assumptions C09_invariant_step.

(* (3) the invariant read back through the read commands, for every key:
       hash  HLEN = |HGETALL| = |HKEYS| = |HVALS|, fields unique, HKEYEXIST = (count >= 1), HGET/HEXISTS find every enumerated field;
       set   SCARD = |SMEMBERS|, members unique, SKEYEXIST, SISMEMBER = 1 for every enumerated member;
       zset  ZCARD = |ZRANGE 0 -1| = |ZRANGEBYSCORE -inf +inf| = |ZRANGEBYLEX - +| (the first two equal as lists,
             the third a permutation of the members), members unique, ZKEYEXIST, ZSCORE = the enumerated score;
       list  LLEN = |LRANGE 0 -1|, LKEYEXIST, LINDEX returns every enumerated element at an index below LLEN *)
Theorem C09_counts_agree_with_enumerations : forall (compact : bool) (clock now : Z) (s : mstate) (key : bytes),
  RepS compact clock s -> all_agree compact now s key.
Proof. exact reps_all_agree. Qed.
Print Assumptions C09_counts_agree_with_enumerations.

(* (4) the property: after every prefix of every command sequence *)
Theorem C09_after_every_prefix : forall (compact : bool) (now now' : Z) (cs : list (Z * cmd)) (key : bytes) (n : nat),
  increasing 0 cs -> all_agree compact now' (map_run compact now (firstn n cs) m_init) key.
Proof. exact agree_every_prefix. Qed.
Print Assumptions C09_after_every_prefix.

(* (4b) local_deletion: for ARBITRARY timestamps (the collections do not depend on them there) *)
Theorem C09_local_any_timestamps : forall (now now' : Z) (cs : list (Z * cmd)) (key : bytes),
  all_agree false now' (map_run false now cs m_init) key.
Proof. exact agree_local_any_timestamps. Qed.
Print Assumptions C09_local_any_timestamps.

(* (4c) under wait_compact the increasing-timestamp hypothesis can not be dropped: HSET k a 1; HEXPIRE k 0; HSET k b 1
   all at ts 5 s leave HLEN 1 with two fields in HKEYS (the hash expired in the second of its creation is renewed
   with the generation it already had; open finding of C10).  The clear variant reported in round 1 (HSETNX; HCLEAR;
   HSETNX at one timestamp) is repaired in /repo (1dcd66e) and in the model: C09_equal_timestamps_clear_repaired *)
Theorem C09_equal_timestamps_refuted :
  let c := x_r (alook (x0 empty_coll) k_ts (m_hash (map_run true 0 equal_ts_hash m_init))) in
  Map.hlen k_ts c = RInt 1 /\ Map.hkeys k_ts c = rbulks [b_a; b_b].
Proof. exact equal_ts_breaks_agree. Qed.
Print Assumptions C09_equal_timestamps_refuted.

Theorem C09_equal_timestamps_clear_repaired :
  let c := x_r (alook (x0 empty_coll) k_ts (m_hash (map_run true 0 equal_ts_clear m_init))) in
  Map.hlen k_ts c = RInt 1 /\ Map.hkeys k_ts c = rbulks [b_b].
Proof. exact equal_ts_clear_ok. Qed.
Print Assumptions C09_equal_timestamps_clear_repaired.

(* (5) refuted on the code as it was before the fix commits (definitions of Data/PreFix.v): a member, field
       or score pair repeated inside one SADD / SREM / HMSET / HDEL / ZADD / ZREM, a ZINCRBY that leaves the
       score unchanged, and LTRIM with both indexes before the head break the agreement.  The witnesses are
       the inputs of corpus/C09, replayed on the pre-fix Go code (see known_findings.d/data.jsonl). *)
Theorem C09_prefix_sadd_refuted :
  exists c, c = fst (sadd_pre false 1 k_ts [b_m; b_m] empty_coll) /\
            Map.scard k_ts c = RInt 2 /\ Map.smembers k_ts c = rbulks [b_m].
Proof. exists after_sadd_pre. split; [reflexivity|exact sadd_pre_breaks]. Qed.
Print Assumptions C09_prefix_sadd_refuted.

Theorem C09_prefix_srem_refuted :
  Map.scard k_ts after_srem_pre = RInt 1 /\
  Map.sismember k_ts b_x after_srem_pre = RInt 1 /\ Map.sismember k_ts b_y after_srem_pre = RInt 1.
Proof. exact srem_pre_breaks. Qed.
Print Assumptions C09_prefix_srem_refuted.

Theorem C09_prefix_hmset_refuted :
  Map.hlen k_ts after_hmset_pre = RInt 2 /\ Map.hkeys k_ts after_hmset_pre = rbulks [b_f].
Proof. exact hmset_pre_breaks. Qed.
Print Assumptions C09_prefix_hmset_refuted.

Theorem C09_prefix_hdel_refuted :
  Map.hlen k_ts after_hdel_pre = RInt 1 /\ Map.hkeys k_ts after_hdel_pre = rbulks [b_b; b_c].
Proof. exact hdel_pre_breaks. Qed.
Print Assumptions C09_prefix_hdel_refuted.

Theorem C09_prefix_zadd_refuted :
  zquery k_ts ZQcard after_zadd_pre = RInt 2 /\
  zquery k_ts (ZQrange false 0 (-1) false) after_zadd_pre = rbulks [b_m; b_m] /\
  zquery k_ts (ZQrangebylex None None false false 0 (-1)) after_zadd_pre = rbulks [b_m].
Proof. exact zadd_pre_breaks. Qed.
Print Assumptions C09_prefix_zadd_refuted.

Theorem C09_prefix_zrem_refuted :
  zquery k_ts ZQcard after_zrem_pre = RInt 1 /\
  zquery k_ts (ZQrange false 0 (-1) false) after_zrem_pre = rbulks [b_x] /\
  zquery k_ts (ZQrangebylex None None false false 0 (-1)) after_zrem_pre = rbulks [b_x; b_y].
Proof. exact zrem_pre_breaks. Qed.
Print Assumptions C09_prefix_zrem_refuted.

Theorem C09_prefix_zincrby_refuted :
  zquery k_ts ZQcard after_zincrby_pre = RInt 1 /\
  zquery k_ts (ZQscore b_m) after_zincrby_pre = RFloat (SFin 1) /\
  zquery k_ts (ZQrange false 0 (-1) false) after_zincrby_pre = RArr [].
Proof. exact zincrby_pre_breaks. Qed.
Print Assumptions C09_prefix_zincrby_refuted.

Theorem C09_prefix_ltrim_refuted :
  lquery k_ts LQlen after_ltrim_pre = RInt 1 /\ lquery k_ts (LQrange 0 (-1)) after_ltrim_pre = RArr [].
Proof. exact ltrim_pre_breaks. Qed.
Print Assumptions C09_prefix_ltrim_refuted.

(* (6) removing a whole collection, as the code does it around RangeDeleteNum (5000): key-by-key deletes of what the
   range scan returns up to RangeDeleteNum elements, one DeleteRange over [start key, stop key) above.  For ALL sizes
   — every size takes one of the two ways — exactly the element keys of the collection's generation are removed
   (hashes: the two independent size tests of hDeleteAll; sets: sDelete's if/else; the clear functions of Map.v are
   defined with these and RepS / the refinement are proved over them) *)
Theorem C09_hash_clear_removes_exactly_the_generation : forall (V : Type) (size v : Z) (es : list (vkey * V)),
  NoDup (map fst es) -> clear_elems_tests size v es = drop_gen v es.
Proof. exact @clear_elems_tests_exact. Qed.
Print Assumptions C09_hash_clear_removes_exactly_the_generation.

Theorem C09_set_clear_removes_exactly_the_generation : forall (V : Type) (size v : Z) (es : list (vkey * V)),
  NoDup (map fst es) -> clear_elems_else size v es = drop_gen v es.
Proof. exact @clear_elems_else_exact. Qed.
Print Assumptions C09_set_clear_removes_exactly_the_generation.

(* the end key of the range is the generation's STOP key; with the start key in its place the range is empty and
   nothing is removed (zRemAll computes the end of the member-key range with zEncodeStopSetKey) *)
Theorem C09_delete_range_to_the_stop_key : forall (V : Type) (v : Z) (es : list (vkey * V)),
  delete_range (BStart v) (BStop v) es = drop_gen v es /\ delete_range (BStart v) (BStart v) es = es.
Proof. intros V v es. split; [apply delete_range_exact|apply delete_range_to_start_deletes_nothing]. Qed.
Print Assumptions C09_delete_range_to_the_stop_key.

(* zRemAll above RangeDeleteNum members: the two DeleteRange calls (score index, member keys) keep the invariant,
   the member <-> score-index bijection included *)
Theorem C09_zset_range_clear_keeps_invariant : forall (compact : bool) (clock : Z) (z : zcoll) (m : cmeta),
  RepZ compact clock z -> c_meta (z_c z) = Some m ->
  RepZ compact clock {| z_c := Build_coll None (delete_range (BStart (cm_ver m)) (BStop (cm_ver m)) (c_elems (z_c z)));
                        z_index := zidx_delete_range (BStart (cm_ver m)) (BStop (cm_ver m)) (z_index z) |}.
Proof. exact zrange_clear_rep. Qed.
Print Assumptions C09_zset_range_clear_keeps_invariant.

(* lDelete: DeleteRange [key head, key tail) or the key-by-key loop over [key head, key tail], then the key of tail:
   exactly the element keys head..tail of the generation, for all sizes *)
Theorem C09_list_clear_removes_head_to_tail : forall (size v head tail : Z) (es : list (skey * bytes)),
  NoDup (map fst es) -> head <= tail -> lclear_elems size v head tail es = ldrop_range v head tail es.
Proof. exact lclear_elems_exact. Qed.
Print Assumptions C09_list_clear_removes_head_to_tail.

(* a gap between the two size tests (`<` and `>`) keeps every field key of a hash of exactly RangeDeleteNum fields *)
Theorem C09_size_test_gap_refuted : forall (V : Type) (v : Z) (es : list (vkey * V)),
  clear_elems_gap range_delete_num v es = es.
Proof. exact @clear_gap_keeps_everything. Qed.
Print Assumptions C09_size_test_gap_refuted.

(* (7) the repair commands ZFIXKEY / LFIXKEY find nothing to repair on a record that satisfies the invariant: they
   are the identity (ZFIXKEY compares the stored size with the entries ZRANGE 0 -1 finds; LFIXKEY compares head / tail
   of the meta with the first / last element key found between listMinSeq and listMaxSeq — every stored list lies
   strictly inside that space, InSpace, itself an invariant: lstep_space) *)
Theorem C09_zfixkey_is_identity_on_healthy_zsets : forall (compact : bool) (clock ts : Z) (key : bytes) (z : zcoll),
  RepZ compact clock z -> MapZ.zstep compact ts key ZCfixkey z = (z, RNil).
Proof. exact zfixkey_noop. Qed.
Print Assumptions C09_zfixkey_is_identity_on_healthy_zsets.

Theorem C09_lfixkey_is_identity_on_healthy_lists : forall (compact : bool) (clock ts : Z) (key : bytes) (l : lcoll),
  RepL compact clock l -> InSpace l -> MapL.lstep compact ts key LCfixkey l = (l, RNil).
Proof. exact lfixkey_noop. Qed.
Print Assumptions C09_lfixkey_is_identity_on_healthy_lists.

(* counting the members through a score range bounded by rockredis.MinScore / MaxScore (the int64 constants
   +-(2^63-1), 2^63 as doubles) instead of by rank misses the members with an infinite score: the shape of a seeded
   change of ZFIXKEY that the check catches (scores at and beyond +-2^63 are generated) *)
Example C09_int64_score_bounds_miss_infinite_scores :
  let z := fst (MapZ.zstep false 1 k_ts (ZCadd [(SPInf, b_a); (SFin 1, b_b); (SNInf, b_c)]) empty_zcoll) in
  zquery k_ts ZQcard z = RInt 3 /\
  zquery k_ts (ZQcount (SFin (-9223372036854775808), false) (SFin 9223372036854775808, false)) z = RInt 1.
Proof. vm_compute. split; reflexivity. Qed.

(* ---------- non-vacuity ---------- *)
(* a reachable non-trivial state: SADD with a repeated member, HMSET with a repeated field, ZADD with a
   repeated member, pushes and a trim, under wait_compact with a clear + re-create in between *)
Definition ex_cs : list (Z * cmd) :=
  [ (1, CSadd k_ts [b_m; b_m; b_x]);
    (2, CHmset k_ts [(b_f, b_1); (b_f, b_2); (b_a, b_3)]);
    (3, CZ k_ts (ZCadd [(SFin 1, b_m); (SFin 2, b_m); (SFin 2, b_x)]));
    (4, CL k_ts (LCpush true [b_a; b_b; b_c]));
    (5, CSclear k_ts);
    (6, CSadd k_ts [b_y]);
    (7, CL k_ts (LCtrim 1 (-1)));
    (8, CZ k_ts (ZCincrby (SFin 0) b_m)) ].
Example C09_ex_increasing : increasing 0 ex_cs.
Proof. cbn. repeat split; reflexivity. Qed.
Example C09_ex_state :
  let s := map_run true 0 ex_cs m_init in
  Map.scard k_ts (x_r (alook (x0 empty_coll) k_ts (m_set s))) = RInt 1 /\
  Map.smembers k_ts (x_r (alook (x0 empty_coll) k_ts (m_set s))) = rbulks [b_y] /\
  Map.hlen k_ts (x_r (alook (x0 empty_coll) k_ts (m_hash s))) = RInt 2 /\
  zquery k_ts (ZQrange false 0 (-1) true) (x_r (alook (x0 empty_zcoll) k_ts (m_zset s))) =
    RArr [RBulk b_m; RFloat (SFin 2); RBulk b_x; RFloat (SFin 2)] /\
  lquery k_ts (LQrange 0 (-1)) (x_r (alook (x0 empty_lcoll) k_ts (m_list s))) = rbulks [b_b; b_c].
Proof. vm_compute. repeat split; reflexivity. Qed.

(* with expiry: a set that expired and was written again keeps the element keys of its old generation in the
   store (the compaction filter drops them later), yet the reader sees SCARD = |SMEMBERS| = 1; at a read clock
   after the new expiry it sees the empty set *)
Definition ex_ttl9 : list (Z * cmd) :=
  [ (1000000000, CSadd k_ts [b_m; b_x]); (1000000001, CExpire TS k_ts 2);
    (5000000000, CSadd k_ts [b_y]); (5000000001, CExpire TS k_ts 100) ].
Example C09_ex_ttl_state :
  let s := map_run true 0 ex_ttl9 m_init in
  length (c_elems (x_r (alook (x0 empty_coll) k_ts (m_set s)))) = 3%nat /\
  Map.scard k_ts (xview forget_c true 6000000000 (alook (x0 empty_coll) k_ts (m_set s))) = RInt 1 /\
  Map.smembers k_ts (xview forget_c true 6000000000 (alook (x0 empty_coll) k_ts (m_set s))) = rbulks [b_y] /\
  Map.scard k_ts (xview forget_c true 200000000000 (alook (x0 empty_coll) k_ts (m_set s))) = RInt 0 /\
  Map.smembers k_ts (xview forget_c true 200000000000 (alook (x0 empty_coll) k_ts (m_set s))) = rbulks [].
Proof. vm_compute. repeat split; reflexivity. Qed.
