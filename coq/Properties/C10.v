(* Properties/C10.v — C10: expired data is dead; unexpired data is never removed.
   This file contains only the property theorems (closed by [exact]) and non-vacuity examples.
   Model: Expire/Model.v (policy Compact = value header / wait_compact).  [ts] = timestamp of the raft entry,
   [now] = read clock.  Traces: OW ts c (write), OR now t k (typed read), OC csec chosen (a compaction run with
   clock csec that drops the items of [chosen] which the filter predicate [removable] allows). *)
From ZV Require Import Common.Bytes Expire.Consts Expire.Model Expire.Proofs Expire.ProofsRel Expire.ProofsCmd Expire.ProofsTrace Expire.ProofsMore Expire.ProofsClass Expire.ProofsLocal Expire.ProofsMono.
Open Scope Z_scope.

(* ---- (1) the expiry decision, second granularity, placements before / exactly at / after the expiry second ---- *)
Theorem C10_expiry_decision : forall h ts,
  is_expired Compact h ts = true <-> (h_exp h <> 0 /\ ts <> 0 /\ h_exp h <= sec ts).
Proof. exact is_expired_spec. Qed.
Print Assumptions C10_expiry_decision.
Theorem C10_live_one_ns_before : forall e v, 0 < e -> is_expired Compact (mkH e v) (e * ns_per_sec - 1) = false.
Proof. exact expired_just_before. Qed.
Print Assumptions C10_live_one_ns_before.
Theorem C10_live_any_time_before : forall e v t, 0 <= t < e * ns_per_sec -> is_expired Compact (mkH e v) t = false.
Proof. exact not_expired_before. Qed.
Print Assumptions C10_live_any_time_before.
Theorem C10_expired_exactly_at : forall e v, 0 < e -> is_expired Compact (mkH e v) (e * ns_per_sec) = true.
Proof. exact expired_exactly_at. Qed.
Print Assumptions C10_expired_exactly_at.
Theorem C10_expired_any_time_after : forall e v t, 0 < e -> e * ns_per_sec <= t -> is_expired Compact (mkH e v) t = true.
Proof. exact expired_after. Qed.
Print Assumptions C10_expired_any_time_after.

(* ---- (2) reads: absent once the read clock has reached the expiry second; before it visible, TTL = remaining whole seconds ---- *)
Theorem C10_read_expired_is_absent : forall s now t k h,
  hdr_of s t k = Some h -> is_expired Compact h now = true -> read Compact s now t k = absent_obs.
Proof. exact read_dead. Qed.
Print Assumptions C10_read_expired_is_absent.
Theorem C10_read_live_visible : forall s now t k h,
  hdr_of s t k = Some h -> is_expired Compact h now = false ->
  o_exists (read Compact s now t k) = true /\ o_ttl (read Compact s now t k) = ttl_of Compact h now.
Proof. exact read_live. Qed.
Print Assumptions C10_read_live_visible.
Theorem C10_ttl_remaining_seconds : forall h now, h_exp h <> 0 -> is_expired Compact h now = false -> now <> 0 ->
  ttl_of Compact h now = h_exp h - sec now /\ 0 < ttl_of Compact h now.
Proof. exact ttl_live. Qed.
Print Assumptions C10_ttl_remaining_seconds.

(* ---- (3) expired data is dead, for every command and every later trace ----
   A key whose header is expired at the command's timestamp is indistinguishable from an absent key: every command
   gives the same reply as on the store from which the key's header entry was erased - a read-modify-write starts
   from empty - and the two resulting stores answer every later trace alike. *)
Theorem C10_expired_like_absent_step : forall s ts c t k h,
  Inv s -> ts <> 0 -> hdr_of s t k = Some h -> is_expired Compact h ts = true ->
  snd (step Compact s ts c) = snd (step Compact (erase s t k) ts c) /\
  forall ops, Forall (op_ok (sec ts) 0) ops ->
    run (fst (step Compact s ts c)) ops = run (fst (step Compact (erase s t k) ts c)) ops.
Proof. exact expired_like_absent_step. Qed.
Print Assumptions C10_expired_like_absent_step.
Theorem C10_expired_like_absent_trace : forall T s t k h ops,
  Inv s -> hdr_of s t k = Some h -> hdead T h -> Forall (op_ok T 0) ops -> run s ops = run (erase s t k) ops.
Proof. exact expired_like_absent_trace. Qed.
Print Assumptions C10_expired_like_absent_trace.
(* multi-key / multi-member reads: EXISTS k1 k2 .. (read_exists), MGET (read_mget), HGET / HMGET per field, SISMEMBER, ZSCORE
   (read_elem).  An expired key contributes exactly like an absent one, at every position of the argument list. *)
Theorem C10_exists_skips_expired : forall s now ks1 k ks2 h,
  hdr_of s TK k = Some h -> is_expired Compact h now = true ->
  read_exists Compact s now (ks1 ++ k :: ks2) = read_exists Compact s now (ks1 ++ ks2).
Proof. intros s now ks1 k ks2 h H E. exact (read_exists_skip Compact s now ks1 k ks2 (read_value_dead s now k h H E)). Qed.
Print Assumptions C10_exists_skips_expired.
Theorem C10_exists_counts_live : forall s now ks1 k ks2 h,
  hdr_of s TK k = Some h -> is_expired Compact h now = false ->
  read_exists Compact s now (ks1 ++ k :: ks2) = 1 + read_exists Compact s now (ks1 ++ ks2).
Proof.
  intros s now ks1 k ks2 h H E. destruct (read_value_live s now k h H E) as (v & _ & V).
  exact (read_exists_count Compact s now ks1 k ks2 v V).
Qed.
Print Assumptions C10_exists_counts_live.
Theorem C10_mget_expired_is_nil : forall s now ks i k h,
  nth_error ks i = Some k -> hdr_of s TK k = Some h -> is_expired Compact h now = true ->
  nth_error (read_mget Compact s now ks) i = Some None.
Proof. intros s now ks i k h N H E. rewrite (read_mget_nth Compact s now ks i k N). now rewrite (read_value_dead s now k h H E). Qed.
Print Assumptions C10_mget_expired_is_nil.
Theorem C10_mget_live_is_stored_value : forall s now ks i k h,
  nth_error ks i = Some k -> hdr_of s TK k = Some h -> is_expired Compact h now = false ->
  exists v, kv_get s k = Some (h, v) /\ nth_error (read_mget Compact s now ks) i = Some (Some v).
Proof.
  intros s now ks i k h N H E. destruct (read_value_live s now k h H E) as (v & G & V). exists v. split; [exact G|].
  rewrite (read_mget_nth Compact s now ks i k N). now rewrite V.
Qed.
Print Assumptions C10_mget_live_is_stored_value.
Theorem C10_member_read_expired_is_absent : forall s now t k m h,
  t <> TK -> hdr_of s t k = Some h -> is_expired Compact h now = true -> read_elem Compact s now t k m = None.
Proof. exact read_elem_dead. Qed.
Print Assumptions C10_member_read_expired_is_absent.
Theorem C10_member_read_live : forall s now t k m h,
  t <> TK -> hdr_of s t k = Some h -> is_expired Compact h now = false ->
  read_elem Compact s now t k m = el_get s t k (h_ver h) (SB m).
Proof. exact read_elem_live. Qed.
Print Assumptions C10_member_read_live.
Theorem C10_expired_like_absent_multiread : forall s now t k h,
  Inv s -> now <> 0 -> hdr_of s t k = Some h -> is_expired Compact h now = true ->
  (forall ks, read_exists Compact s now ks = read_exists Compact (erase s t k) now ks) /\
  (forall ks, read_mget Compact s now ks = read_mget Compact (erase s t k) now ks) /\
  (forall t' k' m, read_elem Compact s now t' k' m = read_elem Compact (erase s t k) now t' k' m).
Proof. exact expired_like_absent_multiread. Qed.
Print Assumptions C10_expired_like_absent_multiread.
(* the bytes stored under an expired header have no influence on any later reply or observation *)
Theorem C10_dead_value_irrelevant : forall T s k h v1 v2 ops,
  Inv s -> hdead T h -> Forall (op_ok T 0) ops -> run (kv_put s k h v1) ops = run (kv_put s k h v2) ops.
Proof. exact dead_value_irrelevant. Qed.
Print Assumptions C10_dead_value_irrelevant.
(* general form: stores that differ only in dead content / in garbage of generation g of one key answer alike *)
Theorem C10_dead_content_noninterference : forall T t0 k0 g ops s1 s2,
  R T t0 k0 g s1 s2 -> Forall (op_ok T g) ops -> run s1 ops = run s2 ops.
Proof. exact run_R. Qed.
Print Assumptions C10_dead_content_noninterference.

(* ---- (4) background compaction is invisible, for all traces and all interleavings ----
   [wf]: timestamps non-zero, after a compaction with clock csec no later time is more than the lazy threshold
   behind csec and no later write re-uses the generation number of a dropped element. *)
Theorem C10_bg_step_invisible_partial : forall ops s, Inv s -> wf ops -> run s ops = run s (strip ops).
Proof. exact bg_invisible. Qed.
Print Assumptions C10_bg_step_invisible_partial.
(* full statement ([wf_weak]: generation numbers may repeat, i.e. equal raft timestamps): false of the faithful model
   and of the code (open finding; corpus/C10/f3-generation-collision.tsv) *)
Definition C10_bg_step_invisible_full : Prop := bg_invisible_full.
Theorem C10_bg_step_invisible_full_refuted : ~ C10_bg_step_invisible_full.
Proof. exact bg_invisible_full_refuted. Qed.
Print Assumptions C10_bg_step_invisible_full_refuted.
(* with strictly increasing write timestamps the freshness condition holds by itself (every generation number in a
   reachable store is the timestamp of an earlier write): for ALL traces from the empty store whose write timestamps
   increase strictly and whose times stay within the lazy threshold of every earlier compaction clock, ALL
   interleavings of compaction steps are invisible *)
Theorem C10_bg_step_invisible : forall ops, mono 0 ops -> run empty_store ops = run empty_store (strip ops).
Proof. exact bg_invisible_from_empty. Qed.
Print Assumptions C10_bg_step_invisible.
Theorem C10_bg_step_invisible_from : forall ops s last,
  Inv s -> 0 <= last -> vers_in (fun v => v <= last) s -> mono last ops -> run s ops = run s (strip ops).
Proof. exact bg_invisible_mono. Qed.
Print Assumptions C10_bg_step_invisible_from.
Theorem C10_generations_are_past_timestamps : forall S ts s c,
  vers_in S s -> vers_in (fun v => S v \/ v = ts) (fst (step Compact s ts c)).
Proof. exact vers_step. Qed.
Print Assumptions C10_generations_are_past_timestamps.
(* what the filter allows to drop: only entries expired for longer than the lazy threshold, and element keys that
   do not belong to the live generation of their collection *)
Theorem C10_filter_drops_only_garbage : forall s csec it,
  removable s csec it = true -> garbage (csec - lazy_clean_secs - 1) s it.
Proof. exact removable_garbage. Qed.
Print Assumptions C10_filter_drops_only_garbage.
(* the invariant assumed above holds in every state reachable from the empty store by writes with ts <> 0 *)
Theorem C10_invariant_reachable : forall ops, writes_pos ops -> Inv (final empty_store ops).
Proof. intros ops W. exact (Inv_final ops empty_store Inv_empty W). Qed.
Print Assumptions C10_invariant_reachable.

(* ---- (5) no resurrection: a collection re-created (hset/hmset/hincrby/sadd/zadd/zincrby) over an expired or cleared
   predecessor gets generation ts and an empty expiry, and its generation holds only members written by that command,
   provided no element of generation ts existed before (fresh generation number) ---- *)
Theorem C10_no_resurrection_partial : forall s ts c t k written,
  creates c = Some (t, k, written) -> noe ts s t k -> fresh_gen s t k ts ->
  (forall sb x, el_get (fst (step Compact s ts c)) t k ts sb = Some x -> In sb written) /\
  (forall m, meta_get (fst (step Compact s ts c)) t k = Some m -> m_hdr m = mkH 0 ts \/ meta_get s t k = Some m).
Proof. exact recreated_only_written. Qed.
Print Assumptions C10_no_resurrection_partial.
(* without the freshness hypothesis: false (equal timestamps; corpus/C10/f3-generation-collision.tsv) *)
Definition C10_no_resurrection_full : Prop := no_resurrection_full.
Theorem C10_no_resurrection_full_refuted : ~ C10_no_resurrection_full.
Proof. exact no_resurrection_full_refuted. Qed.
Print Assumptions C10_no_resurrection_full_refuted.

(* ---- (6) which commands keep / clear / set the expiry ---- *)
(* a modifying command (INCRBY, APPEND, SETRANGE, SETNX on a live key, HSET, HMSET, HDEL, HINCRBY, SADD, SREM, SPOP, ZADD,
   ZINCRBY, ZREM, ZREMRANGEBYSCORE, LPUSH/RPUSH, LPOP/RPOP) on a live key keeps its header: expiry and generation *)
Theorem C10_modify_keeps_expiry : forall s ts c t k h h',
  modifies c = Some (t, k) -> hdr_of s t k = Some h -> is_expired Compact h ts = false ->
  hdr_of (fst (step Compact s ts c)) t k = Some h' -> h' = h.
Proof. exact modify_keeps_header. Qed.
Print Assumptions C10_modify_keeps_expiry.
(* overwriting the whole value (SET, GETSET, MSET, successful SETNX) stores a fresh header: no expiry *)
Theorem C10_set_clears_expiry : forall s ts k v, kv_get (fst (step Compact s ts (CSet k v))) k = Some (fresh_hdr, v).
Proof. exact set_clears_expiry. Qed.
Print Assumptions C10_set_clears_expiry.
Theorem C10_getset_clears_expiry : forall s ts k v, kv_get (fst (step Compact s ts (CGetSet k v))) k = Some (fresh_hdr, v).
Proof. exact getset_clears_expiry. Qed.
Print Assumptions C10_getset_clears_expiry.
Theorem C10_mset_clears_expiry : forall s ts kvl k, In k (map fst kvl) ->
  exists v, kv_get (fst (step Compact s ts (CMSet kvl))) k = Some (fresh_hdr, v).
Proof. exact mset_clears_expiry. Qed.
Print Assumptions C10_mset_clears_expiry.
Theorem C10_setnx_success_clears_expiry : forall s ts k v,
  snd (step Compact s ts (CSetNx k v)) = RInt 1 -> kv_get (fst (step Compact s ts (CSetNx k v))) k = Some (fresh_hdr, v).
Proof. exact setnx_success_clears_expiry. Qed.
Print Assumptions C10_setnx_success_clears_expiry.
(* SETEX / *EXPIRE set ExpireAt = floor(ts / 1e9) + duration (in the uint32 range), *PERSIST clears it; generation kept *)
Theorem C10_setex_sets_expiry : forall s ts k d v, 0 < d -> 0 < d + sec ts < max_u32 - 1 ->
  kv_get (fst (step Compact s ts (CSetEx k d v))) k = Some (mkH (d + sec ts) 0, v).
Proof. exact setex_sets_expiry. Qed.
Print Assumptions C10_setex_sets_expiry.
Theorem C10_expire_sets_expiry : forall s ts t k d h, hdr_of s t k = Some h -> is_expired Compact h ts = false ->
  0 < d + sec ts < max_u32 - 1 ->
  hdr_of (fst (step Compact s ts (CExpire t k d))) t k = Some (mkH (d + sec ts) (h_ver h)) /\
  snd (step Compact s ts (CExpire t k d)) = RInt 1.
Proof. exact expire_sets_expiry. Qed.
Print Assumptions C10_expire_sets_expiry.
(* a duration that ends at or before the epoch expires the key at once (second 1) instead of wrapping into the future *)
Theorem C10_expire_in_the_past_is_immediate : forall ts d, sec ts + d <= 0 -> d <= 0 -> expire_when ts d = Some 1.
Proof. exact expire_in_the_past_is_immediate. Qed.
Print Assumptions C10_expire_in_the_past_is_immediate.
Theorem C10_persist_clears_expiry : forall s ts t k h, hdr_of s t k = Some h -> is_expired Compact h ts = false ->
  hdr_of (fst (step Compact s ts (CPersist t k))) t k = Some (mkH 0 (h_ver h)) /\
  snd (step Compact s ts (CPersist t k)) = RInt 1.
Proof. exact persist_clears_expiry. Qed.
Print Assumptions C10_persist_clears_expiry.

(* ---- (7) local-deletion policy: for every store, every scan time and every key, a tick of the background deleter
   leaves a key without an index entry in [0, scan] exactly as it was (nothing is removed before the time it was given) ---- *)
Theorem C10_local_deletion_never_early : forall s scan t k now,
  (forall w, In ((w, t, k), tt) (tidx s) -> scan < w) ->
  read Local (local_tick s scan) now t k = read Local s now t k.
Proof. exact local_tick_future_untouched. Qed.
Print Assumptions C10_local_deletion_never_early.
Theorem C10_local_deletion_only_due : forall s scan t k, ~ has_due s scan t k -> same_for s (local_tick s scan) t k.
Proof. exact local_tick_safe. Qed.
Print Assumptions C10_local_deletion_only_due.

(* the index entries are exactly the expiries that were asked for: in every trace of writes and deleter ticks from
   the empty store, an entry (when, t, k) was recorded by an earlier SETEX / *EXPIRE on (t, k) with
   when = floor(ts / 1e9) + duration; together with the two theorems above: nothing is removed before the time it was given *)
Theorem C10_local_index_provenance : forall ops e, In e (tidx (lfinal empty_store ops)) ->
  exists ts c, In (LW ts c) ops /\ requested ts c e.
Proof. intros ops e H. destruct (local_index_requested ops empty_store e H) as [[] | X]; exact X. Qed.
Print Assumptions C10_local_index_provenance.

(* ---- non-vacuity ---- *)
(* SETEX k 10 v at second 100: live 1 ns before second 110, absent at it *)
Example C10_ex_setex :
  let s := fst (step Compact empty_store (100 * ns_per_sec + 5) (CSetEx [1%N] 10 [7%N])) in
  o_items (read Compact s (110 * ns_per_sec - 1) TK [1%N]) = [(SB [], EB [7%N])] /\
  o_ttl (read Compact s (110 * ns_per_sec - 1) TK [1%N]) = 1 /\
  read Compact s (110 * ns_per_sec) TK [1%N] = absent_obs.
Proof. vm_compute. auto. Qed.
(* APPEND at the expiry second starts from empty; 1 ns before it appends to the old value *)
Example C10_ex_append :
  let s := fst (step Compact empty_store (100 * ns_per_sec) (CSetEx [1%N] 10 [7%N])) in
  snd (step Compact s (110 * ns_per_sec) (CAppend [1%N] [8%N])) = RInt 1 /\
  snd (step Compact s (110 * ns_per_sec - 1) (CAppend [1%N] [8%N])) = RInt 2.
Proof. vm_compute. auto. Qed.
(* a trace satisfying [wf] in which the compaction really drops the dead generation of a re-created hash *)
Example C10_ex_bg :
  let day := 86400 * ns_per_sec in
  let ops := [OW (1 * day) (CHSet [1%N] [2%N] [3%N] false); OW (1 * day + 1) (CExpire TH [1%N] 10);
              OW (2 * day) (CHSet [1%N] [4%N] [5%N] false);
              OC (10 * 86400) [IElem TH [1%N] (1 * day) (SB [2%N])];
              OR (10 * day) TH [1%N]] in
  wf ops /\ mono 0 ops /\ run empty_store ops = run empty_store (strip ops) /\
  elems (final empty_store ops) <> elems (final empty_store (strip ops)).
Proof. vm_compute. repeat split; auto; try discriminate; repeat constructor; try discriminate. Qed.
(* local deletion: SETEX k 10 at second 100 records index entry 110; a tick at 109 leaves the key, a tick at 110 removes it *)
Example C10_ex_local :
  let s := fst (step Local empty_store (100 * ns_per_sec) (CSetEx [1%N] 10 [7%N])) in
  tidx s = [((110, TK, [1%N]), tt)] /\
  o_exists (read Local (local_tick s 109) 0 TK [1%N]) = true /\ o_exists (read Local (local_tick s 110) 0 TK [1%N]) = false.
Proof. vm_compute. auto. Qed.
(* EXISTS dead live never = 1, MGET = [nil; v; nil] at the expiry second of the first key; 1 ns earlier 2 and [v; v; nil];
   HGET / SISMEMBER of a member of an expired hash: nothing *)
Example C10_ex_multiread :
  let s1 := fst (step Compact empty_store (100 * ns_per_sec) (CSetEx [1%N] 10 [7%N])) in
  let s2 := fst (step Compact s1 (100 * ns_per_sec) (CSet [2%N] [8%N])) in
  let s3 := fst (step Compact s2 (100 * ns_per_sec) (CHSet [1%N] [5%N] [6%N] false)) in
  let s := fst (step Compact s3 (100 * ns_per_sec + 1) (CExpire TH [1%N] 10)) in
  read_exists Compact s (110 * ns_per_sec) [[1%N]; [2%N]; [3%N]] = 1 /\
  read_exists Compact s (110 * ns_per_sec - 1) [[1%N]; [2%N]; [3%N]] = 2 /\
  read_mget Compact s (110 * ns_per_sec) [[1%N]; [2%N]; [3%N]] = [None; Some [8%N]; None] /\
  read_mget Compact s (110 * ns_per_sec - 1) [[1%N]; [2%N]; [3%N]] = [Some [7%N]; Some [8%N]; None] /\
  read_elem Compact s (110 * ns_per_sec - 1) TH [1%N] [5%N] = Some (EB [6%N]) /\
  read_elem Compact s (110 * ns_per_sec) TH [1%N] [5%N] = None.
Proof. vm_compute. repeat split; reflexivity. Qed.
