(* Properties/C17.v — C17: placement puts each partition's replicas on distinct, spread-out nodes.
   This file contains only the property theorems (closed by [exact]) and non-vacuity examples.

   Vocabulary (coq/Place/Model.v, Proofs.v, ProofsV2.v):
     rebalance ver ns p r olds nodes   model of getRebalancedNamespacePartitions; nodes = the node map as a
                                       list of (id, dc tag) in any order; result Ok layout | Refuse | Panic
     valid_layout live p r l           l has p lists, each of length r, duplicate-free, members of live
     olds_ok p olds                    the previous layout has <= p lists, each duplicate-free, of ANY length
                                       (ISR lists are longer than r while a node is being moved or after the
                                       replica count was lowered; the code trims them since /repo 8ac1883)
     is_v2 ver                         the balance-version string selects the incremental algorithm
     even_topology nodes k             every data centre that occurs has exactly k nodes
     dcs_of nodes / node_dc nodes x    the sorted data-centre names / the data centre of node x  *)
From ZV Require Import Common.Bytes Part.Model Place.Consts Place.Model Place.Proofs Place.ProofsV2 Place.SweepDefs Place.ProofsV2Fresh Place.ProofsOrder Place.ProofsConsumers Place.ProofsKeep Place.ProofsProbe Place.ProofsFreshGen.
From Coq Require Import Permutation.
Open Scope nat_scope.

(* (1) refusal exactly when there are fewer nodes than replicas (never a degraded layout, never a panic) *)
Theorem C17_refuse_iff : forall ver ns p r olds nodes,
  NoDup (map fst nodes) -> ~ In [] (map fst nodes) -> nodes <> [] -> olds_ok (N.to_nat p) olds ->
  (rebalance ver ns p r olds nodes = Refuse <-> (N.of_nat (length nodes) < r)%N).
Proof. exact rebalance_refuse_iff'. Qed.
Print Assumptions C17_refuse_iff.

(* (2) both algorithms, every node set with >= r nodes, every previous layout reachable by node
   loss/addition: a layout is produced; every partition has exactly r distinct live replicas *)
Theorem C17_layout_valid : forall ver ns p r olds nodes,
  NoDup (map fst nodes) -> ~ In [] (map fst nodes) -> nodes <> [] ->
  (r <= N.of_nat (length nodes))%N -> olds_ok (N.to_nat p) olds ->
  exists l, rebalance ver ns p r olds nodes = Ok l /\ valid_layout (map fst nodes) (N.to_nat p) (N.to_nat r) l.
Proof. exact rebalance_valid. Qed.
Print Assumptions C17_layout_valid.

(* (2'') the same over the whole history: [reachable] = the empty layout of a fresh namespace closed under
   "rebalance on any good node set" (nodes lost and added between rounds); every reachable layout can be
   rebalanced again, on every good node set with >= r nodes, into a valid layout *)
Theorem C17_chain_valid : forall ver ns p r olds nodes,
  reachable ver ns p r olds -> good_nodes nodes -> (r <= N.of_nat (length nodes))%N ->
  exists l, rebalance ver ns p r olds nodes = Ok l /\ valid_layout (map fst nodes) (N.to_nat p) (N.to_nat r) l.
Proof. exact rebalance_chain_valid. Qed.
Print Assumptions C17_chain_valid.

(* (2') the V2 invariant behind (2): load maps consistent with the layout, lists valid — established by
   the fill phase and preserved by every moveIfUnbalanced step, which never panics *)
Theorem C17_v2_fill_establishes_invariant : forall h p r olds (ring : list (list N)),
  NoDup ring -> ~ In [] ring -> r <= length ring ->
  length olds <= p -> Forall (fun o => NoDup o) olds ->
  exists ls parts, v2_fill_phase h p r olds ring = Ok (ls, parts) /\ names ls = ring /\
    length parts = p /\ Forall (list_ok ring r) parts /\ cons ls (part_at parts).
Proof. exact v2_fill_phase_ok. Qed.
Print Assumptions C17_v2_fill_establishes_invariant.

Theorem C17_v2_move_preserves_invariant : forall (ring : list (list N)), NoDup ring -> ring <> [] ->
  forall p r ls parts, Jinv ring p r ls parts ->
  exists ls' parts' b, move_step ls parts = Ok (ls', parts', b) /\ Jinv ring p r ls' parts'.
Proof. exact move_step_inv. Qed.
Print Assumptions C17_v2_move_preserves_invariant.

(* totality of the move loop with the code's own bound (maxMoved = r * p, i.e. at most r * p + 1 calls) as fuel *)
Theorem C17_v2_move_loop_total : forall (ring : list (list N)), NoDup ring -> ring <> [] ->
  forall p r fuel ls parts, Jinv ring p r ls parts ->
  exists parts', move_loop fuel ls parts = Ok parts' /\ length parts' = p /\ Forall (list_ok ring r) parts'.
Proof. exact move_loop_inv. Qed.
Print Assumptions C17_v2_move_loop_total.

(* (3) determinism: the result is a function of the node *set* — the order in which the Go map
   delivers the nodes does not matter (and the model is a function, so equal inputs give equal layouts) *)
Theorem C17_order_independent : forall ver ns p r olds nodes nodes',
  Permutation nodes nodes' -> rebalance ver ns p r olds nodes = rebalance ver ns p r olds nodes'.
Proof. exact rebalance_perm_invariant. Qed.
Print Assumptions C17_order_independent.

(* (3') inside V2 the Go code finds the least / most loaded node by inserting the entries of a Go map into a
   tree map and taking Min()/Max(): the selected entries are the same for every enumeration order, because
   the comparators are strict total orders on entries with distinct nameIndex — and the indices handed out
   by fillPartitionMapV2 (ring position rotated by the namespace hash) are pairwise distinct *)
Theorem C17_v2_minmax_order_independent : forall ls ls',
  NoDup (map nl_idx ls) -> Permutation ls ls' ->
  min_by lead_ltb ls = min_by lead_ltb ls' /\ max_by lead_ltb ls = max_by lead_ltb ls' /\
  min_by rep_ltb ls = min_by rep_ltb ls' /\ max_by rep_ltb ls = max_by rep_ltb ls'.
Proof. exact minmax_order_independent. Qed.
Print Assumptions C17_v2_minmax_order_independent.

Theorem C17_v2_indices_distinct : forall h (ring : list (list N)),
  NoDup (map nl_idx (init_loads h (N.of_nat (length ring)) 0 ring)).
Proof. exact init_idx_nodup. Qed.
Print Assumptions C17_v2_indices_distinct.

(* (3'') the ring index is (h + i + j) mod n for EVERY hash value h — in particular when h + i + j >= 2^32
   (namespaces whose murmur3 hash is next to 2^32): the Go code widens the uint32 hash to a 64-bit int before
   adding, so nothing wraps. Consts.v records the Go type of selectIndex (read from the source with go/ast);
   an index computed in uint32 would make v1_index_wrap = 2^32 and break these proofs *)
Theorem C17_index_arithmetic_no_wrap : v1_index_wrap = 0%N /\ v2_index_wrap = 0%N.
Proof. exact index_no_wrap. Qed.
Print Assumptions C17_index_arithmetic_no_wrap.

Theorem C17_v1_ring_index : forall h p r (ring : list (list N)), ring <> [] ->
  fill_v1 h p r ring =
  Ok (map (fun i => map (fun j => nth ((N.to_nat h + i + j) mod length ring) ring []) (seq 0 r)) (seq 0 p)).
Proof. exact fill_v1_spec. Qed.
Print Assumptions C17_v1_ring_index.

Theorem C17_v2_name_index : forall h n (ring : list (list N)) i,
  map nl_idx (init_loads h n i ring) = map (fun j => ((i + N.of_nat j) + h) mod n)%N (seq 0 (length ring)).
Proof. exact init_idx. Qed.
Print Assumptions C17_v2_name_index.

(* (4) ring algorithm, nodes evenly spread over at least r data centres: no two replicas of a
   partition share a data centre *)
Theorem C17_v1_dc_spread : forall ver ns p r olds nodes k l,
  is_v2 ver = false -> NoDup (map fst nodes) -> nodes <> [] ->
  even_topology nodes k -> N.to_nat r <= length (dcs_of nodes) ->
  rebalance ver ns p r olds nodes = Ok l ->
  Forall (fun nl => NoDup (map (node_dc nodes) nl)) l.
Proof. exact rebalance_v1_dc_spread. Qed.
Print Assumptions C17_v1_dc_spread.

(* (4') the interleave lemma behind (4): on an even topology with d data centres ring slot s holds a
   node of data centre number s mod d (wrap-around included: the ring length is a multiple of d) *)
Theorem C17_ring_slot_dc : forall nodes k,
  NoDup (map fst nodes) -> even_topology nodes k -> k <> 0 ->
  let ring := ring_of_lists (node_name_list nodes) in
  let d := length (dcs_of nodes) in
  length ring = k * d /\
  forall s, s < length ring -> pos_in (node_dc nodes (nth s ring [])) (dcs_of nodes) = s mod d.
Proof. exact even_ring_class. Qed.
Print Assumptions C17_ring_slot_dc.

(* (5) ring algorithm: when the partition count is a multiple m * n of the node count every node is
   the preferred leader (first list member) of exactly m partitions *)
Theorem C17_v1_leader_balance : forall ver ns m r olds nodes l x,
  is_v2 ver = false -> NoDup (map fst nodes) -> nodes <> [] ->
  (0 < r)%N -> (r <= N.of_nat (length nodes))%N ->
  rebalance ver ns (N.of_nat (m * length nodes)) r olds nodes = Ok l ->
  In x (map fst nodes) ->
  count_occ name_dec (leaders l) x = m.
Proof. exact rebalance_v1_leader_balance. Qed.
Print Assumptions C17_v1_leader_balance.

(* (6) incremental algorithm (the placement driver's default), fresh layout, nodes evenly spread over at
   least r data centres: no two replicas of a partition share a data centre — for ALL sizes.
   V2 never looks at data centres; the spread is a consequence of its (load, nameIndex) tie-breaks: partition t
   receives the window of r cyclically consecutive nameIndex positions starting at (t*r) mod n, led by the first
   position of the window that has not led in the current round of n partitions (linear probing with starts
   advancing by r; with g = gcd r n the leader sits at distance (t mod n)/(n/g) < g <= r from the window start:
   Place/ProofsProbe.v), and the load maps stay balanced, so moveIfUnbalanced moves nothing. *)
Theorem C17_v2_fresh_dc_spread : forall ver ns p r nodes k l,
  is_v2 ver = true -> NoDup (map fst nodes) -> ~ In [] (map fst nodes) -> nodes <> [] ->
  even_topology nodes k -> N.to_nat r <= length (dcs_of nodes) ->
  rebalance ver ns p r [] nodes = Ok l ->
  Forall (fun nl => NoDup (map (node_dc nodes) nl)) l.
Proof. exact rebalance_v2_fresh_dc_spread_unbounded. Qed.
Print Assumptions C17_v2_fresh_dc_spread.

(* (6') the closed form behind (6), on any duplicate-free ring of n = g*m nodes with r = g*r' replicas,
   gcd m r' = 1: the fresh layout is [fresh_parts] (partition t = names of the window positions, leader
   first), for every rotation h and every partition count p *)
Theorem C17_v2_fresh_closed_form : forall g m r', 0 < g -> 0 < m -> 0 < r' -> Nat.gcd m r' = 1 -> g * r' <= g * m ->
  forall (ring : list (list N)), NoDup ring -> ~ In [] ring -> length ring = g * m ->
  forall h p, fill_v2 h p (g * r') [] ring = Ok (fresh_parts g m r' ring h 0 p).
Proof. exact fill_v2_fresh_general. Qed.
Print Assumptions C17_v2_fresh_closed_form.

(* (6'') cross-check by computation, independent of the argument of (6): on canonical rings (node i called [i],
   data centre i mod d) every fresh layout with 2 <= r <= d <= 4, d*k <= 40 nodes, every rotation, 1..64
   partitions is balanced after the fill phase and spreads every list over r data centres
   (vm_compute sweeps in Place/Sweep*.v, lifted with forallb_forall; bound in the statement) *)
Theorem C17_v2_fresh_canonical_sweep : forall d k r hm p,
  2 <= r <= d -> d <= 4 -> 1 <= k -> d * k <= 40 -> hm < d * k -> 1 <= p <= 64 ->
  check_one d k r hm p = true.
Proof. exact check_in_range. Qed.
Print Assumptions C17_v2_fresh_canonical_sweep.

(* (7) what V2 keeps of the previous layout (data stability) — exactly what the code guarantees:
   fill phase: an old member (within the first r of its list) that is still alive stays in its slot; a slot
   whose old member is dead or absent gets a live node outside the (trimmed) old list *)
Theorem C17_v2_fill_keeps_survivors : forall h p r olds (ring : list (list N)) ls parts,
  v2_fill_phase h p r olds ring = Ok (ls, parts) ->
  forall pid j, pid < p -> j < r ->
    let old := nth pid olds [] in
    (In (nth j old []) ring -> nth j (nth pid parts []) [] = nth j old []) /\
    (~ In (nth j old []) ring -> In (nth j (nth pid parts []) []) ring /\ ~ In (nth j (nth pid parts []) []) (firstn r old)).
Proof. exact v2_fill_phase_keeps. Qed.
Print Assumptions C17_v2_fill_keeps_survivors.

(* when the load maps are balanced after the fill phase nothing is moved: every surviving replica keeps
   its place in the final layout *)
Theorem C17_v2_keeps_when_balanced : forall h p r olds (ring : list (list N)) ls parts,
  v2_fill_phase h p r olds ring = Ok (ls, parts) -> balanced ls = true ->
  fill_v2 h p r olds ring = Ok parts /\
  forall pid j, pid < p -> j < r -> In (nth j (nth pid olds []) []) ring ->
    nth j (nth pid parts []) [] = nth j (nth pid olds []) [].
Proof. exact fill_v2_keeps_when_balanced. Qed.
Print Assumptions C17_v2_keeps_when_balanced.

(* otherwise each moveIfUnbalanced step rewrites at most one partition list (and there are at most r*p+1
   steps); the code promises nothing more: a balance move may replace a surviving member *)
Theorem C17_v2_move_one_list : forall ls parts ls' parts' b,
  move_step ls parts = Ok (ls', parts', b) ->
  exists k, forall i, i <> k -> nth i parts' [] = nth i parts [].
Proof. exact move_step_one_list. Qed.
Print Assumptions C17_v2_move_one_list.

(* (8) how the coordinator consumes the layout. allocNodeForNamespace (the node added to a partition that
   lacks replicas): never panics; the node is alive and not yet a raft node of the partition, so RaftNodes
   stays duplicate-free (C18's invariant) and exactly one node is added per call; one is found whenever the
   partition has fewer than r raft nodes and the cluster has >= r nodes *)
Theorem C17_alloc_node : forall ver ns p r isrs nodes part,
  NoDup (map fst nodes) -> ~ In [] (map fst nodes) -> nodes <> [] -> olds_ok (N.to_nat p) isrs -> part < N.to_nat p ->
  alloc_node ver ns p r isrs nodes part <> Panic /\
  (forall x, alloc_node ver ns p r isrs nodes part = Ok x ->
     In x (map fst nodes) /\ ~ In x (nth part isrs [])) /\
  ((r <= N.of_nat (length nodes))%N -> length (nth part isrs []) < N.to_nat r ->
     exists x, alloc_node ver ns p r isrs nodes part = Ok x).
Proof. exact alloc_node_spec. Qed.
Print Assumptions C17_alloc_node.

(* decideUnwantedRaftNode (the node dropped from an over-replicated partition): never panics; it names one
   node, an ISR member of the partition outside the wanted list; it names one whenever the ISR is longer than r *)
Theorem C17_unwanted_node : forall ver ns p r isrs nodes part,
  NoDup (map fst nodes) -> ~ In [] (map fst nodes) -> nodes <> [] -> olds_ok (N.to_nat p) isrs -> part < N.to_nat p ->
  exists x, unwanted_node ver ns p r isrs nodes part = Ok x /\
  (x <> [] -> In x (nth part isrs [])) /\
  ((r <= N.of_nat (length nodes))%N -> ~ In [] (nth part isrs []) -> N.to_nat r < length (nth part isrs []) ->
     x <> [] /\ exists l wanted, rebalance ver ns p r isrs nodes = Ok l /\ nth_error l part = Some wanted /\ ~ In x wanted).
Proof. exact unwanted_node_spec. Qed.
Print Assumptions C17_unwanted_node.

(* ---------- non-vacuity ---------- *)
Open Scope N_scope.
Definition ex_nodes : list (list N * tag) :=
  [([97;49], TagStr [100;49]); ([98;49], TagStr [100;50]); ([97;50], TagStr [100;49]);
   ([98;50], TagStr [100;50]); ([99;49], TagStr [100;51]); ([99;50], TagStr [100;51])].
(* 6 nodes a1 a2 @d1, b1 b2 @d2, c1 c2 @d3 : ring a1 b1 c1 a2 b2 c2 *)
Example C17_ex_ring : ring_of_lists (node_name_list ex_nodes) = [[97;49];[98;49];[99;49];[97;50];[98;50];[99;50]].
Proof. vm_compute. reflexivity. Qed.
Example C17_ex_even : even_topology ex_nodes 2%nat /\ length (dcs_of ex_nodes) = 3%nat /\ NoDup (map fst ex_nodes).
Proof.
  split; [|split; [vm_compute; reflexivity|]].
  - intros dc H. vm_compute in H. destruct H as [<-|[<-|[<-|[]]]]; vm_compute; reflexivity.
  - vm_compute. repeat (constructor; [intros H; simpl in H; repeat (destruct H as [H|H]; [discriminate|]); exact H|]). constructor.
Qed.
(* V2 after losing node b1: partition lists keep their surviving members, stay valid *)
Example C17_ex_v2_chain :
  exists l0 l1,
    rebalance balance_v2_str [110;115] 4 3 [] ex_nodes = Ok l0 /\
    rebalance balance_v2_str [110;115] 4 3 l0 (filter (fun nt => negb (bytes_eqb (fst nt) [98;49])) ex_nodes) = Ok l1 /\
    olds_ok 4%nat l0 /\ l0 <> l1.
Proof.
  eexists. eexists. split; [vm_compute; reflexivity|]. split; [vm_compute; reflexivity|].
  split; [|discriminate]. split; [simpl; lia|].
  repeat (constructor; [repeat (constructor; [intros H; simpl in H; repeat (destruct H as [H|H]; [discriminate|]); exact H|]); constructor|]). constructor.
Qed.
(* refusal is reachable; an old list longer than r whose leader died and which covers every live node — the
   input on which the code used to panic (DESIGN.md L1, fixed in /repo 8ac1883) — now yields a layout that
   reuses the surplus member; the Panic outcome stays reachable outside the hypotheses (more old lists than
   partitions: partitionNodes[pid] out of range in moveIfUnbalanced) *)
(* "test106933949" hashes to 2^32 - 5: the ring positions run through the 2^32 boundary without a jump *)
Example C17_ex_boundary_hash :
  murmur3_32 [116;101;115;116;49;48;54;57;51;51;57;52;57] = 4294967291 /\
  fill_v1 4294967291 6 3 [[110;48];[110;49];[110;50]] =
  Ok [[[110;50];[110;48];[110;49]]; [[110;48];[110;49];[110;50]]; [[110;49];[110;50];[110;48]];
      [[110;50];[110;48];[110;49]]; [[110;48];[110;49];[110;50]]; [[110;49];[110;50];[110;48]]].
Proof. split; vm_compute; reflexivity. Qed.
Example C17_ex_refuse : rebalance balance_v2_str [110;115] 4 7 [] ex_nodes = Refuse.
Proof. vm_compute. reflexivity. Qed.
Example C17_ex_overlong_old_list :
  rebalance balance_v2_str [110;115] 1 2 [[[120];[98;49];[98;50]]] [([98;49], TagAbsent); ([98;50], TagAbsent)]
  = Ok [[[98;50];[98;49]]].
Proof. vm_compute. reflexivity. Qed.
Example C17_ex_panic_outside_hypotheses :
  rebalance balance_v2_str [110;115] 1 1 [[[98;49]];[[98;49]];[[98;49]];[[98;49]]] [([98;49], TagAbsent); ([98;50], TagAbsent)] = Panic.
Proof. vm_compute. reflexivity. Qed.
