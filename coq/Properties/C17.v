(* Properties/C17.v — C17: placement puts each partition's replicas on distinct, spread-out nodes.
   This file contains only the property theorems (closed by [exact]) and non-vacuity examples. *)
From ZV Require Import Common.Bytes Part.Model Place.Consts Place.Model Place.Proofs.
From Coq Require Import Permutation.
Open Scope nat_scope.

(* (V1-a) ring algorithm on a duplicate-free ring with at least r nodes: p lists, each with exactly r
   distinct members of the ring; never a panic *)
Theorem C17_v1_valid : forall h p r (ring : list (list N)),
  NoDup ring -> r <= length ring -> ring <> [] ->
  exists l, fill_v1 h p r ring = Ok l /\ valid_layout ring p r l.
Proof. exact fill_v1_valid. Qed.
Print Assumptions C17_v1_valid.
