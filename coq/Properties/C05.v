(* Properties/C05.v — C05: WAL reopen after a crash returns exactly a durable prefix. *)
From ZV Require Import Common.Bytes Wal.Consts Wal.Crc Wal.Proto Wal.Model Wal.Proofs.
Open Scope N_scope.

Theorem C05_btake_is_firstn : forall bs n, btake n bs = firstn (N.to_nat n) bs.
Proof. exact btake_firstn. Qed.
Print Assumptions C05_btake_is_firstn.
