(* Properties/C05.v — C05: WAL reopen after a crash returns exactly a durable prefix.
   Only property theorems (closed by [exact]) and non-vacuity examples. The model is coq/Wal/Model.v
   (byte exact; tied to /repo's wal package by the correspondence check on every run). *)
From ZV Require Import Common.Bytes Wal.Consts Wal.Crc Wal.Proto Wal.Model Wal.Spec Wal.Proofs.
Open Scope N_scope.

(* ---------- CRC-32C ---------- *)
(* the table-driven CRC the extracted model runs is the bit-at-a-time Castagnoli CRC *)
Theorem C05_crc_table_is_spec : forall crc bs, crc_update crc bs = crc_update_spec crc bs.
Proof. exact crc_update_eq_spec. Qed.
Print Assumptions C05_crc_table_is_spec.

(* chaining: Write(a); Write(b) = Write(a ++ b) *)
Theorem C05_crc_chain : forall c a b, crc_update c (a ++ b) = crc_update (crc_update c a) b.
Proof. exact crc_update_app. Qed.
Print Assumptions C05_crc_chain.

(* (e) two payloads that differ in exactly one byte — in particular in one bit — never have the same CRC *)
Theorem C05_crc_single_byte : forall p q b b' c,
  c < 2 ^ 32 -> bytes_lt p -> bytes_lt q -> b < 256 -> b' < 256 -> b <> b' ->
  crc_update c (p ++ b :: q) <> crc_update c (p ++ b' :: q).
Proof. exact crc_single_byte. Qed.
Print Assumptions C05_crc_single_byte.

Theorem C05_crc_single_bit : forall p q b k c,
  c < 2 ^ 32 -> bytes_lt p -> bytes_lt q -> b < 256 -> k < 8 ->
  crc_update c (p ++ N.lxor b (N.shiftl 1 k) :: q) <> crc_update c (p ++ b :: q).
Proof. exact crc_single_bit. Qed.
Print Assumptions C05_crc_single_bit.

(* ---------- protobuf layer ---------- *)
Theorem C05_varint_roundtrip : forall v rest, v < 2 ^ 64 -> varint_dec (varint_enc v ++ rest) = POk (v, rest).
Proof. exact varint_roundtrip. Qed.
Print Assumptions C05_varint_roundtrip.

Theorem C05_record_roundtrip : forall r,
  r_type r < 2 ^ 64 -> r_crc r < 2 ^ 32 -> opt_len (r_data r) < 2 ^ 61 ->
  record_unmarshal (record_marshal r) = POk r.
Proof. exact record_roundtrip. Qed.
Print Assumptions C05_record_roundtrip.

Theorem C05_entry_roundtrip : forall e, entry_ok e -> entry_unmarshal (entry_marshal e) = POk e.
Proof. exact entry_roundtrip. Qed.
Print Assumptions C05_entry_roundtrip.

Theorem C05_hardstate_roundtrip : forall s,
  hs_term s < 2 ^ 64 -> hs_vote s < 2 ^ 64 -> hs_commit s < 2 ^ 64 -> hs_unmarshal (hs_marshal s) = POk s.
Proof. exact hs_roundtrip. Qed.
Print Assumptions C05_hardstate_roundtrip.

Theorem C05_snapshot_roundtrip : forall s,
  sn_index s < 2 ^ 64 -> sn_term s < 2 ^ 64 -> snap_unmarshal (snap_marshal s) = POk s.
Proof. exact snap_roundtrip. Qed.
Print Assumptions C05_snapshot_roundtrip.

(* ---------- frames ---------- *)
Theorem C05_frame_size_roundtrip : forall n, n < 2 ^ 56 ->
  frame_rec_bytes (frame_len_field n) = n /\ frame_pad_bytes (frame_len_field n) = frame_pad n /\
  (n + frame_pad n) mod 8 = 0.
Proof. intros n H. split; [now apply frame_rec_bytes_field|split; [now apply frame_pad_bytes_field|apply frame_pad_spec]]. Qed.
Print Assumptions C05_frame_size_roundtrip.

(* decodeRecord on a frame the encoder wrote returns the record, advances lastValidOff by the frame
   and chains the crc — whatever follows the frame and whatever other segments there are *)
Theorem C05_frame_decodes : forall fuel r rest others off crc,
  rec_ok r -> crc_consistent crc r ->
  decode_record (S fuel)
    {| d_brs := (frame (record_marshal r) ++ rest) :: others; d_off := off; d_crc := crc |} =
  DRec r {| d_brs := rest :: others; d_off := off + blen (frame (record_marshal r)); d_crc := crc_after crc r |}.
Proof. exact decode_record_frame. Qed.
Print Assumptions C05_frame_decodes.

(* ---------- (a) round trip of a segment file: stream + preallocated zeros ---------- *)
Theorem C05_decode_encode_roundtrip : forall recs z,
  Forall enc_ok recs -> (z = 0 \/ 8 <= z) ->
  decode_all [fst (encode_all 0 recs) ++ zeros z] = (stored 0 recs, None, blen (fst (encode_all 0 recs))).
Proof. exact decode_all_roundtrip. Qed.
Print Assumptions C05_decode_encode_roundtrip.

(* the same across a directory of segment files: cut() closes a segment exactly at its written length and
   starts the next one with the running crc; the decoder walks all of them and returns every record *)
Theorem C05_decode_segments_roundtrip : forall segs z,
  segs_ok segs -> segs <> [] -> (z = 0 \/ 8 <= z) ->
  decode_all (app_last (encode_segs 0 segs) (zeros z)) = (stored_segs 0 segs, None, last_len 0 segs).
Proof. exact decode_all_segments. Qed.
Print Assumptions C05_decode_segments_roundtrip.

(* ---------- synced ⊑ p: what was encoded before a point survives ANY damage behind it ---------- *)
Theorem C05_synced_prefix_survives : forall recs junk,
  Forall enc_ok recs ->
  exists rs v off, decode_all [fst (encode_all 0 recs) ++ junk] = (stored 0 recs ++ rs, v, off).
Proof. exact synced_prefix_survives. Qed.
Print Assumptions C05_synced_prefix_survives.

(* ---------- (b) the prefix theorem, for EVERY byte offset c ----------
   file = written stream + preallocated zeros; the image keeps the first c bytes, the rest is zero.
   The decoder returns exactly a prefix of the written records (never anything else), which contains
   every record that lies wholly before the cut, then EOF or an error; lastValidOff is the end of that prefix.
   Unconditional when the cut is at a frame boundary, inside a length field, or past the stream;
   for a cut inside a frame body under the named hypothesis [no_crc_collision_cut] (the zero-filled
   frame is the frame itself or is rejected), which the check evaluates on every generated image. *)
Theorem C05_truncated_image_is_prefix : forall recs z c,
  Forall enc_ok recs -> (z = 0 \/ 8 <= z) ->
  let stream := fst (encode_all 0 recs) in
  let file := stream ++ zeros z in
  c <= blen file ->
  (forall recs1 x recs2 j, recs = recs1 ++ x :: recs2 -> c = blen (fst (encode_all 0 recs1)) + j ->
     8 <= j < blen (frame_of (snd (encode_all 0 recs1)) x) ->
     no_crc_collision_cut (snd (encode_all 0 recs1)) x j) ->
  exists recs1 recs2 v,
    recs = recs1 ++ recs2 /\
    decode_all [img_trunc c file] = (stored 0 recs1, v, blen (fst (encode_all 0 recs1))) /\
    (recs2 = [] \/ c < blen (fst (encode_all 0 (recs1 ++ firstn 1 recs2)))) /\
    verdict_ok v /\
    btake (blen (fst (encode_all 0 recs1))) (img_trunc c file) = fst (encode_all 0 recs1).
Proof. exact trunc_image_decodes. Qed.
Print Assumptions C05_truncated_image_is_prefix.

(* ---------- (d) any damage (torn sectors, garbage), not only a cut ----------
   The image agrees with the written stream up to the start of a frame; that frame's length field is either
   zero (its sector was lost) or intact with a body the decoder does not accept (NoCrcCollision for this
   image, evaluated by the check). Then exactly the records before that frame are returned. *)
Theorem C05_damaged_frame_stops_decoding : forall recs1 x junk,
  Forall enc_ok recs1 -> enc_ok x ->
  let crc1 := snd (encode_all 0 recs1) in
  let n := blen (payload_of crc1 x) in
  ((exists t, junk = zeros 8 ++ t) \/
   (exists body' t, junk = le64 (frame_len_field n) ++ body' ++ t /\ blen body' = n + frame_pad n /\
                    accepts crc1 n body' = false)) ->
  exists v, decode_all [fst (encode_all 0 recs1) ++ junk] = (stored 0 recs1, v, blen (fst (encode_all 0 recs1)))
            /\ verdict_ok v.
Proof. exact damaged_frame_stops_decoding. Qed.
Print Assumptions C05_damaged_frame_stops_decoding.

(* (e) a single inverted bit inside the Data of any record (entry, hard state, snapshot marker, metadata) is
   always detected: decoding stops with an error at that record and never returns the altered record.
   (Flips in the Type byte are NOT detected — see C05_full_refuted_bitflip; flips in length fields, tags and
   varints change the framing and are covered by the correspondence check only.) *)
Theorem C05_bitflip_in_data_detected : forall recs1 ty p b k q t,
  Forall enc_ok recs1 -> enc_ok (ty, Some (p ++ b :: q)) -> ty <> c_crcType -> k < 8 ->
  let crc1 := snd (encode_all 0 recs1) in
  let n := blen (payload_of crc1 (ty, Some (p ++ b :: q))) in
  exists e, decode_all [fst (encode_all 0 recs1) ++
                        le64 (frame_len_field n) ++ (flipped_payload crc1 ty p b k q ++ zeros (frame_pad n)) ++ t]
            = (stored 0 recs1, Some e, blen (fst (encode_all 0 recs1))).
Proof. exact data_bitflip_detected. Qed.
Print Assumptions C05_bitflip_in_data_detected.

(* zeroed sectors are instances: frames are 8-byte aligned, so a zeroed range that starts on an 8-byte boundary
   (a 512-byte sector, or the rest of the sector behind the sync point — both frame-aligned) either wipes the
   first frame it touches from its length field on (clean end) or leaves that length field intact; in the
   second case the body is rejected under NoCrcCollision for this image. Exactly the records before that
   frame are returned, whatever later sectors survived. *)
Theorem C05_zeroed_range_stops_decoding : forall recs1 x recs2 z off len,
  Forall enc_ok (recs1 ++ x :: recs2) ->
  let crc1 := snd (encode_all 0 recs1) in
  let S1 := blen (fst (encode_all 0 recs1)) in
  let n := blen (payload_of crc1 x) in
  let file := fst (encode_all 0 (recs1 ++ x :: recs2)) ++ zeros z in
  S1 <= off < S1 + blen (frame_of crc1 x) -> off mod 8 = 0 -> 8 <= len -> off + len <= blen file ->
  (off <> S1 -> accepts crc1 n (btake (n + frame_pad n) (bdrop (S1 + 8) (img_zero off len file))) = false) ->
  exists v, decode_all [img_zero off len file] = (stored 0 recs1, v, S1) /\ verdict_ok v.
Proof. exact zeroed_range_stops_decoding. Qed.
Print Assumptions C05_zeroed_range_stops_decoding.

(* ---------- Repair ---------- *)
(* on the last file Repair does exactly what the decoder's verdict says: nothing at a clean end, truncate
   at lastValidOff for io.ErrUnexpectedEOF / size limit, refuse otherwise *)
Theorem C05_repair_follows_verdict : forall bs, repair_last bs = repair_of_verdict (decode_all [bs]).
Proof. exact repair_last_spec. Qed.
Print Assumptions C05_repair_follows_verdict.

(* ... and after a torn tail it leaves exactly the decoded prefix, which then reads back with a clean end *)
Theorem C05_repair_yields_prefix : forall recs1 img,
  Forall enc_ok recs1 ->
  decode_all [img] = (stored 0 recs1, Some EUeof, blen (fst (encode_all 0 recs1))) ->
  btake (blen (fst (encode_all 0 recs1))) img = fst (encode_all 0 recs1) ->
  repair_last img = RepTrunc (blen (fst (encode_all 0 recs1))) /\
  decode_all [btake (blen (fst (encode_all 0 recs1))) img] =
    (stored 0 recs1, None, blen (fst (encode_all 0 recs1))).
Proof. exact repair_yields_prefix. Qed.
Print Assumptions C05_repair_yields_prefix.

(* ---------- the writer: what Save / SaveSnapshot / cut / Sync really put into the tail ---------- *)
(* for every history of well-formed operations, in either fsync mode: the tail segment is the encoder's
   stream of well-formed records, the page-writer accounts for every byte, and every sync point recorded on
   the tail is the end of a prefix of those records *)
Theorem C05_writer_tail_is_stream : forall opt seg meta ops,
  data_ok meta -> Forall op_wf ops -> tail_inv (w_run opt seg meta ops).
Proof. exact w_run_inv. Qed.
Print Assumptions C05_writer_tail_is_stream.

(* the head of every segment: crc record, metadata and — when there is one — the hard state as of the cut,
   so a reader that Open() starts at this segment (a reopen at a later snapshot marker) knows the newest hard
   state saved before it *)
Theorem C05_segment_head : forall opt seg meta ops,
  data_ok meta -> Forall op_wf ops ->
  exists c0 recs, tinv (w_run opt seg meta ops) c0 recs /\
    exists st0 rest, recs = (c_crcType, None) :: (c_metadataType, w_meta (w_run opt seg meta ops)) ::
                            (if hs_is_empty st0 then [] else [(c_stateType, Some (hs_marshal st0))]) ++ rest.
Proof. exact w_run_head. Qed.
Print Assumptions C05_segment_head.

(* a cut starts the new segment with exactly that head, the state being the wal's current hard state *)
Theorem C05_cut_writes_head : forall w c0 recs,
  tinv w c0 recs -> exists c0', tinv (w_cut w) c0' (hdr (w_meta w) (w_state w)) /\ w_meta (w_cut w) = w_meta w.
Proof. exact w_cut_head. Qed.
Print Assumptions C05_cut_writes_head.

(* segment files: sequence numbers are consecutive whatever the history (cuts, ReleaseLockTo + purge), so
   isValidSeq accepts every suffix of the directory and Open never fails on the order of the files it wrote;
   searchIndex picks the LAST file whose name index is <= the snapshot index *)
Theorem C05_sequence_numbers_consecutive : forall opt seg meta ops,
  exists first, consecutive first (seqs_of (w_run opt seg meta ops)).
Proof. exact w_run_names. Qed.
Print Assumptions C05_sequence_numbers_consecutive.

Theorem C05_written_directory_valid_seq : forall opt seg meta ops k,
  valid_seq (skipn k (w_files (w_run opt seg meta ops))) 0 = true.
Proof. exact written_directory_valid_seq. Qed.
Print Assumptions C05_written_directory_valid_seq.

Theorem C05_open_selects_suffix : forall opt seg meta ops snap,
  select_files (w_files (w_run opt seg meta ops)) snap =
  match search_index (w_files (w_run opt seg meta ops)) (sn_index snap) 0 None with
  | Some i => Some (skipn i (w_files (w_run opt seg meta ops)))
  | None => None
  end.
Proof. exact select_written. Qed.
Print Assumptions C05_open_selects_suffix.

Theorem C05_search_index_is_last_le : forall files index i best,
  search_index files index i best =
  match find (fun p => sg_idx (snd p) <=? index) (rev (combine (seq i (length files)) files)) with
  | Some (j, _) => Some j
  | None => best
  end.
Proof. exact search_index_spec. Qed.
Print Assumptions C05_search_index_is_last_le.

(* (4) synced ⊑ p for the sync points the code really produces (W1: with optimizedFsync these are only
   vote/term changes and explicit Sync): every image of the first segment that keeps the bytes covered by
   the last completed fdatasync returns the records saved before it, whatever the rest of the image is *)
Theorem C05_synced_records_survive : forall opt seg meta ops s junk,
  data_ok meta -> Forall op_wf ops ->
  let w := w_run opt seg meta ops in
  w_seq w = 0 -> w_sync w = Some s -> sy_seq s = w_seq w ->
  exists r1 r2,
    w_tail w = fst (encode_all 0 (r1 ++ r2)) /\ sy_off s = blen (fst (encode_all 0 r1)) /\
    exists rs v off, decode_all [btake (sy_off s) (w_tail w) ++ junk] = (stored 0 r1 ++ rs, v, off).
Proof. exact synced_records_survive. Qed.
Print Assumptions C05_synced_records_survive.

(* ---------- (c) ReadAll's fold: last write per index wins, what follows is truncated ----------
   for ANY sequence of entry records read at snapshot index [start] (as fixed by /repo 82bb7ac: an entry at or
   before the snapshot index empties what was collected): the result is exactly the visible entries beyond
   the snapshot — the same log whichever snapshot the wal is opened at *)
Theorem C05_readall_entries_visible : forall start es ents,
  place_all start [] es = Some ents ->
  ents = filter (fun x => start <? e_index x) (visible es) /\ contiguous start ents.
Proof. intros start es ents H. exact (place_all_visible start es [] [] ents I eq_refl H). Qed.
Print Assumptions C05_readall_entries_visible.

Theorem C05_visible_characterised : forall es e,
  In e (visible es) <-> exists a b, es = a ++ e :: b /\ forall y, In y b -> e_index e < e_index y.
Proof. exact visible_spec. Qed.
Print Assumptions C05_visible_characterised.

(* ---------- ReadAll over what the decoder returns ---------- *)
(* ReadAll (write mode) is the fold of its loop body over decode_all's records; a decoder error other than a
   clean end is returned as is *)
Theorem C05_readall_is_fold : forall start segs,
  rares_view (read_all start segs) =
  match fold_view start ra_init (decode_all segs) with
  | inr e => inr e
  | inl (s, Some e, _) => inr e
  | inl (s, None, off) => inl (ra_meta s, ra_st s, ra_ents s, off)
  end.
Proof. exact read_all_fold. Qed.
Print Assumptions C05_readall_is_fold.

(* and that fold, over the stored form of logical records, computes [effect] *)
Theorem C05_fold_is_effect : forall start ls crc s,
  Forall lrec_wf ls ->
  match ra_fold start s (stored crc (map rec_of_lrec ls)) with
  | inl s' => effect_go start ls (ra_st s) (ra_ents s) = Some (ra_st s', ra_ents s') /\ ra_meta s' = ra_meta s
  | inr e => effect_go start ls (ra_st s) (ra_ents s) = None /\ (e = EOutOfRange \/ e = ESnapMismatch)
  end.
Proof. exact ra_fold_effect. Qed.
Print Assumptions C05_fold_is_effect.

(* ---------- reopening for append (Open + ReadAll in write mode, pkg/fileutil.ZeroToEnd) ---------- *)
(* the recovered tail = the bytes up to lastValidOff, then zeros up to the old length: everything behind the
   last valid record is zero *)
Theorem C05_reopen_tail_zero : forall off img,
  bdrop off (reopen_tail off img) = zeros (blen img - off) /\ all_zero (bdrop off (reopen_tail off img)) = true.
Proof. exact reopen_tail_zero. Qed.
Print Assumptions C05_reopen_tail_zero.

(* ReadAll on a written segment returns the fold of its records, lastValidOff = end of the stream, and the
   crc with which the append encoder continues = the writer's crc after those records *)
Theorem C05_readall_on_stream : forall start recs z s',
  Forall enc_ok recs -> (z = 0 \/ 8 <= z) -> ra_fold start ra_init (stored 0 recs) = inl s' ->
  read_all start [fst (encode_all 0 recs) ++ zeros z] =
  RAOk (ra_meta s') (ra_st s') (ra_ents s') (blen (fst (encode_all 0 recs))) (snd (encode_all 0 recs)).
Proof. exact read_all_stream. Qed.
Print Assumptions C05_readall_on_stream.

(* TWO GENERATIONS: a recovery left a tail holding exactly the records recs1 (then zeros). The wal that
   Open + ReadAll return has an all-zero tail behind recs1, and whatever well-formed operations are then run on
   it (without leaving the segment), the tail is the encoder's stream of recs1 ++ more with [more] written in
   this generation: the next reopen decodes exactly the recovered prefix followed by what was appended —
   nothing the recovery had cut off can come back, nothing appended is lost *)
Theorem C05_two_generation : forall opt seg f at_ recs1 z s1 cont,
  sg_bytes f = fst (encode_all 0 recs1) ++ zeros z -> (z = 0 \/ 8 <= z) -> sg_idx f <= sn_index at_ ->
  Forall enc_ok recs1 -> ra_fold at_ ra_init (stored 0 recs1) = inl s1 -> data_ok (ra_meta s1) ->
  Forall op_wf cont ->
  exists w, writer_after opt seg [f] at_ = Some w /\
    all_zero (bdrop (blen (fst (encode_all 0 recs1))) (sg_bytes (tail_file w))) = true /\
    let w' := fold_left w_step cont w in
    (w_seq w' = w_seq w ->
     exists more, Forall enc_ok (recs1 ++ more) /\
       w_tail w' = fst (encode_all 0 (recs1 ++ more)) /\
       forall z', (z' = 0 \/ 8 <= z') ->
         decode_all [w_tail w' ++ zeros z'] = (stored 0 (recs1 ++ more), None, blen (w_tail w'))).
Proof. exact two_generation. Qed.
Print Assumptions C05_two_generation.

(* ---------- END TO END, first segment ----------
   C05_full restricted to: histories that stay in their first segment (either fsync mode, any well-formed
   operations, the crash inside the last operation o) and images 'first c bytes, then zeros' for EVERY c
   behind the last fdatasync completed before o. What a restarting node runs — Open + ReadAll, and when
   that fails Repair and a second Open + ReadAll — fails, or returns exactly effect(prefix of the saved
   records) with every record saved before that fdatasync inside the prefix.
   Hypotheses beyond well-formedness: the named no_crc_collision_cut for a cut inside a frame body, and the
   preallocated remainder of the segment is 0 or at least 8 bytes (true whenever SegmentSizeBytes is a
   multiple of 8, as the default is). This theorem also covers ReleaseLockTo inside a first-segment history;
   histories with any number of segments: C05_cut_image_is_synced_prefix below. *)
Theorem C05_first_segment_cut_partial : forall opt seg meta ops o c,
  data_ok meta -> Forall op_wf (ops ++ [o]) ->
  let w0 := w_run opt seg meta ops in
  let w := w_step w0 o in
  w_seq w = 0 ->
  (seg - blen (w_tail w) = 0 \/ 8 <= seg - blen (w_tail w)) ->
  synced_off w0 w <= c -> c <= blen (sg_bytes (tail_file w)) ->
  (forall recs1 x recs2 j, recs_of meta (ops ++ [o]) = recs1 ++ x :: recs2 ->
     c = blen (fst (encode_all 0 recs1)) + j -> 8 <= j < blen (frame_of (snd (encode_all 0 recs1)) x) ->
     no_crc_collision_cut (snd (encode_all 0 recs1)) x j) ->
  match final_result (reopen (set_last_bytes (w_files w) (img_trunc c)) (Some zero_snap)) with
  | RAErr _ => True
  | RAOk _ st ents _ _ =>
      exists k, synced_recs w0 <= k /\
                effect zero_snap (firstn (N.to_nat k) (lrecs (ops ++ [o]))) = Some (st, ents)
  end.
Proof. exact first_segment_cut. Qed.
Print Assumptions C05_first_segment_cut_partial.

(* ---------- END TO END, any number of segments ----------
   The same statement for EVERY history of well-formed Save / SaveSnapshot / Sync operations (no
   ReleaseLockTo), in either fsync mode, whatever number of cuts it went through — including a cut inside the
   crashing operation o itself. The crash damages the tail segment only: 'first c bytes, then zeros' for
   every c behind the tail's last completed fdatasync (synced_off is 0 when that fdatasync went to an earlier
   segment); the closed segments are as written. The restarting node opens at the zero snapshot, so Open
   selects every file (proved from the names the writer gave them), ReadAll decodes the crc chain across the
   files, and Repair — which reads the LAST file alone, with a decoder that starts at crc 0 and adopts the
   crc record at the head of the file — truncates a torn tail at the last valid record; the second ReadAll
   then returns effect(prefix), the prefix containing every record saved before the last completed
   fdatasync, in whichever segment that record lies.
   Hypotheses beyond well-formedness: the preallocated remainder of the tail is 0 or >= 8 bytes; the named
   no_crc_collision_cut for a cut inside a frame body (for the stream the tail really holds: quantified over
   every way of reading the tail as an encoder stream); and, when the history has closed segments, the cut
   does not fall inside the 16-byte crc record that opens the tail (Repair's lone decoder and ReadAll's
   chained decoder see that torn frame under different running crcs).
   Still missing for the full statement: reopen at a saved marker other than the zero snapshot, histories
   with ReleaseLockTo after a cut, short-file and zeroed-sector images end to end (their decoder theorems are
   above), bit flips (refuted in general, see below). *)
Theorem C05_cut_image_is_synced_prefix : forall opt seg meta ops o c,
  data_ok meta -> Forall op_wf (ops ++ [o]) -> Forall not_release (ops ++ [o]) ->
  let w0 := w_run opt seg meta ops in
  let w := w_step w0 o in
  (w_tailsize w - blen (w_tail w) = 0 \/ 8 <= w_tailsize w - blen (w_tail w)) ->
  synced_off w0 w <= c -> c <= blen (sg_bytes (tail_file w)) ->
  (w_closed w <> [] -> 16 <= c) ->
  (forall c0 recs recs1 x recs2 j, c0 < 2 ^ 32 -> w_tail w = fst (encode_all c0 recs) ->
     recs = recs1 ++ x :: recs2 ->
     c = blen (fst (encode_all c0 recs1)) + j -> 8 <= j < blen (frame_of (snd (encode_all c0 recs1)) x) ->
     no_crc_collision_cut (snd (encode_all c0 recs1)) x j) ->
  match final_result (reopen (set_last_bytes (w_files w) (img_trunc c)) (Some zero_snap)) with
  | RAErr _ => True
  | RAOk _ st ents _ _ =>
      exists k, synced_recs w0 <= k /\
                effect zero_snap (firstn (N.to_nat k) (lrecs (ops ++ [o]))) = Some (st, ents)
  end.
Proof. exact multi_segment_cut. Qed.
Print Assumptions C05_cut_image_is_synced_prefix.

(* ---------- END TO END, any number of segments, reopen at ANY snapshot ----------
   The same for Open(at) with an arbitrary walpb.Snapshot 'at' (a saved marker or not). Open selects the files
   from the last one whose name index is <= at.Index on (computed from the names alone; the sequence check
   never rejects a written directory), so ReadAll starts with a fresh decoder and an empty state in the
   middle of the log: the crc record at the head of the first selected file seeds the decoder, the hard
   state record behind it restores the state, and — proved from 'cut() names the new file lastEntryIndex+1' —
   every entry in the files that were NOT selected is at or below at.Index, so nothing is lost by not reading
   them: the result is effect_at(prefix of ALL saved records), with every fdatasync'ed record inside.
   Additional hypotheses, both about reading at 'at' at all:
     - the saved records are readable at 'at': effect at (any prefix) is defined, i.e. no index gap above
       at.Index and no marker with at's index and another term (raft never produces either);
     - when Open selects the tail ALONE (w_idx w <= at.Index) in a history with closed segments, the crash
       leaves the tail's head (crc, metadata, hard state) intact. Without it the statement is false of
       wal.Open(at) as an API: a tail whose head state record is lost (possible under optimizedFsync, where
       cut() does not fdatasync the head it writes) is read with an EMPTY HardState although an earlier
       segment holds a durable one. The node's restart path opens only at markers ValidSnapshotEntries still
       decodes; a marker that selects the tail alone lies in the tail behind its head, so the case is not
       reached as long as raft never rewrites entries at or below a marker. *)
Theorem C05_cut_image_is_synced_prefix_at : forall opt seg meta ops o c at_,
  data_ok meta -> Forall op_wf (ops ++ [o]) -> Forall not_release (ops ++ [o]) ->
  let w0 := w_run opt seg meta ops in
  let w := w_step w0 o in
  (w_tailsize w - blen (w_tail w) = 0 \/ 8 <= w_tailsize w - blen (w_tail w)) ->
  synced_off w0 w <= c -> c <= blen (sg_bytes (tail_file w)) ->
  (w_closed w <> [] -> 16 <= c) ->
  (w_closed w <> [] -> w_idx w <= sn_index at_ ->
     forall c0 st recs, c0 < 2 ^ 32 -> w_tail w = fst (encode_all c0 (hdr meta st ++ recs)) ->
       blen (fst (encode_all c0 (hdr meta st))) <= c) ->
  (forall n, effect at_ (firstn n (lrecs (ops ++ [o]))) <> None) ->
  (forall c0 recs recs1 x recs2 j, c0 < 2 ^ 32 -> w_tail w = fst (encode_all c0 recs) ->
     recs = recs1 ++ x :: recs2 ->
     c = blen (fst (encode_all c0 recs1)) + j -> 8 <= j < blen (frame_of (snd (encode_all c0 recs1)) x) ->
     no_crc_collision_cut (snd (encode_all c0 recs1)) x j) ->
  match final_result (reopen (set_last_bytes (w_files w) (img_trunc c)) (Some at_)) with
  | RAErr _ => True
  | RAOk _ st ents _ _ =>
      exists k, synced_recs w0 <= k /\
                effect at_ (firstn (N.to_nat k) (lrecs (ops ++ [o]))) = Some (st, ents)
  end.
Proof. exact multi_segment_cut_at. Qed.
Print Assumptions C05_cut_image_is_synced_prefix_at.

(* Open's selection on a written directory depends on the names only: the same files whatever the crash did
   to the bytes of the tail *)
Theorem C05_selection_from_names : forall opt seg meta ops at_,
  Forall not_release ops ->
  let w := w_run opt seg meta ops in
  exists k, (k <= length (w_closed w))%nat /\ nth k (map sg_idx (w_closed w) ++ [w_idx w]) 0 <= sn_index at_ /\
    forall b, select_files (w_closed w ++ [with_bytes (tail_file w) b]) at_
              = Some (skipn k (w_closed w) ++ [with_bytes (tail_file w) b]).
Proof. exact select_at. Qed.
Print Assumptions C05_selection_from_names.

(* every file of such a history is described: the closed files are the encoder streams of whole segments
   (head = crc record carrying the chained crc, metadata, the hard state in force), the tail is the stream of
   the last one, the logical records of all segments in order are exactly the saved records *)
Theorem C05_directory_is_described : forall opt seg meta ops,
  data_ok meta -> Forall op_wf ops -> Forall not_release ops ->
  exists pre d, ginv (w_run opt seg meta ops) meta ops pre d.
Proof. exact w_run_ginv. Qed.
Print Assumptions C05_directory_is_described.

(* ---------- the full statement and why only parts of it are theorems ----------
   Spec.C05_full: for every history, every crash image (cut + zero fill or short file at any offset behind
   the last completed fdatasync, zeroed sectors behind it, any single bit flip) reopening fails or returns
   exactly effect(prefix) with the synced records inside the prefix. It is FALSE of the faithful model,
   hence of the code (both witnesses are replayed on /repo by corpus/C05):
     - a single bit flip in a record's Type byte is invisible to the CRC (covers Data only);
     - a zeroed sector whose content is a multiple of the CRC-32C polynomial leaves the CRC unchanged.
   What is proved instead: the theorems above (…_is_prefix under the explicit no_crc_collision_cut). *)
Definition C05_full : Prop := Spec.C05_full.

Theorem C05_full_refuted_bitflip :
  exists opt seg meta ops o files',
    let w0 := w_run opt seg meta ops in
    let w := w_step w0 o in
    crash_image w0 w false files' /\
    match final_result (reopen files' (Some zero_snap)) with
    | RAErr _ => False
    | RAOk _ st ents _ _ =>
        forall k, effect zero_snap (firstn k (lrecs (ops ++ [o]))) <> Some (st, ents)
    end.
Proof. exact ProofsRefute.C05_full_refuted_bitflip. Qed.
Print Assumptions C05_full_refuted_bitflip.

Theorem C05_full_refuted_torn_sector :
  exists opt seg meta ops o files',
    let w0 := w_run opt seg meta ops in
    let w := w_step w0 o in
    crash_image w0 w true files' /\
    match final_result (reopen files' (Some zero_snap)) with
    | RAErr _ => False
    | RAOk _ st ents _ _ =>
        forall k, effect zero_snap (firstn k (lrecs (ops ++ [o]))) <> Some (st, ents)
    end.
Proof. exact ProofsRefute.C05_full_refuted_torn_sector. Qed.
Print Assumptions C05_full_refuted_torn_sector.

Theorem C05_full_refuted : ~ C05_full.
Proof. exact C05_full_is_false. Qed.
Print Assumptions C05_full_refuted.

(* ---------- non-vacuity ---------- *)
(* CRC-32C("123456789") = 0xE3069283, the standard check value *)
Example C05_ex_crc_check : crc32c [49;50;51;52;53;54;55;56;57] = 3808858755.
Proof. vm_compute. reflexivity. Qed.

(* a concrete history is well formed, ends in a sync point on its first segment *)
Example C05_ex_history :
  let ops := [OSave {| hs_term := 1; hs_vote := 1; hs_commit := 0 |}
                [{| e_type := 0; e_term := 1; e_index := 1; e_data := Some [104; 105]; e_id := 7; e_dtype := 0; e_ts := 0 |}]] in
  data_ok (Some [1;2;3]) /\ Forall op_wf ops /\
  let w := w_run false 512 (Some [1;2;3]) ops in
  w_seq w = 0 /\ exists s, w_sync w = Some s /\ sy_seq s = 0 /\ sy_off s = blen (w_tail w) /\ sy_rec s = 3.
Proof.
  cbv zeta. split; [split; [repeat constructor; lia|cbn; lia]|].
  split.
  - constructor; [|constructor]. cbn [op_wf]. split; [unfold hs_wf; cbn; repeat split; reflexivity|].
    constructor; [|constructor]. split; [constructor; cbn; try reflexivity|split; [repeat constructor; lia|cbn; lia]].
  - split; [vm_compute; reflexivity|]. eexists. vm_compute. repeat split.
Qed.

(* the hypotheses of the end-to-end theorem are satisfiable: the history above, crash in its Save, the image
   keeps everything (c = segment size); reopening returns the whole effect *)
Example C05_ex_end_to_end :
  let e1 := {| e_type := 0; e_term := 1; e_index := 1; e_data := Some [104; 105]; e_id := 7; e_dtype := 0; e_ts := 0 |} in
  let o := OSave {| hs_term := 1; hs_vote := 1; hs_commit := 0 |} [e1] in
  let w0 := w_run false 512 (Some [1;2;3]) [] in
  let w := w_step w0 o in
  w_seq w = 0 /\ 8 <= 512 - blen (w_tail w) /\ synced_off w0 w <= 512 /\ 512 <= blen (sg_bytes (tail_file w)) /\
  (forall recs1 x recs2 j, recs_of (Some [1;2;3]) ([] ++ [o]) = recs1 ++ x :: recs2 ->
     512 = blen (fst (encode_all 0 recs1)) + j -> 8 <= j < blen (frame_of (snd (encode_all 0 recs1)) x) -> False) /\
  match final_result (reopen (set_last_bytes (w_files w) (img_trunc 512)) (Some zero_snap)) with
  | RAOk _ st ents _ _ => st = {| hs_term := 1; hs_vote := 1; hs_commit := 0 |} /\ ents = [e1]
  | RAErr _ => False
  end.
Proof.
  cbv zeta. split; [vm_compute; reflexivity|]. split; [vm_compute; discriminate|].
  split; [vm_compute; discriminate|]. split; [vm_compute; discriminate|]. split.
  - apply no_cut_beyond_stream. vm_compute. discriminate.
  - vm_compute. auto.
Qed.

(* the hypotheses of the multi-segment theorems are satisfiable (optimizedFsync, 128-byte segments: the second
   Save cuts; the crash is inside a Save into the second segment; the image keeps everything written, for
   which the collision and head hypotheses are vacuous: no_cut_beyond_tail, head_within_tail): reopening at
   the zero snapshot returns all three entries, reopening at the marker {1,1} — Open selects both files, the
   marker lies in the second — returns the entries above it; both with the hard state of the last Save *)
Example C05_ex_multi_segment :
  let e1 := {| e_type := 0; e_term := 1; e_index := 1; e_data := Some [104; 105]; e_id := 7; e_dtype := 0; e_ts := 0 |} in
  let e2 := {| e_type := 0; e_term := 1; e_index := 2; e_data := Some [106]; e_id := 8; e_dtype := 0; e_ts := 0 |} in
  let e3 := {| e_type := 0; e_term := 2; e_index := 3; e_data := Some [107]; e_id := 9; e_dtype := 0; e_ts := 0 |} in
  let st1 := {| hs_term := 1; hs_vote := 1; hs_commit := 0 |} in
  let st2 := {| hs_term := 2; hs_vote := 2; hs_commit := 1 |} in
  let mk := {| sn_index := 1; sn_term := 1 |} in
  let ops := [OSave st1 [e1]; OSave st1 [e2]; OSnap mk] in
  let o := OSave st2 [e3] in
  let meta := Some [1;2;3] in
  let w0 := w_run true 128 meta ops in
  let w := w_step w0 o in
  let c := 152 in
  data_ok meta /\ Forall op_wf (ops ++ [o]) /\ Forall not_release (ops ++ [o]) /\
  w_seq w = 1 /\ map sg_idx (w_closed w) = [0] /\ w_idx w = 3 /\ synced_recs w0 = 3 /\
  (w_tailsize w - blen (w_tail w) = 0 \/ 8 <= w_tailsize w - blen (w_tail w)) /\
  synced_off w0 w <= c /\ c <= blen (sg_bytes (tail_file w)) /\ (w_closed w <> [] -> 16 <= c) /\
  blen (w_tail w) <= c /\
  (forall n, effect mk (firstn n (lrecs (ops ++ [o]))) <> None) /\
  match final_result (reopen (set_last_bytes (w_files w) (img_trunc c)) (Some zero_snap)) with
  | RAOk _ st ents _ _ => st = st2 /\ ents = [e1; e2; e3]
  | RAErr _ => False
  end /\
  match final_result (reopen (set_last_bytes (w_files w) (img_trunc c)) (Some mk)) with
  | RAOk _ st ents _ _ => st = st2 /\ ents = [e2; e3]
  | RAErr _ => False
  end.
Proof.
  cbv zeta. split; [split; [repeat constructor; lia|cbn; lia]|].
  split.
  { repeat (constructor; [cbn [op_wf]; try (unfold snap_wf; cbn; split; reflexivity);
      (split; [unfold hs_wf; cbn; repeat split; reflexivity|];
       constructor; [|constructor]; split; [constructor; cbn; try reflexivity|split; [repeat constructor; lia|cbn; lia]])|]).
    constructor. }
  split; [repeat constructor|].
  split; [vm_compute; reflexivity|]. split; [vm_compute; reflexivity|]. split; [vm_compute; reflexivity|].
  split; [vm_compute; reflexivity|]. split; [left; vm_compute; reflexivity|].
  split; [vm_compute; discriminate|]. split; [vm_compute; discriminate|]. split; [intros _; vm_compute; discriminate|].
  split; [vm_compute; discriminate|].
  split.
  { intros n. do 9 (destruct n as [|n]; [vm_compute; discriminate|]). vm_compute. discriminate. }
  split; [vm_compute; auto|]. vm_compute. auto.
Qed.

(* the hypotheses of the two-generation theorem are satisfiable: a recovered one-file directory *)
Example C05_ex_two_generation :
  let recs1 := [(c_crcType, None); (c_metadataType, Some [1;2;3]); (c_entryType, Some [8;0;16;1;24;1;40;0;48;0;56;0])] in
  let f := {| sg_seq := 0; sg_idx := 0; sg_bytes := fst (encode_all 0 recs1) ++ zeros 16; sg_rec := 0 |} in
  Forall enc_ok recs1 /\
  (exists s1, ra_fold zero_snap ra_init (stored 0 recs1) = inl s1 /\ data_ok (ra_meta s1)) /\
  exists w, writer_after false 512 [f] zero_snap = Some w /\ w_tail w = fst (encode_all 0 recs1) /\ w_enti w = 1.
Proof.
  cbv zeta. split; [repeat constructor; cbn; try lia; try discriminate; repeat constructor; lia|]. split.
  - eexists. split; [vm_compute; reflexivity|]. split; [repeat constructor; lia|cbn; lia].
  - eexists. split; [vm_compute; reflexivity|]. split; vm_compute; reflexivity.
Qed.

(* a concrete history satisfies the hypotheses of the prefix theorem's stream and decodes back *)
Example C05_ex_stream :
  let recs := [(c_crcType, None); (c_metadataType, Some [1;2;3]); (c_entryType, Some [8;0;16;1;24;1;40;0;48;0;56;0])] in
  Forall enc_ok recs /\
  decode_all [fst (encode_all 0 recs) ++ zeros 16] = (stored 0 recs, None, 72) /\
  (* cut in the middle of the last frame's length field: exactly the first two records, then UnexpectedEOF *)
  decode_all [img_trunc 43 (fst (encode_all 0 recs) ++ zeros 16)] = (firstn 2 (stored 0 recs), Some EUeof, 40).
Proof.
  cbv zeta. split; [|split; vm_compute; reflexivity].
  repeat constructor; cbn; try lia; try discriminate; repeat constructor; lia.
Qed.
