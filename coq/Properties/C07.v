(* Properties/C07.v — C07: applying the same log always yields the same data and replies.
   Only the property theorems (closed by [exact]) and non-vacuity examples.

   Objects (coq/Determ/Model.v): [apply_batched rp fs so s p] applies a log that is partitioned into
   batch-operator lifetimes (one per applyEntries event) and ApplyRaftRequest calls [p], with the replay
   flag [rp], the from-cluster-syncer bit [fs] and the syncer-only bit [so], to the committed store [s];
   it returns the final store, the (request id, reply) pairs in trigger order and the operator calls made,
   or None for a Go panic. [seq_run s l] is the specification: every request alone, in log order.
   The handlers, the store and the write operations are arbitrary (universally quantified). *)
From Coq Require Import List NArith Bool Permutation.
From ZV Require Import Determ.Consts Determ.Model Determ.ModelRW Determ.Proofs Determ.ProofsRW.
Import ListNotations.
Open Scope N_scope.

Section Statements.
  Variables (store W R : Type).
  Variable apply_w : store -> W -> store.
  Variable handler : req -> store -> outcome W R.
  Variable other_exec : req -> store -> store * R.
  Variable parse_err : req -> R.
  Variables (err_invalid reply_nil : R).
  Variable conflicts : req -> store -> bool.

  Definition batched := apply_batched store W R apply_w handler other_exec parse_err err_invalid reply_nil conflicts.
  Definition alone := seq_run store W R apply_w handler other_exec parse_err err_invalid.

  (* batch_cand q: a batchable name and not a multi-key DEL (the only requests that can ever be in a batch).
     H1 (isolation; C12): writes of a batch candidate on another primary key never change what a
     batch candidate reads.  H2: no batchable command that passed the argument pre-check (isValidBatchableWrite) fails with an abort-class error. *)
  Definition isolation : Prop := forall q q' s' ws r s,
    batch_cand q = true -> batch_cand q' = true -> rpk q <> rpk q' ->
    handler q' s' = Ok ws r -> handler q (commit_ws store W apply_w s ws) = handler q s.
  Definition no_abort_in_batch : Prop := forall q s e, batch_cand q = true -> rvalid q = true -> handler q s <> Fail e true.

  (* the full statement of C07(a): for every log and every partition, same store and same reply for
     every request as one-at-a-time application — with NO assumption on the handlers' errors *)
  Definition C07_full : Prop := isolation ->
    forall rp so p s s1 o1 e1 s2 o2, NoDup (map rid (flatten p)) ->
      batched rp false so s p = Some (s1, o1, e1) -> alone s (flatten p) = Some (s2, o2) ->
      s1 = s2 /\ forall id, reply_of R id o1 = reply_of R id o2.
End Statements.

(* (a) batch equivalence: final store equal, replies equal as a multiset of (id, reply) *)
Theorem C07_batch_equiv_partial :
  forall store W R apply_w handler other_exec parse_err (err_invalid reply_nil : R) conflicts,
    isolation store W R apply_w handler -> no_abort_in_batch store W R handler ->
    forall rp so p s,
      match batched store W R apply_w handler other_exec parse_err err_invalid reply_nil conflicts rp false so s p,
            alone store W R apply_w handler other_exec parse_err err_invalid s (flatten p) with
      | Some (s1, o1, _), Some (s2, o2) => s1 = s2 /\ Permutation o1 o2
      | None, None => True
      | _, _ => False
      end.
Proof. exact batch_equiv. Qed.
Print Assumptions C07_batch_equiv_partial.

(* ... and therefore every request's reply is the reply it gets when applied alone *)
Theorem C07_batch_equiv_replies_partial :
  forall store W R apply_w handler other_exec parse_err (err_invalid reply_nil : R) conflicts,
    isolation store W R apply_w handler -> no_abort_in_batch store W R handler ->
    forall rp so p s s1 o1 e1 s2 o2, NoDup (map rid (flatten p)) ->
      batched store W R apply_w handler other_exec parse_err err_invalid reply_nil conflicts rp false so s p = Some (s1, o1, e1) ->
      alone store W R apply_w handler other_exec parse_err err_invalid s (flatten p) = Some (s2, o2) ->
      s1 = s2 /\ forall id, reply_of R id o1 = reply_of R id o2.
Proof. exact batch_equiv_replies. Qed.
Print Assumptions C07_batch_equiv_replies_partial.

(* two arbitrary partitions of one log, live or replayed: same store, same replies; panics coincide *)
Theorem C07_partition_independent_partial :
  forall store W R apply_w handler other_exec parse_err (err_invalid reply_nil : R) conflicts,
    isolation store W R apply_w handler -> no_abort_in_batch store W R handler ->
    forall rp1 rp2 so p1 p2 s, flatten p1 = flatten p2 ->
      match batched store W R apply_w handler other_exec parse_err err_invalid reply_nil conflicts rp1 false so s p1,
            batched store W R apply_w handler other_exec parse_err err_invalid reply_nil conflicts rp2 false so s p2 with
      | Some (s1, o1, _), Some (s2, o2, _) => s1 = s2 /\ Permutation o1 o2
      | None, None => True
      | _, _ => False
      end.
Proof. exact partition_independent. Qed.
Print Assumptions C07_partition_independent_partial.

Theorem C07_panic_independent_of_partition_partial :
  forall store W R apply_w handler other_exec parse_err (err_invalid reply_nil : R) conflicts,
    isolation store W R apply_w handler -> no_abort_in_batch store W R handler ->
    forall rp so p s,
      batched store W R apply_w handler other_exec parse_err err_invalid reply_nil conflicts rp false so s p = None <->
      alone store W R apply_w handler other_exec parse_err err_invalid s (flatten p) = None.
Proof. exact batch_equiv_panic. Qed.
Print Assumptions C07_panic_independent_of_partition_partial.

(* (b) checkpoint at a cut, restore, replay the tail: equals the whole log applied one at a time
   (the restored store is the store at the cut: that is C14's statement; the tail may be grouped
   and flagged differently from the live run) *)
Theorem C07_cut_then_replay_partial :
  forall store W R apply_w handler other_exec parse_err (err_invalid reply_nil : R) conflicts,
    isolation store W R apply_w handler -> no_abort_in_batch store W R handler ->
    forall rp1 rp2 so p1 p2 s,
      match batched store W R apply_w handler other_exec parse_err err_invalid reply_nil conflicts rp1 false so s p1 with
      | None => alone store W R apply_w handler other_exec parse_err err_invalid s (flatten p1 ++ flatten p2) = None
      | Some (s1, o1, _) =>
          match batched store W R apply_w handler other_exec parse_err err_invalid reply_nil conflicts rp2 false so s1 p2,
                alone store W R apply_w handler other_exec parse_err err_invalid s (flatten p1 ++ flatten p2) with
          | Some (s2, o2, _), Some (s3, o3) => s2 = s3 /\ Permutation (o1 ++ o2) o3
          | None, None => True
          | _, _ => False
          end
      end.
Proof. exact cut_then_replay_expanded. Qed.
Print Assumptions C07_cut_then_replay_partial.

(* the batch operator's own invariants, no hypothesis on the handlers: an operator that is not batching is
   in its initial state (empty dupCheckMap, no collected replies, empty write batch), and a batch never
   holds more than maxDBBatchCmdNum collected replies *)
Theorem C07_operator_invariant :
  forall store W R apply_w handler other_exec parse_err (err_invalid reply_nil : R) conflicts c qs s st' s' o e,
    steps store W R apply_w handler other_exec parse_err err_invalid reply_nil conflicts c init_op s qs = Some (st', s', o, e) ->
    (batching st' = false -> st' = init_op) /\ N.of_nat (length (pend st')) <= max_db_batch_cmd_num.
Proof. exact steps_op_ok_init. Qed.
Print Assumptions C07_operator_invariant.

(* the isolation hypothesis follows from read-set / write-set disjointness and the engine's frame property *)
Theorem C07_isolation_from_rw_sets :
  forall (store W R K V : Type) apply_w (handler : req -> store -> outcome W R) (get : store -> K -> V) (wkey : W -> K)
         (rset wset : req -> K -> Prop),
    (forall s w k, wkey w <> k -> get (apply_w s w) k = get s k) ->
    (forall q s s', (forall k, rset q k -> get s k = get s' k) -> handler q s = handler q s') ->
    (forall q s ws r, batch_cand q = true -> handler q s = Ok ws r -> forall w, In w ws -> wset q (wkey w)) ->
    (forall q q' k, batch_cand q = true -> batch_cand q' = true -> rpk q <> rpk q' -> wset q' k -> rset q k -> False) ->
    isolation store W R apply_w handler.
Proof. exact indep_from_rw_sets. Qed.
Print Assumptions C07_isolation_from_rw_sets.

(* ... and for the read/write sets of the four batchable commands as transcribed from the handlers
   (coq/Determ/ModelRW.v: SET/SETEX/DEL read and write their own [KV] key, HMSET its own size record and
   field keys; table counters are only merged and expire-time index keys only written, neither is ever
   read), the disjointness is PROVED, not assumed: isolation holds for every handler that respects these
   sets over an engine with the frame property. The observed write sets of the real handlers are checked
   against wset on every run (WS cases). *)
Theorem C07_isolation_concrete :
  forall (store W R V : Type) apply_w (handler : req -> store -> outcome W R) (get : store -> ekey -> V) (wkey : W -> ekey),
    (forall s w k, wkey w <> k -> get (apply_w s w) k = get s k) ->
    (forall q s s', (forall k, rset q k -> get s k = get s' k) -> handler q s = handler q s') ->
    (forall q s ws r, batch_cand q = true -> handler q s = Ok ws r -> forall w, In w ws -> wset q (wkey w)) ->
    isolation store W R apply_w handler.
Proof. exact isolation_concrete. Qed.
Print Assumptions C07_isolation_concrete.

Theorem C07_rw_sets_disjoint : forall q q' k, batch_cand q = true -> batch_cand q' = true ->
  rpk q <> rpk q' -> wset q' k -> rset q k -> False.
Proof. exact rw_isolation. Qed.
Print Assumptions C07_rw_sets_disjoint.

(* (c) the replay flag cannot matter for entries that do not come from the cluster syncer: no hypothesis *)
Theorem C07_replay_flag_irrelevant :
  forall store W R apply_w handler other_exec parse_err (err_invalid reply_nil : R) conflicts rp1 rp2 so s p,
    batched store W R apply_w handler other_exec parse_err err_invalid reply_nil conflicts rp1 false so s p =
    batched store W R apply_w handler other_exec parse_err err_invalid reply_nil conflicts rp2 false so s p.
Proof. exact replay_flag_irrelevant. Qed.
Print Assumptions C07_replay_flag_irrelevant.

(* The full statement is FALSE of the faithful model: a batchable command that fails with an abort-class
   error (AbortBatchForError) turns the replies of the earlier members of its batch into its error and
   drops their writes.  Witness (journal instance, where isolation holds trivially): [set k1 v] and
   [setex k2 0 v] delivered together vs one at a time.  Replayed on the Go code: corpus/C07. *)
Theorem C07_batch_equiv_refuted :
  exists p, match run_trace p, run_trace (singletons (flatten p)) with
            | Some (s1, o1, _), Some (s2, o2, _) => s1 <> s2 /\ jreply 0 o1 <> jreply 0 o2
            | _, _ => False
            end.
Proof. exact batch_equiv_refuted_journal. Qed.
Print Assumptions C07_batch_equiv_refuted.

(* ---------- non-vacuity ---------- *)
(* the hypotheses are satisfiable by handlers that really read the store (toy key-value instance) *)
Example C07_hyps_satisfiable :
  isolation tstore (bytes * N) N tapply thandler /\ no_abort_in_batch tstore (bytes * N) N thandler.
Proof. split; [exact thandler_indep | exact thandler_noabort]. Qed.

(* a batch really forms in that instance: two sets on different keys and a third on the first key
   (which cuts the batch and then runs unbatched); stores and replies equal those of the one-at-a-time run *)
Example C07_ex_batch :
  let q := fun i pk v => mkReq i KRedis [115; 101; 116] pk 3 v true in
  let log := [q 0 [1] 10; q 1 [2] 20; q 2 [1] 30] in
  match apply_batched tstore (bytes * N) N tapply thandler (fun _ s => (s, 0)) (fun _ => 0) 0 0 (fun _ _ => false)
          false false false [] [[mkCall false log]] with
  | Some (s, o, evs) =>
      evs = [EQ true; EB; EK; ER; EQ true; EK; ER; EQ false; EC true; EC false; ESep]
      /\ o = [(0, 0); (1, 0); (2, 10)]
      /\ seq_run tstore (bytes * N) N tapply thandler (fun _ s => (s, 0)) (fun _ => 0) 0 [] log = Some (s, o)
  | None => False
  end.
Proof. vm_compute. repeat split. Qed.
