(* Properties/C06.v — C06: a data node restarted after a crash serves exactly the acknowledged state.
   This file contains only the property theorems (closed by [exact]) and non-vacuity examples. *)
From Coq Require Import NArith List Bool.
From ZV Require Import Recover.Consts Recover.Path Recover.Proofs.
Import ListNotations.
Open Scope N_scope.

Theorem C06_crash_any_instant : forall c s, exists s', step c s (EvCrash 0 0) = Ok s'.
Proof. exact crash_enabled. Qed.
Print Assumptions C06_crash_any_instant.
