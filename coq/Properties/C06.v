(* Properties/C06.v — C06: a data node restarted after a crash serves exactly the acknowledged state.
   This file contains only the property theorems (closed by [exact]) and non-vacuity examples. *)
From Coq Require Import NArith List Bool.
From ZV Require Import Recover.Consts Recover.Path Recover.ProofsWal Recover.Proofs.
Import ListNotations.
Open Scope N_scope.

(* a process can die at any instant: in every state of the path model the crash step is enabled *)
Theorem C06_crash_any_instant : forall c s, exists s', step c s (EvCrash 0 0) = Ok s'.
Proof. exact crash_enabled. Qed.
Print Assumptions C06_crash_any_instant.

(* the restart procedure on a well-shaped persistent world: the WAL's live segments hold exactly the entries
   lo+1..hi cut at the segment names, the newest snapshot marker m is valid (<= the last saved commit), the
   first live segment does not start after m, and m has its snap file and its checkpoint with the state at m:
   then the restart succeeds and serves the state after applying entries 1..hi in order *)
Theorem C06_restart_of_wellformed_world : forall ss lo hi sf cks m,
  seg_chain lo ss hi -> lo = lo_of ss ->
  In m (markers (all_recs ss)) -> (forall i, In i (markers (all_recs ss)) -> i <= m) ->
  (forall i, In i (markers (all_recs ss)) -> i <= last_commit (all_recs ss)) ->
  sfirst (hd (mkSeg 0 []) ss) <= m ->
  ~ In 0 sf ->
  (0 < m -> In m sf /\ lookup m cks = Some (range 0 m)) ->
  recover ss sf cks = Ok (range 0 hi).
Proof. exact recover_chain. Qed.
Print Assumptions C06_restart_of_wellformed_world.

(* non-vacuity: a run of the model that crosses a cut, a snapshot, a release, a WAL purge, ends in a crash and
   a complete restart; the restarted node holds the snapshot state and replays the tail *)
Example C06_cycle_example :
  exists s, run (cfg2 true) init_state trace_cycle = Ok s /\ engine s = Some [1; 2; 3; 4; 5]
    /\ map sfirst (segs s) = [3; 5] /\ applied s = 5 /\ rs_last s = 6 /\ acked s = 6
    /\ recover_state s 0 0 = Ok [1; 2; 3; 4; 5; 6].
Proof. exact cycle_example. Qed.

(* W1: the crash model matters. With the fork's optimizedFsync mode entries are flushed (write(2)) but not
   fdatasync'ed unless term or vote change: a power loss loses the acknowledged write 2 ... *)
Theorem C06_powerloss_refuted :
  exists evs s j l, run (cfg2 true) init_state evs = Ok s /\ (j <= unsynced s)%nat
    /\ recover_state_powerloss s j = Ok l /\ acked s = 2 /\ l = [1].
Proof. exact powerloss_refuted. Qed.
Print Assumptions C06_powerloss_refuted.

(* ... while a process death does not, and without optimizedFsync nothing is left unsynced *)
Example C06_powerloss_example_ok :
  exists s, run (cfg2 true) init_state trace_w1 = Ok s /\ recover_state s 0 0 = Ok [1; 2]
  /\ exists s', run (cfg2 false) init_state trace_w1 = Ok s' /\ unsynced s' = 0%nat.
Proof. exact powerloss_example_ok. Qed.

(* the schedule hypothesis of the invariant theorems is needed: with two snapshot goroutines between snap file
   and WAL marker when the snap directory purge runs, the only recorded snapshot is evicted *)
Theorem C06_two_snapshots_in_flight_refuted :
  exists s, run (cfg2 true) init_state trace_two_windows = Ok s
    /\ sns s = [(7, SnFile); (6, SnFile)] /\ acked s = 7
    /\ recover_state s 0 0 = Err E_FILE_NOT_FOUND.
Proof. exact two_windows_refuted. Qed.
Print Assumptions C06_two_snapshots_in_flight_refuted.
