(* Properties/C06.v — C06: a data node restarted after a crash serves exactly the acknowledged state.
   This file contains only the property theorems (closed by [exact]) and non-vacuity examples. *)
From Coq Require Import NArith List Bool.
From ZV Require Import Recover.Consts Recover.Path Recover.ProofsWal Recover.ProofsWal2 Recover.ProofsInv Recover.ProofsMain Recover.Proofs.
Import ListNotations.
Open Scope N_scope.

(* a process can die at any instant: in every state of the path model the crash step is enabled *)
Theorem C06_crash_any_instant : forall c s, exists s', step c s (EvCrash 0 0) = Ok s'.
Proof. exact crash_enabled. Qed.
Print Assumptions C06_crash_any_instant.

(* the restart procedure on a well-shaped persistent world: the WAL's live segments hold exactly the entries
   lo+1..hi cut at the segment names (the record of an installed snapshot standing for the entries it replaced), every
   installed snapshot is at or below the newest marker m, m is valid (<= the last saved commit) and no valid marker
   with a snap file is above it, the first live segment does not start after m, and m has its snap file and its
   checkpoint with the state at m: then the restart succeeds and serves the state after applying entries 1..hi in order *)
Theorem C06_restart_of_wellformed_world : forall ss lo hi sf cks m,
  (forall h m0, In (h, m0) (jumps (all_recs ss)) -> m0 <= m /\ h < m0) ->
  seg_chain lo ss hi -> lo = lo_of ss ->
  In m (pmarkers (all_recs ss)) -> (forall f, In f sf -> In f (valid_markers ss) -> f <= m) ->
  m <= last_commit (all_recs ss) ->
  sfirst (hd (mkSeg 0 []) ss) <= m ->
  ~ In 0 sf ->
  (0 < m -> In m sf /\ lookup m cks = Some (range 0 m)) ->
  recover ss sf cks = Ok (range 0 hi).
Proof. exact recover_chain2. Qed.
Print Assumptions C06_restart_of_wellformed_world.

(* C06 on the path model. For every run of the model from a fresh directory (any interleaving of the raft loop,
   the apply loop, the snapshot goroutines, the backup loop and the purge loops at sub-step granularity; any
   the installation of snapshots a leader sends (checkpoint fetched, snap file, WAL record, hard state, engine
   replaced, raft storage updated), the Readys the raft library hands out (an incoming snapshot alone in its Ready:
   see C06_snapshot_and_entries_refuted); any number of earlier process deaths and restarts, also deaths during a
   restart) that respects the schedule hypotheses (whenever the snap directory purge decides to remove a file, fewer
   snapshots are between "snap file written" and "WAL marker valid" than snap files it keeps; the code keeps at least
   two, so one is always fine; the backup loop's checkpoint purge does not start between the snap file of an
   incoming snapshot and the hard state that makes its WAL record valid), for every instant of the process death (every reachable state is one) and every crash
   image of that state under process death (any part of the buffered WAL records lost, any prefix of a Save in
   flight written): the restart procedure (choose the newest snapshot that the WAL records and whose file exists,
   restore the engine from its checkpoint, read the WAL back from it, replay) succeeds, and the state it serves is
   the result of applying the entries 1..k in order, with k at least the last acknowledged index and at most the
   last proposed one. The engine content found after the death is never used. *)
Theorem C06_recover_correct : forall c evs s, fixed c ->
  run c init_state evs = Ok s -> sched_ok c init_state evs ->
  forall j extra ss, image s j extra = Some ss ->
  exists k, recover ss (snapfiles s) (ckpts s) = Ok (range 0 k) /\ acked s <= k <= proposed s.
Proof. exact recover_correct. Qed.
Print Assumptions C06_recover_correct.

(* the schedule hypothesis in the form the acceptor evaluates it: on every real run the extracted [sched_holds] is
   computed before every event and the event log is rejected (reason R_SCHED) when it is false, so for the runs the
   correspondence is established on the hypothesis is a checked fact, and the evidence records the largest number
   of snapshot goroutines seen in the window at a decision of the snap directory purge *)
Theorem C06_recover_correct_on_checked_runs : forall c evs s, fixed c ->
  run c init_state evs = Ok s -> sched_holds_run c init_state evs = true ->
  forall j extra ss, image s j extra = Some ss ->
  exists k, recover ss (snapfiles s) (ckpts s) = Ok (range 0 k) /\ acked s <= k <= proposed s.
Proof. intros c evs s Hf Hr Hs. eapply recover_correct; eauto. apply sched_holds_run_ok. exact Hs. Qed.
Print Assumptions C06_recover_correct_on_checked_runs.

(* the same property without the schedule hypotheses is false of the model (C06_two_snapshots_in_flight_refuted and
   C06_ckpt_purge_in_window_refuted below) *)
Definition C06_full : Prop := forall c evs s, fixed c ->
  run c init_state evs = Ok s ->
  forall j extra ss, image s j extra = Some ss ->
  exists k, recover ss (snapfiles s) (ckpts s) = Ok (range 0 k) /\ acked s <= k <= proposed s.

(* the ordering invariants of the design, for every reachable state: (I1, I2) the newest snapshot marker of the WAL
   has its snap file and its checkpoint, and the checkpoint holds the state at that index; (I3) the live WAL
   segments do not start after that snapshot and still hold its marker; (I4) every acknowledged entry is in every
   crash image of the WAL (as an entry record, or covered by the valid record of an installed snapshot) *)
Theorem C06_ordering_invariants : forall c evs s, fixed c ->
  run c init_state evs = Ok s -> sched_ok c init_state evs ->
  I1_I2_newest_marker_has_file_and_checkpoint s /\ I3_wal_not_purged_past_newest_snapshot s
  /\ I4_acknowledged_entries_are_in_every_crash_image s.
Proof. exact ordering_invariants. Qed.
Print Assumptions C06_ordering_invariants.

(* I5: the engine content found after a death is never trusted: a death marks it untrusted, applying to an untrusted
   engine is not enabled (the apply step requires [engine = Some _]), the value served after a restart ([recover]) is a
   function of WAL, snap files and checkpoints only, and the engine becomes usable again only through CleanData
   (no snapshot / fresh WAL) or through the restore of the chosen snapshot's checkpoint *)
Theorem C06_engine_never_trusted :
  (forall c s j extra s', step c s (EvCrash j extra) = Ok s' -> engine s' = None /\ rc s' = RcStart)
  /\ (forall c s ev s' l, engine s = None -> step c s ev = Ok s' -> engine s' = Some l ->
       (ev = EvRcNone /\ l = []) \/ (ev = EvRcFresh /\ l = []) \/ (exists i, ev = EvRsCopied i /\ lookup i (ckpts s) = Some l)).
Proof. split; [exact engine_untrusted_after_crash | exact engine_trusted_only_after_clean_or_restore]. Qed.
Print Assumptions C06_engine_never_trusted.

(* the restart never needs a manual repair: from the state right after a process death the steps of startRaft are
   enabled one after the other up to the running node, which holds the snapshot state and the WAL tail to replay;
   the restart writes nothing to the WAL and leaves the loops idle *)
Theorem C06_restart_succeeds : forall c s,
  Inv c s -> rc s = RcStart ->
  exists evs s', run c s evs = Ok s' /\ running s' = true
    /\ applied s' = newest (segs s) /\ engine s' = Some (range 0 (newest (segs s)))
    /\ range (applied s') (rs_last s') = range (newest (segs s)) (rs_last s') /\ acked s <= rs_last s' <= proposed s
    /\ quiet_restart evs s s'.
Proof. exact restart_succeeds. Qed.
Print Assumptions C06_restart_succeeds.

(* FOLLOWERS. A replica of a group killed anywhere, also anywhere inside the installation of a snapshot its leader
   sent (checkpoint being fetched, snap file written, WAL record written, hard state not yet, engine directory emptied,
   checkpoint half copied, raft storage not yet updated ...), and restarted before it hears of its peers, serves a
   prefix-state: the result of applying entries 1..k in order, k at least its newest valid snapshot and at most what
   was proposed. Never a mixture of the old engine content and a partly copied checkpoint. (An isolated replica
   applies only up to the commit index it finds in its WAL, so k may be below what it had applied before the death:
   the stale reads of a follower are prefix-consistent, not monotonic across a restart.) *)
Theorem C06_follower_restart_prefix_state : forall c evs s, fixed c ->
  run c init_state evs = Ok s -> sched_ok c init_state evs ->
  forall j extra ss, image s j extra = Some ss ->
  exists k, recover_isolated ss (snapfiles s) (ckpts s) = Ok (range 0 k) /\ newest ss <= k <= proposed s.
Proof. exact follower_restart_prefix_state. Qed.
Print Assumptions C06_follower_restart_prefix_state.

(* the installation of a leader's snapshot, end to end, is a run of the model that the schedule check accepts *)
Example C06_install_example :
  exists s, run (cfg2 true) init_state trace_install = Ok s
    /\ sched_holds_run (cfg2 true) init_state trace_install = true
    /\ engine s = Some [1; 2; 3; 4; 5; 6; 7; 8; 9] /\ applied s = 9 /\ rs_last s = 9 /\ snapfiles s = [9; 5]
    /\ recover_state s 0 0 = Ok [1; 2; 3; 4; 5; 6; 7; 8; 9].
Proof. exact install_example. Qed.

(* convergence, on that scenario (a replica with a snapshot at 5 and entry 6 whose leader compacted up to 9): killed
   after each of the 24 sub-steps of the installation (and before the first), for every crash image of that
   instant, the restart succeeds, the restarted replica serves the state at 5 or the state at 9, the leader's snapshot
   is accepted again where it is still needed (the checkpoint found on the local disk, or fetched again) and the
   replica ends serving the leader's state, which is also what a further restart would serve. One scenario, all its
   crash points: computed, not a theorem about all runs (the general safety part is the theorem above) *)
Theorem C06_install_converges_at_every_crash_point_partial :
  forallb (fun n => forallb (fun j => forallb (fun extra => install_crash_check n j extra) (seq 0 3)) (seq 0 3))
          (seq 0 (S (length (ev_install 6 9 (ev_fetch 9))))) = true.
Proof. exact install_converges_at_every_crash_point. Qed.
Print Assumptions C06_install_converges_at_every_crash_point_partial.

(* the same when wal.Save finds the tail segment over its size while it saves the hard state behind the snapshot's
   record: the cut flushes records and hard state into the old segment (the record is valid from there on) and starts a
   new segment named after the snapshot's index; all crash points of that run, every crash image *)
Theorem C06_install_with_cut_converges_at_every_crash_point_partial :
  forallb (fun n => forallb (fun j => forallb (fun extra => install_cut_crash_check n j extra) (seq 0 3)) (seq 0 3))
          (seq 0 (S (length (ev_install_cut 6 9 (ev_fetch 9))))) = true.
Proof. exact install_cut_converges_at_every_crash_point. Qed.
Print Assumptions C06_install_with_cut_converges_at_every_crash_point_partial.

(* the installation goes through: from a node whose loops are idle, for every Ready with a snapshot that the raft
   library may hand out in that state (ready_ok: the snapshot is ahead of the local log, alone in its Ready), the
   sub-steps are enabled one after the other (checkpoint found on the local disk or fetched, snap file, WAL record,
   hard state, engine replaced by the checkpoint, raft storage updated) and the node ends serving the state at the
   snapshot's index *)
Theorem C06_install_completes : forall c s r,
  Inv c s -> rc s = RcRunning -> rdp s = RdIdle -> app s = ApIdle -> queue s = [] -> fs_clash s (r_snap r) = false ->
  engine s <> None -> ready_ok s r = true -> 0 < r_snap r ->
  exists evs s', run c s evs = Ok s' /\ sched_ok c s evs
    /\ applied s' = r_snap r /\ engine s' = Some (range 0 (r_snap r)) /\ rs_last s' = r_snap r
    /\ rc s' = RcRunning /\ rdp s' = RdIdle /\ app s' = ApIdle /\ queue s' = [].
Proof. exact install_completes. Qed.
Print Assumptions C06_install_completes.

(* CONVERGENCE. A replica killed anywhere, also anywhere inside the installation of a snapshot (Inv holds of every
   reachable state, C06_invariant_reachable; rc s = RcStart is the state a death leaves), restarts without manual
   repair, and from the restarted node the installation of every snapshot its leader may send goes through and ends
   with the replica serving the leader's state at the snapshot's index; the invariant holds again, so the same is true
   after any further death. (That the leader does send a snapshot or the missing entries is raft's part: C01-C04.) *)
Theorem C06_follower_converges : forall c s, fixed c -> Inv c s -> rc s = RcStart ->
  exists evs1 s1, run c s evs1 = Ok s1 /\ running s1 = true /\ Inv c s1 /\
    forall r, ready_ok s1 r = true -> 0 < r_snap r ->
    exists evs2 s2, run c s1 evs2 = Ok s2 /\ applied s2 = r_snap r /\ engine s2 = Some (range 0 (r_snap r))
                    /\ rs_last s2 = r_snap r /\ running s2 = true /\ Inv c s2.
Proof. exact follower_converges. Qed.
Print Assumptions C06_follower_converges.

(* recovering twice in a row: a node that died (anywhere: also inside a restart or an installation) is restarted,
   the purge loops run (their first pass is at the start of the node; any number of their steps, under the schedule
   hypothesis), it dies again before it has written anything and is restarted again: the second restart serves what the
   first one served, namely every entry of the WAL image *)
Theorem C06_recover_idempotent : forall c s, fixed c -> Inv c s -> rc s = RcStart ->
  exists evs s', run c s evs = Ok s' /\ running s' = true /\
    forall pg s2, forallb is_purge pg = true -> sched_ok c s' pg -> run c s' pg = Ok s2 ->
    forall j extra ss2, image s2 j extra = Some ss2 ->
      recover ss2 (snapfiles s2) (ckpts s2) = recover (segs s) (snapfiles s) (ckpts s)
      /\ recover (segs s) (snapfiles s) (ckpts s) = Ok (range 0 (last_entry (all_recs (segs s)))).
Proof. exact recover_idempotent. Qed.
Print Assumptions C06_recover_idempotent.

(* interface to C07. The state the model serves is the list of the applied indices: what a restart serves does not
   depend on how raft groups the replayed entries into Readys nor on how the apply loop groups them into batches
   (applying a+1..b and then b+1..c is applying a+1..c). That one engine write batch of commands equals the commands
   applied one by one, reply by reply, is C07 (Properties/C07.v C07_batch_equiv_partial, from coq/Determ and
   coq/Data/Batch.v); the check of C06 exercises it on the code with entries the leader accepted and the apply refuses
   (SETEX with a bad duration) inside replayed groups *)
Theorem C06_replay_independent_of_grouping : forall a b c, a <= b -> b <= c -> range a b ++ range b c = range a c.
Proof. exact replay_grouping. Qed.
Print Assumptions C06_replay_independent_of_grouping.

(* the invariant is what every reachable state satisfies (so C06_restart_succeeds applies after every death) *)
Theorem C06_invariant_reachable : forall c evs s, fixed c ->
  sched_ok c init_state evs -> run c init_state evs = Ok s -> Inv c s.
Proof. exact inv_reachable. Qed.
Print Assumptions C06_invariant_reachable.

(* non-vacuity of the hypotheses: a non-trivial run satisfies them *)
Example C06_hypotheses_satisfiable : sched_ok (cfg2 true) init_state trace_cycle.
Proof. exact cycle_sched. Qed.

(* non-vacuity: a run of the model that crosses a cut, a snapshot, a release, a WAL purge, ends in a crash and
   a complete restart; the restarted node holds the snapshot state and replays the tail *)
Example C06_cycle_example :
  exists s, run (cfg2 true) init_state trace_cycle = Ok s /\ engine s = Some [1; 2; 3; 4; 5]
    /\ map sfirst (segs s) = [3; 5] /\ applied s = 5 /\ rs_last s = 6 /\ acked s = 6
    /\ recover_state s 0 0 = Ok [1; 2; 3; 4; 5; 6].
Proof. exact cycle_example. Qed.

(* W1: the crash model matters. With the fork's optimizedFsync mode entries are flushed (write(2)) but not
   fdatasync'ed unless term or vote change: a power loss loses the acknowledged write 2 ... *)
Theorem C06_powerloss_refuted :
  exists evs s j l, run (cfg2 true) init_state evs = Ok s /\ (j <= unsynced s)%nat
    /\ recover_state_powerloss s j = Ok l /\ acked s = 2 /\ l = [1].
Proof. exact powerloss_refuted. Qed.
Print Assumptions C06_powerloss_refuted.

(* ... while a process death does not, and without optimizedFsync nothing is left unsynced *)
Example C06_powerloss_example_ok :
  exists s, run (cfg2 true) init_state trace_w1 = Ok s /\ recover_state s 0 0 = Ok [1; 2]
  /\ exists s', run (cfg2 false) init_state trace_w1 = Ok s' /\ unsynced s' = 0%nat.
Proof. exact powerloss_example_ok. Qed.

(* the schedule hypothesis of the invariant theorems is needed: with two snapshot goroutines between snap file
   and WAL marker when the snap directory purge runs, the only recorded snapshot is evicted *)
Theorem C06_two_snapshots_in_flight_refuted :
  exists s, run (cfg2 true) init_state trace_two_windows = Ok s
    /\ sns s = [(7, SnFile); (6, SnFile)] /\ acked s = 7
    /\ recover_state s 0 0 = Err E_FILE_NOT_FOUND.
Proof. exact two_windows_refuted. Qed.
Print Assumptions C06_two_snapshots_in_flight_refuted.

(* the two ordering defects that this check found in the code (fixed in /repo by b025328 and c523023), shown on the
   model of the code before the fix; both runs respect the schedule hypothesis, and the model of the code as it is
   does not accept them *)
Theorem C06_before_fix_b025328_refuted :
  exists s, run cfg_before_b025328 init_state trace_ack_before_save = Ok s
    /\ sched_okb cfg_before_b025328 init_state trace_ack_before_save = true
    /\ acked s = 1 /\ recover_state s 0 0 = Ok [].
Proof. exact ack_before_save_refuted. Qed.
Print Assumptions C06_before_fix_b025328_refuted.

Theorem C06_before_fix_c523023_refuted :
  exists s, run cfg_before_c523023 init_state trace_orphans = Ok s
    /\ sched_okb cfg_before_c523023 init_state trace_orphans = true
    /\ acked s = 7 /\ snapfiles s = [7; 6] /\ recover_state s 0 0 = Err E_FILE_NOT_FOUND.
Proof. exact orphans_refuted. Qed.
Print Assumptions C06_before_fix_c523023_refuted.

(* the write-back cache of the store (HyperLogLog) is flushed before the checkpoint of a snapshot is captured; without
   that order a recorded snapshot lacks acknowledged writes and the restarted node serves a state that is not the
   result of applying a prefix of the log (here: entry 6 alone) *)
Theorem C06_capture_before_flush_refuted :
  exists s, run cfg_no_flush init_state trace_capture_before_flush = Ok s
    /\ sched_okb cfg_no_flush init_state trace_capture_before_flush = true
    /\ acked s = 6 /\ recover_state s 0 0 = Ok [6].
Proof. exact capture_before_flush_refuted. Qed.
Print Assumptions C06_capture_before_flush_refuted.

Example C06_fixed_code_rejects_old_orders :
  snd (run_from (cfg2 true) init_state trace_ack_before_save 0) = Some (1, R_GUARD)
  /\ snd (run_from (cfg2 true) init_state trace_orphans 0) = Some (138, R_GUARD)
  /\ snd (run_from (cfg2 true) init_state trace_capture_before_flush 0) = Some (54, R_PC).
Proof. split; [exact ack_before_save_rejected_now | split; [exact orphans_rejected_now | exact capture_before_flush_rejected_now]]. Qed.

(* OPEN FINDING (known_findings.d/recover.jsonl): a Ready with an incoming snapshot S and entries above S, saved in one
   wal.Save; death between the entry records and the hard state record. The record of S is not valid, the restart
   reads from the older snapshot and meets the gap: index out of range, the node does not start (with the hard state,
   or without the entries, it does). The path model does not follow such Readys (the acceptor answers R_ENV: a Ready it assumes
   raft does not produce; not accepted), so the theorems above do not speak about them *)
Theorem C06_snapshot_and_entries_refuted :
  recover (wal_snapshot_and_entries false) [9] [(9, Some (range 0 9))] = Err E_OUT_OF_RANGE
  /\ recover_isolated (wal_snapshot_and_entries false) [9] [(9, Some (range 0 9))] = Err E_OUT_OF_RANGE
  /\ recover (wal_snapshot_and_entries true) [9] [(9, Some (range 0 9))] = Ok (range 0 11)
  /\ recover wal_snapshot_alone [9] [(9, Some (range 0 9))] = Ok [1; 2].
Proof. exact snapshot_and_entries_refuted. Qed.
Print Assumptions C06_snapshot_and_entries_refuted.

Theorem C06_snapshot_ready_carries_no_entries : forall s r, ready_ok s r = true -> 0 < r_snap r -> r_n r = 0 /\ r_cn r = 0.
Proof. exact snapshot_ready_carries_no_entries. Qed.
Print Assumptions C06_snapshot_ready_carries_no_entries.

(* the second schedule hypothesis is needed: the checkpoint purge starting between the snap file of an incoming
   snapshot and the hard state that makes its record valid takes that snapshot's index as its bound and, with two
   local checkpoints whose markers are not written yet, removes the checkpoint of the newest valid snapshot *)
Theorem C06_ckpt_purge_in_window_refuted :
  exists s, run (cfg2 true) init_state trace_ckpt_purge_in_window = Ok s
    /\ acked s = 7 /\ map fst (ckpts s) = [9; 7; 6] /\ recover_state s 0 0 = Err E_NO_BACKUP
    /\ sched_holds_run (cfg2 true) init_state trace_ckpt_purge_in_window = false.
Proof. exact ckpt_purge_in_window_refuted. Qed.
Print Assumptions C06_ckpt_purge_in_window_refuted.
