(* Properties/C04.v — C04: acknowledged writes are totally ordered and never lost in a cluster.
   Only the property theorems (closed by [exact]) and non-vacuity examples.

   Part 1 (this section): the checker that judges every recorded client history is verified in
   both directions against the textbook definition [linearizable] (Lin/Checker.v).
   Part 2 (below): the request-path protocol model (Lin/Protocol.v) is linearizable. *)
From ZV Require Import Lin.Spec Lin.Checker Lin.CheckerProofs.

(* (1) verdict "lin" of the extracted checker: there IS a total order of the operations that contains
       every acknowledged operation exactly once and every operation with an error/unknown outcome at
       most once, respects real-time precedence and is a legal sequential execution of Lin/Spec.v with
       every acknowledged reply equal to the specification's reply *)
Theorem C04_checker_sound : forall H : history, check H = Lin -> linearizable H.
Proof. exact check_sound. Qed.
Print Assumptions C04_checker_sound.

(* (2) verdict "nonlin": there is NO such order (the search is exhaustive) *)
Theorem C04_checker_complete : forall H : history, check H = NonLin -> ~ linearizable H.
Proof. exact check_complete. Qed.
Print Assumptions C04_checker_complete.

(* (3) the fuel the checker gives itself always suffices: the third verdict never occurs *)
Theorem C04_checker_fuel_sufficient : forall H : history, check H <> OutOfFuel.
Proof. exact check_fuel_sufficient. Qed.
Print Assumptions C04_checker_fuel_sufficient.

Theorem C04_checker_decides : forall H : history,
  (check H = Lin /\ linearizable H) \/ (check H = NonLin /\ ~ linearizable H).
Proof. exact check_decides. Qed.
Print Assumptions C04_checker_decides.

(* (3a) the memoised checker (Lin/Memo.v: the same exhaustive search, but a configuration = (set of remaining
        operations, specification state) that failed once is never searched again) is the one the check runs;
        both of its verdicts are theorems too and it agrees with the exhaustive checker on every history *)
From ZV Require Import Lin.Memo Lin.MemoProofs.

Theorem C04_mchecker_sound : forall H : history, mcheck H = Lin -> linearizable H.
Proof. exact mcheck_sound. Qed.
Print Assumptions C04_mchecker_sound.

Theorem C04_mchecker_complete : forall H : history, mcheck H = NonLin -> ~ linearizable H.
Proof. exact mcheck_complete. Qed.
Print Assumptions C04_mchecker_complete.

Theorem C04_mchecker_fuel_sufficient : forall H : history, mcheck H <> OutOfFuel.
Proof. exact mcheck_fuel_sufficient. Qed.
Print Assumptions C04_mchecker_fuel_sufficient.

Theorem C04_mchecker_eq_checker : forall H : history, mcheck H = check H.
Proof. exact mcheck_eq_check. Qed.
Print Assumptions C04_mchecker_eq_checker.

(* (3c) the steps by which the check shrinks a rejected history preserve linearizability, so a rejected shrunk
        history proves the recorded one non-linearizable: removal of an operation that cannot have changed the
        state (a completed one whose reply implies it, or an unanswered read) and the event prefix at a time T *)
From ZV Require Import Lin.Locality Lin.Shrink Lin.ShrinkProofs.

Theorem C04_shrink_drop : forall H1 x H2, removable x -> linearizable (H1 ++ x :: H2) -> linearizable (H1 ++ H2).
Proof. exact shrink_drop. Qed.
Print Assumptions C04_shrink_drop.

Theorem C04_shrink_prefix : forall T H, Forall wf_op H -> linearizable H -> linearizable (cut T H).
Proof. exact shrink_prefix. Qed.
Print Assumptions C04_shrink_prefix.

(* ---------- non-vacuity ---------- *)
Open Scope N_scope.
(* two overlapping INCRs and a later GET: linearizable (and the checker says so) *)
Example C04_ex_lin :
  check [ mkHop OIncr 0 (Some (10, RInt 1%Z)); mkHop OIncr 5 (Some (20, RInt 2%Z));
          mkHop OGet 30 (Some (40, RBulk 2%Z)) ] = Lin.
Proof. vm_compute. reflexivity. Qed.
(* a lost update: two acknowledged INCRs both answered 1 *)
Example C04_ex_lost_update :
  check [ mkHop OIncr 0 (Some (10, RInt 1%Z)); mkHop OIncr 5 (Some (20, RInt 1%Z)) ] = NonLin.
Proof. vm_compute. reflexivity. Qed.
(* an acknowledged write missing from a later read (a stale replica dump) *)
Example C04_ex_lost_write :
  check [ mkHop (OLPush 7%Z) 0 (Some (10, RInt 1%Z)); mkHop OLDump 20 (Some (30, RArr [])) ] = NonLin.
Proof. vm_compute. reflexivity. Qed.
(* a write with an unknown outcome may have taken effect (once) ... *)
Example C04_ex_unknown_applied :
  check [ mkHop OIncr 0 None; mkHop OIncr 5 (Some (20, RInt 2%Z)) ] = Lin.
Proof. vm_compute. reflexivity. Qed.
(* ... but not twice *)
Example C04_ex_unknown_twice :
  check [ mkHop OIncr 0 None; mkHop OIncr 5 (Some (20, RInt 3%Z)) ] = NonLin.
Proof. vm_compute. reflexivity. Qed.
(* real time matters: the reply order contradicts the only legal order *)
Example C04_ex_realtime :
  check [ mkHop OIncr 0 (Some (10, RInt 2%Z)); mkHop OIncr 15 (Some (20, RInt 1%Z)) ] = NonLin.
Proof. vm_compute. reflexivity. Qed.

(* (3b) locality (Herlihy & Wing 1990, Theorem 1): the harness splits a recorded history by key and gives
        every projection to the checker; if every projection is linearizable the whole multi-key history is
        linearizable w.r.t. the product of per-key specifications (mechanised: the per-key witness orders are
        merged, always taking the head with the smallest invocation time) *)
From ZV Require Import Lin.Locality Lin.LocalityProofs.
Open Scope N_scope.

Theorem C04_locality : forall MH : mhistory, wf_hist MH ->
  (forall k, linearizable (proj k MH)) -> mlinearizable MH.
Proof. exact locality. Qed.
Print Assumptions C04_locality.

Theorem C04_per_key_checks_suffice : forall MH : mhistory, wf_hist MH ->
  (forall k, check (proj k MH) = Lin) -> mlinearizable MH.
Proof. exact per_key_checks_suffice. Qed.
Print Assumptions C04_per_key_checks_suffice.

(* non-vacuity: a two-key history whose projections both pass the checker *)
Example C04_ex_two_keys :
  let MH := [ (1%nat, mkHop OIncr 0 (Some (10, RInt 1%Z))); (2%nat, mkHop (OLPush 5%Z) 3 (Some (8, RInt 1%Z)));
              (1%nat, mkHop OGet 12 (Some (14, RBulk 1%Z))) ] in
  wf_hist MH /\ check (proj 1 MH) = Lin /\ check (proj 2 MH) = Lin /\ check (proj 3 MH) = Lin.
Proof. split; [repeat constructor; unfold wf_op; simpl; discriminate|vm_compute; repeat split; reflexivity]. Qed.

(* ============================================================================================
   Part 2: the request path (Lin/Protocol.v) — queueRequest / propose / one agreed log / apply in
   index order on every replica / Trigger(id, result) on the replica holding the waiter / timeout /
   restart / the no-op shortcut of setnx, sadd, srem, lpop behind the read-index barrier — is
   linearizable w.r.t. Lin/Spec.v.
   Hypothesis of every theorem below (a Section variable of Lin/ProtocolProofs.v):
     apply_det : every replica's state machine computes Spec.step, whatever the replica and the
                 request timestamp            (C07's conclusion + the Spec-vs-implementation diff)
   Built into the model: ONE agreed log                                      (C02's conclusion). *)
From ZV Require Import Lin.Protocol Lin.Route Lin.ProtocolProofs.

(* (4) every history the protocol can produce is linearizable (witness: the log order, with each locally answered
       no-op or plain read placed after the log prefix its replica had applied) ONCE ITS PLAIN READS MAY TAKE
       EFFECT BEFORE THEIR INVOCATION (relaxed_hist: a plain read's invocation time is moved back to 0; the code
       serves reads from the local store without a barrier, see (9)); a history without plain reads is
       linearizable as it stands *)
Theorem C04_protocol_linearizable_relaxed :
  forall apply_impl : nat -> N -> state -> op -> state * res,
  (forall r ts s o, apply_impl r ts s o = step s o) ->
  forall g, reachable apply_impl g -> linearizable (relaxed_hist g).
Proof. exact protocol_linearizable_relaxed. Qed.
Print Assumptions C04_protocol_linearizable_relaxed.

Theorem C04_protocol_linearizable :
  forall apply_impl : nat -> N -> state -> op -> state * res,
  (forall r ts s o, apply_impl r ts s o = step s o) ->
  forall g, reachable apply_impl g -> read_ids g = [] -> linearizable (g_hist g).
Proof. exact protocol_linearizable. Qed.
Print Assumptions C04_protocol_linearizable.

(* (5) "takes effect exactly once, at a single point between its request and its reply": an acknowledged
       request is EITHER in the log at exactly one position, committed strictly after its invocation and
       strictly before its reply, with the specification's reply at that position, OR it was answered locally
       at a slot k (a no-op behind the barrier, rd = false, or a plain read, rd = true): entries below k were
       committed before the reply, the reply is the specification's reply in the state after k entries, which
       it leaves unchanged, the request is not in the log, and - for the barrier-guarded no-ops only - entries
       from k on were committed after the invocation *)
Theorem C04_protocol_commit_point :
  forall apply_impl : nat -> N -> state -> op -> state * res,
  (forall r ts s o, apply_impl r ts s o = step s o) ->
  forall g, reachable apply_impl g ->
  forall i h t r, nth_error (g_hist g) i = Some h -> h_ret h = Some (t, r) ->
  (exists p c, nth_error (g_log g) p = Some c /\ cid c = i /\
               (h_inv h < c_time c)%N /\ (c_time c < t)%N /\
               r = snd (step (exec (firstn p (g_log g))) (h_op h)) /\
               (forall q d, nth_error (g_log g) q = Some d -> cid d = i -> q = p)) \/
  (exists k rd, (k <= length (g_log g))%nat /\ (h_inv h < t)%N /\
             step (exec (firstn k (g_log g))) (h_op h) = (exec (firstn k (g_log g)), r) /\
             (forall p c, nth_error (g_log g) p = Some c -> (p < k)%nat -> (c_time c < t)%N) /\
             (rd = false -> forall p c, nth_error (g_log g) p = Some c -> (k <= p)%nat -> (h_inv h < c_time c)%N) /\
             (forall p c, nth_error (g_log g) p = Some c -> cid c <> i)).
Proof. exact protocol_commit_point. Qed.
Print Assumptions C04_protocol_commit_point.

(* (6) "a write that got an error or no reply takes effect at most once": no request id is in the log twice *)
Theorem C04_protocol_at_most_once :
  forall apply_impl : nat -> N -> state -> op -> state * res,
  (forall r ts s o, apply_impl r ts s o = step s o) ->
  forall g, reachable apply_impl g ->
  forall p q c d, nth_error (g_log g) p = Some c -> nth_error (g_log g) q = Some d -> cid c = cid d -> p = q.
Proof. exact protocol_at_most_once. Qed.
Print Assumptions C04_protocol_at_most_once.

(* (7) "after the cluster settles every replica returns the same data, which contains every acknowledged
       write": replicas that applied the same prefix are in the same state; a replica that applied the
       whole log holds the state of the witness order *)
Theorem C04_protocol_convergence :
  forall apply_impl : nat -> N -> state -> op -> state * res,
  (forall r ts s o, apply_impl r ts s o = step s o) ->
  forall g, reachable apply_impl g ->
  (forall r1 r2, r_applied (g_rep g r1) = r_applied (g_rep g r2) -> r_st (g_rep g r1) = r_st (g_rep g r2)) /\
  (forall r, r_applied (g_rep g r) = length (g_log g) -> r_st (g_rep g r) = exec (g_log g)).
Proof. exact protocol_convergence. Qed.
Print Assumptions C04_protocol_convergence.

(* (7b) APPLY BATCHING. The code does not apply entries one at a time: applyEntries hands a group of committed
        entries to one batch operator (batchable commands read committed data only, one primary key per batch,
        commit before a non-batchable command). That logic is C07's model coq/Determ/Model.v; it is instantiated
        on Lin/Spec.v (Lin/DetermAdapter.v, the only file of coq/Lin that imports coq/Determ: these theorems
        DEPEND on C07's development) and added to the protocol (Lin/Batching.v) as t_apply_group (ANY partition of the next n
        entries into apply batches). By C07's theorem batch_equiv_replies the store and every reply of a group
        are those of Spec.step entry by entry, so theorems (4)-(7) hold for the batched system. A batch operator
        admitting two conditional SETs on one key (seeded change C04-a2) breaks C07's theorem and with it these. *)
From ZV Require Import Lin.DetermAdapter Lin.Batching Lin.BatchingProofs.

Theorem C04_batched_is_sequential : forall ents p s s1 o1 e1,
  NoDup (map e_id ents) -> bflatten p ents ->
  batched_apply (tbl_of ents) s p = Some (s1, o1, e1) ->
  s1 = run_st s ents /\
  forall j e, nth_error ents j = Some e ->
    breply (N.of_nat (e_id e)) o1 = Some (snd (step (run_st s (firstn j ents)) (e_op e))).
Proof. exact batched_is_sequential. Qed.
Print Assumptions C04_batched_is_sequential.

Theorem C04_batched_protocol_linearizable_relaxed :
  forall apply_impl : nat -> N -> state -> op -> state * res,
  (forall r ts s o, apply_impl r ts s o = step s o) ->
  forall g, reachableB apply_impl g -> linearizable (relaxed_hist g).
Proof. exact batched_protocol_linearizable_relaxed. Qed.
Print Assumptions C04_batched_protocol_linearizable_relaxed.

Theorem C04_batched_protocol_linearizable :
  forall apply_impl : nat -> N -> state -> op -> state * res,
  (forall r ts s o, apply_impl r ts s o = step s o) ->
  forall g, reachableB apply_impl g -> read_ids g = [] -> linearizable (g_hist g).
Proof. exact batched_protocol_linearizable. Qed.
Print Assumptions C04_batched_protocol_linearizable.

Theorem C04_batched_protocol_commit_point :
  forall apply_impl : nat -> N -> state -> op -> state * res,
  (forall r ts s o, apply_impl r ts s o = step s o) ->
  forall g, reachableB apply_impl g -> commit_point_stmt g.
Proof. exact batched_protocol_commit_point. Qed.
Print Assumptions C04_batched_protocol_commit_point.

Theorem C04_batched_protocol_convergence :
  forall apply_impl : nat -> N -> state -> op -> state * res,
  (forall r ts s o, apply_impl r ts s o = step s o) ->
  forall g, reachableB apply_impl g -> convergence_stmt g.
Proof. exact batched_protocol_convergence. Qed.
Print Assumptions C04_batched_protocol_convergence.

(* (8) the tie to the source tree (generated Lin/Consts.v): every operation of the specification that can
       change the state is registered as a write command (proposed to the log) with an apply handler;
       the local shortcut replies only where the specification's step is the identity with that reply *)
Theorem C04_mutating_ops_logged : forall o, mutating o = true ->
  in_list (op_cmd o) logged_cmds = true /\ in_list (op_cmd o) applied_cmds = true /\ in_list (op_cmd o) local_cmds = false.
Proof. exact mutating_ops_logged. Qed.
Print Assumptions C04_mutating_ops_logged.

Theorem C04_read_ops_keep_state : forall s o, mutating o = false -> fst (step s o) = s.
Proof. exact read_ops_keep_state. Qed.
Print Assumptions C04_read_ops_keep_state.

Theorem C04_shortcut_is_noop : forall s o r, shortcut s o = Some r -> step s o = (s, r).
Proof. exact shortcut_step. Qed.
Print Assumptions C04_shortcut_is_noop.

(* (9) PLAIN READS. The code answers GET/HGET/LLEN/LRANGE/SCARD/SMEMBERS from the local store of the replica that
       believes it leads, without consulting the log (t_read). The protocol AS MODELLED therefore has reachable
       histories that are not linearizable (open known finding) - but linearizable once the read may take effect
       early (4). What a read IS guaranteed: it returns the specification's reply after exactly the log prefix
       its replica has applied; that prefix only grows except when the replica restarts; and an acknowledgement
       sent by replica r is for an entry inside r's applied prefix. So between restarts of r, reads through r
       are monotonic and see every write r itself acknowledged. *)
Theorem C04_local_read_refuted :
  reachable demo_apply stale_read_state /\ ~ linearizable (g_hist stale_read_state) /\
  linearizable (relaxed_hist stale_read_state).
Proof. exact local_read_refuted. Qed.
Print Assumptions C04_local_read_refuted.

Theorem C04_read_sees_applied_prefix :
  forall apply_impl : nat -> N -> state -> op -> state * res,
  (forall r ts s o, apply_impl r ts s o = step s o) ->
  forall g r o, reachable apply_impl g -> mutating o = false ->
  snd (step (r_st (g_rep g r)) o) = snd (step (exec (firstn (r_applied (g_rep g r)) (g_log g))) o) /\
  (r_applied (g_rep g r) <= length (g_log g))%nat.
Proof. exact read_sees_applied_prefix. Qed.
Print Assumptions C04_read_sees_applied_prefix.

Theorem C04_applied_prefix_grows :
  forall (apply_impl : nat -> N -> state -> op -> state * res) g g', pstep apply_impl g g' ->
  (exists suffix, g_log g' = g_log g ++ suffix) /\
  forall r, (r_applied (g_rep g r) <= r_applied (g_rep g' r))%nat \/
            (exists k, (k <= r_applied (g_rep g r))%nat /\ g_rep g' r = mkR k (exec (firstn k (g_log g))) []).
Proof. exact applied_prefix_grows. Qed.
Print Assumptions C04_applied_prefix_grows.

(* An operation answered from a replica's local state without the barrier is also what the no-op shortcuts of
   SETNX/SADD/SREM/LPOP did until the fix that put them behind the barrier (recorded failing history:
   corpus/C04/lpop-local-shortcut-stale.hist); for a state-changing command not even the relaxed reading helps. *)
Theorem C04_unbarriered_shortcut_refuted :
  reachable_lr stale_shortcut_state /\ ~ linearizable (g_hist stale_shortcut_state).
Proof. exact unbarriered_shortcut_refuted. Qed.
Print Assumptions C04_unbarriered_shortcut_refuted.

(* non-vacuity of (4)-(7): a reachable state with two acknowledged requests handled by different replicas,
   and one where a no-op is answered locally behind the barrier *)
Example C04_ex_protocol_run :
  reachable demo_apply demo_state /\
  g_hist demo_state = [mkHop OIncr 1 (Some (3, RInt 1%Z)); mkHop OIncr 4 (Some (7, RInt 2%Z))]%N.
Proof. split; [exact demo_reachable|exact (proj1 demo_history)]. Qed.

Example C04_ex_protocol_local :
  reachable demo_apply demo_local /\ g_ldone demo_local = [mkD 2 2 false] /\
  g_hist demo_local = [mkHop (OLPush 7) 1 (Some (3, RInt 1%Z)); mkHop OLPop 4 (Some (6, RBulk 7%Z));
                       mkHop OLPop 7 (Some (10, RNil))]%N.
Proof. split; [exact demo_local_reachable|]. split; [exact (proj1 (proj2 demo_local_history))|exact (proj1 demo_local_history)]. Qed.

(* (10) the barrier's answer must belong to the request: t_local uses the waiting request's OWN read index
        (readIndexLoop matches the answer's request context with the id of the current round). Accepting the
        answer of an earlier round of the same replica (seeded change C04-d2) yields a non-linearizable history *)
Theorem C04_barrier_any_answer_refuted :
  reachable_any_answer any_answer_state /\ ~ linearizable (g_hist any_answer_state).
Proof. exact barrier_any_answer_refuted. Qed.
Print Assumptions C04_barrier_any_answer_refuted.
