(* Properties/C03.v — C03: a committed entry survives any crash/restart of replicas.
   This file contains only property theorems (closed by [exact]) and non-vacuity examples.

   What is here: the storage contract the restart path relies on (what RestartNode reads is what
   Append wrote), stated about the model coq/Raft/Model.v, which is diffed against the real
   MemoryStorage and RocksStorage on every run. Leader completeness under crash/restart over all
   schedules is proved on the abstract protocol in coq/RaftAbs by the raftabs group.

   The abstract-protocol theorems (coq/RaftAbs) are stated at the end of this file. *)
From ZV Require Import Raft.Consts Raft.Model Raft.Proofs Raft.ProofsLog Raft.ProofsStore Raft.ProofsRocks.
From Coq Require Import List NArith.
Import ListNotations.
Open Scope N_scope.

(* The full statement quantifies over the cluster semantics (all schedules, fault sequences,
   configurations); that semantics is coq/RaftAbs/Model.v and the full theorem is stated there. *)

(* (1) MemoryStorage.Append = truncate-and-append on the stored list, with the compacted-prefix
       shortcut; the storage stays well formed (contiguous indexes after the dummy entry), the
       snapshot and the first index are untouched *)
Theorem C03_memory_append_partial : forall s e0 r,
  wf_ms s -> contig (eindex e0) (e0 :: r) ->
  forall off, ms_offset s = Ok off ->
  eindex e0 <= off + nlen (ms_ents s) ->
  exists s', ms_append s (e0 :: r) = Ok s' /\ wf_ms s' /\ ms_snapi s' = ms_snapi s /\ ms_snapt s' = ms_snapt s /\
    ms_offset s' = Ok off /\
    (eindex e0 + nlen (e0 :: r) - 1 < off + 1 -> s' = s) /\
    (off + 1 <= eindex e0 + nlen (e0 :: r) - 1 ->
       ms_ents s' = filter (fun e => eindex e <? N.max (eindex e0) (off + 1)) (ms_ents s)
                    ++ filter (fun e => off + 1 <=? eindex e) (e0 :: r)).
Proof. exact ms_append_spec. Qed.
Print Assumptions C03_memory_append_partial.

(* (2) persisting the unstable entries and then stableTo(last index, last term), as processReady +
       Advance do: Append succeeds, stableTo empties the unstable part, and every index of the log
       holds the same entry as before — now read from the storage alone. What left the volatile
       part is exactly what the storage holds. *)
Theorem C03_persist_then_stable : forall l m off e0 r,
  wf_mlog l m off -> u_snap (l_u l) = None -> u_ents (l_u l) = e0 :: r ->
  exists m' le l2,
    ms_append m (e0 :: r) = Ok m' /\ last_opt (e0 :: r) = Some le /\
    l_stable_to (set_st l (SMem m')) (eindex le) (eterm le) = Ok l2 /\
    wf_mlog l2 m' off /\ u_ents (l_u l2) = [] /\ u_off (l_u l2) = eindex le + 1 /\
    mlast l2 m' off = mlast l m off /\
    (forall i, off < i -> i <= mlast l m off -> log_entry (l_u l2) m' off i = log_entry (l_u l) m off i) /\
    (forall i, off < i -> i <= mlast l m off -> nnth (i - off) (ms_ents m') = log_entry (l_u l) m off i).
Proof. exact persist_then_stable. Qed.
Print Assumptions C03_persist_then_stable.

(* (3) restart: newLog over a well-formed storage gives a well-formed log with nothing unstable whose
       entry at every index is the stored one; commit and applied cursors start at the dummy index
       (the persisted commit index is then loaded by raft.loadState, applied by the application) *)
Theorem C03_restart_reads_storage : forall m off mx, wf_ms m -> ms_offset m = Ok off ->
  exists l, new_log (SMem m) mx = Ok l /\ wf_mlog l m off /\ l_committed l = off /\ l_applied l = off /\
    u_ents (l_u l) = [] /\ u_snap (l_u l) = None /\
    forall i, off < i -> log_entry (l_u l) m off i = nnth (i - off) (ms_ents m).
Proof. exact new_log_wf. Qed.
Print Assumptions C03_restart_reads_storage.

(* (4) RocksStorage (the storage used in production, with cached firstIndex/lastIndex fields), for ALL
       sequences of FirstIndex / LastIndex / Term / Entries / ApplySnapshot / CreateSnapshot / Compact /
       Append (appends being contiguous batches) / process restart (fresh storage object, same engine): the key space stays strictly ordered and non-empty, a
       cached first index is always (first key + 1), a cached last index is always the last key *)
Theorem C03_rocks_cache_invariant : forall ops, Forall rop_ok ops -> rs_inv (fold_left rs_step ops rs_new).
Proof. exact rs_cache_invariant. Qed.
Print Assumptions C03_rocks_cache_invariant.

(* (5) hence in every reachable state FirstIndex and LastIndex succeed and return the values
       recomputed from the snapshot meta and the key space, whatever the caches hold *)
Theorem C03_rocks_cached_indexes_correct : forall ops s, Forall rop_ok ops -> s = fold_left rs_step ops rs_new ->
  (exists v s', rs_first_index s = Ok (v, s') /\ recomputed_first s = Some v) /\
  (exists v s', rs_last_index s = Ok (v, s') /\ recomputed_last s = Some v).
Proof. exact rs_cached_indexes_correct. Qed.
Print Assumptions C03_rocks_cached_indexes_correct.


(* (6) MemoryStorage stays well formed (dummy entry + contiguous indexes) under ALL sequences of
       ApplySnapshot / CreateSnapshot / Compact / contiguous Append (a failing op — error or panic — leaves
       it unchanged); Term answers ErrCompacted below the dummy index, ErrUnavailable above the last
       index and otherwise the term of the entry stored at exactly that index *)
Theorem C03_memory_storage_wf_invariant : forall ops, Forall mop_ok ops -> wf_ms (fold_left ms_step ops ms_new).
Proof. exact ms_wf_invariant. Qed.
Print Assumptions C03_memory_storage_wf_invariant.

Theorem C03_memory_term_spec : forall s off i, wf_ms s -> ms_offset s = Ok off ->
  (i < off -> ms_term s i = Err ErrCompacted) /\
  (off + nlen (ms_ents s) <= i -> ms_term s i = Err ErrUnavailable) /\
  (off <= i -> i < off + nlen (ms_ents s) ->
     exists e, nnth (i - off) (ms_ents s) = Some e /\ eindex e = i /\ ms_term s i = Ok (eterm e)).
Proof. exact ms_term_spec. Qed.
Print Assumptions C03_memory_term_spec.

(* (7) RocksStorage.Append of a contiguous batch = truncate-and-append on the ordered key space, with the
       compacted-prefix shortcut: keys below the first written index are kept, everything from it on is
       exactly the written entries (the old tail is gone); snapshot meta untouched *)
Theorem C03_rocks_append_spec : forall s e0 r s', rs_inv s -> contig (eindex e0) (e0 :: r) ->
  rs_append s (e0 :: r) = Ok s' ->
  exists first, recomputed_first s = Some first /\ rs_snapi s' = rs_snapi s /\ rs_snapt s' = rs_snapt s /\
    (eindex e0 + nlen (e0 :: r) - 1 < first -> rs_db s' = rs_db s) /\
    (first <= eindex e0 + nlen (e0 :: r) - 1 ->
       rs_db s' = filter (fun e => eindex e <? N.max (eindex e0) first) (rs_db s)
                  ++ filter (fun e => first <=? eindex e) (e0 :: r)).
Proof. exact rs_append_spec. Qed.
Print Assumptions C03_rocks_append_spec.

(* (8) cache independence: in a good RocksStorage state Term answers, for EVERY index, what MemoryStorage
       answers on the view (a function of the key space and the snapshot meta only: rs_view ignores both cached
       indexes), errors included, and leaves the view unchanged *)
Theorem C03_rocks_view_ignores_caches : forall si st db fc lc fc' lc',
  rs_view (mkRS si st db fc lc) = rs_view (mkRS si st db fc' lc').
Proof. exact rs_view_cache_independent. Qed.
Print Assumptions C03_rocks_view_ignores_caches.

Theorem C03_rocks_term_as_memory : forall s i, rs_good s ->
  rfst (rs_term s i) = ms_term (rs_view s) i /\
  forall t s', rs_term s i = Ok (t, s') -> rs_good s' /\ rs_view s' = rs_view s.
Proof. exact good_term. Qed.
Print Assumptions C03_rocks_term_as_memory.

(* (9) Entries on a non-empty range: compacted on both sides, or the same entries (same size cut); the only
       difference is beyond the last index, where MemoryStorage panics and RocksStorage returns ErrUnavailable —
       raftLog turns both into a panic *)
Theorem C03_rocks_entries_as_memory : forall s lo hi max, rs_good s -> lo < hi ->
  (lo <= rs_off s -> rs_entries s lo hi max = Err ErrCompacted /\ ms_entries (rs_view s) lo hi max = Err ErrCompacted) /\
  (rs_off s < lo -> rs_lastk s + 1 < hi ->
     rs_entries s lo hi max = Err ErrUnavailable /\ ms_entries (rs_view s) lo hi max = Panic) /\
  (rs_off s < lo -> hi <= rs_lastk s + 1 ->
     exists es s', rs_entries s lo hi max = Ok (es, s') /\ ms_entries (rs_view s) lo hi max = Ok es /\
                   rs_good s' /\ rs_view s' = rs_view s).
Proof. exact good_entries. Qed.
Print Assumptions C03_rocks_entries_as_memory.

(* (10) Append of a contiguous batch that leaves no gap is MemoryStorage.Append on the view, and keeps the state good *)
Theorem C03_rocks_append_as_memory : forall s e0 r, rs_good s -> contig (eindex e0) (e0 :: r) -> eindex e0 <= rs_lastk s + 1 ->
  exists s' m', rs_append s (e0 :: r) = Ok s' /\ ms_append (rs_view s) (e0 :: r) = Ok m' /\
                rs_good s' /\ rs_view s' = m' /\ rs_off s' = rs_off s.
Proof. exact good_append. Qed.
Print Assumptions C03_rocks_append_as_memory.

(* (11) = (2) over RocksStorage: persist the unstable entries, then stableTo — the combined log is unchanged and
        every index is readable from the engine alone *)
Theorem C03_rocks_persist_then_stable : forall l s e0 r,
  wf_rlog l s -> u_snap (l_u l) = None -> u_ents (l_u l) = e0 :: r ->
  exists s' le l2,
    rs_append s (e0 :: r) = Ok s' /\ last_opt (e0 :: r) = Some le /\
    l_stable_to (set_st l (SRocks s')) (eindex le) (eterm le) = Ok l2 /\
    wf_rlog l2 s' /\ rs_off s' = rs_off s /\ u_ents (l_u l2) = [] /\ u_off (l_u l2) = eindex le + 1 /\
    rlast l2 s' = rlast l s /\
    (forall i, rs_off s < i -> i <= rlast l s -> r_log_entry (l_u l2) s' i = r_log_entry (l_u l) s i) /\
    (forall i, rs_off s < i -> i <= rlast l s -> db_get i (rs_db s') = r_log_entry (l_u l) s i).
Proof. exact persist_then_stable_rocks. Qed.
Print Assumptions C03_rocks_persist_then_stable.

(* (12) = (3) over RocksStorage: restart — newLog over a good engine state exposes exactly the stored keys *)
Theorem C03_rocks_restart_reads_storage : forall s mx, rs_good s ->
  exists l s', new_log (SRocks s) mx = Ok l /\ wf_rlog l s' /\ rs_view s' = rs_view s /\ rs_db s' = rs_db s /\
    l_committed l = rs_off s /\ l_applied l = rs_off s /\ u_ents (l_u l) = [] /\ u_snap (l_u l) = None /\
    forall i, rs_off s < i -> r_log_entry (l_u l) s' i = db_get i (rs_db s).
Proof. exact new_log_rocks. Qed.
Print Assumptions C03_rocks_restart_reads_storage.

(* (13) ApplySnapshot keeps the engine state good but is NOT MemoryStorage.ApplySnapshot on the view: MemoryStorage is
        left with the dummy entry alone, RocksStorage writes the dummy at the snapshot index, deletes the keys below and
        KEEPS every key above it (a follower's stale tail stays in the engine until a later Append truncates it) *)
Theorem C03_rocks_apply_snapshot_keeps_tail : forall s si st s', rs_good s -> rs_head s <= si + 1 ->
  rs_apply_snapshot s si st = Ok s' ->
  rs_good s' /\ rs_off s' = si /\ rs_snapi s' = si /\ rs_snapt s' = st /\
  rs_db s' = mkE st si 0 0 :: filter (fun e => si + 1 <=? eindex e) (rs_db s) /\
  ms_apply_snapshot (rs_view s) si st = Ok (mkMS si st [mkE st si 0 0]).
Proof. exact good_apply_snapshot. Qed.
Print Assumptions C03_rocks_apply_snapshot_keeps_tail.

(* (14) goodness is reachable-closed: from a fresh engine, every sequence of FirstIndex / LastIndex / Term / Entries on
        a non-empty range / CreateSnapshot / ApplySnapshot not below the first key - 1 / Compact not beyond the snapshot /
        contiguous gap-free Append / restart of the storage object keeps the state good *)
Theorem C03_rocks_good_reachable : forall ops s, rs_good s -> rops_good s ops -> rs_good (fold_left rs_step ops s).
Proof. exact good_reachable. Qed.
Print Assumptions C03_rocks_good_reachable.

(* ====================================================================================== *)
(* The property over all schedules, on the abstract protocol of coq/RaftAbs (Model.v: per-node term /
   vote / role / log / commit / configuration, the network as grant, ack and campaign records, crash and
   restart from the persisted part, snapshots as compacted prefixes). "_fixed": every node keeps its
   configuration (any voter list, any learner list) — no hypothesis. "_reconf_partial": arbitrary
   configuration changes under the explicit hypothesis Overlap (any two voter lists a majority was
   counted over have intersecting majorities). The tie to the Go code: every check run replays traces of
   the real cluster through the extracted acceptor (RaftAbs/Acceptor.v, proved sound in
   AcceptorSound.v): an accepted trace is a trace of this protocol. *)
From ZV Require RaftAbs.Theorems RaftAbs.LCChecked.
Module AM := ZV.RaftAbs.Model. Module AS := ZV.RaftAbs.Safety. Module AL := ZV.RaftAbs.ListFacts.
Module AI := ZV.RaftAbs.Inv. Module AA := ZV.RaftAbs.Acceptor. Module AT := ZV.RaftAbs.Theorems.

(* leader completeness: a prefix committed in term t is in the log of every leader of a later term *)
Theorem C03_leader_completeness_fixed : forall (cf : AM.config) (log0 : list AM.entry), AM.init_ok cf log0 ->
  forall s, AM.steps_fixed (AM.init cf log0) s ->
  forall (t : nat) (P : list AM.entry) (u c : nat) el q,
    AS.committed_in_term s t P -> In (u, c, el, q) (AM.leaders s) -> (t < u)%nat -> AL.prefix P el.
Proof. exact AT.leader_completeness_fixed. Qed.
Print Assumptions C03_leader_completeness_fixed.

Theorem C03_leader_completeness_node_fixed : forall (cf : AM.config) (log0 : list AM.entry), AM.init_ok cf log0 ->
  forall s, AM.steps_fixed (AM.init cf log0) s ->
  forall (t : nat) (P : list AM.entry) (c : nat),
    AS.committed_in_term s t P -> AM.rl (AM.nodes s c) = AM.Leader -> (t < AM.cur (AM.nodes s c))%nat ->
    AL.prefix P (AM.log (AM.nodes s c)).
Proof. exact AT.leader_completeness_node_fixed. Qed.
Print Assumptions C03_leader_completeness_node_fixed.

(* the committed log only grows along any continuation — crashes of any subset at any step and
   restarts from the persisted part are steps of the protocol *)
Theorem C03_committed_log_grows_fixed : forall (cf : AM.config) (log0 : list AM.entry), AM.init_ok cf log0 ->
  forall s, AM.steps_fixed (AM.init cf log0) s ->
  forall s', AM.steps_fixed s s' -> AL.prefix (AM.gcommit s) (AM.gcommit s').
Proof. exact AT.committed_log_grows_fixed. Qed.
Print Assumptions C03_committed_log_grows_fixed.

Theorem C03_leader_completeness_reconf_partial : forall (cf : AM.config) (log0 : list AM.entry), AM.init_ok cf log0 ->
  forall s, AM.reachable cf log0 s -> AI.Overlap s ->
  forall (t : nat) (P : list AM.entry) (u c : nat) el q,
    AS.committed_in_term s t P -> In (u, c, el, q) (AM.leaders s) -> (t < u)%nat -> AL.prefix P el.
Proof. exact AT.leader_completeness_reconf_partial. Qed.
Print Assumptions C03_leader_completeness_reconf_partial.

(* a trace of the real cluster that the extracted acceptor accepts (and whose final state passes the
   overlap test) ends in a state satisfying all invariants of the abstract protocol *)
Theorem C03_accepted_trace_safe : forall (cf : AM.config) (log0 : list AM.entry) (ls : list AA.label) s,
  AA.init_okb cf log0 = true -> AA.run (AM.init cf log0) ls = Some s -> AA.overlap_state s = true ->
  AI.inv1 s /\ AI.inv2 s.
Proof. exact AT.accepted_trace_safe. Qed.
Print Assumptions C03_accepted_trace_safe.


(* what remains unproved: leader completeness under arbitrary configuration changes without Overlap;
   and the liveness half of the property text ("is eventually applied by every live replica"), which
   is not a safety statement: what is proved is that the committed log only grows and that every later
   leader holds it, i.e. no reachable state makes catching up impossible *)
Definition C03_full : Prop :=
  forall (cf : AM.config) (log0 : list AM.entry), AM.init_ok cf log0 ->
  forall s, AM.reachable cf log0 s ->
  forall (t : nat) (P : list AM.entry) (u c : nat) el q,
    AS.committed_in_term s t P -> In (u, c, el, q) (AM.leaders s) -> (t < u)%nat -> AL.prefix P el.


(* runs checked step by step ("steps_ok": every step additionally satisfies the two decidable conditions the
   acceptor evaluates — a candidate only wins a term without an elected leader, a leader only commits a prefix
   comparable with the committed log): arbitrary membership changes, NO Overlap hypothesis. Every accepted
   implementation trace is such a run (accepted_run_checked, stated in Properties/C03.v). *)
Theorem C03_committed_log_grows_checked : forall (cf : AM.config) (log0 : list AM.entry), AM.init_ok cf log0 ->
  forall s, AS.steps_ok (AM.init cf log0) s ->
  forall s', AS.steps_ok s s' -> AL.prefix (AM.gcommit s) (AM.gcommit s').
Proof. exact AT.committed_log_grows_checked. Qed.
Print Assumptions C03_committed_log_grows_checked.

(* what the acceptor accepts is such a run, and its final state satisfies all invariants without Overlap *)
Theorem C03_accepted_run_checked : forall (cf : AM.config) (log0 : list AM.entry) (ls : list AA.label) s,
  AA.run (AM.init cf log0) ls = Some s -> AS.steps_ok (AM.init cf log0) s.
Proof. exact AT.accepted_run_checked. Qed.
Print Assumptions C03_accepted_run_checked.

Theorem C03_accepted_trace_inv : forall (cf : AM.config) (log0 : list AM.entry) (ls : list AA.label) s,
  AA.init_okb cf log0 = true -> AA.run (AM.init cf log0) ls = Some s -> AI.inv1 s /\ AI.inv2 s.
Proof. exact ZV.RaftAbs.AcceptorSound.accepted_trace_inv. Qed.
Print Assumptions C03_accepted_trace_inv.

(* Leader completeness with NO assumption on configurations, for every trace the acceptor accepts with its two decidable
   per-step conditions checked (RaftAbs/LCChecked.v: at every election one of the electors has acknowledged the whole
   committed log in the term of its last entry; at every commit every leader of a later term has an elector that
   acknowledged the committed index): every leader of a term after the last committed entry's term holds the committed log *)
Theorem C03_leader_completeness_lc_checked : forall (cf : AM.config) (log0 : list AM.entry) (ls : list AA.label) s,
  AA.init_okb cf log0 = true -> AA.run_lc (AM.init cf log0) ls = Some s ->
  forall (u c : nat) el q, In (u, c, el, q) (AM.leaders s) -> (AM.lastterm (AM.gcommit s) < u)%nat -> AL.prefix (AM.gcommit s) el.
Proof. exact ZV.RaftAbs.LCChecked.accepted_trace_leader_completeness. Qed.
Print Assumptions C03_leader_completeness_lc_checked.

Theorem C03_leader_has_committed_lc_checked : forall (cf : AM.config) (log0 : list AM.entry) (ls : list AA.label) s (c : nat),
  AA.init_okb cf log0 = true -> AA.run_lc (AM.init cf log0) ls = Some s ->
  AM.rl (AM.nodes s c) = AM.Leader -> (AM.lastterm (AM.gcommit s) < AM.cur (AM.nodes s c))%nat ->
  AL.prefix (AM.gcommit s) (AM.log (AM.nodes s c)).
Proof. exact ZV.RaftAbs.LCChecked.accepted_trace_leader_has_committed. Qed.
Print Assumptions C03_leader_has_committed_lc_checked.

(* ---------- non-vacuity ---------- *)
Example C03_ex_append_truncates :
  ms_append (mkMS 0 0 [mkE 0 0 0 0; mkE 1 1 5 9; mkE 1 2 6 9; mkE 1 3 7 9]) [mkE 2 2 8 9] =
  Ok (mkMS 0 0 [mkE 0 0 0 0; mkE 1 1 5 9; mkE 2 2 8 9]).
Proof. vm_compute. reflexivity. Qed.
Example C03_ex_append_gap_panics :
  ms_append (mkMS 0 0 [mkE 0 0 0 0; mkE 1 1 5 9]) [mkE 1 4 8 9] = Panic.
Proof. vm_compute. reflexivity. Qed.
Example C03_ex_rocks_apply_snapshot_keeps_tail :
  (* RocksStorage.ApplySnapshot keeps entries above the snapshot index (MemoryStorage drops them) *)
  match rs_apply_snapshot (mkRS 0 0 [mkE 0 0 0 0; mkE 1 1 5 9; mkE 1 2 6 9; mkE 1 3 7 9] 0 0) 2 4 with
  | Ok s => rs_db s = [mkE 4 2 0 0; mkE 1 3 7 9]
  | _ => False end.
Proof. vm_compute. reflexivity. Qed.
Example C03_ex_rocks_ops :
  (* a reachable RocksStorage state with both caches filled, after append / compact / append *)
  let ops := [RAppend [mkE 1 1 5 9; mkE 1 2 6 9; mkE 1 3 7 9]; RFirst; RLast; RCreateSnap 2; RCompact 2;
              RAppend [mkE 2 3 8 9; mkE 2 4 9 9]; RLast; RReopen; RLast] in
  Forall rop_ok ops /\ rs_lc (fold_left rs_step ops rs_new) = 4 /\
  recomputed_first (fold_left rs_step ops rs_new) = Some 3.
Proof. split; [repeat constructor; vm_compute; repeat split|]. vm_compute. split; reflexivity. Qed.
Example C03_ex_rocks_good : rs_good rs_new /\
  rops_good rs_new [RAppend [mkE 1 1 11 10; mkE 1 2 12 10]; RCreateSnap 1; RCompact 1; RReopen; RAppend [mkE 2 2 22 10; mkE 2 3 23 10]].
Proof.
  split; [exact good_new|]. cbn [rops_good].
  split; [apply GAppend; [vm_compute; repeat split|vm_compute; discriminate]|].
  split; [apply GCreate|].
  split; [apply GCompact; right; vm_compute; discriminate|].
  split; [apply GReopen|].
  split; [apply GAppend; [vm_compute; repeat split|vm_compute; discriminate]|exact I].
Qed.
