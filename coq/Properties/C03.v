(* Properties/C03.v — C03: a committed entry survives any crash/restart of replicas.
   This file contains only property theorems (closed by [exact]) and non-vacuity examples.

   What is here: the storage contract the restart path relies on (what RestartNode reads is what
   Append wrote), stated about the model coq/Raft/Model.v, which is diffed against the real
   MemoryStorage and RocksStorage on every run. Leader completeness under crash/restart over all
   schedules is proved on the abstract protocol in coq/RaftAbs by the raftabs group.

   >>> PLACE FOR THE ABSTRACT-PROTOCOL THEOREMS (coq/RaftAbs): leader completeness with
   >>> crash/restart from the persisted state. To be wired here by the coordinator. <<< *)
From ZV Require Import Raft.Consts Raft.Model Raft.Proofs.
From Coq Require Import List NArith.
Import ListNotations.
Open Scope N_scope.

(* The full statement quantifies over the cluster semantics (all schedules, fault sequences,
   configurations); that semantics is coq/RaftAbs/Model.v and the full theorem is stated there. *)

(* (1) MemoryStorage.Append = truncate-and-append on the stored list, with the compacted-prefix
       shortcut; the storage stays well formed (contiguous indexes after the dummy entry), the
       snapshot and the first index are untouched *)
Theorem C03_memory_append_partial : forall s e0 r,
  wf_ms s -> contig (eindex e0) (e0 :: r) ->
  forall off, ms_offset s = Ok off ->
  eindex e0 <= off + nlen (ms_ents s) ->
  exists s', ms_append s (e0 :: r) = Ok s' /\ wf_ms s' /\ ms_snapi s' = ms_snapi s /\ ms_snapt s' = ms_snapt s /\
    ms_offset s' = Ok off /\
    (eindex e0 + nlen (e0 :: r) - 1 < off + 1 -> s' = s) /\
    (off + 1 <= eindex e0 + nlen (e0 :: r) - 1 ->
       ms_ents s' = filter (fun e => eindex e <? N.max (eindex e0) (off + 1)) (ms_ents s)
                    ++ filter (fun e => off + 1 <=? eindex e) (e0 :: r)).
Proof. exact ms_append_spec. Qed.
Print Assumptions C03_memory_append_partial.

(* ---------- non-vacuity ---------- *)
Example C03_ex_append_truncates :
  ms_append (mkMS 0 0 [mkE 0 0 0 0; mkE 1 1 5 9; mkE 1 2 6 9; mkE 1 3 7 9]) [mkE 2 2 8 9] =
  Ok (mkMS 0 0 [mkE 0 0 0 0; mkE 1 1 5 9; mkE 2 2 8 9]).
Proof. vm_compute. reflexivity. Qed.
Example C03_ex_append_gap_panics :
  ms_append (mkMS 0 0 [mkE 0 0 0 0; mkE 1 1 5 9]) [mkE 1 4 8 9] = Panic.
Proof. vm_compute. reflexivity. Qed.
Example C03_ex_rocks_apply_snapshot_keeps_tail :
  (* RocksStorage.ApplySnapshot keeps entries above the snapshot index (MemoryStorage drops them) *)
  match rs_apply_snapshot (mkRS 0 0 [mkE 0 0 0 0; mkE 1 1 5 9; mkE 1 2 6 9; mkE 1 3 7 9] 0 0) 2 4 with
  | Ok s => rs_db s = [mkE 4 2 0 0; mkE 1 3 7 9]
  | _ => False end.
Proof. vm_compute. reflexivity. Qed.
