(* Properties/C13.v — C13: cursor scans return every element exactly once, in order.
   Only the property theorems (closed by [exact]) and non-vacuity examples.

   Setting (Scan/Model.v): the store is the ascending list [db] of its engine keys (all types, tables and
   collections together); [iterate_coll] / [iterate_keys] call the modelled H/S/ZSCAN resp. SCAN/ADVSCAN
   handler, feed the returned cursor back (for key scans re-wrapped as "table:cursor", as the server does)
   until the cursor is empty, and return the pages with status [Done] (or [Failed]/[Faulted]/[OutOfFuel]).
   [compile] (the glob library) is an arbitrary function: MATCH is whatever predicate [m] it yields.
   [elems dt table key db] = the non-empty names s with  coll_key dt table key s  in db, ascending;
   [rawkeys d db] = the non-empty "table:key" names of type d in db, ascending.
   Reverse scans are stated from an arbitrary start cursor: they return what lies strictly below it (with the
   empty cursor: nothing — the behaviour the repository's own tests fix; DESIGN.md S1). *)
From ZV Require Import Common.Bytes Scan.Consts Scan.Model Scan.ProofsOrder Scan.ProofsIter Scan.ProofsRange Scan.Proofs
     Scan.ProofsMerge Scan.ProofsCluster Scan.ProofsB64 Scan.ProofsCursor Scan.ProofsCodec Scan.ProofsFull Scan.ProofsFullCodec.
From ZV Require Codec.Spec Codec.Keys.
From Coq Require Import Sorting.Sorted ZArith Permutation.
Open Scope N_scope.

(* (1) HSCAN / SSCAN / ZSCAN, forwards: for every store, collection, start cursor, COUNT >= 1 and MATCH
   predicate the concatenation of the pages is exactly the list of matching element names beyond the start
   cursor, in ascending order; the iteration ends with the empty cursor after |result|/COUNT + 1 calls
   (COUNT capped at MAX_BATCH_NUM), without error or fault. *)
Theorem C13_coll_scan_forward :
  forall (compile : bytes -> option (bytes -> bool)) (db : list bytes) (dt : N) (table key pat : bytes)
         (m : bytes -> bool) (count : Z),
    sorted_db db -> is_coll_type dt = true ->
    N.of_nat (length table) < 65536 -> 0 < N.of_nat (length key) <= max_key_size ->
    matcher compile pat = Some m -> (1 <= count)%Z ->
    forall (start : bytes) (fuel : nat),
      let R := filter m (filter (fun s => bytes_ltb start s) (elems dt table key db)) in
      (length R / eff_count count < fuel)%nat ->
      exists pages,
        iterate_coll compile fuel db dt table key true false start pat count = (pages, Done) /\
        concat (map fst pages) = R /\
        length pages = (length R / eff_count count + 1)%nat.
Proof. exact coll_scan_fwd. Qed.
Print Assumptions C13_coll_scan_forward.

(* (2) the same backwards: the matching names strictly below the start cursor, descending *)
Theorem C13_coll_scan_reverse :
  forall (compile : bytes -> option (bytes -> bool)) (db : list bytes) (dt : N) (table key pat : bytes)
         (m : bytes -> bool) (count : Z),
    sorted_db db -> is_coll_type dt = true ->
    N.of_nat (length table) < 65536 -> 0 < N.of_nat (length key) <= max_key_size ->
    matcher compile pat = Some m -> (1 <= count)%Z ->
    forall (start : bytes) (fuel : nat),
      let R := filter m (filter (fun s => bytes_ltb s start) (rev (elems dt table key db))) in
      (length R / eff_count count < fuel)%nat ->
      exists pages,
        iterate_coll compile fuel db dt table key true true start pat count = (pages, Done) /\
        concat (map fst pages) = R /\
        length pages = (length R / eff_count count + 1)%nat.
Proof. exact coll_scan_rev. Qed.
Print Assumptions C13_coll_scan_reverse.

(* (3) SCAN / ADVSCAN of type d restricted to a table, forwards: exactly the matching keys of that table
   beyond the cursor, ascending, although the store scans on into the following tables.
   Hypothesis on the store: every key of the type has the form "table:key" (what the write path guarantees).
   A key with the EMPTY name ("table:", admitted by SET) needs no hypothesis: it sorts before every cursor of
   its table, so forwards it is never part of R (never returned: the lower bound is open — names are
   non-empty in the property's quantifier), backwards it is the last element of R; only the number of calls
   can then be one less than |R|/COUNT + 1 (see the example C13_ex_empty_key_name, replayed on the Go code by
   corpus/C13/kv_key_with_empty_name.tsv). [no_empty_name db d table] = no such key is stored. *)
Theorem C13_key_scan_forward :
  forall (compile : bytes -> option (bytes -> bool)) (db : list bytes) (d : dtype) (table pat : bytes)
         (m : bytes -> bool) (count : Z),
    sorted_db db -> ~ In key_sep table ->
    Forall (fun raw => extract_table raw <> None) (rawkeys d db) ->
    matcher compile pat = Some m -> (1 <= count)%Z ->
    forall (start : bytes) (fuel : nat),
      let R := filter m (filter (fun s => bytes_ltb (wrap_cursor table start) s)
                           (filter (same_table table) (rawkeys d db))) in
      (length R / eff_count count < fuel)%nat ->
      exists pages,
        iterate_keys compile fuel db d false table start pat count = (pages, Done) /\
        concat (map fst pages) = R /\
        (length pages <= length R / eff_count count + 1)%nat /\
        (no_empty_name db d table -> length pages = (length R / eff_count count + 1)%nat).
Proof. exact key_scan_fwd. Qed.
Print Assumptions C13_key_scan_forward.

(* (4) REVSCAN / ADVREVSCAN *)
Theorem C13_key_scan_reverse :
  forall (compile : bytes -> option (bytes -> bool)) (db : list bytes) (d : dtype) (table pat : bytes)
         (m : bytes -> bool) (count : Z),
    sorted_db db -> ~ In key_sep table ->
    Forall (fun raw => extract_table raw <> None) (rawkeys d db) ->
    matcher compile pat = Some m -> (1 <= count)%Z ->
    forall (start : bytes) (fuel : nat),
      let R := filter m (filter (fun s => bytes_ltb s (wrap_cursor table start))
                           (filter (same_table table) (rev (rawkeys d db)))) in
      (length R / eff_count count < fuel)%nat ->
      exists pages,
        iterate_keys compile fuel db d true table start pat count = (pages, Done) /\
        concat (map fst pages) = R /\
        (length pages <= length R / eff_count count + 1)%nat /\
        (no_empty_name db d table -> length pages = (length R / eff_count count + 1)%nat).
Proof. exact key_scan_rev. Qed.
Print Assumptions C13_key_scan_reverse.

(* (5) a collection without (live) meta key: one empty page, empty cursor *)
Theorem C13_coll_scan_absent :
  forall compile db dt table key rev start pat count m fuel,
    matcher compile pat = Some m -> (1 <= count)%Z ->
    iterate_coll compile (S fuel) db dt table key false rev start pat count = ([([], [])], Done).
Proof. exact coll_scan_absent. Qed.
Print Assumptions C13_coll_scan_absent.

(* (6) what the result lists are: exactly the non-empty names stored under the addressed prefix, each once,
   in byte order — so "every element, exactly once, in order" *)
Theorem C13_elems_exact : forall dt table key db s,
  In s (elems dt table key db) <-> (s <> [] /\ In (coll_key dt table key s) db).
Proof. exact elems_spec. Qed.
Print Assumptions C13_elems_exact.

Theorem C13_rawkeys_exact : forall d db raw,
  In raw (rawkeys d db) <-> (raw <> [] /\ In (type_prefix d ++ raw) db).
Proof. exact rawkeys_spec. Qed.
Print Assumptions C13_rawkeys_exact.

Theorem C13_elems_ascending : forall dt table key db,
  sorted_db db -> StronglySorted (fun a b => bytes_ltb a b = true) (elems dt table key db).
Proof. intros dt table key db H. exact (names_sorted ltf ltf_app _ db H). Qed.
Print Assumptions C13_elems_ascending.

Theorem C13_rawkeys_ascending : forall d db,
  sorted_db db -> StronglySorted (fun a b => bytes_ltb a b = true) (rawkeys d db).
Proof. intros d db H. exact (names_sorted ltf ltf_app _ db H). Qed.
Print Assumptions C13_rawkeys_ascending.

Theorem C13_ascending_NoDup : forall l,
  StronglySorted (fun a b => bytes_ltb a b = true) l -> NoDup l.
Proof. intros l H. exact (sorted_NoDup ltf l ltf_irrefl H). Qed.
Print Assumptions C13_ascending_NoDup.

(* (7) nothing from other collections, types or tables: an element key determines (type, table, key, name);
   the type prefixes are pairwise different; a raw key lies in exactly the table before its first ':' *)
Theorem C13_coll_key_injective : forall dt table key s dt' table' key' s',
  is_coll_type dt = true -> N.of_nat (length table) < 65536 -> N.of_nat (length key) < 65536 ->
  is_coll_type dt' = true -> N.of_nat (length table') < 65536 -> N.of_nat (length key') < 65536 ->
  coll_key dt table key s = coll_key dt' table' key' s' ->
  dt = dt' /\ table = table' /\ key = key' /\ s = s'.
Proof. exact coll_key_inj. Qed.
Print Assumptions C13_coll_key_injective.

Theorem C13_type_prefix_injective : forall d d' a b,
  type_prefix d ++ a = type_prefix d' ++ b -> d = d' /\ a = b.
Proof. exact type_prefix_inj. Qed.
Print Assumptions C13_type_prefix_injective.

Theorem C13_same_table_exact : forall table raw,
  ~ In key_sep table ->
  (same_table table raw = true <-> exists key, raw = table ++ key_sep :: key).
Proof. exact same_table_spec. Qed.
Print Assumptions C13_same_table_exact.

(* (8) the page size in force: COUNT, capped at MAX_BATCH_NUM; the node's cap does not exceed the store's *)
Theorem C13_count_in_force : forall count, (1 <= count)%Z ->
  N.to_nat (check_scan_count (clamp_count count)) = eff_count count /\
  Z.of_nat (eff_count count) = Z.min count (Z.of_N node_max_batch_num) /\
  node_max_batch_num <= max_batch_num.
Proof.
  intros count H. destruct (count_norm count H) as [H1 [H2 H3]]. split; [exact H2|]. split.
  - unfold eff_count. rewrite Z2Nat.id; [reflexivity|]. change (Z.of_N node_max_batch_num) with 5000%Z. lia.
  - discriminate.
Qed.
Print Assumptions C13_count_in_force.

(* (9) without a COUNT argument (or COUNT <= 0) the default page size applies and the cursor becomes empty only
   after an empty page: same result lists, at most |result|/default + 2 calls *)
Theorem C13_coll_scan_forward_default_count :
  forall (compile : bytes -> option (bytes -> bool)) (db : list bytes) (dt : N) (table key pat : bytes)
         (m : bytes -> bool) (count : Z),
    sorted_db db -> is_coll_type dt = true ->
    N.of_nat (length table) < 65536 -> 0 < N.of_nat (length key) <= max_key_size ->
    matcher compile pat = Some m -> (count <= 0)%Z ->
    forall (start : bytes) (fuel : nat),
      let R := filter m (filter (fun s => bytes_ltb start s) (elems dt table key db)) in
      (length R / N.to_nat default_scan_count + 1 < fuel)%nat ->
      exists pages,
        iterate_coll compile fuel db dt table key true false start pat count = (pages, Done) /\
        concat (map fst pages) = R /\
        (length pages <= length R / N.to_nat default_scan_count + 2)%nat.
Proof. exact coll_scan_fwd0. Qed.
Print Assumptions C13_coll_scan_forward_default_count.

Theorem C13_coll_scan_reverse_default_count :
  forall (compile : bytes -> option (bytes -> bool)) (db : list bytes) (dt : N) (table key pat : bytes)
         (m : bytes -> bool) (count : Z),
    sorted_db db -> is_coll_type dt = true ->
    N.of_nat (length table) < 65536 -> 0 < N.of_nat (length key) <= max_key_size ->
    matcher compile pat = Some m -> (count <= 0)%Z ->
    forall (start : bytes) (fuel : nat),
      let R := filter m (filter (fun s => bytes_ltb s start) (rev (elems dt table key db))) in
      (length R / N.to_nat default_scan_count + 1 < fuel)%nat ->
      exists pages,
        iterate_coll compile fuel db dt table key true true start pat count = (pages, Done) /\
        concat (map fst pages) = R /\
        (length pages <= length R / N.to_nat default_scan_count + 2)%nat.
Proof. exact coll_scan_rev0. Qed.
Print Assumptions C13_coll_scan_reverse_default_count.

Theorem C13_key_scan_forward_default_count :
  forall (compile : bytes -> option (bytes -> bool)) (db : list bytes) (d : dtype) (table pat : bytes)
         (m : bytes -> bool) (count : Z),
    sorted_db db -> ~ In key_sep table ->
    Forall (fun raw => extract_table raw <> None) (rawkeys d db) ->
    matcher compile pat = Some m -> (count <= 0)%Z ->
    forall (start : bytes) (fuel : nat),
      let R := filter m (filter (fun s => bytes_ltb (wrap_cursor table start) s)
                           (filter (same_table table) (rawkeys d db))) in
      (length R / N.to_nat default_scan_count + 1 < fuel)%nat ->
      exists pages,
        iterate_keys compile fuel db d false table start pat count = (pages, Done) /\
        concat (map fst pages) = R /\
        (length pages <= length R / N.to_nat default_scan_count + 2)%nat.
Proof. exact key_scan_fwd0. Qed.
Print Assumptions C13_key_scan_forward_default_count.

Theorem C13_key_scan_reverse_default_count :
  forall (compile : bytes -> option (bytes -> bool)) (db : list bytes) (d : dtype) (table pat : bytes)
         (m : bytes -> bool) (count : Z),
    sorted_db db -> ~ In key_sep table ->
    Forall (fun raw => extract_table raw <> None) (rawkeys d db) ->
    matcher compile pat = Some m -> (count <= 0)%Z ->
    forall (start : bytes) (fuel : nat),
      let R := filter m (filter (fun s => bytes_ltb s (wrap_cursor table start))
                           (filter (same_table table) (rev (rawkeys d db)))) in
      (length R / N.to_nat default_scan_count + 1 < fuel)%nat ->
      exists pages,
        iterate_keys compile fuel db d true table start pat count = (pages, Done) /\
        concat (map fst pages) = R /\
        (length pages <= length R / N.to_nat default_scan_count + 2)%nat.
Proof. exact key_scan_rev0. Qed.
Print Assumptions C13_key_scan_reverse_default_count.

(* (10) SCAN/ADVSCAN (+REV) over all partitions of a namespace (server/scan_merge.go: COUNT divided among the
   partitions a request goes to, one cursor per unfinished partition, pages concatenated): for every family of
   partition stores, every COUNT (any integer, or none), every start cursor (the same for every partition) and
   both directions, the merged iteration ends with the empty cursor and its pages contain, up to the
   interleaving of the partitions, exactly the per-partition results — every matching key of the table exactly
   once. (Order within a partition: (3)/(4); the order across partitions is Go map order in the code and is
   not claimed.) The number of requests is at most the sum over the partitions of (result size + 1). *)
Theorem C13_cluster_scan :
  forall (compile : bytes -> option (bytes -> bool)) (dbs : list (list bytes)) (d : dtype) (table pat : bytes)
         (m : bytes -> bool),
    (forall p, (p < length dbs)%nat ->
       sorted_db (nth p dbs []) /\
       Forall (fun raw => extract_table raw <> None) (rawkeys d (nth p dbs []))) ->
    ~ In key_sep table ->
    matcher compile pat = Some m ->
    forall (reverse has_count : bool) (count : Z) (start : bytes) (fuel : nat),
      let R := part_result dbs d table m reverse start in
      (request_bound dbs d table m reverse start < fuel)%nat ->
      exists mpages,
        merged_keys compile fuel dbs d reverse table start pat has_count count = (mpages, Done) /\
        Permutation (concat (map fst mpages)) (concat (map R (seq 0 (length dbs)))) /\
        (length mpages <= Nat.max 1 (request_bound dbs d table m reverse start))%nat.
Proof. intros. now apply cluster_scan. Qed.
Print Assumptions C13_cluster_scan.

(* the merge itself, for arbitrary partition handlers that deliver a remaining list step by step, whatever
   COUNT they are given *)
Theorem C13_merged_scan :
  forall (call : Z -> nat -> bytes -> outcome page) (rem : nat -> bytes -> list bytes),
    (forall cnt p c, exists items next rem',
        call cnt p c = Ok (items, next) /\ rem p c = items ++ rem' /\
        (next = [] -> rem' = []) /\ (next <> [] -> items <> [] /\ rem' = rem p next)) ->
    forall has_count count fuel ts,
      (measure rem ts < fuel)%nat ->
      exists mpages,
        miterate call has_count count fuel ts = (mpages, Done) /\
        Permutation (concat (map fst mpages)) (remaining_all rem ts) /\
        (length mpages <= Nat.max 1 (measure rem ts))%nat.
Proof. exact merged_iterate. Qed.
Print Assumptions C13_merged_scan.

(* (11) the text of the merged cursor: what doMergeScan writes — base64( pid ':' base64(cursor) ';' ... ) —
   is decoded by decodeScanCursor of the next request into the same table, partitions and cursors; with the
   base64 and decimal functions of the model (compared with the server's cursor text on every run), for
   partition ids below 1024 (finite sweep of the decimal conversion) and cursors that are byte strings. *)
Theorem C13_merged_cursor_roundtrip :
  forall (table : bytes) (mc : mcursor),
    table <> [] -> ~ In scan_node_sep table -> mc <> [] ->
    Forall (fun t => (fst t < 1024)%nat /\ bytes_ok (snd t) = true) mc ->
    decode_scan_cursor b64dec atoi (table ++ scan_node_sep :: encode_mcursor b64enc itoa mc) = Ok (table, mc).
Proof. exact real_mcursor_roundtrip. Qed.
Print Assumptions C13_merged_cursor_roundtrip.

Theorem C13_base64_roundtrip : forall l, bytes_ok l = true -> b64dec (b64enc l) = Some l.
Proof. exact b64dec_enc. Qed.
Print Assumptions C13_base64_roundtrip.

(* the separator the server puts between table and cursor is the one the nodes split at *)
Theorem C13_separators : scan_node_sep = key_sep /\ scan_node_sep <> scan_cursor_sep.
Proof. split; [reflexivity|discriminate]. Qed.
Print Assumptions C13_separators.

(* (12) on engine BYTES: the store is the byte encoding (the codec model of C12, coq/Codec) of an arbitrary
   universe xs of well-formed data keys of ALL kinds (Codec.Spec.ekey). The scan model's encoders coincide with
   C12's; C12's injectivity theorem (ekey_inj) identifies what is "stored under the addressed prefix". So:
   H/S/ZSCAN return exactly the non-empty members s with (KColl dt table key s) in xs, SCAN/ADVSCAN exactly the
   keys (KKV / KMeta of the type) of the addressed table in xs — matching, beyond the cursor, in byte order,
   each once; nothing of another type, table or collection; no store hypothesis besides well-formedness and
   byte order is left. *)
Theorem C13_coll_scan_on_engine_bytes :
  forall compile (xs : list Codec.Spec.ekey) dt t k pat m count (reverse : bool) start fuel,
    Forall Codec.Spec.wf_ekey xs -> sorted_db (store_of xs) ->
    is_coll_type dt = true -> ~ In key_sep t ->
    N.of_nat (length t) < 65536 -> 0 < N.of_nat (length k) <= max_key_size ->
    matcher compile pat = Some m -> (1 <= count)%Z ->
    (length xs / eff_count count < fuel)%nat ->
    exists pages,
      iterate_coll compile fuel (store_of xs) dt t k true reverse start pat count = (pages, Done) /\
      (forall s, In s (concat (map fst pages)) <->
         (s <> [] /\ In (Codec.Spec.KColl dt t k s) xs /\ m s = true /\ beyond reverse start s = true)) /\
      sorted (if reverse then ltr else ltf) (concat (map fst pages)) /\
      (length pages <= length xs / eff_count count + 1)%nat.
Proof. exact coll_scan_store. Qed.
Print Assumptions C13_coll_scan_on_engine_bytes.

Theorem C13_key_scan_on_engine_bytes :
  forall compile (xs : list Codec.Spec.ekey) d table pat m count (reverse : bool) start fuel,
    Forall Codec.Spec.wf_ekey xs -> sorted_db (store_of xs) -> ~ In key_sep table ->
    matcher compile pat = Some m -> (1 <= count)%Z ->
    (length xs / eff_count count < fuel)%nat ->
    exists pages,
      iterate_keys compile fuel (store_of xs) d reverse table start pat count = (pages, Done) /\
      (forall raw, In raw (concat (map fst pages)) <->
         (exists rk, raw = wrap_cursor table rk /\ In (key_of d table rk) xs /\ m raw = true /\
                     beyond reverse (wrap_cursor table start) raw = true)) /\
      sorted (if reverse then ltr else ltf) (concat (map fst pages)) /\
      (length pages <= length xs / eff_count count + 1)%nat.
Proof. exact key_scan_store. Qed.
Print Assumptions C13_key_scan_on_engine_bytes.

Theorem C13_encoders_are_C12s : forall dt t k s raw ty,
  (is_coll_type dt = true -> coll_key dt t k s = Codec.Keys.coll_key dt t k s) /\
  encode_kv_key raw = Codec.Keys.encode_kv_key raw /\
  size_key ty raw = Codec.Keys.size_key ty raw /\
  wrap_cursor t k = Codec.Keys.pack_redis_key t k.
Proof. intros. repeat split. apply coll_key_same. Qed.
Print Assumptions C13_encoders_are_C12s.

(* (13) FULLSCAN (rockredis/fullscan.go as fixed by e17393d / 5624e60; local-deletion policy): iterating
   FULLSCAN table: type by the cursor base64(key):base64(element) returns every element of every key of that
   type and table whose key matches, exactly once, in engine order, with COUNT elements per call:
   |R|/COUNT + 1 calls. [bodies] = what follows the table prefix in the stored element keys; the hypothesis
   says that they are well-formed keys of the type with a non-empty key name and byte-valued parts (what
   the write path stores). *)
Theorem C13_fullscan_exact :
  forall (compile : bytes -> option (bytes -> bool)) (db : list bytes) (d : dtype) (table pat : bytes)
         (mk : bytes -> bool) (count : Z),
    sorted_db db -> ~ In key_sep table -> matcher compile pat = Some mk -> (1 <= count)%Z ->
    (forall s, In s (bodies db d table) -> exists key cur,
        decode_fs_item (fs_store_type d) (data_table_prefix (fs_store_type d) table ++ s) = Ok (key, cur) /\
        body_of (fs_store_type d) (cursor_key (fs_store_type d) key) cur = s /\
        cursor_key (fs_store_type d) key <> [] /\ bytes_ok (cursor_key (fs_store_type d) key) = true /\
        bytes_ok cur = true /\ (fs_store_type d =? list_type = true -> length cur = 8%nat)) ->
    forall fuel,
      let R := fs_result db d table mk in
      (length R / eff_count count < fuel)%nat ->
      exists pages,
        iterate_fullscan compile fuel db d table pat count = (pages, Done) /\
        concat (map fst pages) = R /\
        length pages = (length R / eff_count count + 1)%nat.
Proof. exact fullscan_exact. Qed.
Print Assumptions C13_fullscan_exact.

(* (14) FULLSCAN on engine BYTES: over the byte image of a well-formed key universe (C12's codec model; byte
   valued, collections and lists with non-empty key names) the hypothesis of (13) holds (C12's table-range
   theorem identifies the owners of the keys under the table prefix), and the iteration returns exactly the
   items (key, element) of the keys of the addressed type and table whose key matches — KV: (table:key, -),
   hash/set/zset: (key, member), list: (key, sequence number) — each once. *)
Theorem C13_fullscan_on_engine_bytes :
  forall compile (xs : list Codec.Spec.ekey),
    Forall Codec.Spec.wf_ekey xs ->
    Forall (fun x => bytes_ok (Codec.Spec.encode_ekey x) = true) xs ->
    Forall (fun x => match x with
                     | Codec.Spec.KColl _ _ k _ | Codec.Spec.KList _ k _ => k <> []
                     | _ => True end) xs ->
    sorted_db (store_of xs) ->
    forall (d : dtype) (table pat : bytes) (mk : bytes -> bool) (count : Z),
      ~ In key_sep table -> N.of_nat (length table) < 65536 ->
      matcher compile pat = Some mk -> (1 <= count)%Z ->
      forall fuel, (length xs / eff_count count < fuel)%nat ->
      exists pages,
        iterate_fullscan compile fuel (store_of xs) d table pat count = (pages, Done) /\
        (forall it, In it (concat (map fst pages)) <->
           exists x, In x xs /\ fs_member (fs_store_type d) table x /\ fs_item_of x = it /\ mk (fst it) = true) /\
        (length pages <= length xs / eff_count count + 1)%nat.
Proof. exact fullscan_store. Qed.
Print Assumptions C13_fullscan_on_engine_bytes.

(* (15) which cursor texts mean "from the start": parseScanArgs takes the cursor literally, so only the empty
   cursor does. By (1)-(4) every cursor a scan hands out is the non-empty name of the last element of its page;
   hence no cursor the scan itself returns is taken for the start. A non-empty start sentinel is impossible:
   with redis' "0" an element really named "0" that ends a page sends a forward scan back to the beginning
   (it never terminates) and ends a reverse scan early (elements below "0" are lost). *)
Theorem C13_cursor_taken_literally : forall c, parse_cursor c = c /\ (parse_cursor c = [] <-> c = []).
Proof. intro c. split; [apply parse_cursor_literal|apply parse_cursor_start]. Qed.
Print Assumptions C13_cursor_taken_literally.

Theorem C13_zero_sentinel_refuted :
  is_sorted sentinel_db = true /\
  iterate 10 (fun c => coll_scan_command mini_compile sentinel_db hash_type [116] [104] true false c [] 1) [] =
    ([([[45; 49]], [45; 49]); ([[48]], [48]); ([[48; 48]], [48; 48]); ([], [])], Done) /\
  snd (iterate 10
         (fun c => coll_scan_command mini_compile sentinel_db hash_type [116] [104] true false (zero_sentinel c) [] 1) [])
    = OutOfFuel /\
  map fst (fst (iterate 10
         (fun c => coll_scan_command mini_compile sentinel_db hash_type [116] [104] true true (zero_sentinel c) [] 1) [255]))
    = [[[48; 48]]; [[48]]; []].
Proof. exact zero_sentinel_refuted. Qed.
Print Assumptions C13_zero_sentinel_refuted.

(* ---------- non-vacuity: a concrete store ---------- *)
(* hash t:h = {a, ab, b}, hash t:h2 = {a}, set t:h = {a}; KV keys t:a t:ab t:b t2:a u:a *)
Definition ex_db : list bytes :=
  [ encode_kv_key [116;50;58;97]; encode_kv_key [116;58;97]; encode_kv_key [116;58;97;98]; encode_kv_key [116;58;98];
    encode_kv_key [117;58;97];
    coll_key hash_type [116] [104] [97]; coll_key hash_type [116] [104] [97;98]; coll_key hash_type [116] [104] [98];
    coll_key hash_type [116] [104;50] [97];
    size_key hsize_type [116;58;104]; size_key hsize_type [116;58;104;50];
    coll_key set_type [116] [104] [97] ].

Example C13_ex_sorted : is_sorted ex_db = true.
Proof. vm_compute. reflexivity. Qed.

(* HSCAN t:h COUNT 2: pages [a, ab] (cursor ab), [b] (cursor empty) *)
Example C13_ex_hscan :
  iterate_coll mini_compile 5 ex_db hash_type [116] [104] true false [] [] 2 =
  ([([[97]; [97;98]], [97;98]); ([[98]], [])], Done).
Proof. vm_compute. reflexivity. Qed.

(* HREVSCAN t:h from cursor "c" COUNT 2 MATCH a*: [ab, a] then the empty page *)
Example C13_ex_hrevscan :
  iterate_coll mini_compile 5 ex_db hash_type [116] [104] true true [99] [97;42] 2 =
  ([([[97;98]; [97]], [97]); ([], [])], Done).
Proof. vm_compute. reflexivity. Qed.

(* SCAN t: COUNT 2 does not leak t2:a or u:a *)
Example C13_ex_scan :
  iterate_keys mini_compile 5 ex_db KV false [116] [] [] 2 =
  ([([[116;58;97]; [116;58;97;98]], [97;98]); ([[116;58;98]], [])], Done).
Proof. vm_compute. reflexivity. Qed.

(* REVSCAN t: from the empty cursor returns nothing (S1): the first reverse page is empty *)
Example C13_ex_revscan_empty_cursor :
  iterate_keys mini_compile 5 ex_db KV true [116] [] [] 2 = ([([], [])], Done).
Proof. vm_compute. reflexivity. Qed.

(* HSCAN t:h without COUNT: everything, then the empty page *)
Example C13_ex_hscan_default_count :
  iterate_coll mini_compile 5 ex_db hash_type [116] [104] true false [] [] 0 =
  ([([[97]; [97;98]; [98]], [98]); ([], [])], Done).
Proof. vm_compute. reflexivity. Qed.

(* two partitions holding {t:a, t:b, u:a} and {t2:a, t:ab}: SCAN t: COUNT 2 over both *)
Example C13_ex_cluster :
  merged_keys mini_compile 5
    [[encode_kv_key [116;58;97]; encode_kv_key [116;58;98]; encode_kv_key [117;58;97]];
     [encode_kv_key [116;50;58;97]; encode_kv_key [116;58;97;98]]]
    KV false [116] [] [] true 2 =
  ([([[116;58;97]; [116;58;97;98]], [(0%nat, [97]); (1%nat, [97;98])]); ([[116;58;98]], [(0%nat, [98])]); ([], [])], Done).
Proof. vm_compute. reflexivity. Qed.

(* base64("hello") = "aGVsbG8=" ; the cursor of partitions 0 -> "a", 1 -> "ab" for table t *)
Example C13_ex_base64 : b64enc [104;101;108;108;111] = [97;71;86;115;98;71;56;61].
Proof. vm_compute. reflexivity. Qed.
Example C13_ex_cursor_text :
  decode_scan_cursor b64dec atoi ([116] ++ scan_node_sep :: encode_mcursor b64enc itoa [(0%nat, [97]); (1%nat, [97;98])])
  = Ok ([116], [(0%nat, [97]); (1%nat, [97;98])]).
Proof. vm_compute. reflexivity. Qed.

(* a universe with keys of several kinds whose byte image is in engine order; HSCAN t:h over it *)
Definition ex_universe : list Codec.Spec.ekey :=
  [ Codec.Spec.KTableMeta [116]; Codec.Spec.KKV [116] [97]; Codec.Spec.KKV [117] [97];
    Codec.Spec.KColl hash_type [116] [104] [97]; Codec.Spec.KColl hash_type [116] [104] [98];
    Codec.Spec.KColl hash_type [116] [104;50] [97];
    Codec.Spec.KMeta hsize_type [116] [104]; Codec.Spec.KMeta hsize_type [116] [104;50];
    Codec.Spec.KList [116] [108] 1000%Z; Codec.Spec.KColl set_type [116] [104] [97] ].
Example C13_ex_universe :
  is_sorted (store_of ex_universe) = true /\
  iterate_coll mini_compile 5 (store_of ex_universe) hash_type [116] [104] true false [] [] 1 =
    ([([[97]], [97]); ([[98]], [98]); ([], [])], Done).
Proof. vm_compute. split; reflexivity. Qed.

(* FULLSCAN t: HASH COUNT 2 over ex_db: (h,a) (h,ab) | (h,b) (h2,a) | end; the cursor text is base64 *)
Example C13_ex_fullscan :
  let r := iterate_fullscan mini_compile 6 ex_db HASH [116] [] 2 in
  map fst (fst r) = [[([104], [97]); ([104], [97;98])]; [([104], [98]); ([104;50], [97])]; []] /\ snd r = Done.
Proof. vm_compute. split; reflexivity. Qed.
