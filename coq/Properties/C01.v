(* Properties/C01.v — C01: at most one raft leader per term; learners neither lead nor vote.
   This file contains only property theorems (closed by [exact]) and non-vacuity examples.

   What is here: the theorems about the PURE decision functions of the fork that election safety
   rests on, stated about the model coq/Raft/Model.v, which is diffed against raft.quorum(),
   raft.maybeCommit's index selection and the real raftLog on every run (raftsim -mode log).
   The property over all schedules (election safety of the protocol, incl. crash/restart and
   membership change) is proved on the abstract protocol in coq/RaftAbs by the raftabs group.

   The abstract-protocol theorems (coq/RaftAbs) are stated at the end of this file. *)
From ZV Require Import Raft.Consts Raft.Model Raft.Proofs.
From Coq Require Import List NArith.
Import ListNotations.
Open Scope N_scope.

(* The full statement quantifies over the cluster semantics (all schedules, fault sequences,
   configurations); that semantics is coq/RaftAbs/Model.v and the full theorem is stated there. *)

(* (1) any two majorities of one voter list share a member: the arithmetic of raft.quorum()
       (len/2+1) is what makes two leaders of one term impossible under a fixed configuration *)
Theorem C01_quorum_intersection_partial : forall (vs a b : list N),
  NoDup a -> NoDup b -> incl a vs -> incl b vs ->
  quorum (nlen vs) <= nlen a -> quorum (nlen vs) <= nlen b ->
  exists x, In x a /\ In x b.
Proof. exact quorum_intersection. Qed.
Print Assumptions C01_quorum_intersection_partial.

(* (2) the same across a single-step membership change (one voter added or removed): a majority of
       the old list and a majority of the new list intersect *)
Theorem C01_quorum_intersection_step : forall (vs vs' a b : list N) (x : N),
  NoDup vs -> NoDup vs' -> NoDup a -> NoDup b ->
  incl a vs -> incl b vs' ->
  (incl vs' vs /\ length vs = S (length vs') \/ incl vs vs' /\ length vs' = S (length vs)) ->
  quorum (nlen vs) <= nlen a -> quorum (nlen vs') <= nlen b ->
  exists y, In y a /\ In y b.
Proof. exact quorum_intersection_step. Qed.
Print Assumptions C01_quorum_intersection_step.

(* (3) raft.Step on MsgVote/MsgPreVote: a learner produces no answer at all *)
Theorem C01_learner_never_answers : forall vote lead from pv mterm term utd,
  vote_decision true vote lead from pv mterm term utd = None.
Proof. exact learner_never_answers. Qed.
Print Assumptions C01_learner_never_answers.

(* (4) one vote per term: once Vote = c1 is recorded, a MsgVote of another candidate is rejected *)
Theorem C01_one_vote_per_term : forall c1 c2 lead mterm term utd,
  c1 <> none_id -> c2 <> c1 ->
  vote_decision false c1 lead c2 false mterm term utd = Some false.
Proof. exact one_vote_per_term. Qed.
Print Assumptions C01_one_vote_per_term.

(* (5) a grant implies the candidate's log was judged up to date and the voter is no learner *)
Theorem C01_grant_needs_up_to_date : forall l vote lead from pv mterm term utd,
  vote_decision l vote lead from pv mterm term utd = Some true -> utd = true /\ l = false.
Proof. exact grant_needs_up_to_date. Qed.
Print Assumptions C01_grant_needs_up_to_date.


(* ====================================================================================== *)
(* The property over all schedules, on the abstract protocol of coq/RaftAbs (Model.v: per-node term /
   vote / role / log / commit / configuration, the network as grant, ack and campaign records, crash and
   restart from the persisted part, snapshots as compacted prefixes). "_fixed": every node keeps its
   configuration (any voter list, any learner list) — no hypothesis. "_reconf_partial": arbitrary
   configuration changes under the explicit hypothesis Overlap (any two voter lists a majority was
   counted over have intersecting majorities). The tie to the Go code: every check run replays traces of
   the real cluster through the extracted acceptor (RaftAbs/Acceptor.v, proved sound in
   AcceptorSound.v): an accepted trace is a trace of this protocol. *)
From ZV Require RaftAbs.Theorems.
Module AM := ZV.RaftAbs.Model. Module AS := ZV.RaftAbs.Safety. Module AL := ZV.RaftAbs.ListFacts.
Module AI := ZV.RaftAbs.Inv. Module AA := ZV.RaftAbs.Acceptor. Module AT := ZV.RaftAbs.Theorems.

Theorem C01_election_safety_fixed : forall (cf : AM.config) (log0 : list AM.entry), AM.init_ok cf log0 ->
  forall s, AM.steps_fixed (AM.init cf log0) s ->
  forall i j : nat, AM.rl (AM.nodes s i) = AM.Leader -> AM.rl (AM.nodes s j) = AM.Leader ->
    AM.cur (AM.nodes s i) = AM.cur (AM.nodes s j) -> i = j.
Proof. exact AT.election_safety_fixed. Qed.
Print Assumptions C01_election_safety_fixed.

(* history form: the record of won elections is functional in the term *)
Theorem C01_election_safety_history_fixed : forall (cf : AM.config) (log0 : list AM.entry), AM.init_ok cf log0 ->
  forall s, AM.steps_fixed (AM.init cf log0) s ->
  forall (t c : nat) el q (c' : nat) el' q',
    In (t, c, el, q) (AM.leaders s) -> In (t, c', el', q') (AM.leaders s) -> c = c'.
Proof. exact AT.election_safety_history_fixed. Qed.
Print Assumptions C01_election_safety_history_fixed.

Theorem C01_learners_never_lead_fixed : forall (cf : AM.config) (log0 : list AM.entry), AM.init_ok cf log0 ->
  forall s, AM.steps_fixed (AM.init cf log0) s ->
  forall j : nat, AM.rl (AM.nodes s j) <> AM.Follower -> In j (AM.voters cf) /\ ~ In j (AM.learners cf).
Proof. exact AT.learners_never_lead_fixed. Qed.
Print Assumptions C01_learners_never_lead_fixed.

Theorem C01_learners_never_vote_fixed : forall (cf : AM.config) (log0 : list AM.entry), AM.init_ok cf log0 ->
  forall s, AM.steps_fixed (AM.init cf log0) s ->
  forall j t c : nat, In (j, t, c) (AM.grants s) -> ~ In j (AM.learners cf).
Proof. exact AT.learners_never_vote_fixed. Qed.
Print Assumptions C01_learners_never_vote_fixed.

Theorem C01_one_vote_per_term_fixed : forall (cf : AM.config) (log0 : list AM.entry), AM.init_ok cf log0 ->
  forall s, AM.steps_fixed (AM.init cf log0) s ->
  forall j t c c' : nat, In (j, t, c) (AM.grants s) -> In (j, t, c') (AM.grants s) -> c = c'.
Proof. exact AT.one_vote_per_term_fixed. Qed.
Print Assumptions C01_one_vote_per_term_fixed.

(* with membership changes: under Overlap (what is not proved: that the fork's way of applying
   configuration changes establishes Overlap for non-consecutive configurations; the acceptor
   evaluates the computable test on every trace) *)
Theorem C01_election_safety_reconf_partial : forall (cf : AM.config) (log0 : list AM.entry), AM.init_ok cf log0 ->
  forall s, AM.reachable cf log0 s -> AI.Overlap s ->
  forall i j : nat, AM.rl (AM.nodes s i) = AM.Leader -> AM.rl (AM.nodes s j) = AM.Leader ->
    AM.cur (AM.nodes s i) = AM.cur (AM.nodes s j) -> i = j.
Proof. exact AT.election_safety_reconf_partial. Qed.
Print Assumptions C01_election_safety_reconf_partial.


(* what remains unproved: election safety for every protocol run under arbitrary configuration changes with
   neither the Overlap hypothesis nor the per-step checks of steps_ok (see the _checked theorems below) (i.e. that applying committed single-step changes in log order, as the fork does,
   keeps every pair of voter lists a majority was counted over intersecting) *)
Definition C01_full : Prop :=
  forall (cf : AM.config) (log0 : list AM.entry), AM.init_ok cf log0 ->
  forall s, AM.reachable cf log0 s ->
  forall i j : nat, AM.rl (AM.nodes s i) = AM.Leader -> AM.rl (AM.nodes s j) = AM.Leader ->
    AM.cur (AM.nodes s i) = AM.cur (AM.nodes s j) -> i = j.

(* a single-step change keeps the old and the new voter list overlapping (computable test of the acceptor) *)
Theorem C01_single_step_add_overlap : forall (V : list nat) (x : nat), ~ In x V ->
  AA.overlap2b V (x :: V) = true /\ AA.overlap2b (x :: V) V = true.
Proof. exact ZV.RaftAbs.Reconf.single_step_add_overlap. Qed.
Print Assumptions C01_single_step_add_overlap.

Theorem C01_single_step_remove_overlap : forall (V : list nat) (x : nat), NoDup V -> In x V ->
  AA.overlap2b (ZV.RaftAbs.Reconf.remove_nat x V) V = true.
Proof. exact ZV.RaftAbs.Reconf.single_step_remove_overlap. Qed.
Print Assumptions C01_single_step_remove_overlap.


(* runs checked step by step ("steps_ok": every step additionally satisfies the two decidable conditions the
   acceptor evaluates — a candidate only wins a term without an elected leader, a leader only commits a prefix
   comparable with the committed log): arbitrary membership changes, NO Overlap hypothesis. Every accepted
   implementation trace is such a run (accepted_run_checked, stated in Properties/C03.v). *)
Theorem C01_election_safety_checked : forall (cf : AM.config) (log0 : list AM.entry), AM.init_ok cf log0 ->
  forall s, AS.steps_ok (AM.init cf log0) s ->
  forall i j : nat, AM.rl (AM.nodes s i) = AM.Leader -> AM.rl (AM.nodes s j) = AM.Leader ->
    AM.cur (AM.nodes s i) = AM.cur (AM.nodes s j) -> i = j.
Proof. exact AT.election_safety_checked. Qed.
Print Assumptions C01_election_safety_checked.

Theorem C01_election_safety_history_checked : forall (cf : AM.config) (log0 : list AM.entry), AM.init_ok cf log0 ->
  forall s, AS.steps_ok (AM.init cf log0) s ->
  forall (t c : nat) el q (c' : nat) el' q',
    In (t, c, el, q) (AM.leaders s) -> In (t, c', el', q') (AM.leaders s) -> c = c'.
Proof. exact AT.election_safety_history_checked. Qed.
Print Assumptions C01_election_safety_history_checked.

Theorem C01_one_vote_per_term_checked : forall (cf : AM.config) (log0 : list AM.entry), AM.init_ok cf log0 ->
  forall s, AS.steps_ok (AM.init cf log0) s ->
  forall j t c c' : nat, In (j, t, c) (AM.grants s) -> In (j, t, c') (AM.grants s) -> c = c'.
Proof. exact AT.one_vote_per_term_checked. Qed.
Print Assumptions C01_one_vote_per_term_checked.

(* ---------- non-vacuity ---------- *)
Example C01_ex_quorum : quorum 1 = 1 /\ quorum 2 = 2 /\ quorum 3 = 2 /\ quorum 4 = 3 /\ quorum 5 = 3.
Proof. vm_compute. repeat split. Qed.
Example C01_ex_vote : vote_decision false none_id none_id 2 false 5 5 true = Some true /\
                      vote_decision false 2 none_id 3 false 5 5 true = Some false /\
                      vote_decision false 2 none_id 3 true 6 5 true = Some true.
Proof. vm_compute. repeat split. Qed.
Example C01_ex_commit_index : commit_index [5; 3; 9] = Some 5 /\ commit_index [5; 3; 9; 1] = Some 3.
Proof. vm_compute. split; reflexivity. Qed.
