(* Properties/C01.v — C01: at most one raft leader per term; learners neither lead nor vote.
   This file contains only property theorems (closed by [exact]) and non-vacuity examples.

   What is here: the theorems about the PURE decision functions of the fork that election safety
   rests on, stated about the model coq/Raft/Model.v, which is diffed against raft.quorum(),
   raft.maybeCommit's index selection and the real raftLog on every run (raftsim -mode log).
   The property over all schedules (election safety of the protocol, incl. crash/restart and
   membership change) is proved on the abstract protocol in coq/RaftAbs by the raftabs group.

   The abstract-protocol theorems (coq/RaftAbs) are stated at the end of this file. *)
From ZV Require Import Raft.Consts Raft.Model Raft.Proofs Raft.Core Raft.ProofsCore.
From Coq Require Import List NArith.
Import ListNotations.
Open Scope N_scope.

(* The full statement quantifies over the cluster semantics (all schedules, fault sequences,
   configurations); that semantics is coq/RaftAbs/Model.v and the full theorem is stated there. *)

(* (1) any two majorities of one voter list share a member: the arithmetic of raft.quorum()
       (len/2+1) is what makes two leaders of one term impossible under a fixed configuration *)
Theorem C01_quorum_intersection_partial : forall (vs a b : list N),
  NoDup a -> NoDup b -> incl a vs -> incl b vs ->
  quorum (nlen vs) <= nlen a -> quorum (nlen vs) <= nlen b ->
  exists x, In x a /\ In x b.
Proof. exact quorum_intersection. Qed.
Print Assumptions C01_quorum_intersection_partial.

(* (1b) raft.quorum() is a strict majority for EVERY group size, even ones included: two disjoint sets of quorum size
        do not fit into the voter list (a 2:2 split of four voters elects nobody) *)
Theorem C01_quorum_is_strict_majority : forall n, n < 2 * quorum n.
Proof. exact quorum_gt_half. Qed.
Print Assumptions C01_quorum_is_strict_majority.

(* (2) the same across a single-step membership change (one voter added or removed): a majority of
       the old list and a majority of the new list intersect *)
Theorem C01_quorum_intersection_step : forall (vs vs' a b : list N) (x : N),
  NoDup vs -> NoDup vs' -> NoDup a -> NoDup b ->
  incl a vs -> incl b vs' ->
  (incl vs' vs /\ length vs = S (length vs') \/ incl vs vs' /\ length vs' = S (length vs)) ->
  quorum (nlen vs) <= nlen a -> quorum (nlen vs') <= nlen b ->
  exists y, In y a /\ In y b.
Proof. exact quorum_intersection_step. Qed.
Print Assumptions C01_quorum_intersection_step.

(* (3) raft.Step on MsgVote/MsgPreVote: a learner produces no answer at all *)
Theorem C01_learner_never_answers : forall vote lead from pv mterm term utd,
  vote_decision true vote lead from pv mterm term utd = None.
Proof. exact learner_never_answers. Qed.
Print Assumptions C01_learner_never_answers.

(* (4) one vote per term: once Vote = c1 is recorded, a MsgVote of another candidate is rejected *)
Theorem C01_one_vote_per_term : forall c1 c2 lead mterm term utd,
  c1 <> none_id -> c2 <> c1 ->
  vote_decision false c1 lead c2 false mterm term utd = Some false.
Proof. exact one_vote_per_term. Qed.
Print Assumptions C01_one_vote_per_term.

(* (5) a grant implies the candidate's log was judged up to date and the voter is no learner *)
Theorem C01_grant_needs_up_to_date : forall l vote lead from pv mterm term utd,
  vote_decision l vote lead from pv mterm term utd = Some true -> utd = true /\ l = false.
Proof. exact grant_needs_up_to_date. Qed.
Print Assumptions C01_grant_needs_up_to_date.

(* ---------------------------------------------------------------------------------------- *)
(* Theorems (6)-(12) are about the transcription of raft.Step in coq/Raft/Core.v, which is compared with the Go
   handlers case by case (pre-state + inputs -> post-state + Ready) on every run (raftsim -mode core). *)

(* (6) Step on MsgVote/MsgPreVote after the term handling: a granting answer implies every clause of the rule —
       the receiver is no learner; it already voted for the sender, or has neither a vote nor a leader, or the
       request is a pre-vote for a future term; and the candidate's log is at least as up to date *)
Theorem C01_step_vote_granted_rule : forall r m r' x,
  step_vote r m = Ok r' -> In x (r_msgs r') -> ~ In x (r_msgs r) -> m_reject x = false ->
  r_islearner r = false /\
  (r_vote r = m_from m \/ (r_vote r = none_id /\ r_lead r = none_id) \/
   (m_type m = msg_pre_vote /\ r_term r < m_term m)) /\
  exists l0, l_is_up_to_date (r_log r) (m_index m) (m_logterm m) = Ok (true, l0).
Proof. exact step_vote_granted_rule. Qed.
Print Assumptions C01_step_vote_granted_rule.

(* (7) the recorded Vote changes only through a granted MsgVote (never a pre-vote), to the sender, in the same
       term, and only if no vote and no leader were recorded *)
Theorem C01_step_vote_changes_vote_only_on_grant : forall r m r',
  step_vote r m = Ok r' -> r_vote r' <> r_vote r ->
  m_type m = msg_vote /\ r_vote r' = m_from m /\ r_term r' = r_term r /\
  (r_vote r = none_id /\ r_lead r = none_id) /\
  exists l0, l_is_up_to_date (r_log r) (m_index m) (m_logterm m) = Ok (true, l0).
Proof. exact step_vote_changes_vote_only_on_grant. Qed.
Print Assumptions C01_step_vote_changes_vote_only_on_grant.

(* (8) reset (becomeFollower/becomeCandidate/becomeLeader) keeps Vote when the term does not change *)
Theorem C01_reset_keeps_vote_same_term : forall r r', reset r (r_term r) = Ok r' ->
  r_vote r' = r_vote r /\ r_term r' = r_term r.
Proof. exact reset_keeps_vote_same_term. Qed.
Print Assumptions C01_reset_keeps_vote_same_term.

(* (9) a learner receiving a vote request of either kind, at any term: whatever Step emits is a rejection (the
       stale-term pre-vote answer) or a MsgAppResp, and no vote for anybody is recorded *)
Theorem C01_learner_never_grants : forall r m r',
  r_islearner r = true -> (m_type m = msg_vote \/ m_type m = msg_pre_vote) -> step r m = Ok r' ->
  (forall x, In x (r_msgs r') -> In x (r_msgs r) \/ m_reject x = true \/ m_type x = msg_app_resp) /\
  (r_vote r' = r_vote r \/ r_vote r' = none_id).
Proof. exact learner_never_grants. Qed.
Print Assumptions C01_learner_never_grants.

(* (10) a node that is not among the voters of its own configuration (a learner, a removed node) never
        campaigns: hup — from the election timeout, MsgHup or MsgTimeoutNow — leaves the state untouched *)
Theorem C01_non_voter_never_campaigns : forall r t, pl_get (r_id r) (r_prs r) = None -> hup r t = Ok r.
Proof. exact (fun r t H => hup_not_promotable r t (learner_not_promotable r H)). Qed.
Print Assumptions C01_non_voter_never_campaigns.

(* (11) hup reads the entries in (applied, committed] without a size limit; if any of them is a configuration
        change, it returns without campaigning (role, term, vote, outbox unchanged) *)
Theorem C01_hup_refuses_pending_conf : forall r t ents l e,
  l_slice (r_log r) (l_applied (r_log r) + 1) (committed r + 1) no_limit = Ok (ents, l) ->
  l_applied l = l_applied (r_log r) -> l_committed l = l_committed (r_log r) ->
  In e ents -> is_conf e = true -> l_applied (r_log r) < committed r ->
  hup r t = Ok r \/ hup r t = Ok (upd_log r l).
Proof. exact hup_refuses_pending_conf. Qed.
Print Assumptions C01_hup_refuses_pending_conf.

(* (12) with (11) and the slice theorem of the log model: over a well-formed MemoryStorage-backed log, a
        configuration change at ANY index of (applied, committed] makes hup return without campaigning — the
        campaign check cannot be hidden by a page size (regression corpus/C01: paged backlog) *)
Theorem C01_hup_refuses_unapplied_conf_change : forall r t m off i e,
  ProofsLog.wf_mlog (r_log r) m off ->
  ProofsLog.mfirst (r_log r) off <= l_applied (r_log r) + 1 -> committed r <= ProofsLog.mlast (r_log r) m off ->
  (forall X, ProofsLog.good (l_u (r_log r)) m off (l_applied (r_log r) + 1) X -> fold_right (fun e a => esz e + a) 0 X <= no_limit) ->
  l_applied (r_log r) < i -> i <= committed r ->
  ProofsLog.log_entry (l_u (r_log r)) m off i = Some e -> is_conf e = true ->
  hup r t = Ok r.
Proof. exact hup_refuses_unapplied_conf_change. Qed.
Print Assumptions C01_hup_refuses_unapplied_conf_change.

(* (13) StepNode's unknown-sender filter (node.handleReceivedMessage + util.IsResponseMsg, both transcribed and diffed:
        the predicate for every message type on every run): a vote answer of either kind whose sender is neither voter
        nor learner of the local configuration — a replica removed between the request and its answer — is dropped
        before Step; votes map, role and term are unchanged. raft.poll alone would count any id. *)
Theorem C01_vote_of_non_member_not_counted : forall r m,
  get_progress r (m_from m) = None -> (m_type m = msg_vote_resp \/ m_type m = msg_pre_vote_resp) ->
  handle_received r m = Ok r.
Proof. exact vote_of_non_member_not_counted. Qed.
Print Assumptions C01_vote_of_non_member_not_counted.

Theorem C01_response_types : forall t, is_response_msg t = true <->
  (t = msg_app_resp \/ t = msg_vote_resp \/ t = msg_heartbeat_resp \/ t = msg_unreachable \/ t = msg_pre_vote_resp).
Proof. exact is_response_msg_spec. Qed.
Print Assumptions C01_response_types.


(* ====================================================================================== *)
(* The property over all schedules, on the abstract protocol of coq/RaftAbs (Model.v: per-node term /
   vote / role / log / commit / configuration, the network as grant, ack and campaign records, crash and
   restart from the persisted part, snapshots as compacted prefixes). "_fixed": every node keeps its
   configuration (any voter list, any learner list) — no hypothesis. "_reconf_partial": arbitrary
   configuration changes under the explicit hypothesis Overlap (any two voter lists a majority was
   counted over have intersecting majorities). The tie to the Go code: every check run replays traces of
   the real cluster through the extracted acceptor (RaftAbs/Acceptor.v, proved sound in
   AcceptorSound.v): an accepted trace is a trace of this protocol. *)
From ZV Require RaftAbs.Theorems.
Module AM := ZV.RaftAbs.Model. Module AS := ZV.RaftAbs.Safety. Module AL := ZV.RaftAbs.ListFacts.
Module AI := ZV.RaftAbs.Inv. Module AA := ZV.RaftAbs.Acceptor. Module AT := ZV.RaftAbs.Theorems.

Theorem C01_election_safety_fixed : forall (cf : AM.config) (log0 : list AM.entry), AM.init_ok cf log0 ->
  forall s, AM.steps_fixed (AM.init cf log0) s ->
  forall i j : nat, AM.rl (AM.nodes s i) = AM.Leader -> AM.rl (AM.nodes s j) = AM.Leader ->
    AM.cur (AM.nodes s i) = AM.cur (AM.nodes s j) -> i = j.
Proof. exact AT.election_safety_fixed. Qed.
Print Assumptions C01_election_safety_fixed.

(* history form: the record of won elections is functional in the term *)
Theorem C01_election_safety_history_fixed : forall (cf : AM.config) (log0 : list AM.entry), AM.init_ok cf log0 ->
  forall s, AM.steps_fixed (AM.init cf log0) s ->
  forall (t c : nat) el q (c' : nat) el' q',
    In (t, c, el, q) (AM.leaders s) -> In (t, c', el', q') (AM.leaders s) -> c = c'.
Proof. exact AT.election_safety_history_fixed. Qed.
Print Assumptions C01_election_safety_history_fixed.

Theorem C01_learners_never_lead_fixed : forall (cf : AM.config) (log0 : list AM.entry), AM.init_ok cf log0 ->
  forall s, AM.steps_fixed (AM.init cf log0) s ->
  forall j : nat, AM.rl (AM.nodes s j) <> AM.Follower -> In j (AM.voters cf) /\ ~ In j (AM.learners cf).
Proof. exact AT.learners_never_lead_fixed. Qed.
Print Assumptions C01_learners_never_lead_fixed.

Theorem C01_learners_never_vote_fixed : forall (cf : AM.config) (log0 : list AM.entry), AM.init_ok cf log0 ->
  forall s, AM.steps_fixed (AM.init cf log0) s ->
  forall j t c : nat, In (j, t, c) (AM.grants s) -> ~ In j (AM.learners cf).
Proof. exact AT.learners_never_vote_fixed. Qed.
Print Assumptions C01_learners_never_vote_fixed.

Theorem C01_one_vote_per_term_fixed : forall (cf : AM.config) (log0 : list AM.entry), AM.init_ok cf log0 ->
  forall s, AM.steps_fixed (AM.init cf log0) s ->
  forall j t c c' : nat, In (j, t, c) (AM.grants s) -> In (j, t, c') (AM.grants s) -> c = c'.
Proof. exact AT.one_vote_per_term_fixed. Qed.
Print Assumptions C01_one_vote_per_term_fixed.

(* with membership changes: under Overlap (what is not proved: that the fork's way of applying
   configuration changes establishes Overlap for non-consecutive configurations; the acceptor
   evaluates the computable test on every trace) *)
Theorem C01_election_safety_reconf_partial : forall (cf : AM.config) (log0 : list AM.entry), AM.init_ok cf log0 ->
  forall s, AM.reachable cf log0 s -> AI.Overlap s ->
  forall i j : nat, AM.rl (AM.nodes s i) = AM.Leader -> AM.rl (AM.nodes s j) = AM.Leader ->
    AM.cur (AM.nodes s i) = AM.cur (AM.nodes s j) -> i = j.
Proof. exact AT.election_safety_reconf_partial. Qed.
Print Assumptions C01_election_safety_reconf_partial.


(* what remains unproved: election safety for every protocol run under arbitrary configuration changes with
   neither the Overlap hypothesis nor the per-step checks of steps_ok (see the _checked theorems below) (i.e. that applying committed single-step changes in log order, as the fork does,
   keeps every pair of voter lists a majority was counted over intersecting) *)
Definition C01_full : Prop :=
  forall (cf : AM.config) (log0 : list AM.entry), AM.init_ok cf log0 ->
  forall s, AM.reachable cf log0 s ->
  forall i j : nat, AM.rl (AM.nodes s i) = AM.Leader -> AM.rl (AM.nodes s j) = AM.Leader ->
    AM.cur (AM.nodes s i) = AM.cur (AM.nodes s j) -> i = j.

(* a single-step change keeps the old and the new voter list overlapping (computable test of the acceptor) *)
Theorem C01_single_step_add_overlap : forall (V : list nat) (x : nat), ~ In x V ->
  AA.overlap2b V (x :: V) = true /\ AA.overlap2b (x :: V) V = true.
Proof. exact ZV.RaftAbs.Reconf.single_step_add_overlap. Qed.
Print Assumptions C01_single_step_add_overlap.

Theorem C01_single_step_remove_overlap : forall (V : list nat) (x : nat), NoDup V -> In x V ->
  AA.overlap2b (ZV.RaftAbs.Reconf.remove_nat x V) V = true.
Proof. exact ZV.RaftAbs.Reconf.single_step_remove_overlap. Qed.
Print Assumptions C01_single_step_remove_overlap.


(* runs checked step by step ("steps_ok": every step additionally satisfies the two decidable conditions the
   acceptor evaluates — a candidate only wins a term without an elected leader, a leader only commits a prefix
   comparable with the committed log): arbitrary membership changes, NO Overlap hypothesis. Every accepted
   implementation trace is such a run (accepted_run_checked, stated in Properties/C03.v). *)
Theorem C01_election_safety_checked : forall (cf : AM.config) (log0 : list AM.entry), AM.init_ok cf log0 ->
  forall s, AS.steps_ok (AM.init cf log0) s ->
  forall i j : nat, AM.rl (AM.nodes s i) = AM.Leader -> AM.rl (AM.nodes s j) = AM.Leader ->
    AM.cur (AM.nodes s i) = AM.cur (AM.nodes s j) -> i = j.
Proof. exact AT.election_safety_checked. Qed.
Print Assumptions C01_election_safety_checked.

Theorem C01_election_safety_history_checked : forall (cf : AM.config) (log0 : list AM.entry), AM.init_ok cf log0 ->
  forall s, AS.steps_ok (AM.init cf log0) s ->
  forall (t c : nat) el q (c' : nat) el' q',
    In (t, c, el, q) (AM.leaders s) -> In (t, c', el', q') (AM.leaders s) -> c = c'.
Proof. exact AT.election_safety_history_checked. Qed.
Print Assumptions C01_election_safety_history_checked.

Theorem C01_one_vote_per_term_checked : forall (cf : AM.config) (log0 : list AM.entry), AM.init_ok cf log0 ->
  forall s, AS.steps_ok (AM.init cf log0) s ->
  forall j t c c' : nat, In (j, t, c) (AM.grants s) -> In (j, t, c') (AM.grants s) -> c = c'.
Proof. exact AT.one_vote_per_term_checked. Qed.
Print Assumptions C01_one_vote_per_term_checked.

(* ---------- non-vacuity ---------- *)
Example C01_ex_quorum : quorum 1 = 1 /\ quorum 2 = 2 /\ quorum 3 = 2 /\ quorum 4 = 3 /\ quorum 5 = 3.
Proof. vm_compute. repeat split. Qed.
Example C01_ex_vote : vote_decision false none_id none_id 2 false 5 5 true = Some true /\
                      vote_decision false 2 none_id 3 false 5 5 true = Some false /\
                      vote_decision false 2 none_id 3 true 6 5 true = Some true.
Proof. vm_compute. repeat split. Qed.
Example C01_ex_commit_index : commit_index [5; 3; 9] = Some 5 /\ commit_index [5; 3; 9; 1] = Some 3.
Proof. vm_compute. split; reflexivity. Qed.
(* Step on the concrete states of Raft/ProofsCore.v: voter 2 grants candidate 3 and records the vote; learner 2
   stays silent; with the unapplied configuration change at index 2 hup does nothing, once applied it campaigns *)
Example C01_ex_step_vote_grants :
  match step (ex_node false 2) (ex_vote_req msg_vote 1) with
  | Ok r' => r_vote r' = 3 /\ map m_reject (r_msgs r') = [false] /\ map m_type (r_msgs r') = [msg_vote_resp]
  | _ => False end.
Proof. vm_compute. repeat split. Qed.
Example C01_ex_learner_silent :
  match step (ex_node true 2) (ex_vote_req msg_vote 1) with
  | Ok r' => r_vote r' = none_id /\ r_msgs r' = [] | _ => False end.
Proof. vm_compute. repeat split. Qed.
Example C01_ex_hup_pending_conf :
  hup (ex_node false 1) CampElection = Ok (ex_node false 1) /\
  match hup (ex_node false 2) CampElection with
  | Ok r' => r_state r' = st_candidate /\ r_term r' = 2 /\ r_vote r' = 2 /\ map m_to (r_msgs r') = [1; 3]
  | _ => False end.
Proof. vm_compute. repeat split. Qed.
