(* Properties/C16.v — C16: raft messages arrive as sent through the stream codecs.
   Only property theorems (closed by [exact]) and non-vacuity examples. *)
From ZV Require Import Common.Bytes Stream.Consts Stream.Proto Stream.Model Stream.Proofs.
Open Scope N_scope.

Theorem C16_be64_length : forall v, length (be64 v) = 8%nat.
Proof. exact (be_enc_length 8). Qed.
Print Assumptions C16_be64_length.
