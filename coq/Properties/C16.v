(* Properties/C16.v — C16: raft messages arrive as sent through the stream codecs.
   Only property theorems (closed by [exact]) and non-vacuity examples / witnesses.

   Model: Stream/Proto.v (byte-exact gogo-protobuf layer of raftpb), Stream/Model.v (msgappv2 and
   plain message codecs, io.ReadFull framing). A stream is a list of bytes; [v2_run local remote s]
   is the reader loop of streamReader.decodeLoop on the bytes s: the messages delivered and the error
   that ends the loop. [v2_seq_ok local remote st0 ms] is the well-formedness premise, a boolean
   predicate: fields are values of their Go types; relative to the encoder context it meets, a
   heartbeat-shaped message is THE link heartbeat, a message that continues the context is a MsgApp of
   the context's groups (From/To = the groups' replica ids, same names, no snapshot / reject /
   reject hint / context, node ids = the two ends of the stream), and frames respect the decoder's
   size limit. *)
From ZV Require Import Common.Bytes Stream.Consts Stream.Proto Stream.Model Stream.ProofsProto Stream.Proofs Stream.Wf Stream.ProofsWf Stream.ProofsTotal Stream.ProofsConn Stream.ProofsCompat Stream.ProofsExtra Stream.ProofsHttp Stream.Examples.
Open Scope N_scope.

(* (1) msgappv2: every well-formed sequence, of any number of interleaved raft groups, is read back
       as the same sequence, field for field, followed by a clean EOF *)
Theorem C16_v2_roundtrip : forall local remote ms,
  v2_seq_ok local remote st0 ms = true ->
  v2_run local remote (v2_encode_all st0 ms) = (ms, DEof).
Proof. exact v2_roundtrip. Qed.
Print Assumptions C16_v2_roundtrip.

(* (1') the premise follows from the static description of the stream's traffic (Stream/Wf.v: what
        raft.send + peer.pick + the writer's link heartbeats produce: MsgApp with From/To = the groups'
        replica ids, term >= 1, node ids = the two ends, no snapshot/reject/context, group names
        determined by the ids, sizes within the limit) — which does not mention the encoder context *)
Theorem C16_static_premise : forall local remote ms,
  send_wf local remote ms = true -> v2_seq_ok local remote st0 ms = true.
Proof. exact send_wf_implies_seq_ok. Qed.
Print Assumptions C16_static_premise.

Theorem C16_v2_roundtrip_static : forall local remote ms,
  send_wf local remote ms = true -> v2_run local remote (v2_encode_all st0 ms) = (ms, DEof).
Proof. exact v2_roundtrip_static. Qed.
Print Assumptions C16_v2_roundtrip_static.

(* (2) the coupling invariant behind (1): after the stream both sides hold the same
       {term, index, FromGroup, ToGroup} context *)
Theorem C16_v2_coupling : forall local remote ms,
  v2_seq_ok local remote st0 ms = true ->
  v2_dec_state (S (length (v2_encode_all st0 ms))) local remote st0 (v2_encode_all st0 ms) = v2_enc_state st0 ms.
Proof. exact v2_coupling_run. Qed.
Print Assumptions C16_v2_coupling.

(* (2') the connection lifecycle. A peer stream is a sequence of connections (the peer re-dials); for every
        connection streamWriter.run builds a new encoder and streamReader.decodeLoop a new decoder, so both
        ends start each connection from the zero context [conns_encode] / [conns_run]. However a sequence of the
        stream's traffic is cut into connections, every connection's bytes decode to exactly the messages
        written to it. *)
Theorem C16_connections_roundtrip : forall local remote conns,
  forallb (v2_seq_ok local remote st0) conns = true ->
  conns_run local remote (conns_encode conns) = map (fun ms => (ms, DEof)) conns.
Proof. exact conns_roundtrip. Qed.
Print Assumptions C16_connections_roundtrip.

Theorem C16_connections_any_split : forall local remote conns,
  send_wf local remote (concat conns) = true ->
  conns_run local remote (conns_encode conns) = map (fun ms => (ms, DEof)) conns.
Proof. exact conns_roundtrip_split. Qed.
Print Assumptions C16_connections_any_split.

(* ... and attach MUST reset the encoder: a writer that kept its encoder (term / index / group cursor) across
   a re-dial [conns_encode_carrying] would send the first continuing append of the new connection in the
   compact form, which the new connection's fresh decoder cannot resolve *)
Theorem C16_carried_encoder_refuted :
  exists conns, (send_wf 2 1 (concat conns) = true) /\
    (conns_run 2 1 (conns_encode conns) = map (fun ms => (ms, DEof)) conns) /\
    (conns_run 2 1 (conns_encode_carrying st0 conns) = [([exA1], DEof); ([], DMismatch)]).
Proof. exists [[exA1]; [exA2; exA3]]. repeat split; vm_compute; reflexivity. Qed.
Print Assumptions C16_carried_encoder_refuted.

(* (3) truncation, for ARBITRARY byte streams (valid, corrupted, anything): the reader run on a prefix
       p of a stream p ++ q delivers a prefix of what it delivers on p ++ q and then stops with an
       EOF-class error — or behaves exactly as on p ++ q. It never delivers a different message. *)
Theorem C16_v2_truncation : forall local remote p q,
  exists j, fst (v2_run local remote p) = firstn j (fst (v2_run local remote (p ++ q))) /\
            (eof_like (snd (v2_run local remote p)) \/ v2_run local remote p = v2_run local remote (p ++ q)).
Proof. exact v2_truncation. Qed.
Print Assumptions C16_v2_truncation.

(* (4) (1) + (3): every truncation of the encoding of a well-formed sequence yields a prefix of the
       sequence and then EOF / unexpected EOF *)
Theorem C16_v2_truncated_wf : forall local remote ms p q,
  v2_seq_ok local remote st0 ms = true -> v2_encode_all st0 ms = p ++ q ->
  exists j, fst (v2_run local remote p) = firstn j ms /\ eof_like (snd (v2_run local remote p)).
Proof. exact v2_truncated_wf. Qed.
Print Assumptions C16_v2_truncated_wf.

(* (5) the plain codec: all message types, arbitrary field values, up to the decoder's size limit *)
Theorem C16_plain_roundtrip : forall ms,
  plain_seq_ok ms = true -> plain_run (plain_encode_all ms) = (ms, DEof).
Proof. exact plain_roundtrip. Qed.
Print Assumptions C16_plain_roundtrip.

Theorem C16_plain_truncation : forall p q,
  exists j, fst (plain_run p) = firstn j (fst (plain_run (p ++ q))) /\
            (eof_like (snd (plain_run p)) \/ plain_run p = plain_run (p ++ q)).
Proof. exact plain_truncation. Qed.
Print Assumptions C16_plain_truncation.

Theorem C16_plain_truncated_wf : forall ms p q,
  plain_seq_ok ms = true -> plain_encode_all ms = p ++ q ->
  exists j, fst (plain_run p) = firstn j ms /\ eof_like (snd (plain_run p)).
Proof. exact plain_truncated_wf. Qed.
Print Assumptions C16_plain_truncated_wf.

(* (5') the other two message paths. Pipeline (pipeline.go / pipelineHandler): the POST body is the marshalled
        message, nothing else. Snapshot path (snapshot_sender.go createSnapBody / snapshotHandler): a message frame
        of the plain codec followed by the snapshot file. [short] = net/http reported the body shorter than declared. *)
Theorem C16_pipeline_roundtrip : forall m, msg_ok m = true -> pipeline_receive false (pipeline_body m) = Some m.
Proof. exact pipeline_roundtrip. Qed.
Print Assumptions C16_pipeline_roundtrip.

Theorem C16_pipeline_short_body_refused : forall body, pipeline_receive true body = None.
Proof. exact pipeline_short. Qed.
Print Assumptions C16_pipeline_short_body_refused.

(* the pipeline body has NO framing of its own: cut cleanly at a field boundary it unmarshals to another message
   (here: the ToGroup is lost). Truncation is caught one layer down, by net/http's Content-Length accounting
   (modelled by [short], exercised on the real handler by the H cases): trusted, not proved. *)
Theorem C16_pipeline_unframed_refuted :
  exists m k m', msg_ok m = true /\ (k < length (pipeline_body m))%nat /\
    pipeline_receive false (firstn k (pipeline_body m)) = Some m' /\ m' <> m.
Proof.
  exists exA1, (length (msg_marshal exA1) - (2 + length (group_marshal gA_to)))%nat, (set_m_tog group0 exA1).
  split; [vm_compute; reflexivity|]. split; [vm_compute; lia|].
  split; [vm_compute; reflexivity|vm_compute; discriminate].
Qed.
Print Assumptions C16_pipeline_unframed_refuted.

Theorem C16_snapshot_roundtrip : forall m db,
  plain_msg_ok m = true -> m_type m = msg_snap -> snap_receive false (snap_body m db) = SnapDelivered m db.
Proof. exact snap_roundtrip. Qed.
Print Assumptions C16_snapshot_roundtrip.

Theorem C16_snapshot_truncation : forall m db p q short,
  plain_msg_ok m = true -> snap_body m db = p ++ q ->
  snap_receive short p = SnapRejected \/
  exists db', snap_receive short p = SnapDelivered m db' /\ db = db' ++ q.
Proof. exact snap_truncation. Qed.
Print Assumptions C16_snapshot_truncation.

(* (6) no byte stream makes the msgappv2 reader panic (length prefixes are checked against the limit
       before any make()), and the model's fuel is never exhausted *)
Theorem C16_v2_no_panic : forall local remote s,
  snd (v2_run local remote s) <> DPanic /\ snd (v2_run local remote s) <> DFuel.
Proof. exact v2_run_no_panic. Qed.
Print Assumptions C16_v2_no_panic.

(* (6') stronger: on EVERY byte stream both reader loops end in a genuine Go outcome — never a panic and
        never one of the model's own artefacts (exhausted fuel in the codec or in the protobuf layer), so
        the fuel-bounded loops of the model are total where it matters *)
Theorem C16_v2_reader_total : forall local remote s, ~ model_artefact (snd (v2_run local remote s)).
Proof. exact v2_run_clean. Qed.
Print Assumptions C16_v2_reader_total.

Theorem C16_plain_reader_total : forall s, ~ model_artefact (snd (plain_run s)).
Proof. exact plain_run_clean. Qed.
Print Assumptions C16_plain_reader_total.

Theorem C16_unmarshal_total : forall bs, msg_unmarshal bs <> Err PFuel.
Proof. exact msg_unmarshal_nofuel. Qed.
Print Assumptions C16_unmarshal_total.

(* (7) underneath: protobuf and varint round trips, Size() = length of the marshalled bytes *)
Theorem C16_message_roundtrip : forall m, msg_ok m = true -> msg_unmarshal (msg_marshal m) = Ok m.
Proof. exact msg_rt. Qed.
Print Assumptions C16_message_roundtrip.

Theorem C16_entry_roundtrip : forall e, entry_ok e = true -> entry_size e < two63 ->
  entry_unmarshal (entry_marshal e) = Ok e.
Proof. exact entry_rt. Qed.
Print Assumptions C16_entry_roundtrip.

Theorem C16_message_size : forall m, len (msg_marshal m) = msg_size m.
Proof. exact msg_size_ok. Qed.
Print Assumptions C16_message_size.

Theorem C16_varint_roundtrip : forall v rest, v < two64 -> varint_dec (varint_enc v ++ rest) = Ok (v, rest).
Proof. exact varint_rt. Qed.
Print Assumptions C16_varint_roundtrip.

(* forward compatibility: fields of a later version (numbers 15 .. 2^28-1; varint, fixed64, bytes, fixed32)
   after a marshalled message are skipped by the `default:` arm: the same message comes out *)
Theorem C16_forward_compatible : forall m us,
  msg_ok m = true -> Forall ufield_ok us ->
  len (msg_marshal m ++ concat (map ufield_enc us)) < two63 ->
  msg_unmarshal (msg_marshal m ++ concat (map ufield_enc us)) = Ok m.
Proof. exact msg_forward_compatible. Qed.
Print Assumptions C16_forward_compatible.

(* the field numbers / wire types (read from the Unmarshal switch) and the tag bytes (read from MarshalTo)
   that Stream/Consts.v is regenerated with agree *)
Theorem C16_generated_tags_coherent :
  forallb (fun '(t, f, w) => (t =? f * 8 + w) && (t <? 128) && ((w =? 0) || (w =? 2))) all_tags = true.
Proof. exact tags_consistent. Qed.
Print Assumptions C16_generated_tags_coherent.

(* no two well-formed sequences share their bytes on the wire *)
Theorem C16_encoding_injective : forall local remote ms1 ms2,
  v2_seq_ok local remote st0 ms1 = true -> v2_seq_ok local remote st0 ms2 = true ->
  v2_encode_all st0 ms1 = v2_encode_all st0 ms2 -> ms1 = ms2.
Proof. exact v2_encoding_injective. Qed.
Print Assumptions C16_encoding_injective.

Theorem C16_frame_step : forall local remote st m rest,
  v2_msg_ok local remote st m = true ->
  v2_decode local remote st (v2_frame st m ++ rest) = DOk (m, v2_next st m, rest).
Proof. exact v2_frame_rt. Qed.
Print Assumptions C16_frame_step.

(* ---------- non-vacuity: realistic sequences satisfy the premise, and use every frame kind ---------- *)
Example C16_ex_seq_wf : v2_seq_ok 2 1 st0 ex_seq = true.
Proof. vm_compute. reflexivity. Qed.
(* frame kinds of ex_seq: full, compact, compact, heartbeat, full, compact, full *)
Example C16_ex_seq_static : send_wf 2 1 ex_seq = true.
Proof. vm_compute. reflexivity. Qed.
Example C16_ex_seq_frames :
  let fix kinds st ms := match ms with [] => [] | m :: r => hd 99 (v2_frame st m) :: kinds (v2_next st m) r end in
  kinds st0 ex_seq = [2; 1; 1; 0; 2; 1; 2].
Proof. vm_compute. reflexivity. Qed.
Example C16_ex_seq_roundtrip : v2_run 2 1 (v2_encode_all st0 ex_seq) = (ex_seq, DEof).
Proof. vm_compute. reflexivity. Qed.
Example C16_ex_forward_compatible :
  Forall ufield_ok [UVarint 15 300; UBytes 20 [1;2;3]; UFixed64 99 [1;2;3;4;5;6;7;8]; UFixed32 1000 [9;9;9;9]] /\
  msg_unmarshal (msg_marshal exA1 ++ concat (map ufield_enc
     [UVarint 15 300; UBytes 20 [1;2;3]; UFixed64 99 [1;2;3;4;5;6;7;8]; UFixed32 1000 [9;9;9;9]])) = Ok exA1.
Proof. split; [repeat constructor; vm_compute; try reflexivity; intro; discriminate|vm_compute; reflexivity]. Qed.
Example C16_ex_snapshot :
  let m := hd msg0 ex_plain in
  plain_msg_ok m = true /\ m_type m = msg_snap /\
  snap_receive false (snap_body m [1;2;3;4]) = SnapDelivered m [1;2;3;4] /\
  pipeline_receive false (pipeline_body m) = Some m.
Proof. vm_compute. repeat split; reflexivity. Qed.
Example C16_ex_plain_wf : plain_seq_ok ex_plain = true.
Proof. vm_compute. reflexivity. Qed.
Example C16_ex_plain_roundtrip : plain_run (plain_encode_all ex_plain) = (ex_plain, DEof).
Proof. vm_compute. reflexivity. Qed.
(* a truncated stream: 5 bytes into the second frame *)
Example C16_ex_truncated :
  v2_run 2 1 (firstn (length (v2_frame st0 exA1) + 5) (v2_encode_all st0 ex_seq)) = ([exA1], DUnexpEof).
Proof. vm_compute. reflexivity. Qed.

(* ---------- what happens when a clause of the premise is dropped (each message below satisfies every
   range condition; the sequences are replayed on the Go code from corpus/C16/witnesses.tsv) ---------- *)
Definition unconditional_roundtrip : Prop :=
  forall local remote ms, forallb msg_ok ms = true -> fst (v2_run local remote (v2_encode_all st0 ms)) = ms.

(* From <> FromGroup.RaftReplicaId in a message that continues the context: From is rewritten *)
Theorem C16_unconditional_refuted : ~ unconditional_roundtrip.
Proof.
  intro H. specialize (H 2 1 [exA1; bad_from] ltac:(vm_compute; reflexivity)).
  vm_compute in H. discriminate H.
Qed.
Print Assumptions C16_unconditional_refuted.

Theorem C16_from_clause_refuted :
  exists ms, forallb msg_ok ms = true /\
    fst (v2_run 2 1 (v2_encode_all st0 ms)) = [exA1; exA2] /\ ms <> [exA1; exA2].
Proof. exists [exA1; bad_from]. split; [vm_compute; reflexivity|]. split; [vm_compute; reflexivity|vm_compute; discriminate]. Qed.
Print Assumptions C16_from_clause_refuted.

(* a non-MsgApp message that satisfies isContinue comes out as a MsgApp (peer.pick never puts one on this stream) *)
Theorem C16_type_clause_refuted :
  exists ms, forallb msg_ok ms = true /\
    fst (v2_run 2 1 (v2_encode_all st0 ms)) = [exA1; exA2] /\ ms <> [exA1; exA2].
Proof. exists [exA1; bad_type]. split; [vm_compute; reflexivity|]. split; [vm_compute; reflexivity|vm_compute; discriminate]. Qed.
Print Assumptions C16_type_clause_refuted.

(* isSameGroup ignores Group.Name: a group with the same ids and another name gets the context's name *)
Theorem C16_name_clause_refuted :
  exists ms, forallb msg_ok ms = true /\
    fst (v2_run 2 1 (v2_encode_all st0 ms)) = [exA1; exA2] /\ ms <> [exA1; exA2].
Proof. exists [exA1; bad_name]. split; [vm_compute; reflexivity|]. split; [vm_compute; reflexivity|vm_compute; discriminate]. Qed.
Print Assumptions C16_name_clause_refuted.

(* context bytes / reject on a continuing MsgApp are dropped *)
Theorem C16_context_clause_refuted :
  exists ms, forallb msg_ok ms = true /\
    fst (v2_run 2 1 (v2_encode_all st0 ms)) = [exA1; exA2] /\ ms <> [exA1; exA2].
Proof. exists [exA1; bad_ctx]. split; [vm_compute; reflexivity|]. split; [vm_compute; reflexivity|vm_compute; discriminate]. Qed.
Print Assumptions C16_context_clause_refuted.

(* a heartbeat-shaped message (Type=MsgHeartbeat, From=To=0) with a payload collapses to the link heartbeat *)
Theorem C16_heartbeat_clause_refuted :
  exists ms, forallb msg_ok ms = true /\
    fst (v2_run 2 1 (v2_encode_all st0 ms)) = [link_heartbeat] /\ ms <> [link_heartbeat].
Proof. exists [bad_hb]. split; [vm_compute; reflexivity|]. split; [vm_compute; reflexivity|vm_compute; discriminate]. Qed.
Print Assumptions C16_heartbeat_clause_refuted.

(* the decoder on a node that is not the groups' destination refuses the compact form (an error, not a message) *)
Theorem C16_node_clause_refuted :
  v2_run 3 1 (v2_encode_all st0 [exA1; exA2]) = ([exA1], DMismatch).
Proof. vm_compute. reflexivity. Qed.
Print Assumptions C16_node_clause_refuted.
