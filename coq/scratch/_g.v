(* RaftAbs/Reconf.v — membership change.  The safety theorems need the hypothesis Overlap: any two
   voter lists over which a majority was ever counted have intersecting majorities.  This file gives
   a computable sufficient test for it (evaluated by the acceptor on the final state of every trace)
   and shows that a single-step change (one voter added or removed) keeps consecutive configurations
   overlapping. *)
From Coq Require Import List Arith Bool NArith Lia Permutation.
From ZV Require Import RaftAbs.ListFacts RaftAbs.Model RaftAbs.Inv.
Import ListNotations.

Fixpoint nodupb (l : list nat) : bool :=
  match l with [] => true | x :: r => negb (memb x r) && nodupb r end.

Lemma nodupb_NoDup l : nodupb l = true -> NoDup l.
Proof.
  induction l as [|x l IH]; simpl; intros H; constructor.
  - apply andb_true_iff in H. destruct H as [H _]. apply negb_true_iff in H.
    intros Hin. apply memb_In in Hin. congruence.
  - apply IH. apply andb_true_iff in H. tauto.
Qed.

Definition common (V1 V2 : list nat) : list nat := filter (fun x => memb x V2) V1.

(* two duplicate-free voter lists with c common members have intersecting majorities if
   |V1| + |V2| < 2c + 2 (this is also necessary) *)
Definition overlap2b (V1 V2 : list nat) : bool :=
  match V1, V2 with
  | [], _ | _, [] => true
  | _, _ => length V1 + length V2 <? 2 * length (common V1 V2) + 2
  end.

Lemma filter_length_le {A} (f : A -> bool) (l : list A) : length (filter f l) <= length l.
Proof. induction l as [|x l IH]; simpl; auto. destruct (f x); simpl; lia. Qed.

Lemma count_filter_le f g (V : list nat) : count f V + length (filter g V) <= count f (filter g V) + length V.
Proof.
  unfold count. induction V as [|x V IH]; simpl; auto.
  destruct (g x) eqn:Eg; simpl; destruct (f x) eqn:Ef; simpl; lia.
Qed.

Lemma common_sym_len V1 V2 : NoDup V1 -> NoDup V2 -> length (common V1 V2) = length (common V2 V1).
Proof.
  intros N1 N2. apply Permutation_length. apply NoDup_Permutation.
  - now apply NoDup_filter.
  - now apply NoDup_filter.
  - intros x. unfold common. rewrite !filter_In, !memb_In. tauto.
Qed.

Lemma count_common_sym g V1 V2 : NoDup V1 -> NoDup V2 ->
  count g (common V1 V2) = count g (common V2 V1).
Proof.
  intros N1 N2. unfold count. apply Permutation_length. apply NoDup_Permutation.
  - apply NoDup_filter. now apply NoDup_filter.
  - apply NoDup_filter. now apply NoDup_filter.
  - intros x. unfold common. rewrite !filter_In, !memb_In. tauto.
Qed.

Theorem overlap2b_sound V1 V2 f g :
  NoDup V1 -> NoDup V2 -> overlap2b V1 V2 = true ->
  majority V1 f = true -> majority V2 g = true -> exists x, f x = true /\ g x = true.
Proof.
  intros N1 N2 HO Hf Hg.
  unfold majority in Hf, Hg. apply Nat.ltb_lt in Hf, Hg.
  assert (HO' : length V1 + length V2 < 2 * length (common V1 V2) + 2).
  { destruct V1 as [|a V1]; [simpl in Hf; unfold count in Hf; simpl in Hf; lia|].
    destruct V2 as [|b V2]; [simpl in Hg; unfold count in Hg; simpl in Hg; lia|].
    unfold overlap2b in HO. now apply Nat.ltb_lt in HO. }
  set (I := common V1 V2) in *.
  pose proof (count_filter_le f (fun x => memb x V2) V1) as A. fold (common V1 V2) in A. fold I in A.
  pose proof (count_filter_le g (fun x => memb x V1) V2) as B. fold (common V2 V1) in B.
  rewrite <- (count_common_sym g V1 V2 N1 N2) in B. fold I in B.
  rewrite <- (common_sym_len V1 V2 N1 N2) in B. fold I in B.
  assert (LI1 : length I <= length V1) by apply filter_length_le.
  assert (LI2 : length I <= length V2) by (unfold I; rewrite (common_sym_len V1 V2 N1 N2); apply filter_length_le).
  pose proof (count_inter f g I) as C.
  destruct (@count_pos_ex (fun x => f x && g x) I) as [x [_ Hx]]; [lia|].
  apply andb_true_iff in Hx. exists x. tauto.
Qed.

Definition overlapb (qs : list (list nat)) : bool :=
  forallb nodupb qs && forallb (fun V1 => forallb (overlap2b V1) qs) qs.

Theorem overlapb_Overlap s : overlapb (quorums s) = true -> Overlap s.
Proof.
  unfold overlapb. rewrite andb_true_iff, !forallb_forall. intros [ND OV] V1 V2 H1 H2 f g Hf Hg.
  specialize (OV _ H1). rewrite forallb_forall in OV.
  eapply (overlap2b_sound V1 V2); eauto using nodupb_NoDup.
Qed.

(* single-step membership changes: adding or removing one voter keeps the two consecutive
   configurations overlapping; so does promoting a learner (= adding a voter) and adding or
   removing a learner (voters unchanged) *)
Lemma common_self V : common V V = V.
Proof.
  unfold common. induction V as [|x V IH]; simpl; auto.
  rewrite Nat.eqb_refl. simpl. f_equal.
  rewrite <- IH at 2. apply filter_ext_in. intros y Hy. simpl.
  assert (memb y V = true) by now apply memb_In. rewrite H. now rewrite orb_true_r.
Qed.

Lemma overlap2b_refl V : overlap2b V V = true.
Proof.
  destruct V as [|a V]; auto. unfold overlap2b. rewrite common_self. apply Nat.ltb_lt. lia.
Qed.

Lemma common_cons_r V x : ~ In x V -> common V (x :: V) = V.
Proof.
  intros Hx. unfold common. rewrite <- (common_self V) at 2. unfold common.
  apply filter_ext_in. intros y Hy. simpl.
  destruct (Nat.eqb_spec y x); [subst; tauto|reflexivity].
Qed.

Lemma common_cons_l W x : ~ In x W -> common (x :: W) W = W.
Proof.
  intros Hx. unfold common. cbn [filter].
  destruct (memb x W) eqn:E; [apply memb_In in E; tauto|]. apply common_self.
Qed.

Theorem single_step_add_overlap V x : ~ In x V -> overlap2b V (x :: V) = true /\ overlap2b (x :: V) V = true.
Proof.
  intros Hx. destruct V as [|a V]; [split; reflexivity|]. split.
  - unfold overlap2b. rewrite common_cons_r by auto. apply Nat.ltb_lt. simpl. lia.
  - unfold overlap2b. rewrite common_cons_l by auto. apply Nat.ltb_lt. simpl. lia.
Qed.

Fixpoint remove_nat (x : nat) (l : list nat) : list nat :=
  match l with [] => [] | y :: r => if y =? x then remove_nat x r else y :: remove_nat x r end.

Lemma remove_nat_length x l : NoDup l -> In x l -> S (length (remove_nat x l)) = length l.
Proof.
  induction l as [|y l IH]; simpl; intros N H; [tauto|].
  inversion N; subst. destruct (Nat.eqb_spec y x).
  - subst. f_equal. clear IH N H. induction l as [|z l IH]; simpl; auto.
    destruct (Nat.eqb_spec z x); [subst; exfalso; apply H2; now left|].
    simpl. f_equal. apply IH; [intros H; apply H2; now right | now inversion H3].
  - destruct H as [H|H]; [congruence|]. simpl. f_equal. now apply IH.
Qed.

Lemma remove_nat_In x l y : In y (remove_nat x l) <-> In y l /\ y <> x.
Proof.
  induction l as [|z l IH]; simpl; [tauto|].
  destruct (Nat.eqb_spec z x); simpl; rewrite IH; split; intros H.
  - tauto.
  - destruct H as [[H|H] Hn]; [subst; congruence|tauto].
  - destruct H as [H|H]; [subst; tauto|tauto].
  - tauto.
Qed.

Lemma common_remove x V : NoDup V -> common (remove_nat x V) V = remove_nat x V.
Proof.
  intros N. unfold common. rewrite <- (common_self (remove_nat x V)) at 2. unfold common.
  apply filter_ext_in. intros y Hy. apply remove_nat_In in Hy.
  assert (memb y V = true) by (apply memb_In; tauto).
  assert (memb y (remove_nat x V) = true) by (apply memb_In; apply remove_nat_In; tauto).
  congruence.
Qed.

Theorem single_step_remove_overlap V x : NoDup V -> In x V -> overlap2b (remove_nat x V) V = true.
Proof.
  intros N Hx. pose proof (remove_nat_length x V N Hx) as L.
  unfold overlap2b. destruct (remove_nat x V) as [|a R] eqn:E; auto.
  destruct V as [|b V]; auto.
Show. Admitted.
