(* Lin/Protocol.v — the request path of a replicated namespace as an abstract labelled transition
   system (model only; proofs in Lin/ProtocolProofs.v).

   What it transcribes (node/node.go, node/util.go, node/keys.go, node/list.go, node/set.go,
   node/state_machine.go, pkg/wait/wait.go, server/server.go handleRedisWrite):
     t_invoke     a client request reaches replica r: queueRequest passes the write gate, a fresh request
                  id is allocated (reqIDGen.Next), the entry is stamped ONCE with a timestamp, the id is
                  registered in r's pending table (wait.RegisterWithC) and the entry is proposed
                  (ProposeEntryWithDrop)                                   -> entry "in flight"
     t_reject     the write gate (IsWriteReady / HasLead) refuses: error reply, nothing proposed
     t_drop       raft drops the proposal (no leader, leader change, queue full)
     t_commit     the entry is appended to THE agreed log. One log for the whole group: that replicas
                  never hold different entries at one index is C02's conclusion and is the interface
                  between the raft proofs and this model.
     t_apply      replica r applies the next log entry in index order (applyCommits/applyEntries) through
                  its state machine; if the entry's id is in r's pending table the waiter is triggered
                  (wait.Trigger(id, result)) and the client receives exactly this result
     t_timeout    the waiter of id at r gives up (proposeTimeout, ErrProposalCanceled after a leader
                  change): error reply; the entry may still commit and apply later ("at most once")
     t_restart    replica r stops or is killed and comes back: the pending table is lost (the waiting
                  clients see broken connections), the state machine restarts from a checkpoint at some
                  index k (k = 0: CleanData + full replay) and replays the log; replayed entries
                  trigger nobody because their ids are not registered
   The no-op shortcut of some write commands (setnxCommand: key exists; saddCommand: member exists;
   sremCommand: member absent; preCheckListLength for LPOP: list empty), AS FIXED (isLocalStoreCurrent):
     t_barrier    the request reaches replica r, which asks raft for a read index: l_ci is (at least) the
                  length of the agreed log at that moment
     t_local      r has applied at least l_ci entries (linearizableReadNotify returned) and its local
                  store says the command changes nothing: the no-op reply is sent without proposing
     t_fallback   the barrier failed or the local store says the command does something: the request is
                  proposed like any other (queueRequest)
   Every transition advances a global clock; invocation/reply/commit times are readings of it. The
   client-side invocation (reply) time is earlier (later) than the server-side one, which only widens
   the interval an operation may take effect in.

   Plain reads (get/hget/llen/...) are NOT part of this system: the code serves them from the local
   store of the replica that believes it leads, without a barrier (see C04_local_read_refuted). *)
From ZV Require Export Lin.Spec Lin.Checker.
From Coq Require Export NArith.

Record entry : Type := mkEntry { e_id : nat; e_ts : N; e_op : op }.

(* a committed entry with the (ghost) clock reading at which it was appended *)
Record centry : Type := mkC { c_ent : entry; c_time : N }.

Record rstate : Type := mkR {
  r_applied : nat;          (* number of log entries applied *)
  r_st : state;             (* state machine *)
  r_pending : list nat      (* request ids with a registered waiter *)
}.

(* a request waiting behind the read-index barrier at replica l_rep *)
Record lreq : Type := mkL { l_id : nat; l_rep : nat; l_ci : nat }.
(* (ghost) a request answered by the local shortcut after d_slot log entries *)
Record ldone : Type := mkD { d_id : nat; d_slot : nat }.

Record gstate : Type := mkG {
  g_clock : N;
  g_hist : list hop;        (* the recorded client history; request id = position *)
  g_inflight : list entry;  (* proposed, neither committed nor dropped *)
  g_log : list centry;      (* the agreed log *)
  g_rep : nat -> rstate;    (* replicas *)
  g_wait : list lreq;       (* requests behind the barrier *)
  g_ldone : list ldone      (* ghost: locally answered requests, in reply order *)
}.

Definition rep0 : rstate := mkR 0 init [].
Definition g0 : gstate := mkG 1 [] [] [] (fun _ => rep0) [] [].

Definition upd (f : nat -> rstate) (r : nat) (v : rstate) : nat -> rstate :=
  fun x => if Nat.eqb x r then v else f x.

Fixpoint set_ret (i : nat) (v : N * res) (h : list hop) : list hop :=
  match h, i with
  | [], _ => []
  | x :: t, O => mkHop (h_op x) (h_inv x) (Some v) :: t
  | x :: t, S j => x :: set_ret j v t
  end.

Fixpoint remove_id (i : nat) (l : list nat) : list nat :=
  match l with [] => [] | x :: t => if Nat.eqb x i then remove_id i t else x :: remove_id i t end.

(* the local pre-checks: the reply sent without proposing when the local store says the command is a no-op *)
Definition shortcut (s : state) (o : op) : option res :=
  match o with
  | OLPop => match s_list s with [] => Some RNil | _ => None end
  | OSetNX _ => match s_kv s with Some _ => Some (RInt 0) | None => None end
  | OSAdd m => if set_mem m (s_set s) then Some (RInt 0) else None
  | OSRem m => if set_mem m (s_set s) then None else Some (RInt 0)
  | _ => None
  end.

Section Protocol.
  (* the state machine each replica runs; C07's conclusion (same log => same data and replies on every
     replica) together with the Spec-vs-implementation diff enters as the hypothesis, stated in
     ProtocolProofs.v, that it computes Spec.step whatever the replica and the entry's timestamp *)
  Variable apply_impl : nat -> N -> state -> op -> state * res.

  (* state of the specification after a log prefix *)
  Definition exec (l : list centry) : state :=
    fold_left (fun s c => fst (step s (e_op (c_ent c)))) l init.

  Inductive pstep : gstate -> gstate -> Prop :=
  | t_invoke : forall g r o,
      let id := length (g_hist g) in
      let e := mkEntry id (g_clock g) o in
      let rs := g_rep g r in
      pstep g (mkG (N.succ (g_clock g))
                   (g_hist g ++ [mkHop o (g_clock g) None])
                   (e :: g_inflight g) (g_log g)
                   (upd (g_rep g) r (mkR (r_applied rs) (r_st rs) (id :: r_pending rs)))
                   (g_wait g) (g_ldone g))
  | t_reject : forall g o,
      pstep g (mkG (N.succ (g_clock g)) (g_hist g ++ [mkHop o (g_clock g) None])
                   (g_inflight g) (g_log g) (g_rep g) (g_wait g) (g_ldone g))
  | t_drop : forall g l1 e l2,
      g_inflight g = l1 ++ e :: l2 ->
      pstep g (mkG (N.succ (g_clock g)) (g_hist g) (l1 ++ l2) (g_log g) (g_rep g) (g_wait g) (g_ldone g))
  | t_commit : forall g l1 e l2,
      g_inflight g = l1 ++ e :: l2 ->
      pstep g (mkG (N.succ (g_clock g)) (g_hist g) (l1 ++ l2)
                   (g_log g ++ [mkC e (g_clock g)]) (g_rep g) (g_wait g) (g_ldone g))
  | t_apply : forall g r c,
      let rs := g_rep g r in
      nth_error (g_log g) (r_applied rs) = Some c ->
      let e := c_ent c in
      let sr := apply_impl r (e_ts e) (r_st rs) (e_op e) in
      let triggered := existsb (Nat.eqb (e_id e)) (r_pending rs) in
      pstep g (mkG (N.succ (g_clock g))
                   (if triggered then set_ret (e_id e) (g_clock g, snd sr) (g_hist g) else g_hist g)
                   (g_inflight g) (g_log g)
                   (upd (g_rep g) r (mkR (S (r_applied rs)) (fst sr) (remove_id (e_id e) (r_pending rs))))
                   (g_wait g) (g_ldone g))
  | t_timeout : forall g r id,
      let rs := g_rep g r in
      pstep g (mkG (N.succ (g_clock g)) (g_hist g) (g_inflight g) (g_log g)
                   (upd (g_rep g) r (mkR (r_applied rs) (r_st rs) (remove_id id (r_pending rs))))
                   (g_wait g) (g_ldone g))
  | t_restart : forall g r k,
      (k <= r_applied (g_rep g r))%nat ->
      pstep g (mkG (N.succ (g_clock g)) (g_hist g) (g_inflight g) (g_log g)
                   (upd (g_rep g) r (mkR k (exec (firstn k (g_log g))) []))
                   (g_wait g) (g_ldone g))
  | t_barrier : forall g r o,
      pstep g (mkG (N.succ (g_clock g)) (g_hist g ++ [mkHop o (g_clock g) None])
                   (g_inflight g) (g_log g) (g_rep g)
                   (mkL (length (g_hist g)) r (length (g_log g)) :: g_wait g) (g_ldone g))
  | t_local : forall g l1 q l2 h res,
      g_wait g = l1 ++ q :: l2 ->
      let rs := g_rep g (l_rep q) in
      (l_ci q <= r_applied rs)%nat ->
      nth_error (g_hist g) (l_id q) = Some h ->
      shortcut (r_st rs) (h_op h) = Some res ->
      pstep g (mkG (N.succ (g_clock g)) (set_ret (l_id q) (g_clock g, res) (g_hist g))
                   (g_inflight g) (g_log g) (g_rep g)
                   (l1 ++ l2) (g_ldone g ++ [mkD (l_id q) (r_applied rs)]))
  | t_fallback : forall g l1 q l2 h,
      g_wait g = l1 ++ q :: l2 ->
      nth_error (g_hist g) (l_id q) = Some h ->
      let rs := g_rep g (l_rep q) in
      pstep g (mkG (N.succ (g_clock g)) (g_hist g)
                   (mkEntry (l_id q) (g_clock g) (h_op h) :: g_inflight g) (g_log g)
                   (upd (g_rep g) (l_rep q) (mkR (r_applied rs) (r_st rs) (l_id q :: r_pending rs)))
                   (l1 ++ l2) (g_ldone g)).

  (* t_apply as a function (the next entry of the log, if any) and its n-fold iteration *)
  Definition apply1 (g : gstate) (r : nat) : gstate :=
    match nth_error (g_log g) (r_applied (g_rep g r)) with
    | Some c =>
        let rs := g_rep g r in
        let e := c_ent c in
        let sr := apply_impl r (e_ts e) (r_st rs) (e_op e) in
        let triggered := existsb (Nat.eqb (e_id e)) (r_pending rs) in
        mkG (N.succ (g_clock g))
            (if triggered then set_ret (e_id e) (g_clock g, snd sr) (g_hist g) else g_hist g)
            (g_inflight g) (g_log g)
            (upd (g_rep g) r (mkR (S (r_applied rs)) (fst sr) (remove_id (e_id e) (r_pending rs))))
            (g_wait g) (g_ldone g)
    | None => g
    end.

  Fixpoint applyn (n : nat) (g : gstate) (r : nat) : gstate :=
    match n with O => g | S m => applyn m (apply1 g r) r end.

  Inductive reachable : gstate -> Prop :=
  | reach0 : reachable g0
  | reachS : forall g g', reachable g -> pstep g g' -> reachable g'.
End Protocol.
