(* Place/ProofsProbe.v — C17, part 7a: the arithmetic behind V2 fresh layouts (no model here).
   Partition t looks at the cyclic window of r nameIndex positions starting at st t = (t*r) mod n and takes as
   leader the first position from st t that has not led in the current round of n partitions (linear probing
   with starts advancing by r). With g = gcd r n and m = n / g the leader of partition t is
   ld t = st t + (t mod n) / m, at distance (t mod n) / m < g <= r from the window start; within a round the
   leaders are pairwise distinct. *)
From Coq Require Import List Arith PeanoNat Lia Permutation.
Import ListNotations.
Open Scope nat_scope.

Lemma modeq_divide a b m : m <> 0 -> b <= a -> a mod m = b mod m -> Nat.divide m (a - b).
Proof.
  intros Hm Hle E. exists (a / m - b / m).
  pose proof (Nat.div_mod_eq a m) as Ea. pose proof (Nat.div_mod_eq b m) as Eb.
  pose proof (Nat.div_le_mono b a m Hm Hle) as Hd.
  rewrite Nat.mul_sub_distr_r. rewrite (Nat.mul_comm (a / m)), (Nat.mul_comm (b / m)). lia.
Qed.

Lemma NoDup_app_l {A} (l l' : list A) : NoDup (l ++ l') -> NoDup l.
Proof.
  induction l as [|x l IH]; simpl; intros H; [constructor|].
  inversion H; subst. constructor; [intros Hin; apply H2; apply in_app_iff; left; exact Hin|apply IH; assumption].
Qed.

Section Probe.
Variables g m r' : nat.
Hypothesis g_pos : 0 < g.
Hypothesis m_pos : 0 < m.
Hypothesis coprime : Nat.gcd m r' = 1.

Definition n := g * m.
Definition r := g * r'.

Lemma n_pos : 0 < n. Proof. unfold n. nia. Qed.

Definition sg (t : nat) : nat := (t * r') mod m.       (* window start / g *)
Definition st (t : nat) : nat := (t * r) mod n.
Definition off (t : nat) : nat := (t mod n) / m.
Definition ld (t : nat) : nat := st t + off t.

Lemma st_sg t : st t = g * sg t.
Proof.
  unfold st, sg, r, n. replace (t * (g * r')) with (g * (t * r')) by lia.
  apply Nat.mul_mod_distr_l; lia.
Qed.
Lemma sg_lt t : sg t < m.
Proof. unfold sg. apply Nat.mod_upper_bound. lia. Qed.
Lemma sg_mod t : sg (t mod m) = sg t.
Proof. unfold sg. rewrite Nat.mul_mod_idemp_l by lia. reflexivity. Qed.
Lemma off_lt t : off t < g.
Proof.
  unfold off. apply Nat.div_lt_upper_bound; [lia|].
  assert (H : t mod n < n) by (apply Nat.mod_upper_bound; unfold n; nia). unfold n in *. lia.
Qed.
Lemma ld_lt t : ld t < n.
Proof.
  unfold ld. rewrite st_sg. pose proof (sg_lt t). pose proof (off_lt t). unfold n. nia.
Qed.

Lemma sg_inj u u' : u < m -> u' < m -> sg u = sg u' -> u = u'.
Proof.
  assert (H : forall a b, a < m -> b < m -> b <= a -> sg a = sg b -> a = b).
  { intros a b Ha Hb Hle E. unfold sg in E.
    assert (Hd : Nat.divide m ((a - b) * r')).
    { rewrite Nat.mul_sub_distr_r. apply modeq_divide; [lia|nia|exact E]. }
    rewrite Nat.mul_comm in Hd. apply Nat.gauss in Hd; [|exact coprime].
    destruct Hd as [k Hk]. destruct k; [lia|]. nia. }
  intros Hu Hu' E. destruct (Nat.le_ge_cases u' u); [apply H; assumption|symmetry; apply H; auto].
Qed.

(* decomposition of a position of the round: b = c * m + u *)
Lemma round_decomp b : b < n -> b mod n = b /\ b / m < g /\ b = (b / m) * m + b mod m.
Proof.
  intros Hb. split; [apply Nat.mod_small; exact Hb|]. split.
  - apply Nat.div_lt_upper_bound; [lia|]. unfold n in Hb. lia.
  - rewrite (Nat.div_mod_eq b m) at 1. lia.
Qed.

Lemma ld_round b : b < n -> ld b = g * sg (b mod m) + b / m.
Proof.
  intros Hb. unfold ld, off. rewrite st_sg, <- sg_mod. destruct (round_decomp b Hb) as [-> _]. reflexivity.
Qed.

Lemma ld_inj b b' : b < n -> b' < n -> ld b = ld b' -> b = b'.
Proof.
  intros Hb Hb' E. rewrite !ld_round in E by assumption.
  destruct (round_decomp b Hb) as [_ [Hc Hd]]. destruct (round_decomp b' Hb') as [_ [Hc' Hd']].
  assert (Hq : b / m = b' / m /\ sg (b mod m) = sg (b' mod m)).
  { set (x := sg (b mod m)) in *. set (y := sg (b' mod m)) in *.
    assert (x = y) by nia. split; [nia|assumption]. }
  destruct Hq as [Hq1 Hq2]. apply sg_inj in Hq2; try (apply Nat.mod_upper_bound; lia).
  rewrite Hd, Hd'. congruence.
Qed.

Lemma ld_periodic a b : ld (a * n + b) = ld b.
Proof.
  unfold ld, off, st.
  replace ((a * n + b) mod n) with (b mod n) by (rewrite Nat.add_comm, Nat.mod_add; [reflexivity|pose proof n_pos; lia]).
  f_equal. rewrite Nat.mul_add_distr_r. replace (a * n * r) with (a * r * n) by lia.
  rewrite Nat.add_comm, Nat.mod_add; [reflexivity|pose proof n_pos; lia].
Qed.

(* the leaders of one round are a permutation of all positions *)
Lemma ld_round_perm : Permutation (map ld (seq 0 n)) (seq 0 n).
Proof.
  apply NoDup_Permutation_bis.
  - assert (H : forall l, (forall x, In x l -> x < n) -> NoDup l -> NoDup (map ld l)).
    { induction l as [|x l IH]; intros Hl Hnd; simpl; [constructor|].
      inversion Hnd; subst. constructor.
      - intros Hin. apply in_map_iff in Hin. destruct Hin as [y [E Hy]].
        apply ld_inj in E; [subst; contradiction|apply Hl; right; exact Hy|apply Hl; left; reflexivity].
      - apply IH; [intros y Hy; apply Hl; right; exact Hy|assumption]. }
    apply H; [intros x Hx; apply in_seq in Hx; lia|apply seq_NoDup].
  - rewrite map_length. reflexivity.
  - intros x Hx. apply in_map_iff in Hx. destruct Hx as [b [<- _]]. apply in_seq. pose proof (ld_lt b). lia.
Qed.

(* how often position i was leader among partitions 0 .. t-1 *)
Definition lc (t i : nat) : nat := count_occ Nat.eq_dec (map ld (seq 0 t)) i.

Lemma lc_S t i : lc (S t) i = lc t i + (if Nat.eq_dec (ld t) i then 1 else 0).
Proof.
  unfold lc. rewrite seq_S, map_app, count_occ_app. simpl. destruct (Nat.eq_dec (ld t) i); reflexivity.
Qed.

Lemma seq_shift_map a k : forall s, seq (a + s) k = map (fun x => a + x) (seq s k).
Proof. induction k as [|k IH]; intros s; simpl; [reflexivity|]. f_equal. rewrite <- IH. f_equal. lia. Qed.

Lemma round_count a i : i < n -> count_occ Nat.eq_dec (map ld (seq (a * n) n)) i = 1.
Proof.
  intros Hi. replace (a * n) with (a * n + 0) by lia. rewrite seq_shift_map, map_map.
  rewrite (map_ext _ ld) by (intros; apply ld_periodic).
  rewrite (proj1 (Permutation_count_occ Nat.eq_dec _ _) ld_round_perm).
  apply NoDup_count_occ'; [apply seq_NoDup|apply in_seq; lia].
Qed.

Lemma full_rounds a i : i < n -> lc (a * n) i = a.
Proof.
  intros Hi. induction a as [|a IH]; [reflexivity|].
  unfold lc in *. replace (S a * n) with (a * n + n) by lia.
  rewrite seq_app, map_app, count_occ_app, IH. simpl. rewrite round_count by exact Hi. lia.
Qed.

(* count inside the current round *)
Definition led (t i : nat) : nat := count_occ Nat.eq_dec (map ld (seq 0 (t mod n))) i.

Lemma lc_split t i : i < n -> lc t i = t / n + led t i.
Proof.
  intros Hi. pose proof n_pos as Hn.
  rewrite (Nat.div_mod_eq t n) at 1. unfold lc, led.
  rewrite seq_app, map_app, count_occ_app. f_equal.
  - rewrite Nat.mul_comm. apply (full_rounds (t / n) i Hi).
  - rewrite (Nat.mul_comm n). simpl. replace (t / n * n) with (t / n * n + 0) by lia. rewrite seq_shift_map, map_map.
    rewrite (map_ext _ ld) by (intros; apply ld_periodic). reflexivity.
Qed.

Lemma led_le1 t i : led t i <= 1.
Proof.
  unfold led. apply NoDup_count_occ.
  assert (Hb : t mod n <= n) by (pose proof (Nat.mod_upper_bound t n); pose proof n_pos; lia).
  assert (H : NoDup (map ld (seq 0 n))) by (eapply Permutation_NoDup; [symmetry; apply ld_round_perm|apply seq_NoDup]).
  replace n with (t mod n + (n - t mod n)) in H by lia. rewrite seq_app, map_app in H.
  apply NoDup_app_l in H. exact H.
Qed.

Lemma led_in t i : led t i = 1 <-> exists b, b < t mod n /\ ld b = i.
Proof.
  unfold led. split.
  - intros H. assert (Hin : In i (map ld (seq 0 (t mod n)))) by (apply (count_occ_In Nat.eq_dec); lia).
    apply in_map_iff in Hin. destruct Hin as [b [E Hb]]. apply in_seq in Hb. exists b. split; [lia|exact E].
  - intros [b [Hb E]]. pose proof (led_le1 t i) as Hle. unfold led in Hle.
    assert (Hin : In i (map ld (seq 0 (t mod n)))) by (apply in_map_iff; exists b; split; [exact E|apply in_seq; lia]).
    apply (count_occ_In Nat.eq_dec) in Hin. lia.
Qed.

(* the leader of partition t has not led in the current round; the positions before it in its window have *)
Lemma ld_fresh t : led t (ld t) = 0.
Proof.
  pose proof (led_le1 t (ld t)) as Hle. destruct (led t (ld t)) as [|[|k]] eqn:E; [reflexivity| |lia].
  exfalso. apply led_in in E. destruct E as [b [Hb E]].
  pose proof n_pos as Hn. pose proof (Nat.mod_upper_bound t n ltac:(lia)) as Hbn.
  assert (Ht : ld t = ld (t mod n)).
  { rewrite (Nat.div_mod_eq t n) at 1. rewrite (Nat.mul_comm n). apply ld_periodic. }
  rewrite Ht in E. apply ld_inj in E; lia.
Qed.

Lemma before_leader_led t k : k < off t -> led t (st t + k) = 1.
Proof.
  intros Hk. apply led_in.
  pose proof n_pos as Hn. pose proof (Nat.mod_upper_bound t n ltac:(lia)) as Hbn.
  set (b := t mod n) in *. destruct (round_decomp b Hbn) as [_ [Hc Hd]].
  exists (k * m + b mod m).
  assert (Hum : b mod m < m) by (apply Nat.mod_upper_bound; lia).
  assert (Hoff : off t = b / m) by reflexivity.
  assert (Hlt : k * m + b mod m < b) by (rewrite Hd at 2; rewrite Hoff in Hk; nia).
  split; [exact Hlt|].
  rewrite ld_round by lia.
  assert (E1 : (k * m + b mod m) mod m = b mod m).
  { rewrite (Nat.add_comm (k * m)). rewrite Nat.mod_add by lia. apply Nat.mod_small; exact Hum. }
  assert (E2 : (k * m + b mod m) / m = k).
  { rewrite (Nat.add_comm (k * m)). rewrite Nat.div_add by lia. rewrite (Nat.div_small _ _ Hum). reflexivity. }
  rewrite E1, E2.
  rewrite st_sg. f_equal. f_equal. rewrite sg_mod. unfold b. rewrite <- (sg_mod t).
  assert (Hmm : (t mod n) mod m = t mod m).
  { unfold n. rewrite (Nat.mul_comm g m). rewrite Nat.mod_mul_r by lia.
    rewrite (Nat.mul_comm m ((t / m) mod g)), Nat.mod_add by lia. apply Nat.mod_mod. lia. }
  rewrite <- Hmm. rewrite sg_mod. reflexivity.
Qed.

Lemma st_off_lt t : st t + off t < n /\ forall k, k <= off t -> (st t + k) < n.
Proof.
  pose proof (ld_lt t) as H. unfold ld in H. split; [exact H|intros; lia].
Qed.
End Probe.

(* ---------- windows and replica counts ---------- *)
Section Window.
Variables n r : nat.
Hypothesis n_pos : 0 < n.
Hypothesis r_le : r <= n.

Definition wst (t : nat) : nat := (t * r) mod n.
Definition rank (t i : nat) : nat := (i + n - wst t) mod n.       (* cyclic distance from the window start *)
Definition pos (t k : nat) : nat := (wst t + k) mod n.             (* the position at distance k *)
Definition inwin (t i : nat) : bool := rank t i <? r.
Definition rc (t i : nat) : nat := length (filter (fun t' => inwin t' i) (seq 0 t)).

Lemma wst_lt t : wst t < n. Proof. apply Nat.mod_upper_bound. lia. Qed.

Lemma rank_cases t i : i < n ->
  (wst t <= i /\ rank t i = i - wst t) \/ (i < wst t /\ rank t i = i + n - wst t).
Proof.
  intros Hi. pose proof (wst_lt t) as Hs. unfold rank.
  destruct (Nat.le_gt_cases (wst t) i) as [L|L].
  - left. split; [exact L|]. symmetry. apply (Nat.mod_unique _ _ 1); lia.
  - right. split; [exact L|]. apply Nat.mod_small. lia.
Qed.
Lemma rank_lt t i : rank t i < n. Proof. apply Nat.mod_upper_bound. lia. Qed.

Lemma pos_lt t k : pos t k < n. Proof. apply Nat.mod_upper_bound. lia. Qed.
Lemma pos_cases t k : k < n ->
  (wst t + k < n /\ pos t k = wst t + k) \/ (n <= wst t + k /\ pos t k = wst t + k - n).
Proof.
  intros Hk. pose proof (wst_lt t) as Hs. unfold pos.
  destruct (Nat.lt_ge_cases (wst t + k) n) as [L|L].
  - left. split; [exact L|apply Nat.mod_small; exact L].
  - right. split; [exact L|]. symmetry. apply (Nat.mod_unique _ _ 1); lia.
Qed.
Lemma rank_pos t k : k < n -> rank t (pos t k) = k.
Proof.
  intros Hk. pose proof (wst_lt t) as Hs.
  destruct (pos_cases t k Hk) as [[L E]|[L E]]; destruct (rank_cases t (pos t k) (pos_lt t k)) as [[L' E']|[L' E']]; lia.
Qed.
Lemma pos_rank t i : i < n -> pos t (rank t i) = i.
Proof.
  intros Hi. pose proof (wst_lt t) as Hs. pose proof (rank_lt t i) as Hr.
  destruct (rank_cases t i Hi) as [[L E]|[L E]]; destruct (pos_cases t (rank t i) Hr) as [[L' E']|[L' E']]; lia.
Qed.
Lemma rank_inj t i y : i < n -> y < n -> rank t i = rank t y -> i = y.
Proof. intros Hi Hy E. rewrite <- (pos_rank t i Hi), <- (pos_rank t y Hy), E. reflexivity. Qed.

Lemma rc_S t i : rc (S t) i = rc t i + (if inwin t i then 1 else 0).
Proof.
  unfold rc. rewrite seq_S, filter_app, app_length. simpl. destruct (inwin t i); simpl; lia.
Qed.

(* the windows tile the circle: after t partitions every position was covered floor(t*r/n) times,
   those before the current window start once more *)
Lemma step_divmod t :
  let s := wst t in
  (s + r < n /\ wst (S t) = s + r /\ (S t * r) / n = (t * r) / n) \/
  (n <= s + r /\ wst (S t) = s + r - n /\ (S t * r) / n = S ((t * r) / n)).
Proof.
  cbv zeta. unfold wst. pose proof (Nat.div_mod_eq (t * r) n) as E.
  pose proof (Nat.mod_upper_bound (t * r) n ltac:(lia)) as Hs.
  set (q := (t * r) / n) in *. set (s := (t * r) mod n) in *.
  assert (ES : S t * r = n * q + s + r) by lia.
  destruct (Nat.lt_ge_cases (s + r) n) as [L|L].
  - left. split; [exact L|]. split.
    + symmetry. apply (Nat.mod_unique _ _ q); lia.
    + symmetry. apply (Nat.div_unique _ _ q (s + r)); lia.
  - right. split; [exact L|]. split.
    + symmetry. apply (Nat.mod_unique _ _ (S q)); lia.
    + symmetry. apply (Nat.div_unique _ _ (S q) (s + r - n)); lia.
Qed.

Theorem rc_formula t i : i < n -> rc t i = (t * r) / n + (if i <? wst t then 1 else 0).
Proof.
  intros Hi. induction t as [|t IH].
  - unfold rc, wst. simpl. rewrite Nat.div_0_l, Nat.mod_0_l by lia. reflexivity.
  - rewrite rc_S, IH. unfold inwin.
    pose proof (wst_lt t) as Hs.
    destruct (step_divmod t) as [[L [E1 E2]]|[L [E1 E2]]]; rewrite E1, E2;
      destruct (rank_cases t i Hi) as [[L' E']|[L' E']]; rewrite E';
      destruct (Nat.ltb_spec i (wst t)); destruct (Nat.ltb_spec i (wst t + r)); destruct (Nat.ltb_spec i (wst t + r - n));
      destruct (Nat.ltb_spec (i - wst t) r); destruct (Nat.ltb_spec (i + n - wst t) r); lia.
Qed.

(* ordering by (replica count, position) is ordering by rank *)
Theorem rc_order t i y : i < n -> y < n ->
  (rc t i < rc t y \/ (rc t i = rc t y /\ i < y)) <-> rank t i < rank t y.
Proof.
  intros Hi Hy. rewrite !rc_formula by assumption.
  destruct (rank_cases t i Hi) as [[L E]|[L E]]; destruct (rank_cases t y Hy) as [[L' E']|[L' E']]; rewrite E, E';
  destruct (rank_cases t i Hi) as [[L E]|[L E]]; destruct (rank_cases t y Hy) as [[L' E']|[L' E']]; rewrite E, E';
    destruct (Nat.ltb_spec i (wst t)); destruct (Nat.ltb_spec y (wst t)); try lia.
  Show.
