(* Place/Proofs.v — C17, part 1: generic lemmas, sorting, getNodeNameList, the interleave ring,
   the ring algorithm V1 (validity, DC spread, leader balance). *)
From ZV Require Import Common.Bytes Common.BytesFacts Part.Model Place.Consts Place.Model.
From Coq Require Import Permutation ZifyN ZifyNat ZifyBool Arith PeanoNat.
Open Scope nat_scope.

(* ---------- generic list facts ---------- *)
Lemma all_some_map {A B} (f : A -> option B) (g : A -> B) (l : list A) :
  (forall x, In x l -> f x = Some (g x)) -> all_some (map f l) = Some (map g l).
Proof.
  induction l as [|a l IH]; intros H; simpl; [reflexivity|].
  rewrite (H a (or_introl eq_refl)), IH; [reflexivity|].
  intros x Hx; apply H; right; exact Hx.
Qed.

Lemma NoDup_map_in {A B} (f : A -> B) (l : list A) :
  (forall x y, In x l -> In y l -> f x = f y -> x = y) -> NoDup l -> NoDup (map f l).
Proof.
  induction l as [|a l IH]; intros Hinj Hnd; simpl; [constructor|].
  inversion Hnd as [|? ? Hna Hnd']; subst. constructor.
  - intros Hin. apply in_map_iff in Hin. destruct Hin as [y [Hy Hyin]].
    assert (y = a) by (apply Hinj; [right; exact Hyin|left; reflexivity|exact Hy]). subst. contradiction.
  - apply IH; [|exact Hnd']. intros x y Hx Hy; apply Hinj; right; assumption.
Qed.

Lemma nth_map_lt {A B} (f : A -> B) (l : list A) c d d' :
  c < length l -> nth c (map f l) d = f (nth c l d').
Proof.
  intros H. rewrite (nth_indep _ d (f d')) by (rewrite map_length; exact H). apply map_nth.
Qed.

Lemma mod_add_inj (n a j j' : nat) : j < n -> j' < n -> (a + j) mod n = (a + j') mod n -> j = j'.
Proof.
  intros Hj Hj' E.
  assert (Hn : n <> 0) by lia.
  pose proof (Nat.div_mod_eq (a + j) n) as E1.
  pose proof (Nat.div_mod_eq (a + j') n) as E2.
  rewrite E in E1.
  set (q1 := (a + j) / n) in *. set (q2 := (a + j') / n) in *. set (m := (a + j') mod n) in *.
  destruct (lt_eq_lt_dec q1 q2) as [[L|L]|L].
  - assert (n * q2 >= n * q1 + n) by nia. lia.
  - subst q2. rewrite <- L in E2. lia.
  - assert (n * q1 >= n * q2 + n) by nia. lia.
Qed.

Lemma mod_mod_divides (x n d : nat) : d <> 0 -> n <> 0 -> Nat.divide d n -> (x mod n) mod d = x mod d.
Proof.
  intros Hd Hn [k Hk]. subst n.
  rewrite (Nat.mul_comm k d). rewrite Nat.mod_mul_r by lia.
  rewrite (Nat.mul_comm d), Nat.mod_add by lia. apply Nat.mod_mod; lia.
Qed.

(* ---------- names: equality, membership ---------- *)
Lemma mem_name_In x l : mem_name x l = true <-> In x l.
Proof.
  unfold mem_name. rewrite existsb_exists. split.
  - intros [y [Hy E]]. apply bytes_eqb_eq in E. subst. exact Hy.
  - intros H. exists x. split; [exact H|apply bytes_eqb_refl].
Qed.
Lemma mem_name_false x l : mem_name x l = false <-> ~ In x l.
Proof. rewrite <- mem_name_In. destruct (mem_name x l); split; congruence. Qed.
Lemma bytes_eqb_neq a b : bytes_eqb a b = false <-> a <> b.
Proof. rewrite <- bytes_eqb_eq. destruct (bytes_eqb a b); split; congruence. Qed.
Lemma bytes_eqb_sym a b : bytes_eqb a b = bytes_eqb b a.
Proof.
  destruct (bytes_eqb a b) eqn:E.
  - apply bytes_eqb_eq in E. subst. symmetry. apply bytes_eqb_refl.
  - symmetry. apply bytes_eqb_neq. apply bytes_eqb_neq in E. congruence.
Qed.

(* ---------- sort_names is a sorting function ---------- *)
Lemma insert_sorted_perm x l : Permutation (x :: l) (insert_sorted x l).
Proof.
  induction l as [|y l IH]; simpl; [reflexivity|].
  destruct (bytes_leb x y); [reflexivity|].
  rewrite perm_swap. constructor. exact IH.
Qed.
Lemma sort_names_perm l : Permutation l (sort_names l).
Proof.
  induction l as [|x l IH]; simpl; [reflexivity|].
  rewrite <- insert_sorted_perm. constructor. exact IH.
Qed.
Lemma sort_names_length l : length (sort_names l) = length l.
Proof. symmetry. apply Permutation_length, sort_names_perm. Qed.
Lemma sort_names_In x l : In x (sort_names l) <-> In x l.
Proof. split; apply Permutation_in; [symmetry|]; apply sort_names_perm. Qed.

Inductive sorted : list name -> Prop :=
| sorted_nil : sorted []
| sorted_one x : sorted [x]
| sorted_cons x y l : bytes_leb x y = true -> sorted (y :: l) -> sorted (x :: y :: l).

Lemma bytes_leb_total a b : bytes_leb a b = true \/ bytes_leb b a = true.
Proof.
  unfold bytes_leb. rewrite (bytes_cmp_antisym a b). destruct (bytes_cmp a b); simpl; auto.
Qed.
Lemma bytes_leb_false a b : bytes_leb a b = false -> bytes_leb b a = true.
Proof. destruct (bytes_leb_total a b); congruence. Qed.
Lemma bytes_leb_antisym a b : bytes_leb a b = true -> bytes_leb b a = true -> a = b.
Proof.
  unfold bytes_leb. rewrite (bytes_cmp_antisym a b). destruct (bytes_cmp a b) eqn:E; simpl; try discriminate.
  intros _ _. apply bytes_cmp_eq; exact E.
Qed.
Lemma bytes_leb_trans a b c : bytes_leb a b = true -> bytes_leb b c = true -> bytes_leb a c = true.
Proof.
  unfold bytes_leb. intros H1 H2.
  destruct (bytes_cmp a b) eqn:E1; try discriminate.
  - apply bytes_cmp_eq in E1. subst. exact H2.
  - destruct (bytes_cmp b c) eqn:E2; try discriminate.
    + apply bytes_cmp_eq in E2. subst. rewrite E1. reflexivity.
    + rewrite (bytes_cmp_trans_lt a b c E1 E2). reflexivity.
Qed.

Lemma insert_sorted_sorted x l : sorted l -> sorted (insert_sorted x l).
Proof.
  induction 1 as [|y|y z l Hyz Hs IH]; simpl.
  - constructor.
  - destruct (bytes_leb x y) eqn:E; constructor; auto using sorted, bytes_leb_false.
  - destruct (bytes_leb x y) eqn:E.
    + constructor; [exact E|constructor; assumption].
    + simpl in IH. destruct (bytes_leb x z) eqn:E2.
      * constructor; [apply bytes_leb_false; exact E|exact IH].
      * constructor; [exact Hyz|exact IH].
Qed.
Lemma sort_names_sorted l : sorted (sort_names l).
Proof. induction l; simpl; [constructor|apply insert_sorted_sorted; assumption]. Qed.

Lemma sorted_head_le x l : sorted (x :: l) -> forall y, In y l -> bytes_leb x y = true.
Proof.
  revert x. induction l as [|z l IH]; intros x Hs y Hy; [destruct Hy|].
  inversion Hs; subst. destruct Hy as [->|Hy]; [assumption|].
  eapply bytes_leb_trans; [eassumption|]. apply IH; assumption.
Qed.
Lemma sorted_tail x l : sorted (x :: l) -> sorted l.
Proof. inversion 1; subst; [constructor|assumption]. Qed.

(* a sorted list is determined by its elements: the result does not depend on the order in which
   a Go map delivered them *)
Lemma sorted_perm_eq l1 : forall l2, sorted l1 -> sorted l2 -> Permutation l1 l2 -> l1 = l2.
Proof.
  induction l1 as [|x l1 IH]; intros l2 S1 S2 P.
  - apply Permutation_nil in P. subst. reflexivity.
  - destruct l2 as [|y l2]; [apply Permutation_sym, Permutation_nil in P; discriminate|].
    assert (x = y) as ->.
    { assert (Hx : In x (y :: l2)) by (eapply Permutation_in; [exact P|left; reflexivity]).
      assert (Hy : In y (x :: l1)) by (eapply Permutation_in; [symmetry; exact P|left; reflexivity]).
      destruct Hx as [->|Hx]; [reflexivity|]. destruct Hy as [->|Hy]; [reflexivity|].
      apply bytes_leb_antisym; [eapply sorted_head_le; eassumption|eapply sorted_head_le; eassumption]. }
    f_equal. apply IH; [eapply sorted_tail; eassumption|eapply sorted_tail; eassumption|].
    eapply Permutation_cons_inv; exact P.
Qed.
Lemma sort_names_perm_eq l1 l2 : Permutation l1 l2 -> sort_names l1 = sort_names l2.
Proof.
  intros P. apply sorted_perm_eq; try apply sort_names_sorted.
  rewrite <- (sort_names_perm l1), <- (sort_names_perm l2). exact P.
Qed.

(* ---------- interleave: slot q*d + c of the ring is element q of list c (even topologies) ---------- *)
Lemma heads_even (ls : list (list name)) :
  Forall (fun l => l <> []) ls -> heads ls = map (fun l => hd [] l) ls.
Proof.
  induction 1 as [|l ls Hl _ IH]; simpl; [reflexivity|].
  destruct l; [congruence|]. simpl. f_equal. exact IH.
Qed.
Lemma tails_even (ls : list (list name)) :
  Forall (fun l => l <> []) ls -> tails ls = map (@tl name) ls.
Proof.
  induction 1 as [|l ls Hl _ IH]; simpl; [reflexivity|].
  destruct l; [congruence|]. simpl. f_equal. exact IH.
Qed.

Lemma interleave_even k : forall fuel (ls : list (list name)) q c,
  k <= fuel -> Forall (fun l => length l = k) ls -> q < k -> c < length ls ->
  nth (q * length ls + c) (interleave fuel ls) [] = nth q (nth c ls []) [].
Proof.
  induction k as [|k IH]; intros fuel ls q c Hf Hall Hq Hc; [lia|].
  destruct fuel as [|fuel]; [lia|]. simpl.
  assert (Hne : Forall (fun l : list name => l <> []) ls).
  { eapply Forall_impl; [|exact Hall]. intros l Hl. destruct l; simpl in Hl; [lia|discriminate]. }
  destruct (forallb is_nil ls) eqn:En.
  { rewrite forallb_forall in En. destruct ls as [|l0 ls0]; [simpl in Hc; lia|].
    specialize (En l0 (or_introl eq_refl)). inversion Hall; subst. destruct l0; simpl in *; [lia|discriminate]. }
  rewrite heads_even, tails_even by exact Hne.
  destruct q as [|q].
  - simpl. rewrite app_nth1 by (rewrite map_length; exact Hc).
    rewrite (nth_map_lt _ _ _ _ []) by exact Hc. Set Printing All. Show.
