(* Valid/Proofs.v — C11: proofs about the validation model.
   Main result: whatever a leader proposes (for every entry of the generated registration table and
   all argument vectors) is applied without a Go panic by the registered apply handler. *)
From ZV Require Import Common.Bytes Common.BytesFacts Valid.Types Valid.Consts Valid.Model.
From Coq Require Import Lia ZifyBool ZifyNat Bool Arith.
Open Scope gname_scope.
Open Scope N_scope.

(* ApplyRaftRequest indexes cmd.Args[1] before dispatch: a one-argument command always panics there *)
Lemma apply_short_panics : forall pf v2 args, (length args < 2)%nat -> apply_shape pf v2 args = APanic.
Proof.
  intros pf v2 args H. destruct args as [|a [|b r]]; simpl in *; try reflexivity. lia.
Qed.

(* ---------- names ---------- *)
Lemma bl_eqb_eq a b : bl_eqb a b = true -> a = b.
Proof.
  revert b. induction a as [|x a IH]; destruct b as [|y b]; simpl; try discriminate; [reflexivity|].
  intro H. apply andb_prop in H. destruct H as [H1 H2].
  apply Byte.byte_dec_bl in H1. subst y. f_equal. apply IH. exact H2.
Qed.
Lemma gname_eqb_eq a b : gname_eqb a b = true -> a = b.
Proof. destruct a as [x], b as [y]. unfold gname_eqb. simpl. intro H. f_equal. apply bl_eqb_eq. exact H. Qed.

(* ---------- parity ---------- *)
Lemma even_true_ex n : Nat.even n = true -> exists k, n = (2 * k)%nat.
Proof. intro H. apply Nat.even_spec in H. destruct H as [k Hk]. exists k. lia. Qed.
Lemma even_false_ex n : Nat.even n = false -> exists k, n = (2 * k + 1)%nat.
Proof.
  intro H. assert (Ho : Nat.odd n = true) by (unfold Nat.odd; rewrite H; reflexivity).
  apply Nat.odd_spec in Ho. destruct Ho as [k Hk]. exists k. lia.
Qed.
Lemma even_2k k : Nat.even (2 * k) = true.
Proof. apply Nat.even_spec. exists k. lia. Qed.
Lemma even_2k1 k : Nat.even (2 * k + 1) = false.
Proof.
  destruct (Nat.even (2 * k + 1)) eqn:E; [|reflexivity].
  apply even_true_ex in E. destruct E as [j Hj]. lia.
Qed.

(* ---------- arity specifications: lo <= n <= hi, optional parity ---------- *)
Record aspec := mkA { lo : nat; hi : option nat; par : option bool }.
Definition sat (s : aspec) (n : nat) : bool :=
  Nat.leb (lo s) n
  && match hi s with Some h => Nat.leb n h | None => true end
  && match par s with Some b => Bool.eqb (Nat.even n) b | None => true end.
Definition entails (g r : aspec) : bool :=
  Nat.leb (lo r) (lo g)
  && match hi r with
     | None => true
     | Some hr => match hi g with Some hg => Nat.leb hg hr | None => false end
     end
  && match par r with
     | None => true
     | Some b => match par g with Some b' => Bool.eqb b' b | None => false end
     end.
Lemma entails_sound g r n : entails g r = true -> sat g n = true -> sat r n = true.
Proof.
  unfold entails, sat. intros He Hs.
  apply andb_prop in He. destruct He as [He Hp]. apply andb_prop in He. destruct He as [Hl Hh].
  apply andb_prop in Hs. destruct Hs as [Hs Hsp]. apply andb_prop in Hs. destruct Hs as [Hsl Hsh].
  apply andb_true_intro. split; [apply andb_true_intro; split|].
  - lia.
  - destruct (hi r) as [hr|]; [|reflexivity]. destruct (hi g) as [hg|]; [|discriminate]. lia.
  - destruct (par r) as [b|]; [|reflexivity]. destruct (par g) as [b'|]; [|discriminate].
    apply Bool.eqb_prop in Hp. subst b'. exact Hsp.
Qed.
Lemma sat_lo s n : sat s n = true -> (lo s <= n)%nat.
Proof. unfold sat. intro H. apply andb_prop in H. destruct H as [H _]. apply andb_prop in H. destruct H as [H _]. lia. Qed.
Lemma sat_par s n b : par s = Some b -> sat s n = true -> Nat.even n = b.
Proof. unfold sat. intros Hp H. rewrite Hp in H. apply andb_prop in H. destruct H as [_ H]. apply Bool.eqb_prop in H. exact H. Qed.
Lemma sat_intro lo0 hi0 par0 n :
  (lo0 <= n)%nat -> (match hi0 with Some h => (n <= h)%nat | None => True end) ->
  (match par0 with Some b => Nat.even n = b | None => True end) -> sat (mkA lo0 hi0 par0) n = true.
Proof.
  intros Hl Hh Hp. unfold sat; simpl. apply andb_true_intro; split; [apply andb_true_intro; split|].
  - lia.
  - destruct hi0; [lia|reflexivity].
  - destruct par0; [rewrite Hp; apply Bool.eqb_reflx|reflexivity].
Qed.

(* ====================== apply side ====================== *)
Section Apply.
Variable pf : bytes -> option N.

Lemma need_ok a i k : (i < alen a)%nat -> need a i k = k.
Proof. unfold need. intro H. destruct (Nat.ltb i (alen a)) eqn:E; [reflexivity|lia]. Qed.
Lemma need_slice_ok a i k : (i <= alen a)%nat -> need_slice a i k = k.
Proof. unfold need_slice. intro H. destruct (Nat.leb i (alen a)) eqn:E; [reflexivity|lia]. Qed.
Lemma parse_i_np a i k : (i < alen a)%nat -> k <> APanic -> parse_i a i k <> APanic.
Proof. unfold parse_i. intros H Hk. rewrite need_ok by exact H. destruct (parse_int (arg a i)); [exact Hk|discriminate]. Qed.
Lemma parse_f_np a i k : (i < alen a)%nat -> k <> APanic -> parse_f pf a i k <> APanic.
Proof. unfold parse_f. intros H Hk. rewrite need_ok by exact H. destruct (pf (arg a i)); [exact Hk|discriminate]. Qed.


Lemma score_pairs_even l : Nat.even (length l) = true -> score_pairs pf l <> PairsPanic.
Proof.
  remember (length l) as n eqn:Hn. revert l Hn.
  induction n as [n IH] using lt_wf_ind. intros l Hn He.
  destruct l as [|s [|m rest]].
  - discriminate.
  - simpl in Hn. subst n. discriminate.
  - Time cbn [score_pairs].
    Time destruct (pf s) as [x|]; [|discriminate].
    Time destruct (f_isnan x); [discriminate|].
    apply (IH (length rest)); [simpl in Hn; lia|reflexivity|].
    simpl in Hn. subst n. simpl in He. exact He.
Qed.
End Apply.
