From ZV Require Import Common.Bytes Part.Model Place.Consts Place.Model.
Open Scope N_scope.
Eval vm_compute in rebalance balance_v2_str [110;115] 1 2 [[[120];[98;49];[98;50]]] [([98;49], TagAbsent); ([98;50], TagAbsent)].
Eval vm_compute in rebalance balance_v2_str [110;115] 1 1 [[[98;49]];[[98;49]];[[98;49]];[[98;49]]] [([98;49], TagAbsent); ([98;50], TagAbsent)].
