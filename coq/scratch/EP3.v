From ZV Require Import Common.Bytes Common.BytesFacts Expire.Consts Expire.Model Expire.Proofs.
From ZV Require Import scratch.EP2.
From Coq Require Import ZifyBool Lia.
Open Scope Z_scope.

Arguments ttl_of : simpl never.
Arguments is_expired : simpl never.
Arguments sec : simpl never.

(* ---------- the relation "equal except for dead content" ---------- *)
Section Rel.
  Variables (T : Z) (t0 : ty) (k0 : bytes) (g : Z).

  Definition hdead (h : hdr) : Prop := h_exp h <> 0 /\ h_exp h <= T.
  Definition kvdead (o : option (hdr * bytes)) : Prop := match o with None => True | Some (h, _) => hdead h end.
  Definition mdead (o : option meta) : Prop := match o with None => True | Some m => hdead (m_hdr m) end.
  Definition kv_same (a b : option (hdr * bytes)) : Prop :=
    match a, b with
    | None, None => True
    | Some (h1, v1), Some (h2, v2) => h_exp h1 = h_exp h2 /\ v1 = v2
    | _, _ => False
    end.

  Record R (s1 s2 : store) : Prop := mkR {
    R_kv : forall k, kv_same (kv_get s1 k) (kv_get s2 k) \/
                     (t0 = TK /\ k = k0 /\ kvdead (kv_get s1 k) /\ kvdead (kv_get s2 k));
    R_meta : forall t k, meta_get s1 t k = meta_get s2 t k \/
                         (t = t0 /\ k = k0 /\ mdead (meta_get s1 t k) /\ mdead (meta_get s2 t k));
    R_el : forall t k v sb, (t, k, v) <> (t0, k0, g) -> el_get s1 t k v sb = el_get s2 t k v sb;
    R_elof : forall t k v, (t, k, v) <> (t0, k0, g) -> el_of s1 t k v = el_of s2 t k v;
    R_live1 : forall m, meta_get s1 t0 k0 = Some m -> (~ hdead (m_hdr m) -> h_ver (m_hdr m) <> g) /\ h_ver (m_hdr m) <> 0;
    R_live2 : forall m, meta_get s2 t0 k0 = Some m -> (~ hdead (m_hdr m) -> h_ver (m_hdr m) <> g) /\ h_ver (m_hdr m) <> 0;
    R_zero1 : forall sb, el_get s1 t0 k0 0 sb = None;
    R_zero2 : forall sb, el_get s2 t0 k0 0 sb = None;
    R_tidx : tidx s1 = tidx s2
  }.

  Lemma kv_same_refl a : kv_same a a.
  Proof. destruct a as [[h v]|]; simpl; auto. Qed.

  Lemma hdead_expired h ts : hdead h -> ts <> 0 -> T <= sec ts -> is_expired Compact h ts = true.
  Proof. intros [H1 H2] H3 H4. apply is_expired_spec. lia. Qed.

  Lemma expired_exp h1 h2 ts : h_exp h1 = h_exp h2 -> is_expired Compact h1 ts = is_expired Compact h2 ts.
  Proof. unfold is_expired. now intros ->. Qed.

  (* ----- congruence of R under the primitive store operations ----- *)
  Lemma mkey_dec (t : ty) (k : bytes) (t' : ty) (k' : bytes) : mkey_eqb (t', k') (t, k) = true -> t' = t /\ k' = k.
  Proof. intros H. apply mkey_eqb_eq in H. now inversion H. Qed.

  Lemma R_kv_put s1 s2 k h1 h2 v : R s1 s2 -> h_exp h1 = h_exp h2 -> R (kv_put s1 k h1 v) (kv_put s2 k h2 v).
  Proof.
    intros [A B C D E F Z1 Z2 G] He. constructor; auto.
    intros k'. rewrite !kv_get_put. destruct (bytes_eqb k' k); [left; simpl; auto | apply A].
  Qed.
  Lemma R_kv_del s1 s2 k : R s1 s2 -> R (kv_del s1 k) (kv_del s2 k).
  Proof.
    intros [A B C D E F Z1 Z2 G]. constructor; auto.
    intros k'. rewrite !kv_get_del. destruct (bytes_eqb k' k); [left; simpl; auto | apply A].
  Qed.
  Lemma R_meta_put s1 s2 t k m : R s1 s2 ->
    ((t, k) = (t0, k0) -> (~ hdead (m_hdr m) -> h_ver (m_hdr m) <> g) /\ h_ver (m_hdr m) <> 0) ->
    R (meta_put s1 t k m) (meta_put s2 t k m).
  Proof.
    intros [A B C D E F Z1 Z2 G] Hg. constructor; auto.
    - intros t' k'. rewrite !meta_get_put. destruct (mkey_eqb (t', k') (t, k)); [left; auto | apply B].
    - intros m'. rewrite meta_get_put. destruct (mkey_eqb (t0, k0) (t, k)) eqn:X.
      + apply mkey_eqb_eq in X. intros Hm; inversion Hm; subst m'. apply Hg. now symmetry.
      + apply E.
    - intros m'. rewrite meta_get_put. destruct (mkey_eqb (t0, k0) (t, k)) eqn:X.
      + apply mkey_eqb_eq in X. intros Hm; inversion Hm; subst m'. apply Hg. now symmetry.
      + apply F.
  Qed.
  Lemma R_meta_del s1 s2 t k : R s1 s2 -> R (meta_del s1 t k) (meta_del s2 t k).
  Proof.
    intros [A B C D E F Z1 Z2 G]. constructor; auto.
    - intros t' k'. rewrite !meta_get_del. destruct (mkey_eqb (t', k') (t, k)); [left; auto | apply B].
    - intros m'. rewrite meta_get_del. destruct (mkey_eqb (t0, k0) (t, k)); [discriminate | apply E].
    - intros m'. rewrite meta_get_del. destruct (mkey_eqb (t0, k0) (t, k)); [discriminate | apply F].
  Qed.
  Lemma R_el_put s1 s2 t k v sb x : R s1 s2 -> (t, k, v) <> (t0, k0, g) -> (t, k, v) <> (t0, k0, 0) ->
    R (el_put s1 t k v sb x) (el_put s2 t k v sb x).
  Proof.
    intros [A B C D E F Z1 Z2 G] Hn Hz. constructor; auto.
    - intros t' k' v' sb' Hn'. rewrite !el_get_put. destruct (ekey_eqb _ _); auto.
    - intros t' k' v' Hn'. rewrite !el_of_put. rewrite (D _ _ _ Hn'). reflexivity.
    - intros sb'. rewrite el_get_put. destruct (ekey_eqb _ _) eqn:X; auto.
      apply ekey_eqb_eq in X. inversion X; subst. contradiction.
    - intros sb'. rewrite el_get_put. destruct (ekey_eqb _ _) eqn:X; auto.
      apply ekey_eqb_eq in X. inversion X; subst. contradiction.
  Qed.
  Lemma R_el_del s1 s2 t k v sb : R s1 s2 -> (t, k, v) <> (t0, k0, g) ->
    R (el_del s1 t k v sb) (el_del s2 t k v sb).
  Proof.
    intros [A B C D E F Z1 Z2 G] Hn. constructor; auto.
    - intros t' k' v' sb' Hn'. rewrite !el_get_del. destruct (ekey_eqb _ _); auto.
    - intros t' k' v' Hn'. rewrite !el_of_del. rewrite (D _ _ _ Hn'). reflexivity.
    - intros sb'. rewrite el_get_del. destruct (ekey_eqb _ _); auto.
    - intros sb'. rewrite el_get_del. destruct (ekey_eqb _ _); auto.
  Qed.
  Lemma R_fold_el_put {A} s1 s2 t k v (f : A -> skey) (fx : A -> eval) l : R s1 s2 -> (t, k, v) <> (t0, k0, g) -> (t, k, v) <> (t0, k0, 0) ->
    R (fold_left (fun st a => el_put st t k v (f a) (fx a)) l s1) (fold_left (fun st a => el_put st t k v (f a) (fx a)) l s2).
  Proof. revert s1 s2. induction l as [|a l IH]; intros s1 s2 H Hn Hz; simpl; auto. apply IH; auto. now apply R_el_put. Qed.
  Lemma R_fold_el_del {A} s1 s2 t k v (f : A -> skey) l : R s1 s2 -> (t, k, v) <> (t0, k0, g) ->
    R (fold_left (fun st a => el_del st t k v (f a)) l s1) (fold_left (fun st a => el_del st t k v (f a)) l s2).
  Proof. revert s1 s2. induction l as [|a l IH]; intros s1 s2 H Hn; simpl; auto. apply IH; auto. now apply R_el_del. Qed.

  (* one-sided no-ops *)
  Lemma R_meta_del_none_r s1 s2 t k : R s1 s2 -> meta_get s2 t k = None -> R s1 (meta_del s2 t k).
  Proof.
    intros [A B C D E F Z1 Z2 G] Hn. constructor; auto.
    - intros t' k'. rewrite meta_get_del. destruct (mkey_eqb (t', k') (t, k)) eqn:X; [|apply B].
      apply mkey_dec in X as [-> ->]. rewrite <- Hn. apply B.
    - intros m'. rewrite meta_get_del. destruct (mkey_eqb (t0, k0) (t, k)); [discriminate | apply F].
  Qed.
  Lemma R_meta_del_none_l s1 s2 t k : R s1 s2 -> meta_get s1 t k = None -> R (meta_del s1 t k) s2.
  Proof.
    intros [A B C D E F Z1 Z2 G] Hn. constructor; auto.
    - intros t' k'. rewrite meta_get_del. destruct (mkey_eqb (t', k') (t, k)) eqn:X; [|apply B].
      apply mkey_dec in X as [-> ->]. rewrite <- Hn. apply B.
    - intros m'. rewrite meta_get_del. destruct (mkey_eqb (t0, k0) (t, k)); [discriminate | apply E].
  Qed.
End Rel.
