(* Place/ProofsFreshGen.v — C17, part 7b: V2 fresh layouts for ALL sizes.
   The fill phase on an empty previous layout is shown to produce, for partition t, the window of r cyclically
   consecutive nameIndex positions starting at (t*r) mod n, led by the first position of the window that has
   not led in the current round (ProofsProbe.v), and to leave balanced load maps (so no move happens). *)
From ZV Require Import Common.Bytes Common.BytesFacts Part.Model Place.Consts Place.Model Place.Proofs Place.ProofsV2
  Place.SweepDefs Place.ProofsV2Fresh Place.ProofsKeep Place.ProofsProbe.
From Coq Require Import Permutation ZifyN ZifyNat ZifyBool Arith PeanoNat Sorted.
Open Scope nat_scope.

Definition nload_dec : forall a b : nload, {a = b} + {a <> b}.
Proof. decide equality; try apply (list_eq_dec N.eq_dec); apply N.eq_dec. Defined.

(* the least element of a duplicate-free list under an asymmetric comparison is what min_by returns *)
Lemma min_by_is ltb (asym : forall a b, ltb a b = true -> ltb b a = false) : forall l x,
  NoDup l -> In x l -> (forall y, In y l -> y <> x -> ltb x y = true) -> min_by ltb l = Some x.
Proof.
  induction l as [|a l IH]; intros x Hnd Hin Hleast; [destruct Hin|].
  inversion Hnd as [|? ? Hna Hnd']; subst. simpl.
  destruct (nload_dec a x) as [->|Hax].
  - destruct (min_by ltb l) as [m0|] eqn:E; [|reflexivity].
    assert (Hm0 : In m0 l) by (eapply min_by_in; exact E).
    assert (m0 <> x) by (intros ->; contradiction).
    rewrite (asym x m0); [reflexivity|]. apply Hleast; [right; exact Hm0|assumption].
  - destruct Hin as [->|Hin]; [congruence|].
    rewrite (IH x Hnd' Hin); [|intros y Hy Hne; apply Hleast; [right; exact Hy|exact Hne]].
    rewrite Hleast; [reflexivity|left; reflexivity|exact Hax].
Qed.

Section FreshGen.
Variables g m r' : nat.
Hypothesis g_pos : 0 < g.
Hypothesis m_pos : 0 < m.
Hypothesis r'_pos : 0 < r'.
Hypothesis coprime : Nat.gcd m r' = 1.
Notation n := (g * m).
Notation r := (g * r').
Hypothesis r_le : r <= n.
Variable ring : list (list N).
Hypothesis ring_nd : NoDup ring.
Hypothesis ring_noempty : ~ In [] ring.
Hypothesis ring_len : length ring = n.
Variable h : N.

Lemma n_pos' : 0 < n. Proof. nia. Qed.
Let H := N.to_nat h mod n.
Lemma H_lt : H < n. Proof. apply Nat.mod_upper_bound. pose proof n_pos'. lia. Qed.

(* ring position <-> nameIndex *)
Definition ix (s : nat) : nat := cpos n H s.
Definition posn (i : nat) : nat := crank n H i.
Definition nm (i : nat) : list N := nth (posn i) ring [].

Lemma nm_in i : In (nm i) ring.
Proof. apply nth_In. rewrite ring_len. apply crank_lt. Show. 
