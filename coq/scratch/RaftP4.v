From Coq Require Import List NArith PeanoNat Bool Lia ZifyN ZifyNat ZifyBool.
Import ListNotations.
From ZV Require Import Raft.Consts Raft.Model Raft.Proofs Raft.ProofsLog.
Open Scope N_scope.
Arguments N.mul : simpl never.
Arguments N.add : simpl never.
Arguments N.sub : simpl never.

(* ====================================================================================== *)
(* 9. persist + stableTo: what leaves the unstable part is exactly what the storage now holds;
      the combined log is unchanged and the node can be rebuilt from the storage alone *)
Theorem persist_then_stable : forall l m off e0 r,
  wf_mlog l m off -> u_snap (l_u l) = None -> u_ents (l_u l) = e0 :: r ->
  exists m' le l2,
    ms_append m (e0 :: r) = Ok m' /\ last_opt (e0 :: r) = Some le /\
    l_stable_to (set_st l (SMem m')) (eindex le) (eterm le) = Ok l2 /\
    wf_mlog l2 m' off /\ u_ents (l_u l2) = [] /\ u_off (l_u l2) = eindex le + 1 /\
    mlast l2 m' off = mlast l m off /\
    (forall i, off < i -> i <= mlast l m off -> log_entry (l_u l2) m' off i = log_entry (l_u l) m off i) /\
    (forall i, off < i -> i <= mlast l m off -> nnth (i - off) (ms_ents m') = log_entry (l_u l) m off i).
Proof.
  intros l m off e0 r Hwf Hns Hue.
  pose proof Hwf as (Hs & Hm & Ho & Hu & Hsn). rewrite Hns in Hsn. destruct Hsn as (Hs1 & Hs2 & _).
  unfold wf_u in Hu. rewrite Hue in Hu. pose proof Hu as [Hu0 _].
  set (uoff := u_off (l_u l)) in *.
  assert (Hgap : eindex e0 <= off + nlen (ms_ents m)) by lia.
  assert (Hc0 : contig (eindex e0) (e0 :: r)) by (rewrite Hu0; exact Hu).
  destruct (ms_append_spec m e0 r Hm Hc0 off Ho Hgap) as (m' & Ha & Hm' & Hsi & Hst & Ho' & _ & Hents).
  assert (Hn1 : 1 <= nlen (e0 :: r)) by (unfold nlen; simpl; lia).
  specialize (Hents ltac:(lia)).
  pose proof (wf_ms_contig_off _ _ Hm Ho) as Hmc.
  assert (Hents2 : ms_ents m' = nfirstn (uoff - off) (ms_ents m) ++ e0 :: r).
  { rewrite Hents. f_equal.
    - replace (N.max (eindex e0) (off + 1)) with uoff by lia. unfold nfirstn. apply contig_filter_lt. exact Hmc.
    - rewrite (contig_filter_ge _ _ (off + 1) Hc0). replace (N.to_nat (off + 1 - eindex e0)) with 0%nat by lia. reflexivity. }
  destruct (contig_last_index _ _ Hc0 ltac:(discriminate)) as (le & Hle & Hlei).
  exists m', le. unfold l_stable_to. cbn [set_st l_u].
  destruct (stable_to_drops_prefix (l_u l) (eindex le) (eterm le)) as (u' & Hst' & Hcase & Hwfu').
  { unfold wf_u. rewrite Hue. exact Hu. }
  { intros si st Hx. congruence. }
  rewrite Hst'. cbn [bind]. eexists. split; [exact Ha|]. split; [exact Hle|]. split; [reflexivity|].
  (* the entry at the last index exists and has the right term, so stableTo takes effect *)
  assert (Hnth : nnth (eindex le - uoff) (u_ents (l_u l)) = Some le).
  { rewrite Hue. unfold nnth. replace (N.to_nat (eindex le - uoff)) with (length (e0 :: r) - 1)%nat by (unfold nlen in *; lia).
    clear -Hle. unfold last_opt in Hle. revert Hle. generalize (e0 :: r). intros es. induction es as [|x es IH]; intros H; [discriminate|].
    destruct es as [|y es']; [simpl in *; exact H|]. replace (length (x :: y :: es') - 1)%nat with (S (length (y :: es') - 1)) by (simpl; lia).
    simpl nth_error. apply IH. exact H. }
  assert (Hu' : u_ents u' = [] /\ u_off u' = eindex le + 1 /\ u_snap u' = None).
  { unfold u_stable_to, u_maybe_term in Hst'. fold uoff in Hst'.
    replace (eindex le <? uoff) with false in Hst' by (symmetry; apply N.ltb_ge; lia).
    unfold u_maybe_last_index in Hst'. rewrite Hue in Hst'. fold uoff in Hst'.
    replace (uoff + nlen (e0 :: r) - 1 <? eindex le) with false in Hst' by (symmetry; apply N.ltb_ge; lia).
    rewrite <- Hue in Hst'. rewrite Hnth in Hst'. cbn [bind] in Hst'.
    rewrite N.eqb_refl in Hst'. replace (uoff <=? eindex le) with true in Hst' by (symmetry; apply N.leb_le; lia).
    cbn [andb] in Hst'. injection Hst' as <-. cbn [u_ents u_off u_snap]. split; [|split; [reflexivity|exact Hns]].
    unfold nskipn. rewrite Hue. apply skipn_all2. unfold nlen in *. lia. }
  destruct Hu' as (Hue' & Huo' & Hus').
  assert (Hlen' : nlen (ms_ents m') = (uoff - off) + nlen (e0 :: r)).
  { rewrite Hents2. unfold nlen, nfirstn. rewrite app_length, firstn_length. unfold nlen in *. lia. }
  split.
  { unfold wf_mlog. cbn [set_u set_st l_st l_u]. split; [reflexivity|]. split; [exact Hm'|]. split; [exact Ho'|]. split; [exact Hwfu'|].
    rewrite Hus'. split; [lia|]. split; [lia|]. intros _. lia. }
  split; [exact Hue'|]. split; [exact Huo'|]. split.
  { unfold mlast. cbn [set_u set_st l_u]. rewrite Hue', Hus', Hue. fold uoff. lia. }
  assert (Hstore : forall i, off < i -> i <= mlast l m off -> nnth (i - off) (ms_ents m') = log_entry (l_u l) m off i).
  { intros i Hi1 Hi2. unfold mlast in Hi2. rewrite Hue in Hi2. fold uoff in Hi2.
    unfold log_entry. fold uoff. rewrite Hents2. unfold nnth.
    destruct (uoff <=? i) eqn:E.
    - apply N.leb_le in E. rewrite nth_error_app2 by (unfold nfirstn; rewrite firstn_length; unfold nlen in *; lia).
      unfold nfirstn. rewrite firstn_length. rewrite Hue.
      f_equal. unfold nlen in *. lia.
    - apply N.leb_gt in E. replace (off <? i) with true by (symmetry; apply N.ltb_lt; lia).
      rewrite nth_error_app1 by (unfold nfirstn; rewrite firstn_length; unfold nlen in *; lia).
      unfold nfirstn. apply nth_error_firstn_lt. lia. }
  split; [|exact Hstore].
  intros i Hi1 Hi2. rewrite <- (Hstore i Hi1 Hi2). unfold log_entry. cbn [set_u set_st l_u]. rewrite Huo'.
  unfold mlast in Hi2. rewrite Hue in Hi2. fold uoff in Hi2.
  replace (eindex le + 1 <=? i) with false by (symmetry; apply N.leb_gt; lia).
  replace (off <? i) with true by (symmetry; apply N.ltb_lt; lia). reflexivity.
Qed.
