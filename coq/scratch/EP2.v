From ZV Require Import Common.Bytes Common.BytesFacts Expire.Consts Expire.Model Expire.Proofs.
From Coq Require Import ZifyBool Lia.
Open Scope Z_scope.

(* ---------- el_of through the primitives ---------- *)
Definition gen_eqb (a b : ty * bytes * Z) : bool :=
  match a, b with (t, k, v), (t', k', v') => ty_eqb t t' && bytes_eqb k k' && (v =? v') end.
Lemma gen_eqb_eq a b : gen_eqb a b = true <-> a = b.
Proof.
  destruct a as [[t k] v], b as [[t' k'] v']. unfold gen_eqb.
  rewrite !andb_true_iff, ty_eqb_eq, bytes_eqb_eq, Z.eqb_eq.
  split; [intros [[-> ->] ->]; auto | intros H; inversion H; auto].
Qed.
Lemma gen_eqb_refl a : gen_eqb a a = true. Proof. now apply gen_eqb_eq. Qed.
Lemma gen_eqb_neq a b : a <> b -> gen_eqb a b = false.
Proof. intros H. destruct (gen_eqb a b) eqn:E; auto. apply gen_eqb_eq in E. contradiction. Qed.

Definition el_of_list (l : list (ekey * eval)) (t : ty) (k : bytes) (ver : Z) : list (skey * eval) :=
  flat_map (fun e => match e with ((t', k', v', sb), x) =>
     if ty_eqb t t' && bytes_eqb k k' && (ver =? v') then [(sb, x)] else [] end) l.
Lemma el_of_unfold s t k v : el_of s t k v = el_of_list (elems s) t k v.
Proof. reflexivity. Qed.

Lemma el_of_list_adel l t k v sb t' k' v' :
  el_of_list (adel ekey_eqb (t, k, v, sb) l) t' k' v' =
  if gen_eqb (t', k', v') (t, k, v)
  then filter (fun e => negb (sub_eqb (fst e) sb)) (el_of_list l t' k' v')
  else el_of_list l t' k' v'.
Proof.
  induction l as [|[[[[t1 k1] v1] sb1] x] l IH].
  - cbn [adel el_of_list flat_map filter]. now destruct (gen_eqb (t', k', v') (t, k, v)).
  - cbn [adel]. destruct (ekey_eqb (t, k, v, sb) (t1, k1, v1, sb1)) eqn:E.
    + apply ekey_eqb_eq in E. inversion E; subst t1 k1 v1 sb1. rewrite IH.
      cbn [el_of_list flat_map]. fold (el_of_list l t' k' v').
      change (ty_eqb t' t && bytes_eqb k' k && (v' =? v)) with (gen_eqb (t', k', v') (t, k, v)).
      destruct (gen_eqb (t', k', v') (t, k, v)) eqn:G; auto.
      cbn [app filter fst]. rewrite (proj2 (sub_eqb_eq sb sb) eq_refl). reflexivity.
    + cbn [el_of_list flat_map]. fold (el_of_list l t' k' v'). fold (el_of_list (adel ekey_eqb (t, k, v, sb) l) t' k' v').
      rewrite IH.
      change (ty_eqb t' t1 && bytes_eqb k' k1 && (v' =? v1)) with (gen_eqb (t', k', v') (t1, k1, v1)).
      destruct (gen_eqb (t', k', v') (t1, k1, v1)) eqn:G1; auto.
      apply gen_eqb_eq in G1. inversion G1; subst t1 k1 v1.
      destruct (gen_eqb (t', k', v') (t, k, v)) eqn:G; auto.
      apply gen_eqb_eq in G. inversion G; subst t k v.
      cbn [app filter fst].
      assert (sub_eqb sb1 sb = false) as ->.
      { destruct (sub_eqb sb1 sb) eqn:F; auto. apply sub_eqb_eq in F. subst.
        unfold ekey_eqb in E. rewrite (proj2 (ty_eqb_eq t' t') eq_refl), bytes_eqb_refl, Z.eqb_refl in E.
        rewrite (proj2 (sub_eqb_eq sb sb) eq_refl) in E. discriminate. }
      reflexivity.
Qed.

Lemma el_of_put s t k v sb x t' k' v' :
  el_of (el_put s t k v sb x) t' k' v' =
  if gen_eqb (t', k', v') (t, k, v)
  then (sb, x) :: filter (fun e => negb (sub_eqb (fst e) sb)) (el_of s t' k' v')
  else el_of s t' k' v'.
Proof.
  rewrite !el_of_unfold. unfold el_put, aset. cbn [elems el_of_list flat_map].
  fold (el_of_list (adel ekey_eqb (t, k, v, sb) (elems s)) t' k' v'). rewrite el_of_list_adel.
  change (ty_eqb t' t && bytes_eqb k' k && (v' =? v)) with (gen_eqb (t', k', v') (t, k, v)).
  destruct (gen_eqb (t', k', v') (t, k, v)); reflexivity.
Qed.
Lemma el_of_del s t k v sb t' k' v' :
  el_of (el_del s t k v sb) t' k' v' =
  if gen_eqb (t', k', v') (t, k, v)
  then filter (fun e => negb (sub_eqb (fst e) sb)) (el_of s t' k' v')
  else el_of s t' k' v'.
Proof. rewrite !el_of_unfold. unfold el_del. cbn [elems]. apply el_of_list_adel. Qed.
Lemma el_of_kv_put s k h x t' k' v' : el_of (kv_put s k h x) t' k' v' = el_of s t' k' v'. Proof. reflexivity. Qed.
Lemma el_of_kv_del s k t' k' v' : el_of (kv_del s k) t' k' v' = el_of s t' k' v'. Proof. reflexivity. Qed.
Lemma el_of_meta_put s t k m t' k' v' : el_of (meta_put s t k m) t' k' v' = el_of s t' k' v'. Proof. reflexivity. Qed.
Lemma el_of_meta_del s t k t' k' v' : el_of (meta_del s t k) t' k' v' = el_of s t' k' v'. Proof. reflexivity. Qed.
