From ZV Require Import Place.ProofsProbe.
Check off_lt. Check ld_lt. Check lc_split. Check ld_fresh. Check led_le1. Check before_leader_led. Check rank_pos. Check rank_inj. Check pos_rank. Check rc_order. Check lc_S. Check rc_S. Check led_in. Check rc_formula. Check wst_lt. Check rank_lt.
