From ZV Require Import Common.Bytes.
From Coq Require Import Lia ZArith.
Open Scope N_scope.

Definition b64char (i : N) : N :=
  if i <? 26 then 65 + i else if i <? 52 then 97 + (i - 26) else if i <? 62 then 48 + (i - 52)
  else if i =? 62 then 43 else 47.
Definition b64val (c : N) : option N :=
  if (65 <=? c) && (c <=? 90) then Some (c - 65)
  else if (97 <=? c) && (c <=? 122) then Some (c - 97 + 26)
  else if (48 <=? c) && (c <=? 57) then Some (c - 48 + 52)
  else if c =? 43 then Some 62 else if c =? 47 then Some 63 else None.
Definition pad : N := 61.

Fixpoint b64enc (l : bytes) : bytes :=
  match l with
  | [] => []
  | [a] => [b64char (a / 4); b64char ((a mod 4) * 16); pad; pad]
  | [a; b] => [b64char (a / 4); b64char ((a mod 4) * 16 + b / 16); b64char ((b mod 16) * 4); pad]
  | a :: b :: c :: r =>
      b64char (a / 4) :: b64char ((a mod 4) * 16 + b / 16) :: b64char ((b mod 16) * 4 + c / 64)
      :: b64char (c mod 64) :: b64enc r
  end.

Fixpoint b64dec (l : bytes) : option bytes :=
  match l with
  | [] => Some []
  | c0 :: c1 :: c2 :: c3 :: r =>
      match b64val c0, b64val c1 with
      | Some v0, Some v1 =>
          if c2 =? pad then
            if (c3 =? pad) then match r with [] => Some [v0 * 4 + v1 / 16] | _ => None end else None
          else match b64val c2 with
               | None => None
               | Some v2 =>
                   if c3 =? pad then
                     match r with [] => Some [v0 * 4 + v1 / 16; (v1 mod 16) * 16 + v2 / 4] | _ => None end
                   else match b64val c3 with
                        | None => None
                        | Some v3 =>
                            match b64dec r with
                            | Some t => Some ((v0 * 4 + v1 / 16) :: ((v1 mod 16) * 16 + v2 / 4) :: ((v2 mod 4) * 64 + v3) :: t)
                            | None => None
                            end
                        end
               end
      | _, _ => None
      end
  | _ => None
  end.

Lemma b64val_char i : i < 64 -> b64val (b64char i) = Some i.
Proof.
  intro H. unfold b64char.
  destruct (N.ltb_spec i 26); [unfold b64val|destruct (N.ltb_spec i 52); [unfold b64val|destruct (N.ltb_spec i 62); [unfold b64val|]]].
  - replace ((65 <=? 65 + i) && (65 + i <=? 90)) with true by (symmetry; apply andb_true_iff; split; apply N.leb_le; lia).
    f_equal. lia.
  - replace ((65 <=? 97 + (i - 26)) && (97 + (i - 26) <=? 90)) with false by (symmetry; apply andb_false_iff; right; apply N.leb_gt; lia).
    replace ((97 <=? 97 + (i - 26)) && (97 + (i - 26) <=? 122)) with true by (symmetry; apply andb_true_iff; split; apply N.leb_le; lia).
    f_equal. lia.
  - replace ((65 <=? 48 + (i - 52)) && (48 + (i - 52) <=? 90)) with false by (symmetry; apply andb_false_iff; left; apply N.leb_gt; lia).
    replace ((97 <=? 48 + (i - 52)) && (48 + (i - 52) <=? 122)) with false by (symmetry; apply andb_false_iff; left; apply N.leb_gt; lia).
    replace ((48 <=? 48 + (i - 52)) && (48 + (i - 52) <=? 57)) with true by (symmetry; apply andb_true_iff; split; apply N.leb_le; lia).
    f_equal. lia.
  - assert (i = 62 \/ i = 63) as [-> | ->] by lia; reflexivity.
Qed.

Lemma b64char_range i : i < 64 -> 43 <= b64char i <= 122 /\ b64char i <> 58 /\ b64char i <> 59 /\ b64char i <> pad.
Proof.
  intro H. unfold b64char, pad.
  destruct (N.ltb_spec i 26); [lia|]. destruct (N.ltb_spec i 52); [lia|]. destruct (N.ltb_spec i 62); [lia|].
  destruct (N.eqb_spec i 62); lia.
Qed.

Ltac Zify.zify_post_hook ::= Z.to_euclidean_division_equations.

Lemma b64_group a b c : a < 256 -> b < 256 -> c < 256 ->
  a / 4 < 64 /\ (a mod 4) * 16 + b / 16 < 64 /\ (b mod 16) * 4 + c / 64 < 64 /\ c mod 64 < 64 /\
  (a / 4) * 4 + ((a mod 4) * 16 + b / 16) / 16 = a /\
  (((a mod 4) * 16 + b / 16) mod 16) * 16 + ((b mod 16) * 4 + c / 64) / 4 = b /\
  (((b mod 16) * 4 + c / 64) mod 4) * 64 + c mod 64 = c.
Proof. intros. repeat split; lia. Qed.
