From ZV Require Import Common.Bytes Wal.Consts Wal.Crc Wal.Proto Wal.Model
  Wal.ProofsCrc Wal.ProofsProto Wal.ProofsFrame.
From Coq Require Import ZifyN ZifyNat ZifyBool Lia.
Open Scope N_scope.

Lemma le64_dec_sum b0 b1 b2 b3 b4 b5 b6 b7 :
  le64_dec [b0; b1; b2; b3; b4; b5; b6; b7] =
  b0 + 256 * b1 + 65536 * b2 + 16777216 * b3 + 4294967296 * b4 + 1099511627776 * b5
  + 281474976710656 * b6 + 72057594037927936 * b7.
Proof. unfold le64_dec. rewrite !N.shiftl_mul_pow2. lia. Time Qed.

Lemma partial_sum_bound b0 b1 b2 b3 b4 b5 b6 b7 j :
  b0 < 256 -> b1 < 256 -> b2 < 256 -> b3 < 256 -> b4 < 256 -> b5 < 256 -> b6 < 256 -> j < 8 ->
  le64_dec (btake j [b0; b1; b2; b3; b4; b5; b6; b7] ++ zeros (8 - j)) <=
    b0 + 256 * b1 + 65536 * b2 + 16777216 * b3 + 4294967296 * b4 + 1099511627776 * b5 + 281474976710656 * b6.
Proof.
  intros.
  assert (C : j = 0 \/ j = 1 \/ j = 2 \/ j = 3 \/ j = 4 \/ j = 5 \/ j = 6 \/ j = 7) by lia.
  destruct C as [->|[->|[->|[->|[->|[->|[->| ->]]]]]]];
    cbn [btake N.eqb Pos.eqb N.pred Pos.pred_N Pos.pred_double]; 
    match goal with |- context [zeros ?k] => let z := eval vm_compute in (zeros k) in change (zeros k) with z end;
    cbn [app]; rewrite le64_dec_sum; lia.
Time Qed.
