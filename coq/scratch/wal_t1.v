From ZV Require Import Common.Bytes Wal.Consts Wal.Crc Wal.Proto Wal.Model
  Wal.ProofsCrc Wal.ProofsProto Wal.ProofsFrame.
From Coq Require Import ZifyN ZifyNat ZifyBool Lia.
Open Scope N_scope.

Lemma le64_dec_sum b0 b1 b2 b3 b4 b5 b6 b7 :
  le64_dec [b0; b1; b2; b3; b4; b5; b6; b7] =
  b0 + 256 * b1 + 65536 * b2 + 16777216 * b3 + 4294967296 * b4 + 1099511627776 * b5
  + 281474976710656 * b6 + 72057594037927936 * b7.
Proof. unfold le64_dec. rewrite !N.shiftl_mul_pow2. lia. Qed.

(* a length field of which only the first j < 8 bytes were written *)
Lemma le64_partial v j : v < 2 ^ 64 -> j < 8 ->
  let l := le64_dec (btake j (le64 v) ++ zeros (8 - j)) in l <= v mod 2 ^ 56 /\ l < 2 ^ 56.
Proof.
  intros Hv Hj.
  pose proof (le64_roundtrip v Hv) as Hr. unfold le64 in *.
  pose proof (byte_of_lt v 0). pose proof (byte_of_lt v 1). pose proof (byte_of_lt v 2).
  pose proof (byte_of_lt v 3). pose proof (byte_of_lt v 4). pose proof (byte_of_lt v 5).
  pose proof (byte_of_lt v 6). pose proof (byte_of_lt v 7).
  remember (byte_of v 0) as b0 eqn:E0. remember (byte_of v 1) as b1 eqn:E1. remember (byte_of v 2) as b2 eqn:E2.
  remember (byte_of v 3) as b3 eqn:E3. remember (byte_of v 4) as b4 eqn:E4. remember (byte_of v 5) as b5 eqn:E5.
  remember (byte_of v 6) as b6 eqn:E6. remember (byte_of v 7) as b7 eqn:E7.
  clear E0 E1 E2 E3 E4 E5 E6 E7.
  rewrite le64_dec_sum in Hr.
  assert (Hm : v mod 2 ^ 56 = b0 + 256 * b1 + 65536 * b2 + 16777216 * b3 + 4294967296 * b4 + 1099511627776 * b5
               + 281474976710656 * b6).
  { symmetry. change (2 ^ 56) with 72057594037927936.
    apply (N.mod_unique v 72057594037927936 b7); lia. }
  rewrite Hm. change (2 ^ 56) with 72057594037927936.
  assert (C : j = 0 \/ j = 1 \/ j = 2 \/ j = 3 \/ j = 4 \/ j = 5 \/ j = 6 \/ j = 7) by lia.
  destruct C as [->|[->|[->|[->|[->|[->|[->| ->]]]]]]];
    vm_compute btake; vm_compute zeros; cbn [app]; rewrite le64_dec_sum; cbv zeta; lia.
Qed.
