From ZV Require Import RaftAbs.Model RaftAbs.Inv.
About i_CV. About i_G1. About i_L1.
