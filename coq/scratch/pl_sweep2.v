
Load "Place/SweepDefs.v".
Time Eval vm_compute in forallb (fun k => check_dkr 64 2 k 2) (seq 1 20).
Time Eval vm_compute in forallb (fun k => check_dkr 64 3 k 2 && check_dkr 64 3 k 3) (seq 1 13).
Time Eval vm_compute in forallb (fun k => check_dkr 64 4 k 2 && check_dkr 64 4 k 3 && check_dkr 64 4 k 4) (seq 1 10).
