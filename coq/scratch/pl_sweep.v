From ZV Require Import Common.Bytes Place.Model Place.SweepDefs.
Open Scope nat_scope.
Time Eval vm_compute in forallb (fun k => check_dkr 64 2 k 2) (seq 1 20).
Time Eval vm_compute in forallb (fun k => check_dkr 64 4 k 4) (seq 9 2).
