From ZV Require Import Common.Bytes Scan.Consts Scan.Model Scan.ProofsIter.
From Coq Require Import Permutation Lia PeanoNat.
Open Scope N_scope.

(* ---- model part (to go to Scan/Model.v) ---- *)
Definition mcursor : Type := list (nat * bytes).

Section MergeModel.
  Variable call : nat -> bytes -> outcome page.

  Fixpoint merged_call (ts : mcursor) : outcome (list bytes * mcursor) :=
    match ts with
    | [] => Ok ([], [])
    | (p, c) :: r =>
        match call p c with
        | Err => Err
        | Panic => Panic
        | Ok (items, nx) =>
            match merged_call r with
            | Ok (its, mc) => Ok (items ++ its, match nx with [] => mc | _ => (p, nx) :: mc end)
            | e => e
            end
        end
    end.

  Fixpoint miterate (fuel : nat) (ts : mcursor) : list (list bytes) * status :=
    match fuel with
    | O => ([], OutOfFuel)
    | S f =>
        match merged_call ts with
        | Err => ([], Failed)
        | Panic => ([], Faulted)
        | Ok (items, mc) =>
            match mc with
            | [] => ([items], Done)
            | _ => let '(ps, st) := miterate f mc in (items :: ps, st)
            end
        end
    end.
End MergeModel.

(* ---- proofs ---- *)

Inductive iter_done (call : bytes -> outcome page) : bytes -> list page -> Prop :=
| it_last c items : call c = Ok (items, []) -> iter_done call c [(items, [])]
| it_step c items nx ps :
    call c = Ok (items, nx) -> nx <> [] -> iter_done call nx ps -> iter_done call c ((items, nx) :: ps).

Lemma iterate_iter_done call : forall fuel c pages,
  iterate fuel call c = (pages, Done) -> iter_done call c pages.
Proof.
  induction fuel as [|f IH]; intros c pages H; cbn [iterate] in H; [discriminate|].
  destruct (call c) as [[items nx]| |] eqn:E; try discriminate.
  destruct nx as [|b nx'].
  - inversion H; subst. now constructor.
  - destruct (iterate f call (b :: nx')) as [ps st] eqn:E2. inversion H; subst.
    econstructor; [exact E|discriminate|]. now apply IH.
Qed.

Lemma list_max_cons x l : list_max (x :: l) = Nat.max x (list_max l).
Proof. reflexivity. Qed.

Section MergeProofs.
  Variable call : nat -> bytes -> outcome page.

  Definition all_items (pages : list page) : list bytes := concat (map fst pages).

  (* what one merged call does to partitions that each still have a page list to deliver *)
  Lemma merged_call_step : forall ts pss,
    Forall2 (fun t pages => iter_done (call (fst t)) (snd t) pages) ts pss ->
    exists items mc pss',
      merged_call call ts = Ok (items, mc) /\
      Forall2 (fun t pages => iter_done (call (fst t)) (snd t) pages) mc pss' /\
      Permutation (concat (map all_items pss)) (items ++ concat (map all_items pss')) /\
      (forall n, Forall (fun ps => length ps <= S n)%nat pss -> Forall (fun ps => length ps <= n)%nat pss') /\
      (mc = [] -> Forall (fun ps => length ps = 1%nat) pss) /\
      (mc <> [] -> list_max (map (@length page) pss) = S (list_max (map (@length page) pss'))).
  Proof.
    induction 1 as [|[p c] pages ts pss Hd Hrest IH].
    - exists [], [], []. repeat split; try constructor; try reflexivity; try congruence.
    - destruct IH as [its [mc [pss' [Hc [Hf [Hp [Hlen [Hnil Hmax]]]]]]]].
      cbn [fst snd] in Hd. cbn [merged_call]. inversion Hd as [c0 items E|c0 items nx ps E Hnx Hps]; subst.
      + rewrite E, Hc. exists (items ++ its), mc, pss'. split; [reflexivity|]. split; [exact Hf|]. split.
        { cbn [map concat all_items fst]. unfold all_items at 1. cbn [map concat fst]. rewrite app_nil_r.
          rewrite <- app_assoc. now apply Permutation_app_head. }
        split.
        { intros n Hall. inversion Hall; subst. now apply Hlen. }
        split.
        { intro Hmc. constructor; [reflexivity|now apply Hnil]. }
        { intro Hmc. cbn [map]. rewrite list_max_cons, (Hmax Hmc). cbn [length]. lia. }
      + rewrite E, Hc. destruct nx as [|b nx']; [congruence|].
        exists (items ++ its), ((p, b :: nx') :: mc), (ps :: pss'). split; [reflexivity|]. split.
        { constructor; [exact Hps|exact Hf]. }
        split.
        { cbn [map concat]. unfold all_items at 1. cbn [map concat fst]. fold (all_items ps).
          rewrite <- !app_assoc. apply Permutation_app_head.
          rewrite Hp. rewrite !app_assoc. apply Permutation_app_tail. apply Permutation_app_comm. }
        split.
        { intros n Hall. inversion Hall; subst. constructor; [cbn [length] in *; lia|now apply Hlen]. }
        split; [discriminate|].
        { intros _. cbn [map]. rewrite !list_max_cons. cbn [length].
          destruct mc as [|t mc'].
          - inversion Hf; subst. cbn [map]. change (list_max []) with 0%nat.
            assert (Forall (fun ps0 => length ps0 = 1%nat) pss) as H1 by now apply Hnil.
            assert (list_max (map (@length page) pss) <= 1)%nat as H2.
            { apply list_max_le. apply Forall_forall. intros x Hx. apply in_map_iff in Hx.
              destruct Hx as [y [<- Hy]]. rewrite Forall_forall in H1. rewrite (H1 y Hy). lia. }
            assert (1 <= length ps)%nat by (inversion Hps; cbn [length]; lia).
            lia.
          - rewrite (Hmax ltac:(discriminate)). lia. }
  Qed.

  Theorem merged_iterate : forall fuel ts pss,
    Forall2 (fun t pages => iter_done (call (fst t)) (snd t) pages) ts pss ->
    (list_max (map (@length page) pss) < fuel)%nat -> (0 < fuel)%nat ->
    exists mpages,
      miterate call fuel ts = (mpages, Done) /\
      Permutation (concat mpages) (concat (map all_items pss)) /\
      length mpages = Nat.max 1 (list_max (map (@length page) pss)).
  Proof.
    induction fuel as [|f IH]; intros ts pss Hall Hfuel Hpos; [lia|].
    destruct (merged_call_step ts pss Hall) as [items [mc [pss' [Hc [Hf [Hp [_ [Hnil Hmax]]]]]]]].
    cbn [miterate]. rewrite Hc. destruct mc as [|t mc'].
    - inversion Hf; subst. eexists. split; [reflexivity|]. split.
      + cbn [concat]. rewrite app_nil_r. rewrite Hp. cbn. now rewrite app_nil_r.
      + cbn [length]. specialize (Hnil eq_refl).
        assert (list_max (map (@length page) pss) <= 1)%nat.
        { apply list_max_le. apply Forall_forall. intros x Hx. apply in_map_iff in Hx.
          destruct Hx as [y [<- Hy]]. rewrite Forall_forall in Hnil. rewrite (Hnil y Hy). lia. }
        lia.
    - specialize (Hmax ltac:(discriminate)).
      assert (list_max (map (@length page) pss') < f)%nat as Hf1 by (rewrite Hmax in Hfuel; lia).
      destruct (IH (t :: mc') pss' Hf Hf1) as [mp [Hit [Hperm Hlen]]]; [lia|].
      rewrite Hit. eexists. split; [reflexivity|]. split.
      + cbn [concat]. rewrite Hp. now apply Permutation_app_head.
      + assert (1 <= list_max (map (@length page) pss'))%nat as Hge.
        { inversion Hf as [|t0 ps0 mc0 pss0 Hd0 _]; subst. cbn [map]. rewrite list_max_cons.
          assert (1 <= length ps0)%nat by (inversion Hd0; cbn [length]; lia). lia. }
        cbn [length]. rewrite Hlen, Hmax. lia.
  Qed.
End MergeProofs.
