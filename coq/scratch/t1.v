(* Valid/Proofs.v — C11: proofs about the validation model.
   Main result: whatever a leader proposes (for every entry of the generated registration table and
   all argument vectors) is applied without a Go panic by the registered apply handler. *)
From ZV Require Import Common.Bytes Common.BytesFacts Valid.Types Valid.Consts Valid.Model.
From Coq Require Import Lia ZifyBool ZifyNat Bool Arith.
Open Scope gname_scope.
Open Scope N_scope.

(* ApplyRaftRequest indexes cmd.Args[1] before dispatch: a one-argument command always panics there *)
Lemma apply_short_panics : forall pf v2 args, (length args < 2)%nat -> apply_shape pf v2 args = APanic.
Proof.
  intros pf v2 args H. destruct args as [|a [|b r]]; simpl in *; try reflexivity. lia.
Qed.

(* ---------- parity ---------- *)
Lemma even_true_ex n : Nat.even n = true -> exists k, n = (2 * k)%nat.
Proof. intro H. apply Nat.even_spec in H. destruct H as [k Hk]. exists k. lia. Qed.
Lemma even_false_ex n : Nat.even n = false -> exists k, n = (2 * k + 1)%nat.
Proof.
  intro H. assert (Ho : Nat.odd n = true) by (unfold Nat.odd; rewrite H; reflexivity).
  apply Nat.odd_spec in Ho. destruct Ho as [k Hk]. exists k. lia.
Qed.
Lemma even_2k k : Nat.even (2 * k) = true.
Proof. apply Nat.even_spec. exists k. lia. Qed.
Lemma even_2k1 k : Nat.even (2 * k + 1) = false.
Proof.
  destruct (Nat.even (2 * k + 1)) eqn:E; [|reflexivity].
  apply even_true_ex in E. destruct E as [j Hj]. lia.
Qed.

(* ---------- arity specifications: lo <= n <= hi, optional parity ---------- *)
Record aspec := mkA { lo : nat; hi : option nat; par : option bool }.
Definition sat (s : aspec) (n : nat) : bool :=
  Nat.leb (lo s) n
  && match hi s with Some h => Nat.leb n h | None => true end
  && match par s with Some b => Bool.eqb (Nat.even n) b | None => true end.
Definition entails (g r : aspec) : bool :=
  Nat.leb (lo r) (lo g)
  && match hi r with
     | None => true
     | Some hr => match hi g with Some hg => Nat.leb hg hr | None => false end
     end
  && match par r with
     | None => true
     | Some b => match par g with Some b' => Bool.eqb b' b | None => false end
     end.
Lemma entails_sound g r n : entails g r = true -> sat g n = true -> sat r n = true.
Proof.
  unfold entails, sat. intros He Hs.
  apply andb_prop in He. destruct He as [He Hp]. apply andb_prop in He. destruct He as [Hl Hh].
  apply andb_prop in Hs. destruct Hs as [Hs Hsp]. apply andb_prop in Hs. destruct Hs as [Hsl Hsh].
  apply andb_true_intro. split; [apply andb_true_intro; split|].
  - lia.
  - destruct (hi r) as [hr|]; [|reflexivity]. destruct (hi g) as [hg|]; [|discriminate]. lia.
  - destruct (par r) as [b|]; [|reflexivity]. destruct (par g) as [b'|]; [|discriminate].
    apply Bool.eqb_prop in Hp. subst b'. exact Hsp.
Qed.
Lemma sat_lo s n : sat s n = true -> (lo s <= n)%nat.
Proof. unfold sat. intro H. apply andb_prop in H. destruct H as [H _]. apply andb_prop in H. destruct H as [H _]. lia. Qed.
Lemma sat_par s n b : par s = Some b -> sat s n = true -> Nat.even n = b.
Proof. unfold sat. intros Hp H. rewrite Hp in H. apply andb_prop in H. destruct H as [_ H]. apply Bool.eqb_prop in H. exact H. Qed.
Lemma sat_intro lo0 hi0 par0 n :
  (lo0 <= n)%nat -> (match hi0 with Some h => (n <= h)%nat | None => True end) ->
  (match par0 with Some b => Nat.even n = b | None => True end) -> sat (mkA lo0 hi0 par0) n = true.
Proof.
  intros Hl Hh Hp. unfold sat; simpl. apply andb_true_intro; split; [apply andb_true_intro; split|].
  - lia.
  - destruct hi0; [lia|reflexivity].
  - destruct par0; [rewrite Hp; apply Bool.eqb_reflx|reflexivity].
Qed.

(* ====================== apply side ====================== *)
Section Apply.
Variable pf : bytes -> option N.

Lemma need_ok a i k : (i < alen a)%nat -> need a i k = k.
Proof. unfold need. intro H. destruct (Nat.ltb i (alen a)) eqn:E; [reflexivity|lia]. Qed.
Lemma need_slice_ok a i k : (i <= alen a)%nat -> need_slice a i k = k.
Proof. unfold need_slice. intro H. destruct (Nat.leb i (alen a)) eqn:E; [reflexivity|lia]. Qed.
Lemma parse_i_np a i k : (i < alen a)%nat -> k <> APanic -> parse_i a i k <> APanic.
Proof. unfold parse_i. intros H Hk. rewrite need_ok by exact H. destruct (parse_int (arg a i)); [exact Hk|discriminate]. Qed.
Lemma parse_f_np a i k : (i < alen a)%nat -> k <> APanic -> parse_f pf a i k <> APanic.
Proof. unfold parse_f. intros H Hk. rewrite need_ok by exact H. destruct (pf (arg a i)); [exact Hk|discriminate]. Qed.

Lemma score_pairs_even l : Nat.even (length l) = true -> score_pairs pf l <> PairsPanic.
Proof.
  remember (length l) as n eqn:Hn. revert l Hn.
  induction n as [n IH] using lt_wf_ind. intros l Hn He.
  destruct l as [|s [|m rest]]; simpl.
  - discriminate.
  - simpl in Hn. subst n. discriminate.
  - destruct (pf s); [|discriminate].
    apply (IH (length rest)); [simpl in Hn; lia|reflexivity|].
    simpl in Hn. subst n. simpl in He. exact He.
Qed.

(* sufficient argument counts of the apply handlers, by method name (same case analysis as
   Model.apply_handler); an unknown method needs the impossible *)
Definition A_ge (n : nat) := mkA n None None.
Definition needs (m : gname) : aspec :=
  let is s := gname_eqb m s in
  if is "localNoOpWriteCommand" then A_ge 0
  else if is "localDelCommand" || is "localHMClearCommand" || is "localLMClearCommand"
       || is "localZMClearCommand" || is "localSmclear" then A_ge 1
  else if is "localDelIfEQCommand" || is "localGetSetCommand" || is "localSetnxCommand" || is "localAppendCommand" then A_ge 3
  else if is "localSetCommand" then A_ge 3
  else if is "localSetIfEQCommand" then A_ge 4
  else if is "localSetRangeCommand" then A_ge 4
  else if is "localBitSetCommand" || is "localBitSetV2Command" then A_ge 4
  else if is "localMSetCommand" then mkA 1 None (Some false)
  else if is "localIncrCommand" || is "localBitClearCommand" || is "localHclearCommand" || is "localLfixkeyCommand"
       || is "localLpopCommand" || is "localRpopCommand" || is "localLclearCommand" || is "localZFixKeyCommand"
       || is "localSclear" || is "localPersistCommand" || is "localHashPersistCommand" || is "localListPersistCommand"
       || is "localSetPersistCommand" || is "localZSetPersistCommand" || is "localBitPersistCommand"
       || is "localJSONDelCommand" || is "localJSONArrayPopCommand" then A_ge 2
  else if is "localIncrByCommand" then A_ge 3
  else if is "localPlsetCommand" then A_ge 0
  else if is "localPFAddCommand" || is "localHDelCommand" || is "localLpushCommand" || is "localRpushCommand"
       || is "localSadd" || is "localSrem" then A_ge 2
  else if is "localHSetCommand" || is "localHSetNXCommand" || is "localJSONSetCommand" then A_ge 4
  else if is "localHMsetCommand" then A_ge 2
  else if is "localHIncrbyCommand" then A_ge 4
  else if is "localJSONArrayAppendCommand" then A_ge 3
  else if is "localLsetCommand" then A_ge 4
  else if is "localLtrimCommand" then A_ge 4
  else if is "localZaddCommand" then mkA 2 None (Some true)
  else if is "localZincrbyCommand" then A_ge 4
  else if is "localZremCommand" then A_ge 0
  else if is "localZremrangebyrankCommand" then A_ge 4
  else if is "localZremrangebyscoreCommand" then A_ge 4
  else if is "localZremrangebylexCommand" then A_ge 4
  else if is "localZclearCommand" then A_ge 0
  else if is "localSpop" then A_ge 2
  else if is "localSetexCommand" then A_ge 4
  else if is "localExpireCommand" || is "localListExpireCommand" || is "localHashExpireCommand"
       || is "localSetExpireCommand" || is "localZSetExpireCommand" || is "localBitExpireCommand" then A_ge 3
  else mkA 1 (Some 0%nat) None.

Ltac np :=
  repeat first
    [ rewrite need_ok by lia
    | rewrite need_slice_ok by lia
    | apply parse_i_np; [lia|]
    | apply parse_f_np; [lia|]
    | discriminate
    | match goal with |- (if ?c then _ else _) <> APanic => destruct c eqn:? end
    | match goal with |- (match ?c with _ => _ end) <> APanic => destruct c eqn:? end ].

(* per shape function *)
Lemma np_localRest1 a : (1 <= alen a)%nat -> localRest1 a <> APanic.
Proof. intro H. unfold localRest1. np. Qed.
Lemma np_localKeyOnly a : (2 <= alen a)%nat -> localKeyOnly a <> APanic.
Proof. intro H. unfold localKeyOnly. np. Qed.
Lemma np_localKV a : (3 <= alen a)%nat -> localKV a <> APanic.
Proof. intro H. unfold localKV. np. Qed.
Lemma np_localK3 a : (4 <= alen a)%nat -> localK3 a <> APanic.
Proof. intro H. unfold localK3. np. Qed.
Lemma np_localKRest a : (2 <= alen a)%nat -> localKRest a <> APanic.
Proof. intro H. unfold localKRest. np. Qed.
Lemma np_localExpire a : (3 <= alen a)%nat -> localExpire a <> APanic.
Proof. intro H. unfold localExpire. np. Qed.
Lemma np_localSetCommand a : (3 <= alen a)%nat -> localSetCommand a <> APanic.
Proof. intro H. unfold localSetCommand, localKV. np. Qed.
Lemma np_localSetIfEQCommand a : (4 <= alen a)%nat -> localSetIfEQCommand a <> APanic.
Proof. intro H. unfold localSetIfEQCommand, localK3. np. Qed.
Lemma np_localMSetCommand a : (1 <= alen a)%nat -> Nat.even (alen a) = false -> localMSetCommand a <> APanic.
Proof.
  intros H He. unfold localMSetCommand. rewrite need_slice_ok by lia.
  apply even_false_ex in He. destruct He as [k Hk]. rewrite Hk.
  replace (2 * k + 1 - 1)%nat with (2 * k)%nat by lia. rewrite even_2k. discriminate.
Qed.
Lemma np_localIncrByCommand a : (3 <= alen a)%nat -> localIncrByCommand a <> APanic.
Proof. intro H. unfold localIncrByCommand. np. Qed.
Lemma np_localBitSetV2Command a : (4 <= alen a)%nat -> localBitSetV2Command a <> APanic.
Proof. intro H. unfold localBitSetV2Command. np. Qed.
Lemma np_localSetRangeCommand a : (4 <= alen a)%nat -> localSetRangeCommand a <> APanic.
Proof. intro H. unfold localSetRangeCommand. np. Qed.
Lemma np_localHMsetCommand a : (2 <= alen a)%nat -> localHMsetCommand a <> APanic.
Proof. intro H. unfold localHMsetCommand. np. Qed.
Lemma np_localHIncrbyCommand a : (4 <= alen a)%nat -> localHIncrbyCommand a <> APanic.
Proof. intro H. unfold localHIncrbyCommand. np. Qed.
Lemma np_localJSONArrayAppendCommand a : (3 <= alen a)%nat -> localJSONArrayAppendCommand a <> APanic.
Proof. intro H. unfold localJSONArrayAppendCommand. np. Qed.
Lemma np_localLsetCommand a : (4 <= alen a)%nat -> localLsetCommand a <> APanic.
Proof. intro H. unfold localLsetCommand. np. Qed.
Lemma np_localLtrimCommand a : (4 <= alen a)%nat -> localLtrimCommand a <> APanic.
Proof. intro H. unfold localLtrimCommand. np. Qed.
Lemma np_localZaddCommand a : (2 <= alen a)%nat -> Nat.even (alen a) = true -> localZaddCommand pf a <> APanic.
Proof.
  intros H He. unfold localZaddCommand. rewrite need_slice_ok by lia.
  assert (Hs : score_pairs pf (skipn 2 a) <> PairsPanic).
  { apply score_pairs_even. rewrite skipn_length. unfold alen in *.
    apply even_true_ex in He. destruct He as [k Hk]. rewrite Hk.
    replace (2 * k - 2)%nat with (2 * (k - 1))%nat by lia. apply even_2k. }
  destruct (score_pairs pf (skipn 2 a)); [np|discriminate|congruence].
Qed.
Lemma np_localZincrbyCommand a : (4 <= alen a)%nat -> localZincrbyCommand pf a <> APanic.
Proof. intro H. unfold localZincrbyCommand. np. Qed.
Lemma np_localZremCommand a : localZremCommand a <> APanic.
Proof. unfold localZremCommand. np. Qed.
Lemma np_localZremrangebyrankCommand a : (4 <= alen a)%nat -> localZremrangebyrankCommand a <> APanic.
Proof. intro H. unfold localZremrangebyrankCommand. np. Qed.
Lemma np_localZremrangebyscoreCommand a : (4 <= alen a)%nat -> localZremrangebyscoreCommand pf a <> APanic.
Proof. intro H. unfold localZremrangebyscoreCommand. np. Qed.
Lemma np_localZremrangebylexCommand a : (4 <= alen a)%nat -> localZremrangebylexCommand a <> APanic.
Proof. intro H. unfold localZremrangebylexCommand. np. Qed.
Lemma np_localZclearCommand a : localZclearCommand a <> APanic.
Proof. unfold localZclearCommand. np. Qed.
Lemma np_localSpop a : (2 <= alen a)%nat -> localSpop a <> APanic.
Proof. intro H. unfold localSpop. destruct (Nat.eqb (alen a) 3) eqn:E; np. Qed.
Lemma np_localSetexCommand a : (4 <= alen a)%nat -> localSetexCommand a <> APanic.
Proof. intro H. unfold localSetexCommand. np. Qed.
Lemma np_localPlsetCommand a : localPlsetCommand a <> APanic.
Proof. unfold localPlsetCommand. np. Qed.


Lemma needs_sound m a : sat (needs m) (alen a) = true -> apply_handler pf m a <> APanic.
Proof.
  unfold needs, apply_handler. intro H.
  Time repeat match type of H with
  | context [gname_eqb m ?s] =>
    let E := fresh "E" in destruct (gname_eqb m s) eqn:E; cbn [orb] in H |- *
  end.
  Time all: try (pose proof (sat_lo _ _ H) as Hlo; cbn in Hlo).
  Time all: try discriminate.
  Time all: try (apply np_localRest1; lia).
  Time all: try (apply np_localKeyOnly; lia).
  Show.
Abort.
End Apply.
