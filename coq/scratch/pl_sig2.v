From ZV Require Import Place.ProofsFreshGen.
Check fill_v2_fresh_general. Check fresh_part_spread. Check fresh_parts.
