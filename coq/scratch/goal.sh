#!/bin/bash
# usage: scratch/goal.sh file line  -- truncates the file after the given line, adds Show. Admitted., compiles
f=$1; n=$2
head -n "$n" "$f" > scratch/_g.v
echo "Show. Admitted." >> scratch/_g.v
timeout 200 coqc -Q /verif/coq ZV scratch/_g.v 2>&1 | head -${3:-80}
