From ZV Require Import Common.Bytes Part.Model Place.Consts Place.Model.
Open Scope nat_scope.
Definition canon_ring (n : nat) : list (list N) := map (fun i => [N.of_nat i]) (seq 0 n).
Definition run h n p r := match fill_v2 h p r [] (canon_ring n) with Ok l => length l | _ => 0 end.
Time Eval vm_compute in run 7%N 40 64 4.
Time Eval vm_compute in run 7%N 20 64 2.
Time Eval vm_compute in (fold_left (fun acc h => acc + run (N.of_nat h) 12 32 3) (seq 0 12) 0).
