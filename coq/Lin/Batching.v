(* Lin/Batching.v — the apply loop groups log entries into apply batches (model only).

   Lin/Protocol.v applies one entry at a time (t_apply). The code does not: KVNode.applyEntries hands a whole
   group of committed entries to kvStoreSM.ApplyRaftRequest with ONE batch operator; batchable commands (set,
   setex, del, hmset) read COMMITTED data only and their writes and replies are held back until the batch is
   committed; a primary key is admitted once per batch (dupCheckMap); a non-batchable command commits the open
   batch first. That logic is C07's model coq/Determ/Model.v (apply_batched, transcribed from
   node/state_machine.go and node/node.go). Here it is INSTANTIATED on Lin/Spec.v and added to the protocol
   as the transition t_apply_group: replica r applies the next n entries through Determ.Model.apply_batched
   under an ARBITRARY partition into applyEntries events (all access to coq/Determ goes through Lin/DetermAdapter.v); the client replies are the ones that computation
   triggers. Lin/BatchingProofs.v shows, by citing C07's theorem batch_equiv_replies, that such a step is n
   steps of t_apply — so every theorem about Protocol holds for the batched system, and a batch operator that
   admitted two conditional SETs on one key (seeded change C04-a2) would break that proof. *)
From ZV Require Export Lin.DetermAdapter.

(* history / pending table after the replies of a group have been delivered, entry by entry *)
Fixpoint grp (ents : list entry) (outs : list (N * res)) (clock : N) (hist : list hop) (pend : list nat)
  : N * list hop * list nat :=
  match ents with
  | [] => (clock, hist, pend)
  | e :: t =>
      let trig := existsb (Nat.eqb (e_id e)) pend in
      let hist' := match breply (N.of_nat (e_id e)) outs with
                   | Some r => if trig then set_ret (e_id e) (clock, r) hist else hist
                   | None => hist
                   end in
      grp t outs (N.succ clock) hist' (remove_id (e_id e) pend)
  end.

Definition group_result (g : gstate) (r : nat) (ents : list entry) (outs : list (N * res)) (s1 : state) : gstate :=
  let rs := g_rep g r in
  let '(ck, h, pd) := grp ents outs (g_clock g) (g_hist g) (r_pending rs) in
  mkG ck h (g_inflight g) (g_log g)
      (upd (g_rep g) r (mkR (r_applied rs + List.length ents) s1 pd)) (g_wait g) (g_ldone g).

Section Batched.
  Variable apply_impl : nat -> N -> state -> op -> state * res.

  Inductive pstepB : gstate -> gstate -> Prop :=
  | b_base : forall g g', pstep apply_impl g g' -> pstepB g g'
  | t_apply_group : forall g r n p s1 o1 e1,
      let rs := g_rep g r in
      let ents := map c_ent (firstn n (skipn (r_applied rs) (g_log g))) in
      bflatten p ents ->
      batched_apply (tbl_of ents) (r_st rs) p = Some (s1, o1, e1) ->
      pstepB g (group_result g r ents o1 s1).

  Inductive reachableB : gstate -> Prop :=
  | reachB0 : reachableB g0
  | reachBS : forall g g', reachableB g -> pstepB g g' -> reachableB g'.
End Batched.
