(* Lin/Checker.v — histories, the textbook definition of linearizability w.r.t. Lin/Spec.v, and an
   executable exhaustive checker (model only; the proofs are in Lin/CheckerProofs.v).

   A history is the list of the operations one object (key) received from all clients:
     h_op   the operation
     h_inv  invocation time (monotonic clock of the recording process)
     h_ret  Some (reply time, reply) when the client saw a success reply;
            None when it saw an error, a timeout or a broken connection (outcome unknown:
            the operation may have taken effect, at most once, at any time after h_inv). *)
From ZV Require Export Lin.Spec.
From Coq Require Export NArith.

Record hop : Type := mkHop { h_op : op; h_inv : N; h_ret : option (N * res) }.
Definition history := list hop.

(* real-time precedence: a's reply was seen strictly before b was invoked *)
Definition precedes (a b : hop) : bool :=
  match h_ret a with Some (t, _) => N.ltb t (h_inv b) | None => false end.

Definition completed (o : hop) : bool :=
  match h_ret o with Some _ => true | None => false end.

(* the reply the client saw (if any) is the reply r of the specification *)
Definition reply_ok (o : hop) (r : res) : bool :=
  match h_ret o with Some (_, r0) => res_eqb r r0 | None => true end.

(* a legal sequential execution: every success reply equals the specification's reply *)
Fixpoint legal (s : state) (l : list hop) : Prop :=
  match l with
  | [] => True
  | o :: t => let (s', r) := step s (h_op o) in reply_ok o r = true /\ legal s' t
  end.

(* Textbook linearizability (Herlihy & Wing 1990, for histories with pending/unknown operations):
   there is a total order [ord] (a duplicate-free list of positions of H) that
   (i)   contains every completed operation (exactly once, by NoDup) and every operation with an
         unknown outcome at most once,
   (ii)  respects real-time precedence: an operation never comes after one that it precedes,
   (iii) is a legal sequential execution of the specification from the initial state. *)
Definition linearizable (H : history) : Prop :=
  exists (ord : list nat) (ops : list hop),
    NoDup ord /\
    Forall2 (fun i o => nth_error H i = Some o) ord ops /\
    (forall i o, nth_error H i = Some o -> completed o = true -> In i ord) /\
    (forall p q a b, (p < q)%nat -> nth_error ops p = Some a -> nth_error ops q = Some b ->
                     precedes b a = false) /\
    legal init ops.

(* ------------------------------------------------------------------ the checker *)
Inductive verdict : Type := Lin | NonLin | OutOfFuel.

(* every way of taking one element out of a list (relative order of the rest kept) *)
Fixpoint picks {A : Type} (l : list A) : list (A * list A) :=
  match l with
  | [] => []
  | x :: t => (x, t) :: map (fun p => (fst p, x :: snd p)) (picks t)
  end.

(* first Lin wins (short-circuit); OutOfFuel is remembered; otherwise NonLin *)
Fixpoint first_lin {A : Type} (f : A -> verdict) (l : list A) : verdict :=
  match l with
  | [] => NonLin
  | x :: t =>
      match f x with
      | Lin => Lin
      | NonLin => first_lin f t
      | OutOfFuel => match first_lin f t with Lin => Lin | _ => OutOfFuel end
      end
  end.

Definition top := (nat * hop)%type.

Definition all_unknown (rem : list top) : bool :=
  forallb (fun x => negb (completed (snd x))) rem.

(* x may be linearized next: no remaining operation precedes it *)
Definition minimal (x : top) (rest : list top) : bool :=
  forallb (fun y => negb (precedes (snd y) (snd x))) rest.

(* Exhaustive depth-first search (Wing & Gong): the remaining operations [rem] (tagged with their
   position in the history) and the specification state [st] reached so far. Succeeds when only
   unknown-outcome operations remain (they are omitted); otherwise tries EVERY remaining operation
   that is minimal w.r.t. real-time order and whose reply agrees with the specification. *)
Fixpoint search (fuel : nat) (rem : list top) (st : state) : verdict :=
  match fuel with
  | O => OutOfFuel
  | S f =>
      if all_unknown rem then Lin
      else first_lin (fun p : top * list top =>
             let (x, rest) := p in
             if minimal x rest then
               let (st', r) := step st (h_op (snd x)) in
               if reply_ok (snd x) r then search f rest st' else NonLin
             else NonLin) (picks rem)
  end.

Definition tag (H : history) : list top := combine (seq 0 (length H)) H.

Definition check (H : history) : verdict := search (S (length H)) (tag H) init.

(* the same search returning the witness order (positions) — used only to print evidence *)
Fixpoint first_some {A B : Type} (f : A -> option B) (l : list A) : option B :=
  match l with
  | [] => None
  | x :: t => match f x with Some b => Some b | None => first_some f t end
  end.

Fixpoint witness (fuel : nat) (rem : list top) (st : state) : option (list nat) :=
  match fuel with
  | O => None
  | S f =>
      if all_unknown rem then Some []
      else first_some (fun p : top * list top =>
             let (x, rest) := p in
             if minimal x rest then
               let (st', r) := step st (h_op (snd x)) in
               if reply_ok (snd x) r then
                 match witness f rest st' with Some w => Some (fst x :: w) | None => None end
               else None
             else None) (picks rem)
  end.

Definition check_witness (H : history) : option (list nat) := witness (S (length H)) (tag H) init.
