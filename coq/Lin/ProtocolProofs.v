(* Lin/ProtocolProofs.v — every history the request-path protocol (Lin/Protocol.v) can produce is
   linearizable, the witness order being the order of the agreed log (commit-point argument);
   each acknowledged operation has its commit point strictly between its invocation and its reply;
   replicas that applied the same prefix are in the same state. *)
From ZV Require Import Lin.Spec Lin.Checker Lin.CheckerProofs Lin.Protocol Lin.Route.
From Coq Require Import Lia Permutation.
Open Scope N_scope.

(* ------------------------------------------------------------------ list helpers *)
Lemma nth_error_snoc : forall (A : Type) (l : list A) x i y,
  nth_error (l ++ [x]) i = Some y ->
  ((i < length l)%nat /\ nth_error l i = Some y) \/ (i = length l /\ y = x).
Proof.
  intros A l x i y H. destruct (Nat.lt_ge_cases i (length l)) as [Hlt|Hge].
  - left. split; auto. rewrite nth_error_app1 in H; auto.
  - right. rewrite nth_error_app2 in H; auto. destruct (i - length l)%nat eqn:E; simpl in H.
    + inversion H; subst. split; [lia|reflexivity].
    + destruct n; discriminate.
Qed.

Lemma nth_error_snoc_old : forall (A : Type) (l : list A) x i y,
  nth_error l i = Some y -> nth_error (l ++ [x]) i = Some y.
Proof. intros. rewrite nth_error_app1; auto. apply nth_error_Some. congruence. Qed.

Lemma set_ret_length : forall i v h, length (set_ret i v h) = length h.
Proof. induction i; destruct h; simpl; auto. Qed.

Lemma set_ret_same : forall i v h x, nth_error h i = Some x ->
  nth_error (set_ret i v h) i = Some (mkHop (h_op x) (h_inv x) (Some v)).
Proof. induction i; destruct h; simpl; intros x H; try discriminate; [inversion H; reflexivity|auto]. Qed.

Lemma set_ret_other : forall i v h j, j <> i -> nth_error (set_ret i v h) j = nth_error h j.
Proof.
  induction i; destruct h; simpl; intros j Hne; auto.
  - destruct j; [congruence|reflexivity].
  - destruct j; [reflexivity|]. simpl. apply IHi. congruence.
Qed.

Lemma remove_id_in : forall i l x, In x (remove_id i l) <-> In x l /\ x <> i.
Proof.
  induction l as [|a l IH]; simpl; intros x; [tauto|].
  destruct (Nat.eqb a i) eqn:E.
  - apply Nat.eqb_eq in E. subst a. rewrite IH. split; [tauto|]. intros [[->|H] Hne]; [congruence|tauto].
  - apply Nat.eqb_neq in E. simpl. rewrite IH. split.
    + intros [->|[H Hne]]; auto.
    + intros [[->|H] Hne]; auto.
Qed.

Lemma existsb_eqb_in : forall i l, existsb (Nat.eqb i) l = true <-> In i l.
Proof.
  intros i l. rewrite existsb_exists. split.
  - intros [x [Hx He]]. apply Nat.eqb_eq in He. subst; auto.
  - intros H. exists i. split; auto. apply Nat.eqb_refl.
Qed.

Lemma upd_same : forall f r v, upd f r v r = v.
Proof. intros. unfold upd. rewrite Nat.eqb_refl. reflexivity. Qed.
Lemma upd_other : forall f r v x, x <> r -> upd f r v x = f x.
Proof. intros. unfold upd. destruct (Nat.eqb x r) eqn:E; auto. apply Nat.eqb_eq in E. congruence. Qed.

Lemma res_eqb_refl : forall r, res_eqb r r = true.
Proof.
  destruct r; simpl; auto using Z.eqb_refl.
  induction l; simpl; auto. rewrite Z.eqb_refl. auto.
Qed.

Lemma firstn_snoc_le : forall (A : Type) (l : list A) x p, (p <= length l)%nat -> firstn p (l ++ [x]) = firstn p l.
Proof.
  intros. rewrite firstn_app. replace (p - length l)%nat with 0%nat by lia. simpl. apply app_nil_r.
Qed.

Lemma firstn_S_nth : forall (A : Type) (l : list A) p c, nth_error l p = Some c -> firstn (S p) l = firstn p l ++ [c].
Proof.
  induction l as [|a l IH]; intros p c H; destruct p; simpl in *; try discriminate.
  - inversion H; reflexivity.
  - f_equal. apply IH; auto.
Qed.

Lemma NoDup_nth_error_inj : forall (A : Type) (l : list A) p q x,
  NoDup l -> nth_error l p = Some x -> nth_error l q = Some x -> p = q.
Proof.
  intros A l p q x Hnd Hp Hq. apply (proj1 (NoDup_nth_error l) Hnd); [apply nth_error_Some; congruence|congruence].
Qed.

Lemma NoDup_app_l : forall (A : Type) (l1 l2 : list A), NoDup (l1 ++ l2) -> NoDup l1.
Proof.
  induction l1 as [|a l1 IH]; intros l2 H; [constructor|]. simpl in H. inversion H; subst.
  constructor; [|eapply IH; eauto]. intros Hin. apply H2. apply in_or_app; left; exact Hin.
Qed.

Lemma Forall2_exists : forall (A B : Type) (R : A -> B -> Prop) l,
  (forall x, In x l -> exists y, R x y) -> exists l', Forall2 R l l'.
Proof.
  induction l as [|a l IH]; intros H.
  - exists []. constructor.
  - destruct (H a (or_introl eq_refl)) as [y Hy]. destruct IH as [l' Hl']; [intros; apply H; right; auto|].
    exists (y :: l'). constructor; auto.
Qed.

Lemma Forall2_nth : forall (A B : Type) (R : A -> B -> Prop) la lb p b,
  Forall2 R la lb -> nth_error lb p = Some b -> exists a, nth_error la p = Some a /\ R a b.
Proof.
  intros A B R la lb p b H; revert p; induction H as [|x y la lb Hxy H IH]; intros p Hp; destruct p; simpl in *; try discriminate.
  - inversion Hp; subst. exists x; auto.
  - apply IH; auto.
Qed.


Lemma set_ret_lookup : forall i v h j x', nth_error (set_ret i v h) j = Some x' ->
  exists x, nth_error h j = Some x /\ h_op x' = h_op x /\ h_inv x' = h_inv x /\
            ((j <> i /\ x' = x) \/ (j = i /\ h_ret x' = Some v)).
Proof.
  intros i v h j x' H. destruct (Nat.eq_dec j i) as [->|Hne].
  - destruct (nth_error h i) as [x|] eqn:E.
    + rewrite (set_ret_same _ _ _ _ E) in H. inversion H; subst. exists x. simpl. repeat split; auto.
    + exfalso. assert (Hs : nth_error (set_ret i v h) i <> None) by congruence.
      apply nth_error_Some in Hs. rewrite set_ret_length in Hs. apply nth_error_Some in Hs. congruence.
  - rewrite set_ret_other in H by auto. exists x'. repeat split; auto.
Qed.

Lemma shortcut_step : forall s o r, shortcut s o = Some r -> step s o = (s, r).
Proof.
  intros s o r H. destruct o; simpl in *; try discriminate.
  - destruct (s_kv s); inversion H; reflexivity.
  - destruct (s_list s); inversion H; reflexivity.
  - destruct (set_mem m (s_set s)); inversion H; reflexivity.
  - destruct (set_mem m (s_set s)); inversion H; reflexivity.
Qed.

Lemma NoDup_app_r : forall (A : Type) (l1 l2 : list A), NoDup (l1 ++ l2) -> NoDup l2.
Proof. induction l1 as [|a l1 IH]; intros l2 H; [exact H|]. simpl in H. inversion H; subst. eauto. Qed.

Lemma NoDup_app_disj : forall (A : Type) (l1 l2 : list A) x, NoDup (l1 ++ l2) -> In x l1 -> In x l2 -> False.
Proof.
  induction l1 as [|a l1 IH]; intros l2 x H H1 H2; [contradiction|]. simpl in H. inversion H; subst.
  destruct H1 as [->|H1]; [apply H4; apply in_or_app; right; exact H2|eapply IH; eauto].
Qed.

(* ------------------------------------------------------------------ pairwise relations on lists *)
Fixpoint pairwise {A : Type} (R : A -> A -> Prop) (l : list A) : Prop :=
  match l with [] => True | a :: t => (forall b, In b t -> R a b) /\ pairwise R t end.

Lemma pairwise_app : forall (A : Type) (R : A -> A -> Prop) l1 l2,
  pairwise R (l1 ++ l2) <-> pairwise R l1 /\ pairwise R l2 /\ (forall a b, In a l1 -> In b l2 -> R a b).
Proof.
  intros A R l1 l2; induction l1 as [|x l1 IH]; simpl.
  - split; [intros H; repeat split; auto; intros a b []|tauto].
  - rewrite IH. split.
    + intros [H1 [H2 [H3 H4]]]. repeat split; auto.
      * intros b Hb. apply H1. apply in_or_app; left; exact Hb.
      * intros a b [<-|Ha] Hb; [apply H1; apply in_or_app; right; exact Hb|apply H4; auto].
    + intros [[H1 H2] [H3 H4]]. repeat split; auto.
      intros b Hb. apply in_app_or in Hb. destruct Hb as [Hb|Hb]; [apply H1; exact Hb|apply H4; auto].
Qed.

Lemma pairwise_of_nth : forall (A : Type) (R : A -> A -> Prop) l,
  (forall i j a b, (i < j)%nat -> nth_error l i = Some a -> nth_error l j = Some b -> R a b) -> pairwise R l.
Proof.
  intros A R l; induction l as [|x l IH]; intros H; simpl; [exact I|]. split.
  - intros b Hb. apply In_nth_error in Hb. destruct Hb as [n Hn]. apply (H 0%nat (S n) x b); simpl; auto; lia.
  - apply IH. intros i j a b Hlt Ha Hb. apply (H (S i) (S j)); simpl; auto; lia.
Qed.

Lemma pairwise_filter : forall (A : Type) (R : A -> A -> Prop) f l, pairwise R l -> pairwise R (filter f l).
Proof.
  intros A R f l; induction l as [|x l IH]; simpl; intros H; [exact I|]. destruct H as [H1 H2].
  destruct (f x); simpl; [split; [|apply IH; exact H2]|apply IH; exact H2].
  intros b Hb. apply filter_In in Hb. apply H1. tauto.
Qed.

Lemma pairwise_map : forall (A B : Type) (R : B -> B -> Prop) (f : A -> B) l,
  pairwise (fun a b => R (f a) (f b)) l -> pairwise R (map f l).
Proof.
  intros A B R f l; induction l as [|x l IH]; simpl; intros H; [exact I|]. destruct H as [H1 H2]. split; [|apply IH; exact H2].
  intros b Hb. apply in_map_iff in Hb. destruct Hb as [y [<- Hy]]. apply H1; exact Hy.
Qed.

Lemma rt_ok_pairwise : forall ops, pairwise (fun a b => precedes b a = false) ops -> rt_ok ops.
Proof.
  induction ops as [|a t IH]; intros H; [apply rt_ok_nil|]. simpl in H. destruct H as [H1 H2].
  apply rt_ok_cons. split; [exact H1|apply IH; exact H2].
Qed.

Lemma Forall2_in_r : forall (A B : Type) (P : A -> B -> Prop) la lb b, Forall2 P la lb -> In b lb -> exists a, In a la /\ P a b.
Proof.
  intros A B P la lb b H; induction H as [|x y la lb Hxy H IH]; intros Hb; [contradiction|].
  destruct Hb as [<-|Hb]; [exists x; split; [left; reflexivity|exact Hxy]|].
  destruct (IH Hb) as [a [Ha Hp]]. exists a; split; [right; exact Ha|exact Hp].
Qed.

Lemma pairwise_Forall2 : forall (A B : Type) (P : A -> B -> Prop) (RA : A -> A -> Prop) (RB : B -> B -> Prop) la lb,
  (forall a a' b b', P a b -> P a' b' -> RA a a' -> RB b b') ->
  Forall2 P la lb -> pairwise RA la -> pairwise RB lb.
Proof.
  intros A B P RA RB la lb Himp H; induction H as [|x y la lb Hxy H IH]; simpl; intros Hp; [exact I|].
  destruct Hp as [H1 H2]. split; [|apply IH; exact H2].
  intros b Hb. destruct (Forall2_in_r _ _ _ _ _ _ H Hb) as [a [Ha Hpab]]. eapply Himp; eauto.
Qed.

Lemma NoDup_app_intro : forall (A : Type) (l1 l2 : list A),
  NoDup l1 -> NoDup l2 -> (forall x, In x l1 -> In x l2 -> False) -> NoDup (l1 ++ l2).
Proof.
  induction l1 as [|a l1 IH]; intros l2 H1 H2 Hd; simpl; [exact H2|]. inversion H1; subst. constructor.
  - intros Hin. apply in_app_or in Hin. destruct Hin as [Hin|Hin]; [contradiction|]. eapply Hd; [left; reflexivity|exact Hin].
  - apply IH; auto. intros x Hx1 Hx2. eapply Hd; [right; exact Hx1|exact Hx2].
Qed.

Lemma NoDup_map_filter : forall (A B : Type) (f : A -> B) p l, NoDup (map f l) -> NoDup (map f (filter p l)).
Proof.
  intros A B f p l; induction l as [|x l IH]; simpl; intros H; [constructor|]. inversion H; subst.
  destruct (p x); simpl; [constructor; [|apply IH; assumption]|apply IH; assumption].
  intros Hin. apply H2. apply in_map_iff in Hin. destruct Hin as [y [Hy Hin]]. apply filter_In in Hin.
  rewrite <- Hy. apply in_map. tauto.
Qed.

Lemma Forall2_app_inv_l' : forall (A B : Type) (P : A -> B -> Prop) l1 l2 l,
  Forall2 P (l1 ++ l2) l -> exists m1 m2, Forall2 P l1 m1 /\ Forall2 P l2 m2 /\ l = m1 ++ m2.
Proof. intros. apply Forall2_app_inv_l; assumption. Qed.

(* ------------------------------------------------------------------ the proofs proper *)
Section Proofs.
  Variable apply_impl : nat -> N -> state -> op -> state * res.
  (* C07 (+ the Spec-vs-implementation diff): every replica's state machine computes the function of
     the specification, whatever the replica and the request's timestamp *)
  Hypothesis apply_det : forall r ts s o, apply_impl r ts s o = step s o.

  Notation pstep := (pstep apply_impl).
  Notation reachable := (reachable apply_impl).

  Definition cid (c : centry) : nat := e_id (c_ent c).
  Definition ids_of (g : gstate) : list nat := map cid (g_log g) ++ map e_id (g_inflight g).
  Definition all_ids (g : gstate) : list nat := ids_of g ++ map l_id (g_wait g) ++ map d_id (g_ldone g).

  Lemma exec_snoc : forall l c, exec (l ++ [c]) = fst (step (exec l) (e_op (c_ent c))).
  Proof. intros. unfold exec. rewrite fold_left_app. reflexivity. Qed.

  Record Inv (g : gstate) : Prop := mkInv {
    I_nodup : NoDup (all_ids g);
    I_lt : forall i, In i (all_ids g) -> (i < length (g_hist g))%nat;
    I_hist : forall e, In e (map c_ent (g_log g) ++ g_inflight g) ->
             exists h, nth_error (g_hist g) (e_id e) = Some h /\ h_op h = e_op e;
    I_time : forall i h, nth_error (g_hist g) i = Some h ->
             h_inv h < g_clock g /\ forall t r, h_ret h = Some (t, r) -> h_inv h < t /\ t < g_clock g;
    I_ctime : forall p c, nth_error (g_log g) p = Some c -> c_time c < g_clock g;
    I_mono : forall p q c d, (p < q)%nat -> nth_error (g_log g) p = Some c -> nth_error (g_log g) q = Some d ->
             c_time c < c_time d;
    I_after : forall p c h, nth_error (g_log g) p = Some c -> nth_error (g_hist g) (cid c) = Some h ->
              h_inv h < c_time c;
    I_done : forall i h t r, nth_error (g_hist g) i = Some h -> h_ret h = Some (t, r) ->
             (exists p c, nth_error (g_log g) p = Some c /\ cid c = i /\ c_time c < t /\
                          r = snd (step (exec (firstn p (g_log g))) (e_op (c_ent c)))) \/
             In i (map d_id (g_ldone g));
    I_rep : forall r, (r_applied (g_rep g r) <= length (g_log g))%nat /\
                      r_st (g_rep g r) = exec (firstn (r_applied (g_rep g r)) (g_log g));
    I_pend : forall r id, In id (r_pending (g_rep g r)) ->
             exists h, nth_error (g_hist g) id = Some h /\ h_ret h = None;
    I_owner : forall r1 r2 id, In id (r_pending (g_rep g r1)) -> In id (r_pending (g_rep g r2)) -> r1 = r2;
    I_wait : forall q, In q (g_wait g) ->
             (exists h, nth_error (g_hist g) (l_id q) = Some h /\ h_ret h = None /\
                        forall p c, nth_error (g_log g) p = Some c -> (l_ci q <= p)%nat -> h_inv h < c_time c) /\
             (l_ci q <= length (g_log g))%nat /\
             (forall r, ~ In (l_id q) (r_pending (g_rep g r)));
    I_ldone : forall d, In d (g_ldone g) ->
              exists h t r, nth_error (g_hist g) (d_id d) = Some h /\ h_ret h = Some (t, r) /\
                (d_slot d <= length (g_log g))%nat /\
                step (exec (firstn (d_slot d) (g_log g))) (h_op h) = (exec (firstn (d_slot d) (g_log g)), r) /\
                (forall p c, nth_error (g_log g) p = Some c -> (p < d_slot d)%nat -> c_time c < t) /\
                (d_read d = false ->
                 forall p c, nth_error (g_log g) p = Some c -> (d_slot d <= p)%nat -> h_inv h < c_time c);
    I_lorder : forall i j d1 d2 h1 h2 t1 r1 t2 r2, (i < j)%nat ->
               nth_error (g_ldone g) i = Some d1 -> nth_error (g_ldone g) j = Some d2 ->
               nth_error (g_hist g) (d_id d1) = Some h1 -> h_ret h1 = Some (t1, r1) ->
               nth_error (g_hist g) (d_id d2) = Some h2 -> h_ret h2 = Some (t2, r2) -> t1 < t2
  }.

  Lemma Inv_g0 : Inv g0.
  Proof.
    constructor; simpl; intros; try contradiction; try (destruct i; discriminate); try (destruct p; discriminate).
    - constructor.
    - split; [lia|reflexivity].
  Qed.

  Lemma ids_lt : forall g, Inv g -> forall i, In i (ids_of g) -> (i < length (g_hist g))%nat.
  Proof. intros g Hi i Hin. apply (I_lt g Hi). unfold all_ids. apply in_or_app; left; exact Hin. Qed.

  Lemma log_id_pos : forall g, Inv g -> forall p q c d,
    nth_error (g_log g) p = Some c -> nth_error (g_log g) q = Some d -> cid c = cid d -> p = q.
  Proof.
    intros g Hi p q c d Hp Hq Heq. pose proof (I_nodup g Hi) as Hnd. unfold all_ids, ids_of in Hnd.
    apply NoDup_app_l in Hnd. apply NoDup_app_l in Hnd.
    apply (NoDup_nth_error_inj _ (map cid (g_log g)) p q (cid c)); auto.
    - rewrite nth_error_map, Hp; reflexivity.
    - rewrite nth_error_map, Hq, Heq; reflexivity.
  Qed.

  (* a state that differs from g only by a later clock *)
  Ltac tick_time T1 :=
    let i := fresh "i" in let h := fresh "h" in let Hh := fresh "Hh" in
    let Ta := fresh "Ta" in let Tb := fresh "Tb" in let t := fresh "t" in let rr := fresh "rr" in let Hr := fresh "Hr" in
    intros i h Hh; destruct (T1 i h Hh) as [Ta Tb]; split; [lia|];
    intros t rr Hr; destruct (Tb t rr Hr); split; lia.

  (* ---------------- appending a fresh record to the history (t_invoke, t_reject, t_barrier) ---------------- *)
  Section Snoc.
    Variable g : gstate.
    Variable o : op.
    Hypothesis Hi : Inv g.
    Let hist' := g_hist g ++ [mkHop o (g_clock g) None].

    Lemma snoc_old : forall i h, nth_error (g_hist g) i = Some h -> nth_error hist' i = Some h.
    Proof. intros. apply nth_error_snoc_old; auto. Qed.

    Lemma snoc_new : nth_error hist' (length (g_hist g)) = Some (mkHop o (g_clock g) None).
    Proof. unfold hist'. rewrite nth_error_app2 by lia. rewrite Nat.sub_diag. reflexivity. Qed.

    Lemma snoc_time : forall i h, nth_error hist' i = Some h ->
      h_inv h < N.succ (g_clock g) /\ forall t r, h_ret h = Some (t, r) -> h_inv h < t /\ t < N.succ (g_clock g).
    Proof.
      intros i h Hh. apply nth_error_snoc in Hh. destruct Hh as [[_ Hh]|[_ ->]].
      - destruct (I_time g Hi i h Hh) as [Ta Tb]. split; [lia|]. intros t rr Hr. destruct (Tb t rr Hr). split; lia.
      - simpl. split; [lia|discriminate].
    Qed.

    Lemma snoc_after : forall p c h, nth_error (g_log g) p = Some c -> nth_error hist' (cid c) = Some h -> h_inv h < c_time c.
    Proof.
      intros p c h Hc Hh. apply nth_error_snoc in Hh. destruct Hh as [[_ Hh]|[Heq _]].
      - eapply (I_after g Hi); eauto.
      - exfalso. assert (cid c < length (g_hist g))%nat; [|lia]. apply (ids_lt g Hi). unfold ids_of. apply in_or_app. left.
        apply in_map. eapply nth_error_In; eauto.
    Qed.

    Lemma snoc_done : forall i h t r, nth_error hist' i = Some h -> h_ret h = Some (t, r) ->
      (exists p c, nth_error (g_log g) p = Some c /\ cid c = i /\ c_time c < t /\
                   r = snd (step (exec (firstn p (g_log g))) (e_op (c_ent c)))) \/ In i (map d_id (g_ldone g)).
    Proof.
      intros i h t r Hh Hr. apply nth_error_snoc in Hh. destruct Hh as [[_ Hh]|[_ ->]]; [eapply (I_done g Hi); eauto|discriminate].
    Qed.

    Lemma snoc_hist : forall e, In e (map c_ent (g_log g) ++ g_inflight g) ->
      exists h, nth_error hist' (e_id e) = Some h /\ h_op h = e_op e.
    Proof. intros e He. destruct (I_hist g Hi e He) as [h [Hh Ho]]. exists h. split; auto using snoc_old. Qed.

    Lemma snoc_pend : forall r id, In id (r_pending (g_rep g r)) -> exists h, nth_error hist' id = Some h /\ h_ret h = None.
    Proof. intros r id Hin. destruct (I_pend g Hi r id Hin) as [h [Hh Hr]]. exists h; auto using snoc_old. Qed.

    Lemma snoc_wait : forall q, In q (g_wait g) ->
      (exists h, nth_error hist' (l_id q) = Some h /\ h_ret h = None /\
                 forall p c, nth_error (g_log g) p = Some c -> (l_ci q <= p)%nat -> h_inv h < c_time c) /\
      (l_ci q <= length (g_log g))%nat /\ (forall r, ~ In (l_id q) (r_pending (g_rep g r))).
    Proof.
      intros q Hq. destruct (I_wait g Hi q Hq) as [[h [Hh [Hr Hc]]] [Hci Hp]]. split; [|split; auto].
      exists h. split; auto using snoc_old.
    Qed.

    Lemma snoc_ldone : forall d, In d (g_ldone g) ->
      exists h t r, nth_error hist' (d_id d) = Some h /\ h_ret h = Some (t, r) /\
        (d_slot d <= length (g_log g))%nat /\
        step (exec (firstn (d_slot d) (g_log g))) (h_op h) = (exec (firstn (d_slot d) (g_log g)), r) /\
        (forall p c, nth_error (g_log g) p = Some c -> (p < d_slot d)%nat -> c_time c < t) /\
        (d_read d = false ->
         forall p c, nth_error (g_log g) p = Some c -> (d_slot d <= p)%nat -> h_inv h < c_time c).
    Proof.
      intros d Hd. destruct (I_ldone g Hi d Hd) as [h [t [r [Hh Rest]]]]. exists h, t, r. split; auto using snoc_old.
    Qed.

    Lemma snoc_lorder : forall i j d1 d2 h1 h2 t1 r1 t2 r2, (i < j)%nat ->
      nth_error (g_ldone g) i = Some d1 -> nth_error (g_ldone g) j = Some d2 ->
      nth_error hist' (d_id d1) = Some h1 -> h_ret h1 = Some (t1, r1) ->
      nth_error hist' (d_id d2) = Some h2 -> h_ret h2 = Some (t2, r2) -> t1 < t2.
    Proof.
      intros i j d1 d2 h1 h2 t1 r1 t2 r2 Hlt Hd1 Hd2 Hh1 Hr1 Hh2 Hr2.
      apply nth_error_snoc in Hh1. destruct Hh1 as [[_ Hh1]|[_ ->]]; [|discriminate].
      apply nth_error_snoc in Hh2. destruct Hh2 as [[_ Hh2]|[_ ->]]; [|discriminate].
      eapply (I_lorder g Hi); eauto.
    Qed.
  End Snoc.

  Lemma Inv_invoke : forall g r o, Inv g ->
    Inv (mkG (N.succ (g_clock g)) (g_hist g ++ [mkHop o (g_clock g) None])
             (mkEntry (length (g_hist g)) (g_clock g) o :: g_inflight g) (g_log g)
             (upd (g_rep g) r (mkR (r_applied (g_rep g r)) (r_st (g_rep g r)) (length (g_hist g) :: r_pending (g_rep g r))))
             (g_wait g) (g_ldone g)).
  Proof.
    intros g r o Hi. pose proof Hi as Hi0.
    destruct Hi as [N1 L1 H1 T1 C1 M1 A1 D1 R1 P1 O1 W1 LD1 LO1].
    assert (Hold : forall r0 id, In id (r_pending (g_rep g r0)) -> (id < length (g_hist g))%nat).
    { intros r0 id Hin. destruct (P1 r0 id Hin) as [h [Hh _]]. apply nth_error_Some. congruence. }
    constructor; simpl.
    - unfold all_ids, ids_of in *; simpl. rewrite <- app_assoc. rewrite <- app_assoc in N1. simpl.
      apply (Permutation_NoDup (Permutation_middle _ _ _)). constructor; [|exact N1].
      intros Hin. rewrite app_assoc in Hin. apply L1 in Hin. lia.
    - intros i Hin. rewrite app_length; simpl. unfold all_ids, ids_of in *; simpl in Hin.
      rewrite <- app_assoc in Hin. apply in_app_or in Hin. destruct Hin as [Hin|[<-|Hin]]; [|lia|].
      + assert (i < length (g_hist g))%nat; [|lia]. apply L1. apply in_or_app; left. apply in_or_app; left; exact Hin.
      + assert (i < length (g_hist g))%nat; [|lia]. apply L1. rewrite <- app_assoc. apply in_or_app; right; exact Hin.
    - intros e He. apply in_app_or in He. destruct He as [He|[<-|He]].
      + apply (snoc_hist g o Hi0). apply in_or_app; left; exact He.
      + simpl. exists (mkHop o (g_clock g) None). split; [apply snoc_new|reflexivity].
      + apply (snoc_hist g o Hi0). apply in_or_app; right; exact He.
    - apply (snoc_time g o Hi0).
    - intros p c Hc. specialize (C1 p c Hc). lia.
    - exact M1.
    - apply (snoc_after g o Hi0).
    - apply (snoc_done g o Hi0).
    - intros r0. destruct (Nat.eq_dec r0 r) as [->|Hne]; [rewrite upd_same; simpl; apply R1|rewrite upd_other by auto; apply R1].
    - intros r0 id. destruct (Nat.eq_dec r0 r) as [->|Hne].
      + rewrite upd_same; simpl. intros [<-|Hin]; [eexists; split; [apply snoc_new|reflexivity]|eapply (snoc_pend g o Hi0); eauto].
      + rewrite upd_other by auto. apply (snoc_pend g o Hi0).
    - intros r1 r2 id. destruct (Nat.eq_dec r1 r) as [->|Hn1]; destruct (Nat.eq_dec r2 r) as [->|Hn2]; auto;
        rewrite ?upd_same, ?upd_other by auto; simpl.
      + intros [<-|H1'] H2'; [apply Hold in H2'; lia|eapply O1; eauto].
      + intros H1' [<-|H2']; [apply Hold in H1'; lia|eapply O1; eauto].
      + apply O1.
    - intros q Hq. destruct (snoc_wait g o Hi0 q Hq) as [Wa [Wb Wc]]. split; [exact Wa|split; [exact Wb|]].
      intros r0. destruct (Nat.eq_dec r0 r) as [->|Hne]; [rewrite upd_same; simpl|rewrite upd_other by auto; apply Wc].
      intros [Heq|Hin]; [|eapply Wc; eauto].
      assert (l_id q < length (g_hist g))%nat; [|lia]. apply L1. unfold all_ids. apply in_or_app; right.
      apply in_or_app; left. apply in_map; exact Hq.
    - apply (snoc_ldone g o Hi0).
    - apply (snoc_lorder g o Hi0).
  Qed.

  Lemma Inv_reject : forall g o, Inv g ->
    Inv (mkG (N.succ (g_clock g)) (g_hist g ++ [mkHop o (g_clock g) None]) (g_inflight g) (g_log g) (g_rep g)
             (g_wait g) (g_ldone g)).
  Proof.
    intros g o Hi. pose proof Hi as Hi0.
    destruct Hi as [N1 L1 H1 T1 C1 M1 A1 D1 R1 P1 O1 W1 LD1 LO1].
    constructor; simpl.
    - exact N1.
    - intros i Hin. rewrite app_length; simpl. specialize (L1 i Hin). lia.
    - apply (snoc_hist g o Hi0).
    - apply (snoc_time g o Hi0).
    - intros p c Hc. specialize (C1 p c Hc). lia.
    - exact M1.
    - apply (snoc_after g o Hi0).
    - apply (snoc_done g o Hi0).
    - exact R1.
    - apply (snoc_pend g o Hi0).
    - exact O1.
    - apply (snoc_wait g o Hi0).
    - apply (snoc_ldone g o Hi0).
    - apply (snoc_lorder g o Hi0).
  Qed.

  Lemma Inv_barrier : forall g r o, Inv g ->
    Inv (mkG (N.succ (g_clock g)) (g_hist g ++ [mkHop o (g_clock g) None]) (g_inflight g) (g_log g) (g_rep g)
             (mkL (length (g_hist g)) r (length (g_log g)) :: g_wait g) (g_ldone g)).
  Proof.
    intros g r o Hi. pose proof Hi as Hi0.
    destruct Hi as [N1 L1 H1 T1 C1 M1 A1 D1 R1 P1 O1 W1 LD1 LO1].
    constructor; simpl.
    - unfold all_ids in *; simpl. apply (Permutation_NoDup (Permutation_middle _ _ _)). constructor; [|exact N1].
      intros Hin. apply L1 in Hin. lia.
    - intros i Hin. rewrite app_length; simpl. unfold all_ids in *; simpl in Hin.
      apply in_app_or in Hin. destruct Hin as [Hin|[<-|Hin]]; [|lia|].
      + assert (i < length (g_hist g))%nat; [|lia]. apply L1. apply in_or_app; left; exact Hin.
      + assert (i < length (g_hist g))%nat; [|lia]. apply L1. apply in_or_app; right; exact Hin.
    - apply (snoc_hist g o Hi0).
    - apply (snoc_time g o Hi0).
    - intros p c Hc. specialize (C1 p c Hc). lia.
    - exact M1.
    - apply (snoc_after g o Hi0).
    - apply (snoc_done g o Hi0).
    - exact R1.
    - apply (snoc_pend g o Hi0).
    - exact O1.
    - intros q [<-|Hq]; [|apply (snoc_wait g o Hi0); exact Hq]. simpl. split; [|split; [lia|]].
      + eexists. split; [apply snoc_new|]. split; [reflexivity|]. intros p c Hc Hle.
        exfalso. assert (p < length (g_log g))%nat by (apply nth_error_Some; congruence). lia.
      + intros r0 Hin. destruct (P1 r0 _ Hin) as [h [Hh _]].
        assert (length (g_hist g) < length (g_hist g))%nat by (apply nth_error_Some; congruence). lia.
    - apply (snoc_ldone g o Hi0).
    - apply (snoc_lorder g o Hi0).
  Qed.

  Lemma Inv_drop : forall g l1 e l2, Inv g -> g_inflight g = l1 ++ e :: l2 ->
    Inv (mkG (N.succ (g_clock g)) (g_hist g) (l1 ++ l2) (g_log g) (g_rep g) (g_wait g) (g_ldone g)).
  Proof.
    intros g l1 e l2 Hi Heq. destruct Hi as [N1 L1 H1 T1 C1 M1 A1 D1 R1 P1 O1 W1 LD1 LO1].
    assert (Hsub : forall i, In i (all_ids (mkG (N.succ (g_clock g)) (g_hist g) (l1 ++ l2) (g_log g) (g_rep g) (g_wait g) (g_ldone g))) ->
                   In i (all_ids g)).
    { intros i. unfold all_ids, ids_of; simpl. rewrite Heq. rewrite !map_app. simpl. rewrite !in_app_iff. simpl. tauto. }
    constructor; simpl; auto.
    - assert (E1 : all_ids g = (map cid (g_log g) ++ map e_id l1) ++ e_id e :: (map e_id l2 ++ map l_id (g_wait g) ++ map d_id (g_ldone g))).
      { unfold all_ids, ids_of. rewrite Heq, map_app. simpl. rewrite <- !app_assoc. reflexivity. }
      rewrite E1 in N1. apply NoDup_remove_1 in N1.
      unfold all_ids, ids_of; simpl. rewrite map_app, <- !app_assoc. rewrite <- !app_assoc in N1. exact N1.
    - intros e0 He. apply H1. rewrite Heq. apply in_app_or in He. apply in_or_app. destruct He as [He|He]; auto.
      right. apply in_app_or in He. apply in_or_app. destruct He; [left|right; right]; auto.
    - tick_time T1.
    - intros p c Hc. specialize (C1 p c Hc). lia.
  Qed.

  Lemma Inv_commit : forall g l1 e l2, Inv g -> g_inflight g = l1 ++ e :: l2 ->
    Inv (mkG (N.succ (g_clock g)) (g_hist g) (l1 ++ l2) (g_log g ++ [mkC e (g_clock g)]) (g_rep g) (g_wait g) (g_ldone g)).
  Proof.
    intros g l1 e l2 Hi Heq. destruct Hi as [N1 L1 H1 T1 C1 M1 A1 D1 R1 P1 O1 W1 LD1 LO1].
    assert (Hperm : Permutation (all_ids g)
              (all_ids (mkG (N.succ (g_clock g)) (g_hist g) (l1 ++ l2) (g_log g ++ [mkC e (g_clock g)]) (g_rep g) (g_wait g) (g_ldone g)))).
    { unfold all_ids, ids_of; simpl. rewrite Heq. rewrite !map_app. simpl. apply Permutation_app_tail.
      rewrite <- app_assoc. apply Permutation_app_head. simpl. apply Permutation_sym, Permutation_middle. }
    constructor; simpl.
    - eapply Permutation_NoDup; eauto.
    - intros i Hin. apply L1. eapply Permutation_in; [apply Permutation_sym; exact Hperm|exact Hin].
    - intros e0 He. apply H1. rewrite Heq. rewrite map_app in He. simpl in He.
      apply in_app_or in He. apply in_or_app. destruct He as [He|He].
      + apply in_app_or in He. destruct He as [He|[<-|[]]]; [left; auto|right]. apply in_or_app. right; left; reflexivity.
      + right. apply in_app_or in He. apply in_or_app. destruct He; [left|right; right]; auto.
    - tick_time T1.
    - intros p c Hc. apply nth_error_snoc in Hc. destruct Hc as [[_ Hc]|[_ ->]]; [specialize (C1 p c Hc); lia|simpl; lia].
    - intros p q c d Hlt Hc Hd. apply nth_error_snoc in Hd. destruct Hd as [[Hq Hd]|[Hq ->]].
      + rewrite nth_error_app1 in Hc by lia. exact (M1 p q c d Hlt Hc Hd).
      + rewrite nth_error_app1 in Hc by lia. simpl. apply (C1 p c Hc).
    - intros p c h Hc Hh. apply nth_error_snoc in Hc. destruct Hc as [[_ Hc]|[_ ->]]; [eapply A1; eauto|].
      simpl. apply (T1 _ _ Hh).
    - intros i h t rr Hh Hr. destruct (D1 i h t rr Hh Hr) as [[p [c [Hc [Hid [Ht Hres]]]]]|Hl]; [left|right; exact Hl].
      exists p, c. split; [apply nth_error_snoc_old; exact Hc|]. split; [exact Hid|]. split; [exact Ht|].
      rewrite firstn_snoc_le; [exact Hres|]. apply Nat.lt_le_incl. apply nth_error_Some. congruence.
    - intros r0. destruct (R1 r0) as [Ra Rb]. rewrite app_length. simpl. split; [lia|].
      rewrite firstn_snoc_le by exact Ra. exact Rb.
    - exact P1.
    - exact O1.
    - intros q Hq. destruct (W1 q Hq) as [[h [Hh [Hr Hc]]] [Hci Hp]]. split; [|split; [rewrite app_length; simpl; lia|exact Hp]].
      exists h. split; [exact Hh|]. split; [exact Hr|]. intros p c Hpc Hle.
      apply nth_error_snoc in Hpc. destruct Hpc as [[_ Hpc]|[_ ->]]; [eapply Hc; eauto|]. simpl. apply (T1 _ _ Hh).
    - intros d Hd. destruct (LD1 d Hd) as [h [t [r [Hh [Hr [Hs [Hsc [Hb Ha]]]]]]]].
      exists h, t, r. split; [exact Hh|]. split; [exact Hr|]. split; [rewrite app_length; simpl; lia|].
      split; [rewrite firstn_snoc_le by exact Hs; exact Hsc|]. split.
      + intros p c Hpc Hlt. apply nth_error_snoc in Hpc. destruct Hpc as [[_ Hpc]|[Hp _]]; [eapply Hb; eauto|lia].
      + intros Hrd p c Hpc Hle. apply nth_error_snoc in Hpc. destruct Hpc as [[_ Hpc]|[_ ->]]; [eapply (Ha Hrd); eauto|].
        simpl. apply (T1 _ _ Hh).
    - exact LO1.
  Qed.

  Lemma Inv_rep_change : forall g r a st pend, Inv g ->
    ((a <= length (g_log g))%nat /\ st = exec (firstn a (g_log g))) ->
    (forall id, In id pend -> In id (r_pending (g_rep g r))) ->
    Inv (mkG (N.succ (g_clock g)) (g_hist g) (g_inflight g) (g_log g) (upd (g_rep g) r (mkR a st pend)) (g_wait g) (g_ldone g)).
  Proof.
    intros g r a st pend Hi Hrep Hsub. destruct Hi as [N1 L1 H1 T1 C1 M1 A1 D1 R1 P1 O1 W1 LD1 LO1].
    constructor; simpl; auto.
    - tick_time T1.
    - intros p c Hc. specialize (C1 p c Hc). lia.
    - intros r0. destruct (Nat.eq_dec r0 r) as [->|Hne]; [rewrite upd_same; simpl; exact Hrep|rewrite upd_other by auto; apply R1].
    - intros r0 id. destruct (Nat.eq_dec r0 r) as [->|Hne]; [rewrite upd_same; simpl; intros Hin; apply (P1 r); auto|rewrite upd_other by auto; apply P1].
    - intros r1 r2 id Hin1 Hin2. apply (O1 r1 r2 id).
      + destruct (Nat.eq_dec r1 r) as [->|Hne]; [rewrite upd_same in Hin1; simpl in Hin1; auto|rewrite upd_other in Hin1 by auto; exact Hin1].
      + destruct (Nat.eq_dec r2 r) as [->|Hne]; [rewrite upd_same in Hin2; simpl in Hin2; auto|rewrite upd_other in Hin2 by auto; exact Hin2].
    - intros q Hq. destruct (W1 q Hq) as [Wa [Wb Wc]]. split; [exact Wa|split; [exact Wb|]].
      intros r0. destruct (Nat.eq_dec r0 r) as [->|Hne]; [rewrite upd_same; simpl; intros Hin; eapply Wc; eauto|rewrite upd_other by auto; apply Wc].
  Qed.

  Lemma Inv_fallback : forall g l1 q l2 h, Inv g -> g_wait g = l1 ++ q :: l2 ->
    nth_error (g_hist g) (l_id q) = Some h ->
    Inv (mkG (N.succ (g_clock g)) (g_hist g)
             (mkEntry (l_id q) (g_clock g) (h_op h) :: g_inflight g) (g_log g)
             (upd (g_rep g) (l_rep q) (mkR (r_applied (g_rep g (l_rep q))) (r_st (g_rep g (l_rep q))) (l_id q :: r_pending (g_rep g (l_rep q)))))
             (l1 ++ l2) (g_ldone g)).
  Proof.
    intros g l1 q l2 h Hi Heq Hh. destruct Hi as [N1 L1 H1 T1 C1 M1 A1 D1 R1 P1 O1 W1 LD1 LO1].
    set (r := l_rep q).
    assert (Hq : In q (g_wait g)) by (rewrite Heq; apply in_or_app; right; left; reflexivity).
    destruct (W1 q Hq) as [[h0 [Hh0 [Hr0 _]]] [_ Hnp]]. rewrite Hh in Hh0. inversion Hh0; subst h0.
    assert (Hperm : Permutation (all_ids g)
              (all_ids (mkG (N.succ (g_clock g)) (g_hist g) (mkEntry (l_id q) (g_clock g) (h_op h) :: g_inflight g) (g_log g)
                            (upd (g_rep g) r (mkR (r_applied (g_rep g r)) (r_st (g_rep g r)) (l_id q :: r_pending (g_rep g r))))
                            (l1 ++ l2) (g_ldone g)))).
    { unfold all_ids, ids_of; simpl. rewrite Heq. rewrite !map_app. simpl.
      rewrite <- !app_assoc. apply Permutation_app_head. simpl.
      apply Permutation_sym. eapply Permutation_trans; [apply Permutation_middle|].
      apply Permutation_app_head. eapply Permutation_trans; [apply Permutation_middle|]. reflexivity. }
    assert (Hw' : forall q', In q' (l1 ++ l2) -> In q' (g_wait g) /\ l_id q' <> l_id q).
    { intros q' Hq'. split.
      - rewrite Heq. apply in_app_or in Hq'. apply in_or_app. destruct Hq'; [left|right; right]; auto.
      - intros Heq'. unfold all_ids in N1. apply NoDup_app_r in N1. apply NoDup_app_l in N1. rewrite Heq in N1.
        rewrite map_app in N1. simpl in N1. apply NoDup_remove_2 in N1. apply N1. rewrite <- Heq'.
        rewrite <- map_app. apply in_map. exact Hq'. }
    constructor; simpl; fold r.
    - eapply Permutation_NoDup; eauto.
    - intros i Hin. apply L1. eapply Permutation_in; [apply Permutation_sym; exact Hperm|exact Hin].
    - intros e0 He. apply in_app_or in He. destruct He as [He|[<-|He]].
      + apply H1. apply in_or_app; left; exact He.
      + simpl. exists h. split; auto.
      + apply H1. apply in_or_app; right; exact He.
    - tick_time T1.
    - intros p c Hc. specialize (C1 p c Hc). lia.
    - exact M1.
    - exact A1.
    - exact D1.
    - intros r0. destruct (Nat.eq_dec r0 r) as [->|Hne]; [rewrite upd_same; simpl; apply R1|rewrite upd_other by auto; apply R1].
    - intros r0 id. destruct (Nat.eq_dec r0 r) as [->|Hne].
      + rewrite upd_same; simpl. intros [<-|Hin]; [exists h; auto|apply (P1 r); auto].
      + rewrite upd_other by auto. apply P1.
    - intros r1 r2 id. destruct (Nat.eq_dec r1 r) as [->|Hn1]; destruct (Nat.eq_dec r2 r) as [->|Hn2]; auto;
        rewrite ?upd_same, ?upd_other by auto; simpl.
      + intros [<-|H1'] H2'; [exfalso; eapply Hnp; eauto|eapply O1; eauto].
      + intros H1' [<-|H2']; [exfalso; eapply Hnp; eauto|eapply O1; eauto].
      + apply O1.
    - intros q' Hq'. destruct (Hw' q' Hq') as [Hin Hne]. destruct (W1 q' Hin) as [Wa [Wb Wc]].
      split; [exact Wa|split; [exact Wb|]].
      intros r0. destruct (Nat.eq_dec r0 r) as [->|Hner]; [rewrite upd_same; simpl|rewrite upd_other by auto; apply Wc].
      intros [Heq'|Hin']; [congruence|eapply Wc; eauto].
    - exact LD1.
    - exact LO1.
  Qed.

  Lemma log_id_not_local : forall g, Inv g -> forall p c, nth_error (g_log g) p = Some c ->
    (forall q, In q (g_wait g) -> l_id q <> cid c) /\ (forall d, In d (g_ldone g) -> d_id d <> cid c).
  Proof.
    intros g Hi p c Hc. pose proof (I_nodup g Hi) as Hnd. unfold all_ids, ids_of in Hnd.
    assert (Hin : In (cid c) (map cid (g_log g) ++ map e_id (g_inflight g))).
    { apply in_or_app; left. apply in_map. eapply nth_error_In; eauto. }
    split.
    - intros q Hq Heq. apply (NoDup_app_disj _ _ _ (cid c) Hnd Hin). apply in_or_app; left. rewrite <- Heq. apply in_map; exact Hq.
    - intros d Hd Heq. apply (NoDup_app_disj _ _ _ (cid c) Hnd Hin). apply in_or_app; right. rewrite <- Heq. apply in_map; exact Hd.
  Qed.

  Lemma Inv_apply : forall g r c, Inv g ->
    nth_error (g_log g) (r_applied (g_rep g r)) = Some c ->
    let rs := g_rep g r in let e := c_ent c in
    let sr := apply_impl r (e_ts e) (r_st rs) (e_op e) in
    let triggered := existsb (Nat.eqb (e_id e)) (r_pending rs) in
    Inv (mkG (N.succ (g_clock g))
             (if triggered then set_ret (e_id e) (g_clock g, snd sr) (g_hist g) else g_hist g)
             (g_inflight g) (g_log g)
             (upd (g_rep g) r (mkR (S (r_applied rs)) (fst sr) (remove_id (e_id e) (r_pending rs))))
             (g_wait g) (g_ldone g)).
  Proof.
    intros g r c Hi Hc rs e sr triggered.
    assert (Hsr : sr = step (r_st rs) (e_op e)) by apply apply_det.
    pose proof Hi as Hi0. destruct (log_id_not_local g Hi0 _ _ Hc) as [NLw NLd]. fold (cid c) in *.
    destruct Hi as [N1 L1 H1 T1 C1 M1 A1 D1 R1 P1 O1 W1 LD1 LO1].
    set (hist' := if triggered then set_ret (e_id e) (g_clock g, snd sr) (g_hist g) else g_hist g).
    assert (Hlen : length hist' = length (g_hist g)) by (unfold hist'; destruct triggered; [apply set_ret_length|reflexivity]).
    assert (Lk : forall i h', nth_error hist' i = Some h' ->
              exists h, nth_error (g_hist g) i = Some h /\ h_op h' = h_op h /\ h_inv h' = h_inv h /\
                ((i <> e_id e \/ triggered = false) /\ h' = h \/ (triggered = true /\ i = e_id e /\ h_ret h' = Some (g_clock g, snd sr)))).
    { intros i h' Hh. unfold hist' in Hh. destruct triggered eqn:Et.
      - destruct (set_ret_lookup _ _ _ _ _ Hh) as [h [Ha [Hb [Hc' Hd]]]]. exists h. repeat split; auto.
        destruct Hd as [[Hne ->]|[-> Hr]]; [left; auto|right; auto].
      - exists h'. repeat split; auto. }
    assert (Lk2 : forall i h, nth_error (g_hist g) i = Some h -> (i <> e_id e \/ triggered = false) -> nth_error hist' i = Some h).
    { intros i h Hh Hcond. unfold hist'. destruct triggered eqn:Et; [|exact Hh].
      destruct Hcond as [Hne|Hf]; [|discriminate]. rewrite set_ret_other by auto. exact Hh. }
    assert (Lk3 : forall i h, nth_error (g_hist g) i = Some h ->
              exists h', nth_error hist' i = Some h' /\ h_op h' = h_op h /\ h_inv h' = h_inv h).
    { intros i h Hh. unfold hist'. destruct triggered eqn:Et; [|exists h; auto].
      destruct (Nat.eq_dec i (e_id e)) as [->|Hne].
      - eexists. split; [apply set_ret_same; exact Hh|]. simpl; auto.
      - exists h. rewrite set_ret_other by auto. auto. }
    constructor; simpl; fold hist'.
    - exact N1.
    - intros i Hin. rewrite Hlen. apply L1; exact Hin.
    - intros e0 He. destruct (H1 e0 He) as [h [Hh Ho]]. destruct (Lk3 _ _ Hh) as [h' [Hh' [Hop _]]].
      exists h'. split; [exact Hh'|congruence].
    - intros i h' Hh'. destruct (Lk _ _ Hh') as [h [Hh [_ [Hinv Hret]]]]. destruct (T1 i h Hh) as [Ta Tb].
      split; [rewrite Hinv; lia|]. intros t rr Hr. destruct Hret as [[_ ->]|[_ [_ Hret]]].
      + destruct (Tb t rr Hr). split; lia.
      + rewrite Hret in Hr. inversion Hr; subst. rewrite Hinv. split; lia.
    - intros p c0 Hc0. specialize (C1 p c0 Hc0). lia.
    - exact M1.
    - intros p c0 h' Hc0 Hh'. destruct (Lk _ _ Hh') as [h [Hh [_ [Hinv _]]]]. rewrite Hinv. eapply A1; eauto.
    - intros i h' t rr Hh' Hr. destruct (Lk _ _ Hh') as [h [Hh [_ [_ Hret]]]]. destruct Hret as [[_ ->]|[_ [-> Hret]]].
      + eapply D1; eauto.
      + left. rewrite Hret in Hr. inversion Hr; subst t rr. exists (r_applied rs), c. split; [exact Hc|].
        split; [reflexivity|]. split; [apply (C1 _ _ Hc)|]. rewrite Hsr. destruct (R1 r) as [_ Rb]. unfold rs. rewrite Rb. reflexivity.
    - intros r0. destruct (Nat.eq_dec r0 r) as [->|Hne]; [rewrite upd_same; cbn [r_applied r_st]|rewrite upd_other by auto; apply R1].
      destruct (R1 r) as [Ra Rb]. split.
      + apply nth_error_Some. unfold rs. congruence.
      + unfold rs in *. rewrite (firstn_S_nth _ _ _ _ Hc), exec_snoc, Hsr. rewrite Rb. reflexivity.
    - intros r0 id Hin.
      assert (Hold : In id (r_pending (g_rep g r0)) /\ (r0 = r -> id <> e_id e)).
      { destruct (Nat.eq_dec r0 r) as [->|Hne].
        - rewrite upd_same in Hin. simpl in Hin. apply remove_id_in in Hin. tauto.
        - rewrite upd_other in Hin by auto. split; [exact Hin|congruence]. }
      destruct Hold as [Hin0 Hne]. destruct (P1 r0 id Hin0) as [h [Hh Hr]].
      exists h. split; [|exact Hr]. apply Lk2; [exact Hh|].
      destruct triggered eqn:Et; [|right; reflexivity]. left.
      intros ->. apply existsb_eqb_in in Et. fold e in Et. pose proof (O1 r0 r (e_id e) Hin0 Et) as Heq. apply Hne; auto.
    - intros r1 r2 id Hin1 Hin2. apply (O1 r1 r2 id).
      + destruct (Nat.eq_dec r1 r) as [->|Hne]; [rewrite upd_same in Hin1; simpl in Hin1; apply remove_id_in in Hin1; tauto|rewrite upd_other in Hin1 by auto; exact Hin1].
      + destruct (Nat.eq_dec r2 r) as [->|Hne]; [rewrite upd_same in Hin2; simpl in Hin2; apply remove_id_in in Hin2; tauto|rewrite upd_other in Hin2 by auto; exact Hin2].
    - intros q Hq. destruct (W1 q Hq) as [[h [Hh [Hr Hcc]]] [Wb Wc]]. split; [|split; [exact Wb|]].
      + exists h. split; [apply Lk2; [exact Hh|left; apply NLw; exact Hq]|]. split; auto.
      + intros r0. destruct (Nat.eq_dec r0 r) as [->|Hne]; [rewrite upd_same; simpl|rewrite upd_other by auto; apply Wc].
        intros Hin. apply remove_id_in in Hin. eapply Wc; apply Hin.
    - intros d Hd. destruct (LD1 d Hd) as [h [t [rr [Hh Rest]]]]. exists h, t, rr. split; [|exact Rest].
      apply Lk2; [exact Hh|left; apply NLd; exact Hd].
    - intros i j d1 d2 h1 h2 t1 r1 t2 r2 Hlt Hd1 Hd2 Hh1 Hr1 Hh2 Hr2.
      assert (E1 : nth_error (g_hist g) (d_id d1) = Some h1).
      { destruct (Lk _ _ Hh1) as [h [Hh [_ [_ [[_ ->]|[_ [Heq _]]]]]]]; [exact Hh|].
        exfalso. eapply NLd; [eapply nth_error_In; exact Hd1|exact Heq]. }
      assert (E2 : nth_error (g_hist g) (d_id d2) = Some h2).
      { destruct (Lk _ _ Hh2) as [h [Hh [_ [_ [[_ ->]|[_ [Heq _]]]]]]]; [exact Hh|].
        exfalso. eapply NLd; [eapply nth_error_In; exact Hd2|exact Heq]. }
      eapply LO1; eauto.
  Qed.

  Lemma Inv_local : forall g l1 q l2 h res, Inv g -> g_wait g = l1 ++ q :: l2 ->
    (l_ci q <= r_applied (g_rep g (l_rep q)))%nat ->
    nth_error (g_hist g) (l_id q) = Some h ->
    shortcut (r_st (g_rep g (l_rep q))) (h_op h) = Some res ->
    Inv (mkG (N.succ (g_clock g)) (set_ret (l_id q) (g_clock g, res) (g_hist g))
             (g_inflight g) (g_log g) (g_rep g)
             (l1 ++ l2) (g_ldone g ++ [mkD (l_id q) (r_applied (g_rep g (l_rep q))) false])).
  Proof.
    intros g l1 q l2 h res Hi Heq Hci Hh Hsc. pose proof Hi as Hi0.
    destruct Hi as [N1 L1 H1 T1 C1 M1 A1 D1 R1 P1 O1 W1 LD1 LO1].
    set (id := l_id q). set (k := r_applied (g_rep g (l_rep q))).
    set (hist' := set_ret id (g_clock g, res) (g_hist g)).
    assert (Hq : In q (g_wait g)) by (rewrite Heq; apply in_or_app; right; left; reflexivity).
    destruct (W1 q Hq) as [[h0 [Hh0 [Hr0 Hafter]]] [Hcil Hnp]]. fold id in Hh0, Hh, Hnp. rewrite Hh in Hh0. inversion Hh0; subst h0.
    set (h' := mkHop (h_op h) (h_inv h) (Some (g_clock g, res))).
    assert (Hnew : nth_error hist' id = Some h') by (apply set_ret_same; exact Hh).
    assert (Hperm : Permutation (all_ids g)
              (all_ids (mkG (N.succ (g_clock g)) hist' (g_inflight g) (g_log g) (g_rep g) (l1 ++ l2) (g_ldone g ++ [mkD id k false])))).
    { unfold all_ids, ids_of; simpl. rewrite Heq. rewrite !map_app. simpl. apply Permutation_app_head.
      rewrite <- !app_assoc. apply Permutation_app_head. simpl. fold id.
      rewrite (app_assoc (map l_id l2)). apply Permutation_cons_append. }
    assert (Hnd' : NoDup (all_ids g)) by exact N1.
    (* the id is neither an entry id, nor another waiting id, nor an already answered one *)
    assert (Hid_ids : ~ In id (ids_of g)).
    { intros Hin. unfold all_ids in N1. eapply (NoDup_app_disj _ _ _ id N1 Hin). apply in_or_app; left. apply in_map; exact Hq. }
    assert (Hid_ld : forall d, In d (g_ldone g) -> d_id d <> id).
    { intros d Hd Hde. unfold all_ids in N1. apply NoDup_app_r in N1.
      eapply (NoDup_app_disj _ _ _ id N1); [apply in_map; exact Hq|rewrite <- Hde; apply in_map; exact Hd]. }
    assert (Hw' : forall q', In q' (l1 ++ l2) -> In q' (g_wait g) /\ l_id q' <> id).
    { intros q' Hq'. split.
      - rewrite Heq. apply in_app_or in Hq'. apply in_or_app. destruct Hq'; [left|right; right]; auto.
      - intros Heq'. unfold all_ids in N1. apply NoDup_app_r in N1. apply NoDup_app_l in N1. rewrite Heq in N1.
        rewrite map_app in N1. simpl in N1. apply NoDup_remove_2 in N1. apply N1. fold id. rewrite <- Heq'.
        rewrite <- map_app. apply in_map. exact Hq'. }
    assert (Lk : forall i x', nth_error hist' i = Some x' ->
              exists x, nth_error (g_hist g) i = Some x /\ h_op x' = h_op x /\ h_inv x' = h_inv x /\
                        ((i <> id /\ x' = x) \/ (i = id /\ h_ret x' = Some (g_clock g, res)))).
    { intros i x' Hx. apply (set_ret_lookup _ _ _ _ _ Hx). }
    assert (Lk2 : forall i x, nth_error (g_hist g) i = Some x -> i <> id -> nth_error hist' i = Some x).
    { intros i x Hx Hne. unfold hist'. rewrite set_ret_other by auto. exact Hx. }
    assert (Lk3 : forall i x, nth_error (g_hist g) i = Some x ->
              exists x', nth_error hist' i = Some x' /\ h_op x' = h_op x /\ h_inv x' = h_inv x).
    { intros i x Hx. destruct (Nat.eq_dec i id) as [->|Hne].
      - eexists. split; [apply set_ret_same; exact Hx|]. simpl; auto.
      - exists x. split; auto. }
    destruct (R1 (l_rep q)) as [Rk Rst]. fold k in Rk, Rst, Hci.
    constructor; simpl; fold id k hist'.
    - eapply Permutation_NoDup; eauto.
    - intros i Hin. unfold hist'. rewrite set_ret_length. apply L1. eapply Permutation_in; [apply Permutation_sym; exact Hperm|exact Hin].
    - intros e0 He. destruct (H1 e0 He) as [x [Hx Ho]]. destruct (Lk3 _ _ Hx) as [x' [Hx' [Hop _]]].
      exists x'. split; [exact Hx'|congruence].
    - intros i x' Hx'. destruct (Lk _ _ Hx') as [x [Hx [_ [Hinv Hret]]]]. destruct (T1 i x Hx) as [Ta Tb].
      split; [rewrite Hinv; lia|]. intros t rr Hr. destruct Hret as [[_ ->]|[_ Hret]].
      + destruct (Tb t rr Hr). split; lia.
      + rewrite Hret in Hr. inversion Hr; subst. rewrite Hinv. split; lia.
    - intros p c0 Hc0. specialize (C1 p c0 Hc0). lia.
    - exact M1.
    - intros p c0 x' Hc0 Hx'. destruct (Lk _ _ Hx') as [x [Hx [_ [Hinv _]]]]. rewrite Hinv. eapply A1; eauto.
    - intros i x' t rr Hx' Hr. destruct (Lk _ _ Hx') as [x [Hx [_ [_ Hret]]]]. destruct Hret as [[_ ->]|[-> _]].
      + destruct (D1 _ _ _ _ Hx Hr) as [Hl|Hl]; [left; exact Hl|right]. rewrite map_app. apply in_or_app; left; exact Hl.
      + right. rewrite map_app. apply in_or_app; right. simpl. left; reflexivity.
    - exact R1.
    - intros r0 id0 Hin. destruct (P1 r0 id0 Hin) as [x [Hx Hr]]. exists x. split; [|exact Hr].
      apply Lk2; [exact Hx|]. intros ->. eapply Hnp; eauto.
    - exact O1.
    - intros q' Hq'. destruct (Hw' q' Hq') as [Hin Hne]. destruct (W1 q' Hin) as [[x [Hx [Hr Hcc]]] [Wb Wc]].
      split; [|split; [exact Wb|exact Wc]]. exists x. split; [apply Lk2; auto|]. split; auto.
    - intros d Hd. apply in_app_or in Hd. destruct Hd as [Hd|[<-|[]]].
      + destruct (LD1 d Hd) as [x [t [rr [Hx Rest]]]]. exists x, t, rr. split; [|exact Rest].
        apply Lk2; [exact Hx|apply Hid_ld; exact Hd].
      + simpl. exists h', (g_clock g), res. split; [exact Hnew|]. split; [reflexivity|]. split; [exact Rk|].
        split; [simpl; rewrite <- Rst; apply shortcut_step; exact Hsc|]. split.
        * intros p c0 Hc0 _. apply (C1 _ _ Hc0).
        * intros _ p c0 Hc0 Hle. simpl. apply (Hafter p c0 Hc0). lia.
    - intros i j d1 d2 h1 h2 t1 r1 t2 r2 Hlt Hd1 Hd2 Hh1 Hr1 Hh2 Hr2.
      assert (Hi_old : (i < length (g_ldone g))%nat).
      { assert (j < length (g_ldone g ++ [mkD id k false]))%nat by (apply nth_error_Some; congruence).
        rewrite app_length in H. simpl in H. lia. }
      rewrite nth_error_app1 in Hd1 by exact Hi_old.
      assert (E1 : nth_error (g_hist g) (d_id d1) = Some h1).
      { destruct (Lk _ _ Hh1) as [x [Hx [_ [_ [[_ ->]|[Heq' _]]]]]]; [exact Hx|].
        exfalso. eapply Hid_ld; [eapply nth_error_In; exact Hd1|exact Heq']. }
      apply nth_error_snoc in Hd2. destruct Hd2 as [[_ Hd2]|[_ ->]].
      + assert (E2 : nth_error (g_hist g) (d_id d2) = Some h2).
        { destruct (Lk _ _ Hh2) as [x [Hx [_ [_ [[_ ->]|[Heq' _]]]]]]; [exact Hx|].
          exfalso. eapply Hid_ld; [eapply nth_error_In; exact Hd2|exact Heq']. }
        exact (LO1 i j d1 d2 h1 h2 t1 r1 t2 r2 Hlt Hd1 Hd2 E1 Hr1 E2 Hr2).
      + simpl in Hh2. rewrite Hnew in Hh2. inversion Hh2; subst h2. simpl in Hr2. inversion Hr2; subst t2 r2.
        destruct (T1 _ _ E1) as [_ Tb]. destruct (Tb _ _ Hr1). assumption.
  Qed.

  Lemma nonmut_step : forall s o, mutating o = false -> step s o = (s, snd (step s o)).
  Proof. intros s o H. destruct o; try discriminate; reflexivity. Qed.

  Lemma Inv_read : forall g r o, Inv g -> mutating o = false ->
    Inv (mkG (N.succ (N.succ (g_clock g)))
             (g_hist g ++ [mkHop o (g_clock g) (Some (N.succ (g_clock g), snd (step (r_st (g_rep g r)) o)))])
             (g_inflight g) (g_log g) (g_rep g) (g_wait g)
             (g_ldone g ++ [mkD (length (g_hist g)) (r_applied (g_rep g r)) true])).
  Proof.
    intros g r o Hi Hmut. pose proof Hi as Hi0. pose proof (ids_lt g Hi) as Hlt.
    destruct Hi as [N1 L1 H1 T1 C1 M1 A1 D1 R1 P1 O1 W1 LD1 LO1].
    set (rec := mkHop o (g_clock g) (Some (N.succ (g_clock g), snd (step (r_st (g_rep g r)) o)))).
    set (id := length (g_hist g)). set (k := r_applied (g_rep g r)).
    assert (Hold : forall i h, nth_error (g_hist g) i = Some h -> nth_error (g_hist g ++ [rec]) i = Some h)
      by (intros; apply nth_error_snoc_old; assumption).
    assert (Hnew : nth_error (g_hist g ++ [rec]) id = Some rec)
      by (unfold id; rewrite nth_error_app2 by lia; rewrite Nat.sub_diag; reflexivity).
    assert (Hperm : Permutation (id :: all_ids g)
              (all_ids (mkG (N.succ (N.succ (g_clock g))) (g_hist g ++ [rec]) (g_inflight g) (g_log g) (g_rep g) (g_wait g)
                            (g_ldone g ++ [mkD id k true])))).
    { unfold all_ids; simpl. rewrite map_app. simpl. rewrite !app_assoc. apply Permutation_cons_append. }
    destruct (R1 r) as [Rk Rst]. fold k in Rk, Rst.
    constructor; simpl; fold rec id k.
    - eapply Permutation_NoDup; [exact Hperm|]. constructor; [|exact N1]. intros Hin. apply L1 in Hin. unfold id in Hin. lia.
    - intros i Hin. rewrite app_length; simpl. apply (Permutation_in _ (Permutation_sym Hperm)) in Hin.
      destruct Hin as [<-|Hin]; [unfold id; lia|]. specialize (L1 i Hin). lia.
    - intros e He. destruct (H1 e He) as [h [Hh Ho]]. exists h. split; auto.
    - intros i h Hh. apply nth_error_snoc in Hh. destruct Hh as [[_ Hh]|[_ ->]].
      + destruct (T1 i h Hh) as [Ta Tb]. split; [lia|]. intros t rr Hr. destruct (Tb t rr Hr). split; lia.
      + unfold rec; simpl. split; [lia|]. intros t rr Hr. inversion Hr; subst. split; lia.
    - intros p c Hc. specialize (C1 p c Hc). lia.
    - exact M1.
    - intros p c h Hc Hh. apply nth_error_snoc in Hh. destruct Hh as [[_ Hh]|[Heq _]]; [eapply A1; eauto|].
      exfalso. assert (cid c < length (g_hist g))%nat; [|lia]. apply Hlt. unfold ids_of. apply in_or_app. left.
      apply in_map. eapply nth_error_In; eauto.
    - intros i h t rr Hh Hr. apply nth_error_snoc in Hh. destruct Hh as [[_ Hh]|[-> _]].
      + destruct (D1 _ _ _ _ Hh Hr) as [Hl|Hl]; [left; exact Hl|right]. rewrite map_app. apply in_or_app; left; exact Hl.
      + right. rewrite map_app. apply in_or_app; right. left; reflexivity.
    - exact R1.
    - intros r0 id0 Hin. destruct (P1 r0 id0 Hin) as [h [Hh Hr]]. exists h; auto.
    - exact O1.
    - intros q Hq. destruct (W1 q Hq) as [[h [Hh [Hr Hc]]] [Hci Hp]]. split; [|split; auto]. exists h. split; auto.
    - intros d Hd. apply in_app_or in Hd. destruct Hd as [Hd|[<-|[]]].
      + destruct (LD1 d Hd) as [h [t [rr [Hh Rest]]]]. exists h, t, rr. split; auto.
      + simpl. exists rec, (N.succ (g_clock g)), (snd (step (r_st (g_rep g r)) o)). split; [exact Hnew|].
        split; [reflexivity|]. split; [exact Rk|]. split; [simpl; rewrite <- Rst; apply nonmut_step; exact Hmut|]. split.
        * intros p c0 Hc0 _. specialize (C1 _ _ Hc0). lia.
        * discriminate.
    - intros i j d1 d2 h1 h2 t1 r1 t2 r2 Hlt' Hd1 Hd2 Hh1 Hr1 Hh2 Hr2.
      assert (Hi_old : (i < length (g_ldone g))%nat).
      { assert (j < length (g_ldone g ++ [mkD id k true]))%nat by (apply nth_error_Some; congruence).
        rewrite app_length in H. simpl in H. lia. }
      rewrite nth_error_app1 in Hd1 by exact Hi_old.
      assert (Hid1 : (d_id d1 < length (g_hist g))%nat).
      { apply L1. unfold all_ids. apply in_or_app; right. apply in_or_app; right. apply in_map. eapply nth_error_In; eauto. }
      rewrite nth_error_app1 in Hh1 by exact Hid1.
      apply nth_error_snoc in Hd2. destruct Hd2 as [[_ Hd2]|[_ ->]].
      + assert (Hid2 : (d_id d2 < length (g_hist g))%nat).
        { apply L1. unfold all_ids. apply in_or_app; right. apply in_or_app; right. apply in_map. eapply nth_error_In; eauto. }
        rewrite nth_error_app1 in Hh2 by exact Hid2.
        exact (LO1 i j d1 d2 h1 h2 t1 r1 t2 r2 Hlt' Hd1 Hd2 Hh1 Hr1 Hh2 Hr2).
      + simpl in Hh2. rewrite Hnew in Hh2. inversion Hh2; subst h2. simpl in Hr2. inversion Hr2; subst t2 r2.
        destruct (T1 _ _ Hh1) as [_ Tb]. destruct (Tb _ _ Hr1). lia.
  Qed.

  Lemma Inv_step : forall g g', Inv g -> pstep g g' -> Inv g'.
  Proof.
    intros g g' Hi Hs. destruct Hs.
    - apply Inv_invoke; exact Hi.
    - apply Inv_reject; exact Hi.
    - eapply Inv_drop; eauto.
    - eapply Inv_commit; eauto.
    - apply Inv_apply; assumption.
    - apply Inv_rep_change; [exact Hi|apply (I_rep g Hi)|]. intros id0 Hin. apply remove_id_in in Hin. tauto.
    - apply Inv_rep_change; [exact Hi| |intros id0 []]. split; [|reflexivity].
      destruct (I_rep g Hi r) as [Ra _]. lia.
    - apply Inv_barrier; exact Hi.
    - eapply Inv_local; eauto.
    - apply Inv_read; assumption.
    - eapply Inv_fallback; eauto.
  Qed.

  Theorem reachable_Inv : forall g, reachable g -> Inv g.
  Proof. intros g H; induction H; [apply Inv_g0|eapply Inv_step; eauto]. Qed.

  (* ---------------- the witness order: the log order, with the locally answered requests of slot k
     (in reply order) placed between log entries k-1 and k ---------------- *)
  Definition locs_at (ld : list ldone) (k : nat) : list nat :=
    map d_id (filter (fun d => Nat.eqb (d_slot d) k) ld).

  Fixpoint wit (ld : list ldone) (rest : list centry) (k : nat) : list nat :=
    match rest with
    | [] => locs_at ld k
    | c :: rest' => locs_at ld k ++ cid c :: wit ld rest' (S k)
    end.

  Lemma in_locs_at : forall ld k i, In i (locs_at ld k) <-> exists d, In d ld /\ d_id d = i /\ d_slot d = k.
  Proof.
    intros ld k i. unfold locs_at. rewrite in_map_iff. split.
    - intros [d [Hd Hin]]. apply filter_In in Hin. destruct Hin as [Hin He]. apply Nat.eqb_eq in He. exists d; auto.
    - intros [d [Hin [Hd Hs]]]. exists d. split; auto. apply filter_In. split; auto. apply Nat.eqb_eq; exact Hs.
  Qed.

  Lemma in_wit : forall ld rest k i, In i (wit ld rest k) <->
    (exists c, In c rest /\ cid c = i) \/
    (exists d, In d ld /\ d_id d = i /\ (k <= d_slot d <= k + length rest)%nat).
  Proof.
    intros ld rest; induction rest as [|c rest IH]; intros k i; simpl.
    - rewrite in_locs_at. split.
      + intros [d [Hd [Hi Hs]]]. right. exists d. repeat split; auto; lia.
      + intros [[c [[] _]]|[d [Hd [Hi Hs]]]]. exists d. repeat split; auto; lia.
    - rewrite in_app_iff. simpl. rewrite IH, in_locs_at. split.
      + intros [[d [Hd [Hi Hs]]]|[Hc|[[c' [Hc' Hi]]|[d [Hd [Hi Hs]]]]]].
        * right. exists d. repeat split; auto; lia.
        * left. exists c. auto.
        * left. exists c'. auto.
        * right. exists d. repeat split; auto; lia.
      + intros [[c' [[->|Hc'] Hi]]|[d [Hd [Hi Hs]]]].
        * right; left; exact Hi.
        * right; right; left. exists c'. auto.
        * destruct (Nat.eq_dec (d_slot d) k) as [He|Hne]; [left; exists d; auto|].
          right; right; right. exists d. repeat split; auto; lia.
  Qed.

  Lemma nth_error_relax : forall rd h s i x', nth_error (relax_from s rd h) i = Some x' ->
    exists x, nth_error h i = Some x /\ h_op x' = h_op x /\ h_ret x' = h_ret x /\
              (existsb (Nat.eqb (s + i)) rd = false -> x' = x) /\
              (existsb (Nat.eqb (s + i)) rd = true -> h_inv x' = 0).
  Proof.
    induction h as [|a h IH]; intros s i x' H; simpl in H; [destruct i; discriminate|].
    destruct i as [|i]; simpl in H.
    - inversion H; subst. exists a. rewrite Nat.add_0_r. destruct (existsb (Nat.eqb s) rd); simpl; repeat split; auto; discriminate.
    - destruct (IH (S s) i x' H) as [x [A [B [C [D E]]]]]. exists x. replace (s + S i)%nat with (S s + i)%nat by lia. auto.
  Qed.

  Lemma nth_error_relax_some : forall rd h s i x, nth_error h i = Some x -> exists x', nth_error (relax_from s rd h) i = Some x'.
  Proof.
    induction h as [|a h IH]; intros s i x H; [destruct i; discriminate|]. destruct i as [|i]; simpl in *.
    - eexists; reflexivity.
    - eapply IH; eauto.
  Qed.

  Section Witness.
    Variable g : gstate.
    Hypothesis Hi : Inv g.
    Let hist := g_hist g.
    Let rhist := relaxed_hist g.
    Let log := g_log g.
    Let ld := g_ldone g.
    Let is_read (i : nat) : bool := existsb (Nat.eqb i) (read_ids g).

    (* "b may come after a" on request ids, in the history whose plain reads may take effect early *)
    Definition Rt (a b : nat) : Prop :=
      forall ha hb, nth_error rhist a = Some ha -> nth_error rhist b = Some hb -> precedes hb ha = false.

    Lemma rlookup : forall i h', nth_error rhist i = Some h' ->
      exists h, nth_error hist i = Some h /\ h_op h' = h_op h /\ h_ret h' = h_ret h /\
                (is_read i = false -> h' = h) /\ (is_read i = true -> h_inv h' = 0).
    Proof. intros i h' H. apply (nth_error_relax (read_ids g) hist 0 i h' H). Qed.

    Lemma is_read_ld : forall d, In d ld -> is_read (d_id d) = d_read d.
    Proof.
      intros d Hd. unfold is_read, read_ids.
      assert (Hnd : NoDup (map d_id ld)).
      { pose proof (I_nodup g Hi) as N. unfold all_ids in N. apply NoDup_app_r in N. apply NoDup_app_r in N. exact N. }
      destruct (d_read d) eqn:E.
      - apply existsb_exists. exists (d_id d). split; [|apply Nat.eqb_refl]. apply in_map. apply filter_In. auto.
      - destruct (existsb (Nat.eqb (d_id d)) (map d_id (filter d_read (g_ldone g)))) eqn:Ex; [|reflexivity].
        apply existsb_exists in Ex. destruct Ex as [i [Hi' He]]. apply Nat.eqb_eq in He. subst i.
        apply in_map_iff in Hi'. destruct Hi' as [d' [Hid Hf]]. apply filter_In in Hf. destruct Hf as [Hin' Hr'].
        assert (d' = d).
        { clear - Hnd Hin' Hd Hid. fold ld in Hin'. induction ld as [|x l IH]; [contradiction|]. simpl in Hnd.
          inversion Hnd as [|? ? Hnotin Hnd']; subst.
          destruct Hin' as [<-|G1]; destruct Hd as [<-|G2]; auto.
          - exfalso. apply Hnotin. rewrite Hid. apply in_map; exact G2.
          - exfalso. apply Hnotin. rewrite <- Hid. apply in_map; exact G1. }
        subst d'. congruence.
    Qed.

    Lemma is_read_log : forall p c, nth_error log p = Some c -> is_read (cid c) = false.
    Proof.
      intros p c Hc. unfold is_read, read_ids. destruct (existsb (Nat.eqb (cid c)) (map d_id (filter d_read (g_ldone g)))) eqn:Ex; [|reflexivity].
      apply existsb_exists in Ex. destruct Ex as [i [Hi' He]]. apply Nat.eqb_eq in He. subst i.
      apply in_map_iff in Hi'. destruct Hi' as [d [Hid Hf]]. apply filter_In in Hf. destruct Hf as [Hin' _].
      destruct (log_id_not_local g Hi _ _ Hc) as [_ NL]. exfalso. exact (NL d Hin' Hid).
    Qed.

    (* a log entry's record is untouched by the relaxation *)
    Lemma rlookup_log : forall p c h', nth_error log p = Some c -> nth_error rhist (cid c) = Some h' -> nth_error hist (cid c) = Some h'.
    Proof.
      intros p c h' Hc Hh. destruct (rlookup _ _ Hh) as [h [Hh0 [_ [_ [Hsame _]]]]]. rewrite (Hsame (is_read_log _ _ Hc)). exact Hh0.
    Qed.

    Lemma ld_facts : forall d, In d ld ->
      exists h t r, nth_error hist (d_id d) = Some h /\ h_ret h = Some (t, r) /\ h_inv h < t /\
        (d_slot d <= length log)%nat /\
        step (exec (firstn (d_slot d) log)) (h_op h) = (exec (firstn (d_slot d) log), r) /\
        (forall p c, nth_error log p = Some c -> (p < d_slot d)%nat -> c_time c < t) /\
        (d_read d = false -> forall p c, nth_error log p = Some c -> (d_slot d <= p)%nat -> h_inv h < c_time c).
    Proof.
      intros d Hd. destruct (I_ldone g Hi d Hd) as [h [t [r [Hh [Hr [Hs [Hsc [Hb Ha]]]]]]]].
      exists h, t, r. split; [exact Hh|]. split; [exact Hr|]. split; [destruct (I_time g Hi _ _ Hh) as [_ Tb]; apply (Tb _ _ Hr)|].
      split; [exact Hs|]. split; [exact Hsc|]. split; [exact Hb|exact Ha].
    Qed.

    (* the relaxed record of a locally answered request: same reply; invoked at 0 if it is a plain read *)
    Lemma ld_rfacts : forall d h', In d ld -> nth_error rhist (d_id d) = Some h' ->
      exists h t r, nth_error hist (d_id d) = Some h /\ h_ret h' = Some (t, r) /\ h_ret h = Some (t, r) /\ h_inv h < t /\
        (d_read d = true -> h_inv h' = 0) /\ (d_read d = false -> h' = h) /\
        (forall p c, nth_error log p = Some c -> (p < d_slot d)%nat -> c_time c < t) /\
        (d_read d = false -> forall p c, nth_error log p = Some c -> (d_slot d <= p)%nat -> h_inv h < c_time c).
    Proof.
      intros d h' Hd Hh'. destruct (ld_facts d Hd) as [h [t [r [Hh [Hr [Hit [_ [_ [Hb Ha]]]]]]]]].
      destruct (rlookup _ _ Hh') as [h0 [Hh0 [_ [Hret [Hsame Hzero]]]]]. unfold hist in *. rewrite Hh in Hh0. inversion Hh0; subst h0.
      rewrite (is_read_ld d Hd) in Hsame, Hzero.
      exists h, t, r. split; [exact Hh|]. split; [rewrite Hret; exact Hr|]. split; [exact Hr|]. split; [exact Hit|].
      split; [exact Hzero|]. split; [exact Hsame|]. split; [exact Hb|exact Ha].
    Qed.

    (* a completed request that is in the log was committed before its reply *)
    Lemma logged_reply : forall p c h t r, nth_error log p = Some c -> nth_error hist (cid c) = Some h ->
      h_ret h = Some (t, r) -> c_time c < t /\ r = snd (step (exec (firstn p log)) (e_op (c_ent c))).
    Proof.
      intros p c h t r Hc Hh Hr. destruct (I_done g Hi _ _ _ _ Hh Hr) as [[p' [c' [Hc' [Hid [Ht Hres]]]]]|Hl].
      - assert (p' = p) by (eapply (log_id_pos g Hi); eauto). subst p'.
        unfold log in Hc. rewrite Hc in Hc'. inversion Hc'; subst c'. auto.
      - exfalso. apply in_map_iff in Hl. destruct Hl as [d [Hd Hin]].
        destruct (log_id_not_local g Hi _ _ Hc) as [_ NL]. apply (NL d Hin Hd).
    Qed.

    Lemma rt_log_log : forall p q c d, (p < q)%nat -> nth_error log p = Some c -> nth_error log q = Some d -> Rt (cid c) (cid d).
    Proof.
      intros p q c d Hlt Hc Hd ha hb Ha Hb. apply (rlookup_log _ _ _ Hc) in Ha. apply (rlookup_log _ _ _ Hd) in Hb.
      unfold precedes. destruct (h_ret hb) as [[t r]|] eqn:Er; [|reflexivity].
      apply N.ltb_ge. destruct (logged_reply _ _ _ _ _ Hd Hb Er) as [Ht _].
      pose proof (I_after g Hi _ _ _ Hc Ha). pose proof (I_mono g Hi _ _ _ _ Hlt Hc Hd). lia.
    Qed.

    Lemma rt_loc_log : forall d p c, In d ld -> (d_slot d <= p)%nat -> nth_error log p = Some c -> Rt (d_id d) (cid c).
    Proof.
      intros d p c Hd Hle Hc ha hb Ha Hb. apply (rlookup_log _ _ _ Hc) in Hb.
      unfold precedes. destruct (h_ret hb) as [[t r]|] eqn:Er; [|reflexivity].
      apply N.ltb_ge. destruct (logged_reply _ _ _ _ _ Hc Hb Er) as [Ht _].
      destruct (ld_rfacts d ha Hd Ha) as [h [t' [r' [_ [_ [_ [_ [Hz [Hs [_ Haft]]]]]]]]]].
      destruct (d_read d) eqn:Erd.
      - rewrite (Hz eq_refl). lia.
      - rewrite (Hs eq_refl). pose proof (Haft eq_refl p c Hc Hle). lia.
    Qed.

    Lemma rt_log_loc : forall p c d, nth_error log p = Some c -> In d ld -> (p < d_slot d)%nat -> Rt (cid c) (d_id d).
    Proof.
      intros p c d Hc Hd Hlt ha hb Ha Hb. apply (rlookup_log _ _ _ Hc) in Ha. unfold precedes.
      destruct (ld_rfacts d hb Hd Hb) as [h [t [r [_ [Hr' [_ [_ [_ [_ [Hbef _]]]]]]]]]].
      rewrite Hr'. apply N.ltb_ge. pose proof (Hbef p c Hc Hlt). pose proof (I_after g Hi _ _ _ Hc Ha). lia.
    Qed.

    Lemma rt_loc_loc_lt : forall d1 d2, In d1 ld -> In d2 ld -> (d_slot d1 < d_slot d2)%nat -> Rt (d_id d1) (d_id d2).
    Proof.
      intros d1 d2 H1 H2 Hlt ha hb Ha Hb. unfold precedes.
      destruct (ld_rfacts d1 ha H1 Ha) as [h1 [t1 [r1 [_ [_ [_ [_ [Hz1 [Hs1 [_ Haft1]]]]]]]]]].
      destruct (ld_rfacts d2 hb H2 Hb) as [h2 [t2 [r2 [_ [Hr2 [_ [_ [_ [_ [Hbef2 _]]]]]]]]]].
      rewrite Hr2. apply N.ltb_ge.
      destruct (d_read d1) eqn:Erd; [rewrite (Hz1 eq_refl); lia|]. rewrite (Hs1 eq_refl).
      destruct (ld_facts d2 H2) as [_ [_ [_ [_ [_ [_ [Hs2 _]]]]]]].
      destruct (nth_error log (d_slot d1)) as [c|] eqn:Ec.
      - pose proof (Haft1 eq_refl _ c Ec (Nat.le_refl _)). pose proof (Hbef2 _ c Ec Hlt). lia.
      - apply nth_error_None in Ec. lia.
    Qed.

    Lemma rt_ldone_ordered : pairwise (fun d1 d2 => Rt (d_id d1) (d_id d2)) ld.
    Proof.
      apply pairwise_of_nth. intros i j d1 d2 Hlt H1 H2 ha hb Ha Hb. unfold precedes.
      destruct (ld_rfacts d1 ha (nth_error_In _ _ H1) Ha) as [h1 [t1 [r1 [Hh1 [_ [Hr1 [Hit1 [Hz1 [Hs1 _]]]]]]]]].
      destruct (ld_rfacts d2 hb (nth_error_In _ _ H2) Hb) as [h2 [t2 [r2 [Hh2 [Hr2' [Hr2 _]]]]]].
      rewrite Hr2'. apply N.ltb_ge. pose proof (I_lorder g Hi _ _ _ _ _ _ _ _ _ _ Hlt H1 H2 Hh1 Hr1 Hh2 Hr2).
      destruct (d_read d1) eqn:Erd; [rewrite (Hz1 eq_refl); lia|rewrite (Hs1 eq_refl); lia].
    Qed.

    Lemma rest_pos : forall pre c rest c', log = pre ++ c :: rest -> In c' rest ->
      exists p, (length pre < p)%nat /\ nth_error log p = Some c'.
    Proof.
      intros pre c rest c' Hlog Hin. apply In_nth_error in Hin. destruct Hin as [n Hn].
      exists (length pre + S n)%nat. split; [lia|]. rewrite Hlog. rewrite nth_error_app2 by lia.
      replace (length pre + S n - length pre)%nat with (S n) by lia. exact Hn.
    Qed.

    Lemma wit_pairwise : forall rest pre, log = pre ++ rest -> pairwise Rt (wit ld rest (length pre)).
    Proof.
      induction rest as [|c rest IH]; intros pre Hlog; simpl.
      - unfold locs_at. apply pairwise_map. apply pairwise_filter. apply rt_ldone_ordered.
      - assert (Hc : nth_error log (length pre) = Some c).
        { rewrite Hlog. rewrite nth_error_app2 by lia. rewrite Nat.sub_diag. reflexivity. }
        apply pairwise_app. split; [|split].
        + unfold locs_at. apply pairwise_map. apply pairwise_filter. apply rt_ldone_ordered.
        + simpl. split.
          * intros b Hb. apply in_wit in Hb. destruct Hb as [[c' [Hc' <-]]|[d [Hd [<- Hs]]]].
            -- destruct (rest_pos _ _ _ _ Hlog Hc') as [p [Hp Hpc]]. exact (rt_log_log _ _ _ _ Hp Hc Hpc).
            -- apply (rt_log_loc (length pre) c d Hc Hd). lia.
          * replace (S (length pre)) with (length (pre ++ [c])) by (rewrite app_length; simpl; lia).
            apply IH. rewrite <- app_assoc. exact Hlog.
        + intros a b Ha Hb. apply in_locs_at in Ha. destruct Ha as [d [Hd [<- Hs]]].
          destruct Hb as [<-|Hb].
          * apply (rt_loc_log d (length pre) c Hd); [lia|exact Hc].
          * apply in_wit in Hb. destruct Hb as [[c' [Hc' <-]]|[d' [Hd' [<- Hs']]]].
            -- destruct (rest_pos _ _ _ _ Hlog Hc') as [p [Hp Hpc]]. apply (rt_loc_log d p c' Hd); [lia|exact Hpc].
            -- apply rt_loc_loc_lt; auto. lia.
    Qed.

    Lemma wit_NoDup : forall rest pre, log = pre ++ rest -> NoDup (wit ld rest (length pre)).
    Proof.
      assert (Hnd : NoDup (map cid log ++ map d_id ld)).
      { pose proof (I_nodup g Hi) as N. unfold all_ids, ids_of in N. fold log ld in N.
        rewrite <- app_assoc in N. (* log ++ inflight ++ wait ++ ldone *)
        apply NoDup_app_intro.
        - apply NoDup_app_l in N. exact N.
        - apply NoDup_app_r in N. apply NoDup_app_r in N. apply NoDup_app_r in N. exact N.
        - intros x H1 H2. eapply (NoDup_app_disj _ _ _ x N H1). apply in_or_app; right. apply in_or_app; right. exact H2. }
      assert (Hndl : NoDup (map d_id ld)) by (apply NoDup_app_r in Hnd; exact Hnd).
      assert (Hinj : forall d d', In d ld -> In d' ld -> d_id d = d_id d' -> d = d').
      { clear - Hndl. induction ld as [|x l IH]; intros d d' H1 H2 He; [contradiction|]. simpl in Hndl. inversion Hndl; subst.
        destruct H1 as [<-|H1]; destruct H2 as [<-|H2]; auto.
        - exfalso. apply H3. rewrite He. apply in_map; exact H2.
        - exfalso. apply H3. rewrite <- He. apply in_map; exact H1. }
      induction rest as [|c rest IH]; intros pre Hlog; simpl.
      - unfold locs_at. apply NoDup_map_filter. exact Hndl.
      - assert (Hc : nth_error log (length pre) = Some c).
        { rewrite Hlog. rewrite nth_error_app2 by lia. rewrite Nat.sub_diag. reflexivity. }
        assert (IH' : NoDup (wit ld rest (S (length pre)))).
        { replace (S (length pre)) with (length (pre ++ [c])) by (rewrite app_length; simpl; lia).
          apply IH. rewrite <- app_assoc. exact Hlog. }
        apply NoDup_app_intro.
        + unfold locs_at. apply NoDup_map_filter. exact Hndl.
        + constructor; [|exact IH']. intros Hin. apply in_wit in Hin. destruct Hin as [[c' [Hc' He]]|[d [Hd [He _]]]].
          * destruct (rest_pos _ _ _ _ Hlog Hc') as [p [Hp Hpc]].
            assert (p = length pre) by (eapply (log_id_pos g Hi); eauto). lia.
          * destruct (log_id_not_local g Hi _ _ Hc) as [_ NL]. apply (NL d Hd He).
        + intros x Hx1 Hx2. apply in_locs_at in Hx1. destruct Hx1 as [d [Hd [<- Hs]]].
          destruct Hx2 as [He|Hx2].
          * destruct (log_id_not_local g Hi _ _ Hc) as [_ NL]. apply (NL d Hd). symmetry; exact He.
          * apply in_wit in Hx2. destruct Hx2 as [[c' [Hc' He]]|[d' [Hd' [He Hs']]]].
            -- destruct (rest_pos _ _ _ _ Hlog Hc') as [p [Hp Hpc]].
               destruct (log_id_not_local g Hi _ _ Hpc) as [_ NL]. apply (NL d Hd). symmetry; exact He.
            -- assert (d' = d) by (apply Hinj; auto). subst d'. lia.
    Qed.

    Lemma legal_noops : forall s ops1 ops2,
      Forall (fun h => exists r, step s (h_op h) = (s, r) /\ reply_ok h r = true) ops1 ->
      legal s ops2 -> legal s (ops1 ++ ops2).
    Proof.
      intros s ops1 ops2 H; induction H as [|h ops1 [r [Hs Hr]] H IH]; intros Hl; simpl; [exact Hl|].
      rewrite Hs. split; [exact Hr|apply IH; exact Hl].
    Qed.

    Lemma locs_noops : forall k ops, (k <= length log)%nat ->
      Forall2 (fun i h => nth_error rhist i = Some h) (locs_at ld k) ops ->
      Forall (fun h => exists r, step (exec (firstn k log)) (h_op h) = (exec (firstn k log), r) /\ reply_ok h r = true) ops.
    Proof.
      intros k ops Hk Hf. apply Forall_forall. intros h Hh.
      destruct (Forall2_in_r _ _ _ _ _ _ Hf Hh) as [i [Hin Hih]]. apply in_locs_at in Hin. destruct Hin as [d [Hd [<- Hs]]].
      destruct (ld_facts d Hd) as [h0 [t [r [Hh0 [Hr [_ [_ [Hsc _]]]]]]]].
      destruct (rlookup _ _ Hih) as [h1 [Hh1 [Hop [Hret _]]]]. unfold hist in *. rewrite Hh0 in Hh1. inversion Hh1; subst h1.
      exists r. rewrite Hs in Hsc. rewrite Hop. split; [exact Hsc|]. unfold reply_ok. rewrite Hret, Hr. apply res_eqb_refl.
    Qed.

    Lemma legal_wit : forall rest pre ops, log = pre ++ rest ->
      Forall2 (fun i h => nth_error rhist i = Some h) (wit ld rest (length pre)) ops -> legal (exec pre) ops.
    Proof.
      induction rest as [|c rest IH]; intros pre ops Hlog Hf; simpl in Hf.
      - assert (Hfp : firstn (length pre) log = pre) by (rewrite Hlog, app_nil_r; apply firstn_all).
        rewrite <- (app_nil_r ops). apply legal_noops; [|exact I].
        assert (Hk : (length pre <= length log)%nat) by (rewrite Hlog, app_nil_r; lia).
        pose proof (locs_noops (length pre) ops Hk Hf) as X. rewrite Hfp in X. exact X.
      - assert (Hc : nth_error log (length pre) = Some c).
        { rewrite Hlog. rewrite nth_error_app2 by lia. rewrite Nat.sub_diag. reflexivity. }
        assert (Hfp : firstn (length pre) log = pre).
        { rewrite Hlog. rewrite firstn_app, Nat.sub_diag, firstn_all. simpl. apply app_nil_r. }
        apply Forall2_app_inv_l in Hf. destruct Hf as [ops1 [ops2 [Hf1 [Hf2 ->]]]].
        apply legal_noops.
        + assert (Hk : (length pre <= length log)%nat) by (rewrite Hlog, app_length; simpl; lia).
          pose proof (locs_noops (length pre) ops1 Hk Hf1) as X. rewrite Hfp in X. exact X.
        + inversion Hf2 as [|i h l l' Hh Hf3]; subst. simpl. apply (rlookup_log _ _ _ Hc) in Hh.
          assert (Hop : h_op h = e_op (c_ent c)).
          { destruct (I_hist g Hi (c_ent c)) as [h0 [Hh0 Ho]].
            - apply in_or_app; left. apply in_map. eapply nth_error_In; eauto.
            - unfold cid, hist in Hh. congruence. }
          rewrite Hop. destruct (step (exec pre) (e_op (c_ent c))) as [s' r] eqn:Es. split.
          * unfold reply_ok. destruct (h_ret h) as [[t r0]|] eqn:Er; [|reflexivity].
            destruct (logged_reply _ _ _ _ _ Hc Hh Er) as [_ Hres]. rewrite Hfp, Es in Hres. simpl in Hres. subst r0. apply res_eqb_refl.
          * replace s' with (exec (pre ++ [c])) by (rewrite exec_snoc, Es; reflexivity).
            replace (S (length pre)) with (length (pre ++ [c])) in Hf3 by (rewrite app_length; simpl; lia).
            apply IH; [rewrite <- app_assoc; exact Hlog|exact Hf3].
    Qed.
  End Witness.

  (* the history in which every plain read may take effect before its invocation is linearizable *)
  Theorem Inv_linearizable_relaxed : forall g, Inv g -> linearizable (relaxed_hist g).
  Proof.
    intros g Hi. set (W := wit (g_ldone g) (g_log g) 0).
    assert (HW : forall i, In i W -> exists h, nth_error (relaxed_hist g) i = Some h).
    { intros i Hin. assert (i < length (g_hist g))%nat.
      { apply (I_lt g Hi). unfold all_ids, ids_of. apply in_wit in Hin. destruct Hin as [[c [Hc <-]]|[d [Hd [<- _]]]].
        - apply in_or_app; left. apply in_or_app; left. apply in_map; exact Hc.
        - apply in_or_app; right. apply in_or_app; right. apply in_map; exact Hd. }
      destruct (nth_error (g_hist g) i) as [x|] eqn:E; [|apply nth_error_None in E; lia].
      apply (nth_error_relax_some (read_ids g) (g_hist g) 0 i x E). }
    destruct (Forall2_exists _ _ (fun i h => nth_error (relaxed_hist g) i = Some h) W HW) as [ops Hops].
    exists W, ops. split; [|split; [|split; [|split]]].
    - apply (wit_NoDup g Hi (g_log g) []). reflexivity.
    - exact Hops.
    - intros i o Hn Hc. destruct (rlookup g _ _ Hn) as [h [Hh [_ [Hret _]]]].
      unfold completed in Hc. rewrite Hret in Hc. destruct (h_ret h) as [[t r]|] eqn:Er; [|discriminate].
      apply in_wit. destruct (I_done g Hi _ _ _ _ Hh Er) as [[p [c [Hp [Hid _]]]]|Hl].
      + left. exists c. split; [eapply nth_error_In; eauto|exact Hid].
      + right. apply in_map_iff in Hl. destruct Hl as [d [Hd Hin]]. exists d. split; [exact Hin|]. split; [exact Hd|].
        destruct (I_ldone g Hi d Hin) as [_ [_ [_ [_ [_ [Hs _]]]]]]. simpl. lia.
    - apply rt_ok_pairwise.
      apply (pairwise_Forall2 _ _ (fun i h => nth_error (relaxed_hist g) i = Some h) (Rt g) (fun a b => precedes b a = false) W ops).
      + intros a a' b b' Ha Ha' HR. apply HR; auto.
      + exact Hops.
      + apply (wit_pairwise g Hi (g_log g) []). reflexivity.
    - apply (legal_wit g Hi (g_log g) [] ops); [reflexivity|exact Hops].
  Qed.

  Lemma relax_nil : forall h s, relax_from s [] h = h.
  Proof. induction h as [|x h IH]; intros s; simpl; [reflexivity|]. rewrite IH. reflexivity. Qed.

  (* without plain reads the relaxed history is the history *)
  Theorem Inv_linearizable : forall g, Inv g -> read_ids g = [] -> linearizable (g_hist g).
  Proof.
    intros g Hi Hr. pose proof (Inv_linearizable_relaxed g Hi) as H. unfold relaxed_hist in H. rewrite Hr, relax_nil in H. exact H.
  Qed.

  (* every history of the protocol is linearizable once its plain reads may take effect early; without plain
     reads it is linearizable as it stands *)
  Theorem protocol_linearizable_relaxed : forall g, reachable g -> linearizable (relaxed_hist g).
  Proof. intros g H. apply Inv_linearizable_relaxed, reachable_Inv, H. Qed.

  Theorem protocol_linearizable : forall g, reachable g -> read_ids g = [] -> linearizable (g_hist g).
  Proof. intros g H. apply Inv_linearizable, reachable_Inv, H. Qed.

  (* the commit point: an acknowledged request is EITHER in the log exactly once, at a position whose commit
     time lies strictly between its invocation and its reply, with the specification's reply at that position,
     OR it was answered by the local no-op shortcut behind the read barrier at some slot k: then every entry
     below k was committed before the reply, every entry from k on after the invocation, and the reply is the
     specification's reply in the state after k entries, which it leaves unchanged *)
  Theorem Inv_commit_point : forall g, Inv g ->
    forall i h t r, nth_error (g_hist g) i = Some h -> h_ret h = Some (t, r) ->
    (exists p c, nth_error (g_log g) p = Some c /\ cid c = i /\
                 h_inv h < c_time c /\ c_time c < t /\
                 r = snd (step (exec (firstn p (g_log g))) (h_op h)) /\
                 (forall q d, nth_error (g_log g) q = Some d -> cid d = i -> q = p)) \/
    (exists k rd, (k <= length (g_log g))%nat /\ h_inv h < t /\
               step (exec (firstn k (g_log g))) (h_op h) = (exec (firstn k (g_log g)), r) /\
               (forall p c, nth_error (g_log g) p = Some c -> (p < k)%nat -> c_time c < t) /\
               (rd = false -> forall p c, nth_error (g_log g) p = Some c -> (k <= p)%nat -> h_inv h < c_time c) /\
               (forall p c, nth_error (g_log g) p = Some c -> cid c <> i)).
  Proof.
    intros g Hi i h t r Hh Hret.
    destruct (I_done g Hi _ _ _ _ Hh Hret) as [[p [c [Hp [Hid [Ht Hres]]]]]|Hl].
    - left. exists p, c. split; [exact Hp|]. split; [exact Hid|]. subst i. split; [eapply I_after; eauto|]. split; [exact Ht|]. split.
      + destruct (I_hist g Hi (c_ent c)) as [h0 [Hh0 Ho]]; [apply in_or_app; left; apply in_map; eapply nth_error_In; eauto|].
        unfold cid in Hh. rewrite Hh in Hh0. inversion Hh0; subst h0. rewrite Ho. exact Hres.
      + intros q d Hq Hd. eapply log_id_pos; eauto.
    - right. apply in_map_iff in Hl. destruct Hl as [d [Hd Hin]]. subst i.
      destruct (ld_facts g Hi d Hin) as [h' [t' [r' [Hh' [Hr' [Hit [Hs [Hsc [Hb Ha]]]]]]]]].
      rewrite Hh in Hh'. inversion Hh'; subst h'. rewrite Hret in Hr'. inversion Hr'; subst t' r'.
      exists (d_slot d), (d_read d). repeat split; auto.
      intros p c Hc He. destruct (log_id_not_local g Hi _ _ Hc) as [_ NL]. apply (NL d Hin). symmetry; exact He.
  Qed.

  Definition commit_point_stmt (g : gstate) : Prop :=
    forall i h t r, nth_error (g_hist g) i = Some h -> h_ret h = Some (t, r) ->
    (exists p c, nth_error (g_log g) p = Some c /\ cid c = i /\
                 h_inv h < c_time c /\ c_time c < t /\
                 r = snd (step (exec (firstn p (g_log g))) (h_op h)) /\
                 (forall q d, nth_error (g_log g) q = Some d -> cid d = i -> q = p)) \/
    (exists k rd, (k <= length (g_log g))%nat /\ h_inv h < t /\
               step (exec (firstn k (g_log g))) (h_op h) = (exec (firstn k (g_log g)), r) /\
               (forall p c, nth_error (g_log g) p = Some c -> (p < k)%nat -> c_time c < t) /\
               (rd = false -> forall p c, nth_error (g_log g) p = Some c -> (k <= p)%nat -> h_inv h < c_time c) /\
               (forall p c, nth_error (g_log g) p = Some c -> cid c <> i)).

  Theorem protocol_commit_point : forall g, reachable g -> commit_point_stmt g.
  Proof. intros g Hr. unfold commit_point_stmt. apply Inv_commit_point. apply reachable_Inv, Hr. Qed.

  Theorem protocol_at_most_once : forall g, reachable g ->
    forall p q c d, nth_error (g_log g) p = Some c -> nth_error (g_log g) q = Some d -> cid c = cid d -> p = q.
  Proof. intros g Hr. apply log_id_pos. apply reachable_Inv, Hr. Qed.

  (* quiescent convergence: replicas that applied the same prefix are in the same state, and a replica that
     applied the whole log holds the state of the witness order, which contains every acknowledged write *)
  Definition convergence_stmt (g : gstate) : Prop :=
    (forall r1 r2, r_applied (g_rep g r1) = r_applied (g_rep g r2) -> r_st (g_rep g r1) = r_st (g_rep g r2)) /\
    (forall r, r_applied (g_rep g r) = length (g_log g) -> r_st (g_rep g r) = exec (g_log g)).

  Theorem Inv_convergence : forall g, Inv g -> convergence_stmt g.
  Proof.
    intros g Hi. split.
    - intros r1 r2 Heq. destruct (I_rep g Hi r1) as [_ E1]. destruct (I_rep g Hi r2) as [_ E2]. rewrite E1, E2, Heq. reflexivity.
    - intros r Heq. destruct (I_rep g Hi r) as [_ E]. rewrite E, Heq, firstn_all. reflexivity.
  Qed.

  (* ---------------- what a plain read IS guaranteed (besides relaxed linearizability) ----------------
     (a) it returns the specification's reply in the state after exactly the log prefix its replica has applied;
     (b) a replica's applied prefix only grows, except when the replica restarts (from a checkpoint below);
     (c) an acknowledgement sent by replica r is for an entry inside the prefix r has applied.
     Hence, between two restarts of r, successive reads through r observe growing prefixes (monotonic reads) and a
     read through r that follows a write acknowledged by r observes it (read your writes); reads through
     DIFFERENT replicas, or across a restart, may go back in time (C04_local_read_refuted). *)
  Theorem read_sees_applied_prefix : forall g r o, reachable g -> mutating o = false ->
    snd (step (r_st (g_rep g r)) o) = snd (step (exec (firstn (r_applied (g_rep g r)) (g_log g))) o) /\
    (r_applied (g_rep g r) <= length (g_log g))%nat.
  Proof.
    intros g r o Hr _. destruct (I_rep g (reachable_Inv g Hr) r) as [Ha Hs]. rewrite <- Hs. split; [reflexivity|exact Ha].
  Qed.

  Theorem applied_prefix_grows : forall g g', pstep g g' ->
    (exists suffix, g_log g' = g_log g ++ suffix) /\
    forall r, (r_applied (g_rep g r) <= r_applied (g_rep g' r))%nat \/
              (exists k, (k <= r_applied (g_rep g r))%nat /\ g_rep g' r = mkR k (exec (firstn k (g_log g))) []).
  Proof.
    intros g g' Hs. destruct Hs; simpl;
      (split; [first [exists []; rewrite app_nil_r; reflexivity | eexists; reflexivity]|]);
      intros r0; unfold upd;
      try (left; apply Nat.le_refl);
      try (destruct (Nat.eqb r0 r) eqn:E; simpl; [apply Nat.eqb_eq in E; subst r0|]; try (left; try subst rs; simpl; lia));
      try (destruct (Nat.eqb r0 (l_rep q)) eqn:E; simpl; [apply Nat.eqb_eq in E; subst r0|]; try (left; try subst rs; simpl; lia)).
    right. eexists. split; [eassumption|reflexivity].
  Qed.

  Theorem ack_inside_applied_prefix : forall g r c, reachable g ->
    nth_error (g_log g) (r_applied (g_rep g r)) = Some c ->
    let g' := apply1 apply_impl g r in
    (* the only transition in which replica r acknowledges a logged request: the request is the entry at r's
       applied index, and afterwards that index is inside r's applied prefix *)
    r_applied (g_rep g' r) = S (r_applied (g_rep g r)) /\
    forall i h t res, nth_error (g_hist g) i = Some h -> h_ret h = None ->
      (exists h', nth_error (g_hist g') i = Some h' /\ h_ret h' = Some (t, res)) ->
      i = cid c /\ t = g_clock g.
  Proof.
    intros g r c Hr Hc g'. unfold g', apply1. rewrite Hc. simpl. rewrite upd_same. simpl. split; [reflexivity|].
    intros i h t res Hh Hnone [h' [Hh' Hret]].
    destruct (existsb (Nat.eqb (e_id (c_ent c))) (r_pending (g_rep g r))); [|rewrite Hh in Hh'; inversion Hh'; subst; congruence].
    destruct (set_ret_lookup _ _ _ _ _ Hh') as [x [Hx [_ [_ [[_ ->]|[-> Hr']]]]]].
    - rewrite Hh in Hx. inversion Hx; subst. congruence.
    - rewrite Hret in Hr'. inversion Hr'; subst. split; reflexivity.
  Qed.

  Theorem protocol_convergence : forall g, reachable g -> convergence_stmt g.
  Proof. intros g Hr. apply Inv_convergence. apply reachable_Inv, Hr. Qed.

  (* t_apply as a function preserves the invariant *)
  Lemma Inv_apply1 : forall g r, Inv g -> Inv (apply1 apply_impl g r).
  Proof.
    intros g r Hi. unfold apply1. destruct (nth_error (g_log g) (r_applied (g_rep g r))) as [c|] eqn:E; [|exact Hi].
    apply Inv_apply; assumption.
  Qed.

  Lemma Inv_applyn : forall n g r, Inv g -> Inv (applyn apply_impl n g r).
  Proof. induction n as [|n IH]; intros g r Hi; simpl; [exact Hi|]. apply IH. apply Inv_apply1; exact Hi. Qed.
End Proofs.

(* ------------------------------------------------------------------ non-vacuity: concrete runs *)
(* executable versions of the transitions, to exhibit reachable states with non-trivial histories *)
Definition demo_apply (r : nat) (ts : N) (s : state) (o : op) := step s o.

Definition do_invoke (g : gstate) (r : nat) (o : op) : gstate :=
  mkG (N.succ (g_clock g)) (g_hist g ++ [mkHop o (g_clock g) None])
      (mkEntry (length (g_hist g)) (g_clock g) o :: g_inflight g) (g_log g)
      (upd (g_rep g) r (mkR (r_applied (g_rep g r)) (r_st (g_rep g r)) (length (g_hist g) :: r_pending (g_rep g r))))
      (g_wait g) (g_ldone g).

Definition do_commit_head (g : gstate) : gstate :=
  match g_inflight g with
  | e :: l => mkG (N.succ (g_clock g)) (g_hist g) l (g_log g ++ [mkC e (g_clock g)]) (g_rep g) (g_wait g) (g_ldone g)
  | [] => g
  end.

Definition do_apply (g : gstate) (r : nat) : gstate :=
  match nth_error (g_log g) (r_applied (g_rep g r)) with
  | Some c =>
      let rs := g_rep g r in let e := c_ent c in
      let sr := demo_apply r (e_ts e) (r_st rs) (e_op e) in
      let triggered := existsb (Nat.eqb (e_id e)) (r_pending rs) in
      mkG (N.succ (g_clock g))
          (if triggered then set_ret (e_id e) (g_clock g, snd sr) (g_hist g) else g_hist g)
          (g_inflight g) (g_log g)
          (upd (g_rep g) r (mkR (S (r_applied rs)) (fst sr) (remove_id (e_id e) (r_pending rs))))
          (g_wait g) (g_ldone g)
  | None => g
  end.

Definition do_barrier (g : gstate) (r : nat) (o : op) : gstate :=
  mkG (N.succ (g_clock g)) (g_hist g ++ [mkHop o (g_clock g) None]) (g_inflight g) (g_log g) (g_rep g)
      (mkL (length (g_hist g)) r (length (g_log g)) :: g_wait g) (g_ldone g).

(* the head of the waiting list is answered locally if the barrier has been passed and the shortcut applies *)
Definition do_local_head (g : gstate) : gstate :=
  match g_wait g with
  | q :: l2 =>
      let rs := g_rep g (l_rep q) in
      match nth_error (g_hist g) (l_id q) with
      | Some h =>
          match shortcut (r_st rs) (h_op h) with
          | Some res =>
              if Nat.leb (l_ci q) (r_applied rs) then
                mkG (N.succ (g_clock g)) (set_ret (l_id q) (g_clock g, res) (g_hist g))
                    (g_inflight g) (g_log g) (g_rep g) l2 (g_ldone g ++ [mkD (l_id q) (r_applied rs) false])
              else g
          | None => g
          end
      | None => g
      end
  | [] => g
  end.

Lemma do_invoke_reach : forall g r o, reachable demo_apply g -> reachable demo_apply (do_invoke g r o).
Proof. intros. eapply reachS; [eassumption|apply t_invoke]. Qed.

Lemma do_commit_head_reach : forall g, reachable demo_apply g -> reachable demo_apply (do_commit_head g).
Proof.
  intros g H. unfold do_commit_head. destruct (g_inflight g) as [|e l] eqn:E; [exact H|].
  eapply reachS; [exact H|]. apply (t_commit demo_apply g [] e l). exact E.
Qed.

Lemma do_apply_reach : forall g r, reachable demo_apply g -> reachable demo_apply (do_apply g r).
Proof.
  intros g r H. unfold do_apply. destruct (nth_error (g_log g) (r_applied (g_rep g r))) as [c|] eqn:E; [|exact H].
  eapply reachS; [exact H|]. apply (t_apply demo_apply g r c). exact E.
Qed.

Lemma do_barrier_reach : forall g r o, reachable demo_apply g -> reachable demo_apply (do_barrier g r o).
Proof. intros. eapply reachS; [eassumption|apply t_barrier]. Qed.

Lemma do_local_head_reach : forall g, reachable demo_apply g -> reachable demo_apply (do_local_head g).
Proof.
  intros g H. unfold do_local_head. destruct (g_wait g) as [|q l2] eqn:E; [exact H|].
  destruct (nth_error (g_hist g) (l_id q)) as [h|] eqn:Eh; [|exact H].
  destruct (shortcut (r_st (g_rep g (l_rep q))) (h_op h)) as [res|] eqn:Es; [|exact H].
  destruct (Nat.leb (l_ci q) (r_applied (g_rep g (l_rep q)))) eqn:El; [|exact H].
  eapply reachS; [exact H|]. apply (t_local demo_apply g [] q l2 h res); auto. apply Nat.leb_le; exact El.
Qed.

Definition do_read (g : gstate) (r : nat) (o : op) : gstate :=
  mkG (N.succ (N.succ (g_clock g)))
      (g_hist g ++ [mkHop o (g_clock g) (Some (N.succ (g_clock g), snd (step (r_st (g_rep g r)) o)))])
      (g_inflight g) (g_log g) (g_rep g) (g_wait g)
      (g_ldone g ++ [mkD (length (g_hist g)) (r_applied (g_rep g r)) true]).

Lemma do_read_reach : forall g r o, mutating o = false -> reachable demo_apply g -> reachable demo_apply (do_read g r o).
Proof. intros g r o Hm H. eapply reachS; [exact H|]. apply t_read. exact Hm. Qed.

Ltac demo_reach :=
  repeat first [apply do_apply_reach | apply do_commit_head_reach | apply do_invoke_reach
               | apply do_barrier_reach | apply do_local_head_reach]; apply reach0.

(* client A: INCR at replica 0, committed, applied and acknowledged by replica 0; client B: INCR at replica 1,
   committed; replica 1 applies both entries and acknowledges B with 2 *)
Definition demo_state : gstate :=
  do_apply (do_apply (do_commit_head (do_invoke (do_apply (do_commit_head (do_invoke g0 0 OIncr)) 0) 1 OIncr)) 1) 1.

Lemma demo_reachable : reachable demo_apply demo_state.
Proof. unfold demo_state. demo_reach. Qed.

Lemma demo_history :
  g_hist demo_state = [mkHop OIncr 1 (Some (3, RInt 1%Z)); mkHop OIncr 4 (Some (7, RInt 2%Z))] /\
  map (fun c => (e_id (c_ent c), c_time c)) (g_log demo_state) = [(0%nat, 2); (1%nat, 5)] /\
  r_st (g_rep demo_state 1) = mkState (Some 2%Z) None [] [].
Proof. vm_compute. repeat split; reflexivity. Qed.

(* the local shortcut behind the barrier: LPUSH 7 through replica 0 (committed, applied, acknowledged), LPOP
   through replica 0 (acknowledged with 7), then LPOP at replica 1: the barrier makes replica 1 apply both
   entries first, its list is empty, nil is answered locally — and the history is linearizable *)
Definition demo_local : gstate :=
  do_local_head (do_apply (do_apply (do_barrier
    (do_apply (do_commit_head (do_invoke (do_apply (do_commit_head (do_invoke g0 0 (OLPush 7))) 0) 0 OLPop)) 0)
    1 OLPop) 1) 1).

Lemma demo_local_reachable : reachable demo_apply demo_local.
Proof. unfold demo_local. demo_reach. Qed.

Lemma demo_local_history :
  g_hist demo_local = [mkHop (OLPush 7) 1 (Some (3, RInt 1%Z)); mkHop OLPop 4 (Some (6, RBulk 7%Z));
                       mkHop OLPop 7 (Some (10, RNil))] /\
  g_ldone demo_local = [mkD 2 2 false] /\ check (g_hist demo_local) = Lin.
Proof. vm_compute. repeat split; reflexivity. Qed.

(* ------------------------------------------------------------------ the tie to node/node_cmd_reg.go (Lin/Consts.v) *)
Lemma read_ops_keep_state : forall s o, mutating o = false -> fst (step s o) = s.
Proof. intros s o H. destruct o; try discriminate; reflexivity. Qed.

(* every operation that can change the state is registered as a write (proposed to the log) and has an
   apply handler in the state machine; every other operation of the specification is a local read *)
Lemma mutating_ops_logged : forall o, mutating o = true ->
  in_list (op_cmd o) logged_cmds = true /\ in_list (op_cmd o) applied_cmds = true /\ in_list (op_cmd o) local_cmds = false.
Proof. intros o H. destruct o; try discriminate; vm_compute; repeat split; reflexivity. Qed.

Lemma read_ops_local : forall o, mutating o = false ->
  in_list (op_cmd o) local_cmds = true /\ in_list (op_cmd o) logged_cmds = false.
Proof. intros o H. destruct o; try discriminate; vm_compute; split; reflexivity. Qed.

(* ------------------------------------------------------------------ what is outside the theorem, and must be *)
(* (a) The code answers get/hget/llen/scard/... from the local store of the replica that believes it leads,
   without consulting the log. (b) Before the fix the no-op shortcuts of setnx/sadd/srem/lpop did the same.
   Both are the following transition (an operation answered from replica r's current state without a
   barrier); adding it breaks linearizability. *)
Definition do_local_unbarriered (g : gstate) (r : nat) (o : op) : gstate :=
  mkG (N.succ (N.succ (g_clock g)))
      (g_hist g ++ [mkHop o (g_clock g) (Some (N.succ (g_clock g), snd (step (r_st (g_rep g r)) o)))])
      (g_inflight g) (g_log g) (g_rep g) (g_wait g) (g_ldone g).

Inductive reachable_lr : gstate -> Prop :=
| lr_base : forall g, reachable demo_apply g -> reachable_lr g
| lr_read : forall g r o, reachable_lr g -> mutating o = false \/ shortcut (r_st (g_rep g r)) o <> None ->
            reachable_lr (do_local_unbarriered g r o).

(* INCR through replica 1 is committed, applied and acknowledged by replica 1; replica 0 has not applied
   it yet and answers GET with nil afterwards (t_read): reachable in the protocol AS MODELLED, not linearizable,
   but linearizable once the read may take effect before its invocation *)
Definition stale_read_state : gstate :=
  do_read (do_apply (do_commit_head (do_invoke g0 1 OIncr)) 1) 0 OGet.

Lemma local_read_refuted :
  reachable demo_apply stale_read_state /\ ~ linearizable (g_hist stale_read_state) /\
  linearizable (relaxed_hist stale_read_state).
Proof.
  assert (R : reachable demo_apply stale_read_state).
  { unfold stale_read_state. apply do_read_reach; [reflexivity|]. demo_reach. }
  split; [exact R|]. split.
  - apply check_complete. vm_compute. reflexivity.
  - apply (protocol_linearizable_relaxed demo_apply); [intros; reflexivity|exact R].
Qed.

(* LPUSH through replica 1 is committed, applied and acknowledged by replica 1; replica 0 has not applied it
   and answers LPOP with nil from its empty local list (the recorded history of corpus/C04/lpop-local-shortcut-stale.hist) *)
Definition stale_shortcut_state : gstate :=
  do_local_unbarriered (do_apply (do_commit_head (do_invoke g0 1 (OLPush 7))) 1) 0 OLPop.

Lemma unbarriered_shortcut_refuted : reachable_lr stale_shortcut_state /\ ~ linearizable (g_hist stale_shortcut_state).
Proof.
  split.
  - unfold stale_shortcut_state. apply lr_read; [|right; vm_compute; discriminate]. apply lr_base. demo_reach.
  - apply check_complete. vm_compute. reflexivity.
Qed.

(* ------------------------------------------------------------------ the barrier's answer must belong to the request *)
(* t_local answers the waiting request q behind ITS OWN read index l_ci q (the ghost pairing of a read-index answer
   with the request that asked for it: readIndexLoop compares the answer's request context with the id of the
   current round). If the answer of ANOTHER, earlier round of the same replica is accepted instead (seeded change
   C04-d2: `done = true` for whatever read state arrives), the protocol has a non-linearizable history: *)
Definition do_local_head_any (g : gstate) (ci_used : nat) : gstate :=
  match g_wait g with
  | q :: l2 =>
      let rs := g_rep g (l_rep q) in
      match nth_error (g_hist g) (l_id q) with
      | Some h =>
          match shortcut (r_st rs) (h_op h) with
          | Some res =>
              if Nat.leb ci_used (r_applied rs) then
                mkG (N.succ (g_clock g)) (set_ret (l_id q) (g_clock g, res) (g_hist g))
                    (g_inflight g) (g_log g) (g_rep g) l2 (g_ldone g ++ [mkD (l_id q) (r_applied rs) false])
              else g
          | None => g
          end
      | None => g
      end
  | [] => g
  end.

Inductive reachable_any_answer : gstate -> Prop :=
| aa_base : forall g, reachable demo_apply g -> reachable_any_answer g
| aa_step : forall g q l2 q', reachable_any_answer g -> g_wait g = q :: l2 ->
            In q' (g_wait g) -> l_rep q' = l_rep q ->          (* the answer of some round of the same replica *)
            reachable_any_answer (do_local_head_any g (l_ci q')).

(* SADD (A) reaches replica 1 while the log is empty: its read-index round asks for index 0 and stays unanswered.
   LPUSH 7 through replica 0 is committed, applied and acknowledged by replica 0. LPOP (B) reaches replica 1: its
   round asks for index 1. Replica 1 has applied nothing. Accepting A's answer (index 0) for B answers nil. *)
Definition any_answer_state : gstate :=
  do_local_head_any
    (do_barrier (do_apply (do_commit_head (do_invoke (do_barrier g0 1 (OSAdd 1)) 0 (OLPush 7))) 0) 1 OLPop) 0.

Lemma barrier_any_answer_refuted :
  reachable_any_answer any_answer_state /\ ~ linearizable (g_hist any_answer_state).
Proof.
  split.
  - unfold any_answer_state.
    eapply (aa_step _ _ _ (mkL 0 1 0)); [apply aa_base; demo_reach|reflexivity|right; left; reflexivity|reflexivity].
  - apply check_complete. vm_compute. reflexivity.
Qed.

(* with the request's own read index the same schedule cannot answer before replica 1 has applied the LPUSH *)
Lemma barrier_own_answer_blocks :
  do_local_head (do_barrier (do_apply (do_commit_head (do_invoke (do_barrier g0 1 (OSAdd 1)) 0 (OLPush 7))) 0) 1 OLPop)
  = do_barrier (do_apply (do_commit_head (do_invoke (do_barrier g0 1 (OSAdd 1)) 0 (OLPush 7))) 0) 1 OLPop.
Proof. vm_compute. reflexivity. Qed.
