(* Lin/ProtocolProofs.v — every history the request-path protocol (Lin/Protocol.v) can produce is
   linearizable, the witness order being the order of the agreed log (commit-point argument);
   each acknowledged operation has its commit point strictly between its invocation and its reply;
   replicas that applied the same prefix are in the same state. *)
From ZV Require Import Lin.Spec Lin.Checker Lin.CheckerProofs Lin.Protocol Lin.Route.
From Coq Require Import Lia Permutation.
Open Scope N_scope.

(* ------------------------------------------------------------------ list helpers *)
Lemma nth_error_snoc : forall (A : Type) (l : list A) x i y,
  nth_error (l ++ [x]) i = Some y ->
  ((i < length l)%nat /\ nth_error l i = Some y) \/ (i = length l /\ y = x).
Proof.
  intros A l x i y H. destruct (Nat.lt_ge_cases i (length l)) as [Hlt|Hge].
  - left. split; auto. rewrite nth_error_app1 in H; auto.
  - right. rewrite nth_error_app2 in H; auto. destruct (i - length l)%nat eqn:E; simpl in H.
    + inversion H; subst. split; [lia|reflexivity].
    + destruct n; discriminate.
Qed.

Lemma nth_error_snoc_old : forall (A : Type) (l : list A) x i y,
  nth_error l i = Some y -> nth_error (l ++ [x]) i = Some y.
Proof. intros. rewrite nth_error_app1; auto. apply nth_error_Some. congruence. Qed.

Lemma set_ret_length : forall i v h, length (set_ret i v h) = length h.
Proof. induction i; destruct h; simpl; auto. Qed.

Lemma set_ret_same : forall i v h x, nth_error h i = Some x ->
  nth_error (set_ret i v h) i = Some (mkHop (h_op x) (h_inv x) (Some v)).
Proof. induction i; destruct h; simpl; intros x H; try discriminate; [inversion H; reflexivity|auto]. Qed.

Lemma set_ret_other : forall i v h j, j <> i -> nth_error (set_ret i v h) j = nth_error h j.
Proof.
  induction i; destruct h; simpl; intros j Hne; auto.
  - destruct j; [congruence|reflexivity].
  - destruct j; [reflexivity|]. simpl. apply IHi. congruence.
Qed.

Lemma remove_id_in : forall i l x, In x (remove_id i l) <-> In x l /\ x <> i.
Proof.
  induction l as [|a l IH]; simpl; intros x; [tauto|].
  destruct (Nat.eqb a i) eqn:E.
  - apply Nat.eqb_eq in E. subst a. rewrite IH. split; [tauto|]. intros [[->|H] Hne]; [congruence|tauto].
  - apply Nat.eqb_neq in E. simpl. rewrite IH. split.
    + intros [->|[H Hne]]; auto.
    + intros [[->|H] Hne]; auto.
Qed.

Lemma existsb_eqb_in : forall i l, existsb (Nat.eqb i) l = true <-> In i l.
Proof.
  intros i l. rewrite existsb_exists. split.
  - intros [x [Hx He]]. apply Nat.eqb_eq in He. subst; auto.
  - intros H. exists i. split; auto. apply Nat.eqb_refl.
Qed.

Lemma upd_same : forall f r v, upd f r v r = v.
Proof. intros. unfold upd. rewrite Nat.eqb_refl. reflexivity. Qed.
Lemma upd_other : forall f r v x, x <> r -> upd f r v x = f x.
Proof. intros. unfold upd. destruct (Nat.eqb x r) eqn:E; auto. apply Nat.eqb_eq in E. congruence. Qed.

Lemma res_eqb_refl : forall r, res_eqb r r = true.
Proof.
  destruct r; simpl; auto using Z.eqb_refl.
  induction l; simpl; auto. rewrite Z.eqb_refl. auto.
Qed.

Lemma firstn_snoc_le : forall (A : Type) (l : list A) x p, (p <= length l)%nat -> firstn p (l ++ [x]) = firstn p l.
Proof.
  intros. rewrite firstn_app. replace (p - length l)%nat with 0%nat by lia. simpl. apply app_nil_r.
Qed.

Lemma firstn_S_nth : forall (A : Type) (l : list A) p c, nth_error l p = Some c -> firstn (S p) l = firstn p l ++ [c].
Proof.
  induction l as [|a l IH]; intros p c H; destruct p; simpl in *; try discriminate.
  - inversion H; reflexivity.
  - f_equal. apply IH; auto.
Qed.

Lemma NoDup_nth_error_inj : forall (A : Type) (l : list A) p q x,
  NoDup l -> nth_error l p = Some x -> nth_error l q = Some x -> p = q.
Proof.
  intros A l p q x Hnd Hp Hq. apply (proj1 (NoDup_nth_error l) Hnd); [apply nth_error_Some; congruence|congruence].
Qed.

Lemma NoDup_app_l : forall (A : Type) (l1 l2 : list A), NoDup (l1 ++ l2) -> NoDup l1.
Proof.
  induction l1 as [|a l1 IH]; intros l2 H; [constructor|]. simpl in H. inversion H; subst.
  constructor; [|eapply IH; eauto]. intros Hin. apply H2. apply in_or_app; left; exact Hin.
Qed.

Lemma Forall2_exists : forall (A B : Type) (R : A -> B -> Prop) l,
  (forall x, In x l -> exists y, R x y) -> exists l', Forall2 R l l'.
Proof.
  induction l as [|a l IH]; intros H.
  - exists []. constructor.
  - destruct (H a (or_introl eq_refl)) as [y Hy]. destruct IH as [l' Hl']; [intros; apply H; right; auto|].
    exists (y :: l'). constructor; auto.
Qed.

Lemma Forall2_nth : forall (A B : Type) (R : A -> B -> Prop) la lb p b,
  Forall2 R la lb -> nth_error lb p = Some b -> exists a, nth_error la p = Some a /\ R a b.
Proof.
  intros A B R la lb p b H; revert p; induction H as [|x y la lb Hxy H IH]; intros p Hp; destruct p; simpl in *; try discriminate.
  - inversion Hp; subst. exists x; auto.
  - apply IH; auto.
Qed.

(* ------------------------------------------------------------------ the proofs proper *)
Section Proofs.
  Variable apply_impl : nat -> N -> state -> op -> state * res.
  (* C07 (+ the Spec-vs-implementation diff): every replica's state machine computes the function of
     the specification, whatever the replica and the request's timestamp *)
  Hypothesis apply_det : forall r ts s o, apply_impl r ts s o = step s o.

  Notation pstep := (pstep apply_impl).
  Notation reachable := (reachable apply_impl).

  Definition cid (c : centry) : nat := e_id (c_ent c).
  Definition ids_of (g : gstate) : list nat := map cid (g_log g) ++ map e_id (g_inflight g).

  Lemma exec_snoc : forall l c, exec (l ++ [c]) = fst (step (exec l) (e_op (c_ent c))).
  Proof. intros. unfold exec. rewrite fold_left_app. reflexivity. Qed.

  Record Inv (g : gstate) : Prop := mkInv {
    I_nodup : NoDup (ids_of g);
    I_hist : forall e, In e (map c_ent (g_log g) ++ g_inflight g) ->
             exists h, nth_error (g_hist g) (e_id e) = Some h /\ h_op h = e_op e;
    I_time : forall i h, nth_error (g_hist g) i = Some h ->
             h_inv h < g_clock g /\ forall t r, h_ret h = Some (t, r) -> t < g_clock g;
    I_ctime : forall p c, nth_error (g_log g) p = Some c -> c_time c < g_clock g;
    I_mono : forall p q c d, (p < q)%nat -> nth_error (g_log g) p = Some c -> nth_error (g_log g) q = Some d ->
             c_time c < c_time d;
    I_after : forall p c h, nth_error (g_log g) p = Some c -> nth_error (g_hist g) (cid c) = Some h ->
              h_inv h < c_time c;
    I_done : forall i h t r, nth_error (g_hist g) i = Some h -> h_ret h = Some (t, r) ->
             exists p c, nth_error (g_log g) p = Some c /\ cid c = i /\ c_time c < t /\
                         r = snd (step (exec (firstn p (g_log g))) (e_op (c_ent c)));
    I_rep : forall r, (r_applied (g_rep g r) <= length (g_log g))%nat /\
                      r_st (g_rep g r) = exec (firstn (r_applied (g_rep g r)) (g_log g));
    I_pend : forall r id, In id (r_pending (g_rep g r)) ->
             exists h, nth_error (g_hist g) id = Some h /\ h_ret h = None;
    I_owner : forall r1 r2 id, In id (r_pending (g_rep g r1)) -> In id (r_pending (g_rep g r2)) -> r1 = r2
  }.

  Lemma Inv_g0 : Inv g0.
  Proof.
    constructor; simpl; intros.
    - constructor.
    - contradiction.
    - destruct i; discriminate.
    - destruct p; discriminate.
    - destruct p; discriminate.
    - destruct p; discriminate.
    - destruct i; discriminate.
    - split; [lia|reflexivity].
    - contradiction.
    - contradiction.
  Qed.

  Lemma ids_lt : forall g, Inv g -> forall i, In i (ids_of g) -> (i < length (g_hist g))%nat.
  Proof.
    intros g Hi i Hin. unfold ids_of in Hin. apply in_app_or in Hin.
    assert (He : exists e, In e (map c_ent (g_log g) ++ g_inflight g) /\ e_id e = i).
    { destruct Hin as [Hin|Hin]; apply in_map_iff in Hin; destruct Hin as [x [Hx Hin]].
      - exists (c_ent x). split; [apply in_or_app; left; apply in_map; exact Hin|exact Hx].
      - exists x. split; [apply in_or_app; right; exact Hin|exact Hx]. }
    destruct He as [e [He <-]]. destruct (I_hist g Hi e He) as [h [Hh _]].
    apply nth_error_Some. congruence.
  Qed.

  Lemma log_id_pos : forall g, Inv g -> forall p q c d,
    nth_error (g_log g) p = Some c -> nth_error (g_log g) q = Some d -> cid c = cid d -> p = q.
  Proof.
    intros g Hi p q c d Hp Hq Heq. pose proof (I_nodup g Hi) as Hnd. unfold ids_of in Hnd.
    apply NoDup_app_l in Hnd.
    apply (NoDup_nth_error_inj _ (map cid (g_log g)) p q (cid c)); auto.
    - rewrite nth_error_map, Hp; reflexivity.
    - rewrite nth_error_map, Hq, Heq; reflexivity.
  Qed.

  (* ---------------- preservation, one transition at a time ---------------- *)
  Lemma Inv_invoke : forall g r o, Inv g ->
    Inv (mkG (N.succ (g_clock g)) (g_hist g ++ [mkHop o (g_clock g) None])
             (mkEntry (length (g_hist g)) (g_clock g) o :: g_inflight g) (g_log g)
             (upd (g_rep g) r (mkR (r_applied (g_rep g r)) (r_st (g_rep g r)) (length (g_hist g) :: r_pending (g_rep g r))))).
  Proof.
    intros g r o Hi. pose proof (ids_lt g Hi) as Hlt.
    destruct Hi as [N1 H1 T1 C1 M1 A1 D1 R1 P1 O1].
    constructor; simpl.
    - unfold ids_of; simpl. apply (Permutation_NoDup (Permutation_middle _ _ _)).
      constructor; [|exact N1]. intros Hin. apply Hlt in Hin. lia.
    - intros e He. apply in_app_or in He. destruct He as [He|[<-|He]].
      + destruct (H1 e (in_or_app _ _ _ (or_introl He))) as [h [Hh Ho]]. exists h. split; auto using nth_error_snoc_old.
      + simpl. exists (mkHop o (g_clock g) None). split; [|reflexivity].
        rewrite nth_error_app2 by lia. rewrite Nat.sub_diag. reflexivity.
      + destruct (H1 e (in_or_app _ _ _ (or_intror He))) as [h [Hh Ho]]. exists h. split; auto using nth_error_snoc_old.
    - intros i h Hh. apply nth_error_snoc in Hh. destruct Hh as [[_ Hh]|[_ ->]].
      + destruct (T1 i h Hh) as [Ta Tb]. split; [lia|]. intros t rr Hr. specialize (Tb t rr Hr). lia.
      + simpl. split; [lia|discriminate].
    - intros p c Hc. specialize (C1 p c Hc). lia.
    - exact M1.
    - intros p c h Hc Hh. apply nth_error_snoc in Hh. destruct Hh as [[_ Hh]|[Heq _]].
      + eapply A1; eauto.
      + exfalso. assert (cid c < length (g_hist g))%nat; [|lia]. apply Hlt. unfold ids_of. apply in_or_app. left.
        apply in_map. eapply nth_error_In; eauto.
    - intros i h t rr Hh Hr. apply nth_error_snoc in Hh. destruct Hh as [[_ Hh]|[_ ->]]; [eapply D1; eauto|discriminate].
    - intros r0. destruct (Nat.eq_dec r0 r) as [->|Hne]; [rewrite upd_same; simpl; apply R1|rewrite upd_other by auto; apply R1].
    - intros r0 id. destruct (Nat.eq_dec r0 r) as [->|Hne].
      + rewrite upd_same; simpl. intros [<-|Hin].
        * exists (mkHop o (g_clock g) None). split; [|reflexivity]. rewrite nth_error_app2 by lia. rewrite Nat.sub_diag. reflexivity.
        * destruct (P1 r id Hin) as [h [Hh Hr]]. exists h; auto using nth_error_snoc_old.
      + rewrite upd_other by auto. intros Hin. destruct (P1 r0 id Hin) as [h [Hh Hr]]. exists h; auto using nth_error_snoc_old.
    - assert (Hold : forall r0 id, In id (r_pending (g_rep g r0)) -> (id < length (g_hist g))%nat).
      { intros r0 id Hin. destruct (P1 r0 id Hin) as [h [Hh _]]. apply nth_error_Some. congruence. }
      intros r1 r2 id. destruct (Nat.eq_dec r1 r) as [->|Hn1]; destruct (Nat.eq_dec r2 r) as [->|Hn2]; auto;
        rewrite ?upd_same, ?upd_other by auto; simpl.
      + intros [<-|H1'] H2'; [apply Hold in H2'; lia|eapply O1; eauto].
      + intros H1' [<-|H2']; [apply Hold in H1'; lia|eapply O1; eauto].
      + apply O1.
  Qed.

  Lemma Inv_reject : forall g o, Inv g ->
    Inv (mkG (N.succ (g_clock g)) (g_hist g ++ [mkHop o (g_clock g) None]) (g_inflight g) (g_log g) (g_rep g)).
  Proof.
    intros g o Hi. pose proof (ids_lt g Hi) as Hlt.
    destruct Hi as [N1 H1 T1 C1 M1 A1 D1 R1 P1 O1].
    constructor; simpl.
    - exact N1.
    - intros e He. destruct (H1 e He) as [h [Hh Ho]]. exists h. split; auto using nth_error_snoc_old.
    - intros i h Hh. apply nth_error_snoc in Hh. destruct Hh as [[_ Hh]|[_ ->]].
      + destruct (T1 i h Hh) as [Ta Tb]. split; [lia|]. intros t rr Hr. specialize (Tb t rr Hr). lia.
      + simpl. split; [lia|discriminate].
    - intros p c Hc. specialize (C1 p c Hc). lia.
    - exact M1.
    - intros p c h Hc Hh. apply nth_error_snoc in Hh. destruct Hh as [[_ Hh]|[Heq _]].
      + eapply A1; eauto.
      + exfalso. assert (cid c < length (g_hist g))%nat; [|lia]. apply Hlt. unfold ids_of. apply in_or_app. left.
        apply in_map. eapply nth_error_In; eauto.
    - intros i h t rr Hh Hr. apply nth_error_snoc in Hh. destruct Hh as [[_ Hh]|[_ ->]]; [eapply D1; eauto|discriminate].
    - exact R1.
    - intros r0 id Hin. destruct (P1 r0 id Hin) as [h [Hh Hr]]. exists h; auto using nth_error_snoc_old.
    - exact O1.
  Qed.

  Lemma Inv_drop : forall g l1 e l2, Inv g -> g_inflight g = l1 ++ e :: l2 ->
    Inv (mkG (N.succ (g_clock g)) (g_hist g) (l1 ++ l2) (g_log g) (g_rep g)).
  Proof.
    intros g l1 e l2 Hi Heq. destruct Hi as [N1 H1 T1 C1 M1 A1 D1 R1 P1 O1].
    constructor; simpl; auto.
    - unfold ids_of in *; simpl. rewrite Heq in N1. rewrite !map_app in *. simpl in N1.
      rewrite app_assoc in N1. apply NoDup_remove_1 in N1. rewrite <- app_assoc in N1. exact N1.
    - intros e0 He. apply H1. rewrite Heq. apply in_app_or in He. apply in_or_app. destruct He as [He|He]; auto.
      right. apply in_app_or in He. apply in_or_app. destruct He; [left|right; right]; auto.
    - intros i h Hh. destruct (T1 i h Hh) as [Ta Tb]. split; [lia|]. intros t rr Hr. specialize (Tb t rr Hr). lia.
    - intros p c Hc. specialize (C1 p c Hc). lia.
  Qed.

  Lemma Inv_commit : forall g l1 e l2, Inv g -> g_inflight g = l1 ++ e :: l2 ->
    Inv (mkG (N.succ (g_clock g)) (g_hist g) (l1 ++ l2) (g_log g ++ [mkC e (g_clock g)]) (g_rep g)).
  Proof.
    intros g l1 e l2 Hi Heq. destruct Hi as [N1 H1 T1 C1 M1 A1 D1 R1 P1 O1].
    constructor; simpl.
    - unfold ids_of in *; simpl. rewrite Heq in N1. rewrite !map_app in *. simpl in *.
      eapply Permutation_NoDup; [|exact N1]. rewrite <- app_assoc. apply Permutation_app_head. simpl.
      apply Permutation_sym, Permutation_middle.
    - intros e0 He. apply H1. rewrite Heq. rewrite map_app in He. simpl in He.
      apply in_app_or in He. apply in_or_app. destruct He as [He|He].
      + apply in_app_or in He. destruct He as [He|[<-|[]]]; [left; auto|right]. apply in_or_app. right; left; reflexivity.
      + right. apply in_app_or in He. apply in_or_app. destruct He; [left|right; right]; auto.
    - intros i h Hh. destruct (T1 i h Hh) as [Ta Tb]. split; [lia|]. intros t rr Hr. specialize (Tb t rr Hr). lia.
    - intros p c Hc. apply nth_error_snoc in Hc. destruct Hc as [[_ Hc]|[_ ->]]; [specialize (C1 p c Hc); lia|simpl; lia].
    - intros p q c d Hlt Hc Hd. apply nth_error_snoc in Hd. destruct Hd as [[Hq Hd]|[Hq ->]].
      + rewrite nth_error_app1 in Hc by lia. exact (M1 p q c d Hlt Hc Hd).
      + rewrite nth_error_app1 in Hc by lia. simpl. apply (C1 p c Hc).
    - intros p c h Hc Hh. apply nth_error_snoc in Hc. destruct Hc as [[_ Hc]|[_ ->]]; [eapply A1; eauto|].
      simpl. apply (T1 _ _ Hh).
    - intros i h t rr Hh Hr. destruct (D1 i h t rr Hh Hr) as [p [c [Hc [Hid [Ht Hres]]]]].
      exists p, c. split; [apply nth_error_snoc_old; exact Hc|]. split; [exact Hid|]. split; [exact Ht|].
      rewrite firstn_snoc_le; [exact Hres|]. apply Nat.lt_le_incl. apply nth_error_Some. congruence.
    - intros r0. destruct (R1 r0) as [Ra Rb]. rewrite app_length. simpl. split; [lia|].
      rewrite firstn_snoc_le by exact Ra. exact Rb.
    - exact P1.
    - exact O1.
  Qed.

  Lemma Inv_apply : forall g r c, Inv g ->
    nth_error (g_log g) (r_applied (g_rep g r)) = Some c ->
    let rs := g_rep g r in let e := c_ent c in
    let sr := apply_impl r (e_ts e) (r_st rs) (e_op e) in
    let triggered := existsb (Nat.eqb (e_id e)) (r_pending rs) in
    Inv (mkG (N.succ (g_clock g))
             (if triggered then set_ret (e_id e) (g_clock g, snd sr) (g_hist g) else g_hist g)
             (g_inflight g) (g_log g)
             (upd (g_rep g) r (mkR (S (r_applied rs)) (fst sr) (remove_id (e_id e) (r_pending rs))))).
  Proof.
    intros g r c Hi Hc rs e sr triggered.
    assert (Hsr : sr = step (r_st rs) (e_op e)) by apply apply_det.
    pose proof Hi as Hi0. destruct Hi as [N1 H1 T1 C1 M1 A1 D1 R1 P1 O1].
    set (hist' := if triggered then set_ret (e_id e) (g_clock g, snd sr) (g_hist g) else g_hist g).
    (* lookups in the new history *)
    assert (Lk : forall i h', nth_error hist' i = Some h' ->
              exists h, nth_error (g_hist g) i = Some h /\ h_op h' = h_op h /\ h_inv h' = h_inv h /\
                (h_ret h' = h_ret h \/ (triggered = true /\ i = e_id e /\ h_ret h' = Some (g_clock g, snd sr)))).
    { intros i h' Hh. unfold hist' in Hh. destruct triggered eqn:Et.
      - destruct (Nat.eq_dec i (e_id e)) as [->|Hne].
        + destruct (nth_error (g_hist g) (e_id e)) as [h|] eqn:Eh.
          * rewrite (set_ret_same _ _ _ _ Eh) in Hh. inversion Hh; subst. exists h. simpl. repeat split; auto.
          * exfalso. assert (nth_error (set_ret (e_id e) (g_clock g, snd sr) (g_hist g)) (e_id e) <> None) by congruence.
            apply nth_error_Some in H. rewrite set_ret_length in H. apply nth_error_Some in H. congruence.
        + rewrite set_ret_other in Hh by auto. exists h'. repeat split; auto.
      - exists h'. repeat split; auto. }
    assert (Lk2 : forall i h, nth_error (g_hist g) i = Some h ->
              exists h', nth_error hist' i = Some h' /\ h_op h' = h_op h /\ h_inv h' = h_inv h /\
                (i <> e_id e \/ triggered = false -> h' = h)).
    { intros i h Hh. unfold hist'. destruct triggered eqn:Et.
      - destruct (Nat.eq_dec i (e_id e)) as [->|Hne].
        + eexists. split; [apply set_ret_same; exact Hh|]. simpl. repeat split; auto. intros [X|X]; congruence.
        + exists h. rewrite set_ret_other by auto. repeat split; auto.
      - exists h. repeat split; auto. }
    constructor; simpl; fold hist'.
    - exact N1.
    - intros e0 He. destruct (H1 e0 He) as [h [Hh Ho]]. destruct (Lk2 _ _ Hh) as [h' [Hh' [Hop _]]].
      exists h'. split; [exact Hh'|congruence].
    - intros i h' Hh'. destruct (Lk _ _ Hh') as [h [Hh [_ [Hinv Hret]]]]. destruct (T1 i h Hh) as [Ta Tb].
      split; [rewrite Hinv; lia|]. intros t rr Hr. destruct Hret as [Hret|[_ [_ Hret]]].
      + rewrite Hret in Hr. specialize (Tb t rr Hr). lia.
      + rewrite Hret in Hr. inversion Hr; subst. lia.
    - intros p c0 Hc0. specialize (C1 p c0 Hc0). lia.
    - exact M1.
    - intros p c0 h' Hc0 Hh'. destruct (Lk _ _ Hh') as [h [Hh [_ [Hinv _]]]]. rewrite Hinv. eapply A1; eauto.
    - intros i h' t rr Hh' Hr. destruct (Lk _ _ Hh') as [h [Hh [_ [_ Hret]]]]. destruct Hret as [Hret|[_ [-> Hret]]].
      + rewrite Hret in Hr. eapply D1; eauto.
      + rewrite Hret in Hr. inversion Hr; subst t rr. exists (r_applied rs), c. split; [exact Hc|].
        split; [reflexivity|]. split; [apply (C1 _ _ Hc)|]. rewrite Hsr. destruct (R1 r) as [_ Rb]. unfold rs. rewrite Rb. reflexivity.
    - intros r0. destruct (Nat.eq_dec r0 r) as [->|Hne]; [rewrite upd_same; cbn [r_applied r_st]|rewrite upd_other by auto; apply R1].
      destruct (R1 r) as [Ra Rb]. split.
      + apply nth_error_Some. unfold rs. congruence.
      + unfold rs in *. rewrite (firstn_S_nth _ _ _ _ Hc), exec_snoc, Hsr. rewrite Rb. reflexivity.
    - intros r0 id Hin.
      assert (Hold : In id (r_pending (g_rep g r0)) /\ (r0 = r -> id <> e_id e)).
      { destruct (Nat.eq_dec r0 r) as [->|Hne].
        - rewrite upd_same in Hin. simpl in Hin. apply remove_id_in in Hin. tauto.
        - rewrite upd_other in Hin by auto. split; [exact Hin|congruence]. }
      destruct Hold as [Hin0 Hne]. destruct (P1 r0 id Hin0) as [h [Hh Hr]].
      destruct (Lk2 _ _ Hh) as [h' [Hh' [_ [_ Hsame]]]]. exists h'. split; [exact Hh'|].
      rewrite Hsame; [exact Hr|]. destruct triggered eqn:Et; [|right; reflexivity]. left.
      intros ->. apply existsb_eqb_in in Et. fold e in Et. pose proof (O1 r0 r (e_id e) Hin0 Et) as Heq. apply Hne; auto.
    - intros r1 r2 id Hin1 Hin2. apply (O1 r1 r2 id).
      + destruct (Nat.eq_dec r1 r) as [->|Hne]; [rewrite upd_same in Hin1; simpl in Hin1; apply remove_id_in in Hin1; tauto|rewrite upd_other in Hin1 by auto; exact Hin1].
      + destruct (Nat.eq_dec r2 r) as [->|Hne]; [rewrite upd_same in Hin2; simpl in Hin2; apply remove_id_in in Hin2; tauto|rewrite upd_other in Hin2 by auto; exact Hin2].
  Qed.

  Lemma Inv_rep_change : forall g r a st pend, Inv g ->
    ((a <= length (g_log g))%nat /\ st = exec (firstn a (g_log g))) ->
    (forall id, In id pend -> In id (r_pending (g_rep g r))) ->
    Inv (mkG (N.succ (g_clock g)) (g_hist g) (g_inflight g) (g_log g) (upd (g_rep g) r (mkR a st pend))).
  Proof.
    intros g r a st pend Hi Hrep Hsub. destruct Hi as [N1 H1 T1 C1 M1 A1 D1 R1 P1 O1].
    constructor; simpl; auto.
    - intros i h Hh. destruct (T1 i h Hh) as [Ta Tb]. split; [lia|]. intros t rr Hr. specialize (Tb t rr Hr). lia.
    - intros p c Hc. specialize (C1 p c Hc). lia.
    - intros r0. destruct (Nat.eq_dec r0 r) as [->|Hne]; [rewrite upd_same; simpl; exact Hrep|rewrite upd_other by auto; apply R1].
    - intros r0 id. destruct (Nat.eq_dec r0 r) as [->|Hne]; [rewrite upd_same; simpl; intros Hin; apply (P1 r); auto|rewrite upd_other by auto; apply P1].
    - intros r1 r2 id Hin1 Hin2. apply (O1 r1 r2 id).
      + destruct (Nat.eq_dec r1 r) as [->|Hne]; [rewrite upd_same in Hin1; simpl in Hin1; auto|rewrite upd_other in Hin1 by auto; exact Hin1].
      + destruct (Nat.eq_dec r2 r) as [->|Hne]; [rewrite upd_same in Hin2; simpl in Hin2; auto|rewrite upd_other in Hin2 by auto; exact Hin2].
  Qed.

  Lemma Inv_step : forall g g', Inv g -> pstep g g' -> Inv g'.
  Proof.
    intros g g' Hi Hs. destruct Hs.
    - apply Inv_invoke; exact Hi.
    - apply Inv_reject; exact Hi.
    - eapply Inv_drop; eauto.
    - eapply Inv_commit; eauto.
    - apply Inv_apply; assumption.
    - apply Inv_rep_change; [exact Hi|apply (I_rep g Hi)|]. intros id0 Hin. apply remove_id_in in Hin. tauto.
    - apply Inv_rep_change; [exact Hi| |intros id0 []]. split; [|reflexivity].
      destruct (I_rep g Hi r) as [Ra _]. lia.
  Qed.

  Theorem reachable_Inv : forall g, reachable g -> Inv g.
  Proof. intros g H; induction H; [apply Inv_g0|eapply Inv_step; eauto]. Qed.

  (* ---------------- from the invariant to linearizability: the log order is the witness ---------------- *)
  Lemma legal_suffix : forall g, Inv g -> forall suf pre ops,
    g_log g = pre ++ suf ->
    Forall2 (fun c h => nth_error (g_hist g) (cid c) = Some h) suf ops ->
    legal (exec pre) ops.
  Proof.
    intros g Hi. induction suf as [|c suf IH]; intros pre ops Hlog Hf; inversion Hf; subst; simpl; [exact I|].
    rename y into h. rename l' into ops'.
    assert (Hp : nth_error (g_log g) (length pre) = Some c).
    { rewrite Hlog. rewrite nth_error_app2 by lia. rewrite Nat.sub_diag. reflexivity. }
    assert (Hfp : firstn (length pre) (g_log g) = pre).
    { rewrite Hlog. rewrite firstn_app, Nat.sub_diag, firstn_all. simpl. apply app_nil_r. }
    assert (Hop : h_op h = e_op (c_ent c)).
    { destruct (I_hist g Hi (c_ent c)) as [h0 [Hh0 Ho]].
      - apply in_or_app; left. apply in_map. eapply nth_error_In; eauto.
      - unfold cid in H1. congruence. }
    rewrite Hop. destruct (step (exec pre) (e_op (c_ent c))) as [s' r] eqn:Es. split.
    - unfold reply_ok. destruct (h_ret h) as [[t r0]|] eqn:Er; [|reflexivity].
      destruct (I_done g Hi _ _ _ _ H1 Er) as [p [c' [Hc' [Hid [_ Hres]]]]].
      assert (p = length pre) by (eapply log_id_pos; eauto). subst p.
      rewrite Hp in Hc'. inversion Hc'; subst c'. rewrite Hfp, Es in Hres. simpl in Hres. subst r0. apply res_eqb_refl.
    - replace s' with (exec (pre ++ [c])) by (rewrite exec_snoc, Es; reflexivity).
      apply IH; [rewrite <- app_assoc; exact Hlog|exact H3].
  Qed.

  Theorem Inv_linearizable : forall g, Inv g -> linearizable (g_hist g).
  Proof.
    intros g Hi.
    destruct (Forall2_exists _ _ (fun c h => nth_error (g_hist g) (cid c) = Some h) (g_log g)) as [ops Hops].
    { intros c Hc. destruct (I_hist g Hi (c_ent c)) as [h [Hh _]]; [apply in_or_app; left; apply in_map; exact Hc|]. exists h; exact Hh. }
    exists (map cid (g_log g)), ops. split; [|split; [|split; [|split]]].
    - pose proof (I_nodup g Hi) as Hnd. unfold ids_of in Hnd. eapply NoDup_app_l; eauto.
    - clear - Hops. induction Hops; simpl; constructor; auto.
    - intros i o Hn Hc. unfold completed in Hc. destruct (h_ret o) as [[t r]|] eqn:Er; [|discriminate].
      destruct (I_done g Hi _ _ _ _ Hn Er) as [p [c [Hp [Hid _]]]]. subst i. apply in_map. eapply nth_error_In; eauto.
    - intros p q a b Hlt Ha Hb. unfold precedes. destruct (h_ret b) as [[t r]|] eqn:Er; [|reflexivity].
      apply N.ltb_ge.
      destruct (Forall2_nth _ _ _ _ _ _ _ Hops Ha) as [ca [Hca Hha]].
      destruct (Forall2_nth _ _ _ _ _ _ _ Hops Hb) as [cb [Hcb Hhb]].
      destruct (I_done g Hi _ _ _ _ Hhb Er) as [q' [cb' [Hq' [Hid [Ht _]]]]].
      assert (q' = q) by (eapply log_id_pos; eauto). subst q'. rewrite Hcb in Hq'. inversion Hq'; subst cb'.
      pose proof (I_after g Hi _ _ _ Hca Hha) as H1. pose proof (I_mono g Hi _ _ _ _ Hlt Hca Hcb) as H2. lia.
    - apply (legal_suffix g Hi (g_log g) [] ops); [reflexivity|exact Hops].
  Qed.

  (* every history of the protocol is linearizable *)
  Theorem protocol_linearizable : forall g, reachable g -> linearizable (g_hist g).
  Proof. intros g H. apply Inv_linearizable, reachable_Inv, H. Qed.

  (* the commit point: an acknowledged request is in the log exactly once, at a position whose commit time
     lies strictly between its invocation and its reply, and the reply is the specification's reply at
     that position; any request (acknowledged or not) is in the log at most once *)
  Theorem protocol_commit_point : forall g, reachable g ->
    forall i h t r, nth_error (g_hist g) i = Some h -> h_ret h = Some (t, r) ->
    exists p c, nth_error (g_log g) p = Some c /\ cid c = i /\
                h_inv h < c_time c /\ c_time c < t /\
                r = snd (step (exec (firstn p (g_log g))) (h_op h)) /\
                (forall q d, nth_error (g_log g) q = Some d -> cid d = i -> q = p).
  Proof.
    intros g Hr i h t r Hh Hret. pose proof (reachable_Inv g Hr) as Hi.
    destruct (I_done g Hi _ _ _ _ Hh Hret) as [p [c [Hp [Hid [Ht Hres]]]]].
    exists p, c. split; [exact Hp|]. split; [exact Hid|]. subst i. split; [eapply I_after; eauto|]. split; [exact Ht|]. split.
    - destruct (I_hist g Hi (c_ent c)) as [h0 [Hh0 Ho]]; [apply in_or_app; left; apply in_map; eapply nth_error_In; eauto|].
      unfold cid in Hh. rewrite Hh in Hh0. inversion Hh0; subst h0. rewrite Ho. exact Hres.
    - intros q d Hq Hd. eapply log_id_pos; eauto.
  Qed.

  Theorem protocol_at_most_once : forall g, reachable g ->
    forall p q c d, nth_error (g_log g) p = Some c -> nth_error (g_log g) q = Some d -> cid c = cid d -> p = q.
  Proof. intros g Hr. apply log_id_pos. apply reachable_Inv, Hr. Qed.

  (* quiescent convergence: replicas that applied the same prefix are in the same state, and a replica that
     applied the whole log holds the state of the witness order, which contains every acknowledged write *)
  Theorem protocol_convergence : forall g, reachable g ->
    (forall r1 r2, r_applied (g_rep g r1) = r_applied (g_rep g r2) -> r_st (g_rep g r1) = r_st (g_rep g r2)) /\
    (forall r, r_applied (g_rep g r) = length (g_log g) -> r_st (g_rep g r) = exec (g_log g)).
  Proof.
    intros g Hr. pose proof (reachable_Inv g Hr) as Hi. split.
    - intros r1 r2 Heq. destruct (I_rep g Hi r1) as [_ E1]. destruct (I_rep g Hi r2) as [_ E2]. rewrite E1, E2, Heq. reflexivity.
    - intros r Heq. destruct (I_rep g Hi r) as [_ E]. rewrite E, Heq, firstn_all. reflexivity.
  Qed.
End Proofs.

(* ------------------------------------------------------------------ non-vacuity: a concrete run *)
(* executable versions of three transitions, to exhibit a reachable state with a non-trivial history *)
Definition demo_apply (r : nat) (ts : N) (s : state) (o : op) := step s o.

Definition do_invoke (g : gstate) (r : nat) (o : op) : gstate :=
  mkG (N.succ (g_clock g)) (g_hist g ++ [mkHop o (g_clock g) None])
      (mkEntry (length (g_hist g)) (g_clock g) o :: g_inflight g) (g_log g)
      (upd (g_rep g) r (mkR (r_applied (g_rep g r)) (r_st (g_rep g r)) (length (g_hist g) :: r_pending (g_rep g r)))).

Definition do_commit_head (g : gstate) : gstate :=
  match g_inflight g with
  | e :: l => mkG (N.succ (g_clock g)) (g_hist g) l (g_log g ++ [mkC e (g_clock g)]) (g_rep g)
  | [] => g
  end.

Definition do_apply (g : gstate) (r : nat) : gstate :=
  match nth_error (g_log g) (r_applied (g_rep g r)) with
  | Some c =>
      let rs := g_rep g r in let e := c_ent c in
      let sr := demo_apply r (e_ts e) (r_st rs) (e_op e) in
      let triggered := existsb (Nat.eqb (e_id e)) (r_pending rs) in
      mkG (N.succ (g_clock g))
          (if triggered then set_ret (e_id e) (g_clock g, snd sr) (g_hist g) else g_hist g)
          (g_inflight g) (g_log g)
          (upd (g_rep g) r (mkR (S (r_applied rs)) (fst sr) (remove_id (e_id e) (r_pending rs))))
  | None => g
  end.

Lemma do_invoke_reach : forall g r o, reachable demo_apply g -> reachable demo_apply (do_invoke g r o).
Proof. intros. eapply reachS; [eassumption|apply t_invoke]. Qed.

Lemma do_commit_head_reach : forall g, reachable demo_apply g -> reachable demo_apply (do_commit_head g).
Proof.
  intros g H. unfold do_commit_head. destruct (g_inflight g) as [|e l] eqn:E; [exact H|].
  eapply reachS; [exact H|]. apply (t_commit demo_apply g [] e l). exact E.
Qed.

Lemma do_apply_reach : forall g r, reachable demo_apply g -> reachable demo_apply (do_apply g r).
Proof.
  intros g r H. unfold do_apply. destruct (nth_error (g_log g) (r_applied (g_rep g r))) as [c|] eqn:E; [|exact H].
  eapply reachS; [exact H|]. apply (t_apply demo_apply g r c). exact E.
Qed.

(* client A: INCR at replica 0, committed, applied and acknowledged by replica 0; client B: INCR at replica 1,
   committed; replica 1 applies both entries and acknowledges B with 2 *)
Definition demo_state : gstate :=
  do_apply (do_apply (do_commit_head (do_invoke (do_apply (do_commit_head (do_invoke g0 0 OIncr)) 0) 1 OIncr)) 1) 1.

Lemma demo_reachable : reachable demo_apply demo_state.
Proof.
  unfold demo_state. repeat first [apply do_apply_reach | apply do_commit_head_reach | apply do_invoke_reach]. apply reach0.
Qed.

Lemma demo_history :
  g_hist demo_state = [mkHop OIncr 1 (Some (3, RInt 1%Z)); mkHop OIncr 4 (Some (7, RInt 2%Z))] /\
  map (fun c => (e_id (c_ent c), c_time c)) (g_log demo_state) = [(0%nat, 2); (1%nat, 5)] /\
  r_st (g_rep demo_state 1) = mkState (Some 2%Z) None [] [].
Proof. vm_compute. repeat split; reflexivity. Qed.

(* ------------------------------------------------------------------ the tie to node/node_cmd_reg.go (Lin/Consts.v) *)
Lemma read_ops_keep_state : forall s o, mutating o = false -> fst (step s o) = s.
Proof. intros s o H. destruct o; try discriminate; reflexivity. Qed.

(* every operation that can change the state is registered as a write (proposed to the log) and has an
   apply handler in the state machine; every other operation of the specification is a local read *)
Lemma mutating_ops_logged : forall o, mutating o = true ->
  in_list (op_cmd o) logged_cmds = true /\ in_list (op_cmd o) applied_cmds = true /\ in_list (op_cmd o) local_cmds = false.
Proof. intros o H. destruct o; try discriminate; vm_compute; repeat split; reflexivity. Qed.

Lemma read_ops_local : forall o, mutating o = false ->
  in_list (op_cmd o) local_cmds = true /\ in_list (op_cmd o) logged_cmds = false.
Proof. intros o H. destruct o; try discriminate; vm_compute; split; reflexivity. Qed.

(* ------------------------------------------------------------------ local reads are outside the theorem, and must be *)
(* The code answers get/hget/llen/scard/... from the local store of the replica that believes it leads,
   without consulting the log. Adding that transition to the protocol breaks linearizability: *)
Definition do_local_read (g : gstate) (r : nat) (o : op) : gstate :=
  mkG (N.succ (N.succ (g_clock g)))
      (g_hist g ++ [mkHop o (g_clock g) (Some (N.succ (g_clock g), snd (step (r_st (g_rep g r)) o)))])
      (g_inflight g) (g_log g) (g_rep g).

Inductive reachable_lr : gstate -> Prop :=
| lr_base : forall g, reachable demo_apply g -> reachable_lr g
| lr_read : forall g r o, reachable_lr g -> mutating o = false -> reachable_lr (do_local_read g r o).

(* INCR through replica 1 is committed, applied and acknowledged by replica 1; replica 0 has not applied
   it yet and answers GET with nil afterwards *)
Definition stale_state : gstate :=
  do_local_read (do_apply (do_commit_head (do_invoke g0 1 OIncr)) 1) 0 OGet.

Lemma local_read_refuted : reachable_lr stale_state /\ ~ linearizable (g_hist stale_state).
Proof.
  split.
  - unfold stale_state. apply lr_read; [|reflexivity]. apply lr_base.
    repeat first [apply do_apply_reach | apply do_commit_head_reach | apply do_invoke_reach]. apply reach0.
  - apply check_complete. vm_compute. reflexivity.
Qed.
