(* Lin/Locality.v — histories over SEVERAL objects (keys) and their linearizability w.r.t. the
   product of per-key copies of Lin/Spec.v (definitions only; the locality theorem of Herlihy & Wing
   is proved in Lin/LocalityProofs.v). The harness splits a recorded history by key and gives every
   projection to the checker; locality is what makes that sufficient. *)
From ZV Require Export Lin.Spec Lin.Checker.

Definition kop := (nat * hop)%type.          (* key, operation *)
Definition mhistory := list kop.
Definition mstate := nat -> state.

Definition minit : mstate := fun _ => init.
Definition mupd (ms : mstate) (k : nat) (s : state) : mstate := fun x => if Nat.eqb x k then s else ms x.

(* an operation on key k is a step of key k's copy of the specification; other keys are untouched *)
Fixpoint mlegal (ms : mstate) (l : list kop) : Prop :=
  match l with
  | [] => True
  | (k, o) :: t => let (s', r) := step (ms k) (h_op o) in reply_ok o r = true /\ mlegal (mupd ms k s') t
  end.

(* linearizability of a multi-key history: as in Lin/Checker.v, over the product specification *)
Definition mlinearizable (MH : mhistory) : Prop :=
  exists (ord : list nat) (ops : list kop),
    NoDup ord /\
    Forall2 (fun i ko => nth_error MH i = Some ko) ord ops /\
    (forall i ko, nth_error MH i = Some ko -> completed (snd ko) = true -> In i ord) /\
    (forall p q a b, (p < q)%nat -> nth_error ops p = Some a -> nth_error ops q = Some b ->
                     precedes (snd b) (snd a) = false) /\
    mlegal minit ops.

(* the projection on one key: what the harness hands to the checker *)
Definition proj (k : nat) (MH : mhistory) : history :=
  map snd (filter (fun ko => Nat.eqb (fst ko) k) MH).

(* recorded operations are well formed: a reply is never seen before the invocation *)
Definition wf_op (o : hop) : Prop :=
  match h_ret o with Some (t, _) => (h_inv o <= t)%N | None => True end.
Definition wf_hist (MH : mhistory) : Prop := Forall (fun ko => wf_op (snd ko)) MH.
