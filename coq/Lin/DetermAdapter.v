(* Lin/DetermAdapter.v — THE ONLY FILE OF coq/Lin THAT IMPORTS coq/Determ (C07's batching model and proofs).

   It instantiates Determ.Model.apply_batched (the apply loop's batch operator: batchable commands read committed
   data only, one primary key per batch, commit before a non-batchable command; transcribed by the C07 builder
   from node/state_machine.go and node/node.go) on Lin/Spec.v, discharges the two hypotheses of C07's theorems
   for that instance, and exports, under names of its own, everything Lin/Batching*.v needs:
       bcall, call_of, bflatten, batched_apply, breply, commit_in_batch        (definitions)
       batched_is_sequential, batched_defined                                  (theorems, by Determ.Proofs)
   If coq/Determ changes its interface only this file has to follow. *)
From ZV Require Export Lin.Protocol Lin.Route.
From ZV Require Determ.Consts Determ.Model Determ.Proofs.
From Coq Require Import String Ascii Lia.
Module DM := Determ.Model.

Definition bytes_of_string (s : string) : list N := map N_of_ascii (list_ascii_of_string s).

(* the primary key an operation addresses: the four components of Spec.state are four redis keys *)
Definition op_pk (o : op) : list N :=
  match o with
  | OIncr | OGetSet _ | OSetNX _ | OGet | OSet _ | ODel | OSetIfAbsent _ | OSetIfPresent _ => [0%N]
  | OHIncrBy _ | OHGet => [1%N]
  | OLPush _ | OLPop | OLLen | OLDump => [2%N]
  | OSAdd _ | OSRem _ | OSCard | OSDump => [3%N]
  end.

(* the raft entry as the state machine sees it: command name, primary key, argument count *)
Definition req_of (e : entry) : DM.req :=
  DM.mkReq (N.of_nat (e_id e)) DM.KRedis (bytes_of_string (op_cmd (e_op e))) (op_pk (e_op e)) 2 0 true.

Definition tbl_of (ents : list entry) : list (N * op) := map (fun e => (N.of_nat (e_id e), e_op e)) ents.

Fixpoint lookup (id : N) (t : list (N * op)) : option op :=
  match t with [] => None | (i, o) :: t' => if N.eqb i id then Some o else lookup id t' end.

Fixpoint nlist_eqb (a b : list N) : bool :=
  match a, b with [], [] => true | x :: a', y :: b' => N.eqb x y && nlist_eqb a' b' | _, _ => false end.

(* the handler of a request: Spec.step on the COMMITTED state; its write = the new object state.
   A request whose name / key do not belong to its operation has no handler. *)
Definition spec_handler (t : list (N * op)) (q : DM.req) (s : state) : DM.outcome state res :=
  match lookup (DM.rid q) t with
  | Some o =>
      if nlist_eqb (DM.rname q) (bytes_of_string (op_cmd o)) && nlist_eqb (DM.rpk q) (op_pk o)
      then let (s', r) := step s o in DM.Ok [s'] r
      else DM.NoHandler
  | None => DM.NoHandler
  end.

(* ---------------- the interface used by Lin/Batching*.v ---------------- *)
Definition bcall : Type := DM.call.
Definition bev : Type := DM.ev.
(* one raft entry = one ApplyRaftRequest call with one request (ProposeInternal: ReqNum = 1, no ReqId) *)
Definition call_of (e : entry) : bcall := DM.mkCall false [req_of e].
(* a partition p (list of applyEntries events, each a list of calls) covers exactly the entries ents, in order *)
Definition bflatten (p : list (list bcall)) (ents : list entry) : Prop := DM.flatten p = map req_of ents.

Definition batched_apply (t : list (N * op)) (s : state) (p : list (list bcall)) : option (state * list (N * res) * list bev) :=
  DM.apply_batched state state res (fun _ w => w) (spec_handler t)
    (fun _ s0 => (s0, RNil)) (fun _ => RNil) RNil RNil (fun _ _ => false) false false false s p.

(* the reply a client gets: the first Trigger for its request id *)
Definition breply (id : N) (outs : list (N * res)) : option res := DM.reply_of res id outs.

(* did the operator commit an open batch in the middle of the event (CommitBatch called while batching)? *)
Definition commit_in_batch (evs : list bev) : bool :=
  existsb (fun e => match e with DM.EC true => true | _ => false end) evs.

(* ------------------------------------------------------------------ the instance satisfies C07's two hypotheses *)
Lemma nlist_eqb_eq : forall a b, nlist_eqb a b = true <-> a = b.
Proof.
  induction a as [|x a IH]; destruct b as [|y b]; simpl; split; intro H; try discriminate; try reflexivity.
  - apply andb_true_iff in H. destruct H as [H1 H2]. apply N.eqb_eq in H1. apply IH in H2. subst; reflexivity.
  - inversion H; subst. rewrite N.eqb_refl. simpl. apply IH. reflexivity.
Qed.

Lemma nlist_eqb_refl : forall a, nlist_eqb a a = true.
Proof. intros. apply nlist_eqb_eq. reflexivity. Qed.

(* a batch candidate has a batchable command name (whatever else C07 asks of a candidate) *)
Lemma cand_name : forall q, DM.batch_cand q = true -> DM.name_batchable q = true.
Proof. intros q H. unfold DM.batch_cand in H. apply andb_true_iff in H. tauto. Qed.

(* only operations on the string key are registered under a batchable command name *)
Lemma batchable_pk : forall q o, DM.name_batchable q = true ->
  nlist_eqb (DM.rname q) (bytes_of_string (op_cmd o)) = true -> op_pk o = [0%N].
Proof.
  intros q o Hb He. apply nlist_eqb_eq in He. unfold DM.name_batchable in Hb. rewrite He in Hb.
  destruct o; try reflexivity; vm_compute in Hb; discriminate.
Qed.

Lemma spec_isolation : forall t q q' s' ws r s,
  DM.batch_cand q = true -> DM.batch_cand q' = true -> DM.rpk q <> DM.rpk q' ->
  spec_handler t q' s' = DM.Ok ws r ->
  spec_handler t q (DM.commit_ws state state (fun _ w => w) s ws) = spec_handler t q s.
Proof.
  intros t q q' s' ws r s Hc Hc' Hne Hq'. pose proof (cand_name q Hc) as Hb. pose proof (cand_name q' Hc') as Hb'.
  unfold spec_handler in *.
  destruct (lookup (DM.rid q) t) as [o|]; [|reflexivity].
  destruct (nlist_eqb (DM.rname q) (bytes_of_string (op_cmd o)) && nlist_eqb (DM.rpk q) (op_pk o)) eqn:E; [|reflexivity].
  exfalso. apply andb_true_iff in E. destruct E as [E1 E2].
  destruct (lookup (DM.rid q') t) as [o'|]; [|discriminate].
  destruct (nlist_eqb (DM.rname q') (bytes_of_string (op_cmd o')) && nlist_eqb (DM.rpk q') (op_pk o')) eqn:E'; [|discriminate].
  apply andb_true_iff in E'. destruct E' as [E1' E2'].
  apply nlist_eqb_eq in E2, E2'. rewrite (batchable_pk q o Hb E1) in E2. rewrite (batchable_pk q' o' Hb' E1') in E2'.
  apply Hne. congruence.
Qed.

Lemma spec_no_abort : forall t q s e, DM.batch_cand q = true -> DM.rvalid q = true ->
  spec_handler t q s <> DM.Fail e true.
Proof.
  intros t q s e _ _. unfold spec_handler. destruct (lookup (DM.rid q) t) as [o|]; [|discriminate].
  destruct (_ && _); [|discriminate]. destruct (step s o). discriminate.
Qed.

(* ------------------------------------------------------------------ one at a time on the instance = Spec.step *)
Fixpoint run_st (s : state) (ents : list entry) : state :=
  match ents with [] => s | e :: t => run_st (fst (step s (e_op e))) t end.

Fixpoint run_out (s : state) (ents : list entry) : list (N * res) :=
  match ents with
  | [] => []
  | e :: t => (N.of_nat (e_id e), snd (step s (e_op e))) :: run_out (fst (step s (e_op e))) t
  end.

Definition seq_apply (t : list (N * op)) (s : state) (l : list DM.req) :=
  DM.seq_run state state res (fun _ w => w) (spec_handler t) (fun _ s0 => (s0, RNil)) (fun _ => RNil) RNil s l.

Lemma seq_apply_run : forall t ents s,
  (forall e, In e ents -> lookup (N.of_nat (e_id e)) t = Some (e_op e)) ->
  seq_apply t s (map req_of ents) = Some (run_st s ents, run_out s ents).
Proof.
  intros t ents; induction ents as [|e ents IH]; intros s Hl; simpl; [reflexivity|].
  unfold seq_apply in *. simpl. unfold DM.seq_step. simpl.
  unfold spec_handler at 1. simpl. rewrite (Hl e (or_introl eq_refl)). rewrite !nlist_eqb_refl. simpl.
  destruct (step s (e_op e)) as [s' r] eqn:Es. simpl.
  rewrite IH by (intros e' He'; apply Hl; right; exact He'). reflexivity.
Qed.

Lemma lookup_tbl : forall ents e, NoDup (map e_id ents) -> In e ents -> lookup (N.of_nat (e_id e)) (tbl_of ents) = Some (e_op e).
Proof.
  induction ents as [|x ents IH]; intros e Hnd Hin; [contradiction|]. simpl. inversion Hnd; subst.
  destruct Hin as [->|Hin]; [rewrite N.eqb_refl; reflexivity|].
  destruct (N.eqb (N.of_nat (e_id x)) (N.of_nat (e_id e))) eqn:E; [|apply IH; assumption].
  exfalso. apply N.eqb_eq in E. apply Nat2N.inj in E. apply H1. rewrite E. apply in_map; exact Hin.
Qed.

Lemma reply_of_run_out : forall ents s j e, NoDup (map e_id ents) -> nth_error ents j = Some e ->
  breply (N.of_nat (e_id e)) (run_out s ents) = Some (snd (step (run_st s (firstn j ents)) (e_op e))).
Proof.
  unfold breply. induction ents as [|x ents IH]; intros s j e Hnd Hn; [destruct j; discriminate|].
  inversion Hnd; subst. destruct j as [|j]; simpl in *.
  - inversion Hn; subst. rewrite N.eqb_refl. reflexivity.
  - destruct (N.eqb (N.of_nat (e_id x)) (N.of_nat (e_id e))) eqn:E.
    + exfalso. apply N.eqb_eq in E. apply Nat2N.inj in E. apply H1. rewrite E. apply in_map. eapply nth_error_In; eauto.
    + apply IH; assumption.
Qed.

(* THE BRIDGE: whatever the partition of the entries into apply batches, the store and every request's reply
   are those of applying Spec.step entry by entry (C07's batch_equiv_replies on this instance) *)
Theorem batched_is_sequential : forall ents p s s1 o1 e1,
  NoDup (map e_id ents) -> bflatten p ents ->
  batched_apply (tbl_of ents) s p = Some (s1, o1, e1) ->
  s1 = run_st s ents /\
  forall j e, nth_error ents j = Some e ->
    breply (N.of_nat (e_id e)) o1 = Some (snd (step (run_st s (firstn j ents)) (e_op e))).
Proof.
  intros ents p s s1 o1 e1 Hnd Hfl Hb. unfold bflatten in Hfl.
  assert (Hseq : seq_apply (tbl_of ents) s (DM.flatten p) = Some (run_st s ents, run_out s ents)).
  { rewrite Hfl. apply seq_apply_run. intros e He. apply lookup_tbl; assumption. }
  assert (Hids : NoDup (map DM.rid (DM.flatten p))).
  { rewrite Hfl. rewrite map_map. simpl. clear - Hnd. induction ents as [|x ents IH]; simpl; [constructor|].
    inversion Hnd; subst. constructor; [|apply IH; assumption].
    intros Hin. apply in_map_iff in Hin. destruct Hin as [y [Hy Hin]]. apply Nat2N.inj in Hy. apply H1. rewrite <- Hy. apply in_map; exact Hin. }
  destruct (Determ.Proofs.batch_equiv_replies state state res (fun _ w => w) (spec_handler (tbl_of ents))
              (fun _ s0 => (s0, RNil)) (fun _ => RNil) RNil RNil (fun _ _ => false)
              (spec_isolation (tbl_of ents)) (spec_no_abort (tbl_of ents))
              false false p s s1 o1 e1 (run_st s ents) (run_out s ents) Hids Hb Hseq) as [E1 E2].
  split; [exact E1|]. intros j e Hn. unfold breply. rewrite E2. apply reply_of_run_out; assumption.
Qed.

(* a group never makes the state machine panic (the one-at-a-time run does not) *)
Theorem batched_defined : forall ents p s, NoDup (map e_id ents) -> bflatten p ents ->
  batched_apply (tbl_of ents) s p <> None.
Proof.
  intros ents p s Hnd Hfl Hn. unfold bflatten in Hfl.
  apply (Determ.Proofs.batch_equiv_panic state state res (fun _ w => w) (spec_handler (tbl_of ents))
              (fun _ s0 => (s0, RNil)) (fun _ => RNil) RNil RNil (fun _ _ => false)
              (spec_isolation (tbl_of ents)) (spec_no_abort (tbl_of ents)) false false p s) in Hn.
  rewrite Hfl in Hn. unfold seq_apply in *.
  pose proof (seq_apply_run (tbl_of ents) ents s) as H. unfold seq_apply in H. rewrite H in Hn; [discriminate|].
  intros e He. apply lookup_tbl; assumption.
Qed.
