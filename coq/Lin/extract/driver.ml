(* driver for the C04 model: reads case lines on stdin, prints "<id>\t<model output>".
     <id> Q <op> <op> ...                      sequential run of Lin/Spec.v: prints the replies
     <id> O <inv> <ret|-> <op> <res|->         one operation of history <id> (lines of one history are contiguous)
     <id> E                                    end of history <id>: prints  lin <witness order> | nonlin | outoffuel
   op  ::= incr | getset:V | setnx:V | get | set:V | del | setox:V (SET k V NX) | setxx:V (SET k V XX) | hincrby:D | hget
         | lpush:V | lpop | llen | ldump | sadd:M | srem:M | scard | sdump
   res ::= iZ | bZ | n | ok | aZ,Z,...   (a alone = empty array) *)
open Model
open Vio

let zi s = z_of_int (int_of_string s)
let sz z = string_of_int (int_of_z z)

let parse_op (s : string) : op =
  match split_on ':' s with
  | ["incr"] -> OIncr | ["getset"; v] -> OGetSet (zi v) | ["setnx"; v] -> OSetNX (zi v)
  | ["get"] -> OGet | ["set"; v] -> OSet (zi v) | ["del"] -> ODel
  | ["setox"; v] -> OSetIfAbsent (zi v) | ["setxx"; v] -> OSetIfPresent (zi v)
  | ["hincrby"; v] -> OHIncrBy (zi v) | ["hget"] -> OHGet
  | ["lpush"; v] -> OLPush (zi v) | ["lpop"] -> OLPop | ["llen"] -> OLLen | ["ldump"] -> OLDump
  | ["sadd"; v] -> OSAdd (zi v) | ["srem"; v] -> OSRem (zi v) | ["scard"] -> OSCard | ["sdump"] -> OSDump
  | _ -> failwith ("bad op " ^ s)

let parse_res (s : string) : res =
  if s = "n" then RNil else if s = "ok" then ROk
  else match s.[0] with
    | 'i' -> RInt (zi (String.sub s 1 (String.length s - 1)))
    | 'b' -> RBulk (zi (String.sub s 1 (String.length s - 1)))
    | 'a' -> let r = String.sub s 1 (String.length s - 1) in
             RArr (if r = "" then [] else List.map zi (split_on ',' r))
    | _ -> failwith ("bad res " ^ s)

let show_res = function
  | RInt z -> "i" ^ sz z | RBulk z -> "b" ^ sz z | RNil -> "n" | ROk -> "ok"
  | RArr l -> "a" ^ String.concat "," (List.map sz l)

let cur_id = ref ""
let cur : hop list ref = ref []

let () =
  read_lines stdin (fun line ->
    match split_on '\t' line with
    | id :: "Q" :: ops ->
      let ops = List.filter (fun s -> s <> "") ops in
      let rs = run init (List.map parse_op ops) in
      Printf.printf "%s\t%s\n" id (String.concat " " (List.map show_res rs))
    | id :: "O" :: inv :: ret :: o :: r :: _ ->
      if id <> !cur_id then (cur_id := id; cur := []);
      let hret = if ret = "-" then None else Some (n_of_dec ret, parse_res r) in
      cur := { h_op = parse_op o; h_inv = n_of_dec inv; h_ret = hret } :: !cur
    | id :: "E" :: _ ->
      let h = if id = !cur_id then List.rev !cur else [] in
      cur_id := ""; cur := [];
      (* the verdict comes from the memoised checker (mcheck = check, Lin/MemoProofs.v); with VERIF_LIN_EXHAUSTIVE
         set, the exhaustive one is used instead. The witness order is printed for short histories only. *)
      let verdict = if Sys.getenv_opt "VERIF_LIN_EXHAUSTIVE" <> None then check h else mcheck h in
      let out = (match verdict with
        | Lin -> if List.length h > 60 then "lin -" else
                 (match check_witness h with
                  | Some w -> "lin " ^ String.concat "," (List.map (fun i -> string_of_int (int_of_nat i)) w)
                  | None -> "lin ?")
        | NonLin -> "nonlin"
        | OutOfFuel -> "outoffuel") in
      Printf.printf "%s\t%s\n%!" id out
    | _ -> ())
