(* Lin/Memo.v — the checker of Lin/Checker.v with memoisation (model only; proofs in Lin/MemoProofs.v).

   Same exhaustive depth-first search, but every configuration (set of remaining operations, specification
   state) that has been searched without success is remembered and never searched again (Lowe's / Horn &
   Kroening's state-set caching). The number of distinct configurations of a history is far smaller than the
   number of search paths, so histories of a few hundred operations can be judged. Both verdicts remain
   theorems (mcheck_sound, mcheck_complete) and mcheck H = check H. *)
From ZV Require Export Lin.Spec Lin.Checker.

Definition config := (list nat * state)%type.          (* tags of the remaining operations, state *)
Definition cache := list config.

Fixpoint natlist_eqb (a b : list nat) : bool :=
  match a, b with
  | [], [] => true
  | x :: a', y :: b' => Nat.eqb x y && natlist_eqb a' b'
  | _, _ => false
  end.

Definition config_eqb (a b : config) : bool := natlist_eqb (fst a) (fst b) && state_eqb (snd a) (snd b).

Definition cache_mem (k : config) (c : cache) : bool := existsb (config_eqb k) c.

(* first Lin wins; the cache is threaded through the candidates *)
Fixpoint mfirst {A : Type} (f : A -> cache -> verdict * cache) (l : list A) (c : cache) : verdict * cache :=
  match l with
  | [] => (NonLin, c)
  | x :: t =>
      match f x c with
      | (Lin, c1) => (Lin, c1)
      | (NonLin, c1) => mfirst f t c1
      | (OutOfFuel, c1) => match mfirst f t c1 with (Lin, c2) => (Lin, c2) | (_, c2) => (OutOfFuel, c2) end
      end
  end.

Fixpoint msearch (fuel : nat) (rem : list top) (st : state) (c : cache) : verdict * cache :=
  match fuel with
  | O => (OutOfFuel, c)
  | S f =>
      if all_unknown rem then (Lin, c)
      else if cache_mem (map fst rem, st) c then (NonLin, c)
      else
        match mfirst (fun (p : top * list top) (c0 : cache) =>
                 let (x, rest) := p in
                 if minimal x rest then
                   let (st', r) := step st (h_op (snd x)) in
                   if reply_ok (snd x) r then msearch f rest st' c0 else (NonLin, c0)
                 else (NonLin, c0)) (picks rem) c with
        | (NonLin, c1) => (NonLin, (map fst rem, st) :: c1)
        | (v, c1) => (v, c1)
        end
  end.

Definition mcheck (H : history) : verdict := fst (msearch (S (length H)) (tag H) init []).
