(* Lin/MemoProofs.v — the memoised checker decides linearizability, hence agrees with the exhaustive one. *)
From ZV Require Import Lin.Spec Lin.Checker Lin.CheckerProofs Lin.Memo.
From Coq Require Import Lia.

Lemma natlist_eqb_eq : forall a b, natlist_eqb a b = true -> a = b.
Proof.
  induction a as [|x a IH]; destruct b as [|y b]; simpl; intros H; try discriminate; [reflexivity|].
  apply andb_true_iff in H. destruct H as [H1 H2]. apply Nat.eqb_eq in H1. apply IH in H2. subst; reflexivity.
Qed.

Lemma zlist_eqb_eq : forall a b, zlist_eqb a b = true -> a = b.
Proof.
  induction a as [|x a IH]; destruct b as [|y b]; simpl; intros H; try discriminate; [reflexivity|].
  apply andb_true_iff in H. destruct H as [H1 H2]. apply Z.eqb_eq in H1. apply IH in H2. subst; reflexivity.
Qed.

Lemma state_eqb_eq : forall a b, state_eqb a b = true -> a = b.
Proof.
  intros [k1 h1 l1 s1] [k2 h2 l2 s2] H. unfold state_eqb in H. simpl in H.
  apply andb_true_iff in H. destruct H as [H Hs]. apply andb_true_iff in H. destruct H as [H Hl].
  apply andb_true_iff in H. destruct H as [Hk Hh].
  apply zlist_eqb_eq in Hs, Hl. subst.
  assert (k1 = k2) by (destruct k1, k2; try discriminate; [apply Z.eqb_eq in Hk; subst|]; reflexivity).
  assert (h1 = h2) by (destruct h1, h2; try discriminate; [apply Z.eqb_eq in Hh; subst|]; reflexivity).
  subst; reflexivity.
Qed.

Lemma cache_mem_in : forall k c, cache_mem k c = true -> In k c.
Proof.
  intros [ids st] c H. unfold cache_mem in H. apply existsb_exists in H. destruct H as [[ids' st'] [Hin He]].
  unfold config_eqb in He. simpl in He. apply andb_true_iff in He. destruct He as [H1 H2].
  apply natlist_eqb_eq in H1. apply state_eqb_eq in H2. subst. exact Hin.
Qed.

(* ------------------------------------------------------------------ the candidates loop *)
Lemma mfirst_spec : forall (A : Type) (f : A -> cache -> verdict * cache) (Q : cache -> Prop) (good : A -> verdict -> Prop) l c v c',
  (forall x c0 v0 c1, In x l -> Q c0 -> f x c0 = (v0, c1) -> Q c1 /\ good x v0) ->
  Q c -> mfirst f l c = (v, c') ->
  Q c' /\ (v = Lin -> exists x, In x l /\ good x Lin) /\
  (v = NonLin -> forall x, In x l -> good x NonLin) /\
  (v = OutOfFuel -> exists x, In x l /\ good x OutOfFuel).
Proof.
  intros A f Q good l; induction l as [|a l IH]; intros c v c' Hf Hq Hm; simpl in Hm.
  - inversion Hm; subst. split; [exact Hq|]. split; [discriminate|]. split; [intros _ x []|discriminate].
  - destruct (f a c) as [v0 c1] eqn:Ef. destruct (Hf a c v0 c1 (or_introl eq_refl) Hq Ef) as [Hq1 Hg].
    assert (Hf' : forall x c0 v1 c2, In x l -> Q c0 -> f x c0 = (v1, c2) -> Q c2 /\ good x v1)
      by (intros x c0 v1 c2 Hin; apply Hf; right; exact Hin).
    destruct v0.
    + inversion Hm; subst. split; [exact Hq1|]. split; [intros _; exists a; split; [left; reflexivity|exact Hg]|].
      split; discriminate.
    + destruct (IH c1 v c' Hf' Hq1 Hm) as [I1 [I2 [I3 I4]]]. split; [exact I1|]. split; [|split].
      * intros Hv. destruct (I2 Hv) as [x [Hx Hgx]]. exists x; split; [right; exact Hx|exact Hgx].
      * intros Hv x [<-|Hx]; [exact Hg|apply I3; auto].
      * intros Hv. destruct (I4 Hv) as [x [Hx Hgx]]. exists x; split; [right; exact Hx|exact Hgx].
    + destruct (mfirst f l c1) as [v2 c2] eqn:Em. destruct (IH c1 v2 c2 Hf' Hq1 Em) as [I1 [I2 [I3 I4]]].
      destruct v2; inversion Hm; subst.
      * split; [exact I1|]. split; [intros _; destruct (I2 eq_refl) as [x [Hx Hgx]]; exists x; split; [right; exact Hx|exact Hgx]|].
        split; discriminate.
      * split; [exact I1|]. split; [discriminate|]. split; [discriminate|]. intros _. exists a; split; [left; reflexivity|exact Hg].
      * split; [exact I1|]. split; [discriminate|]. split; [discriminate|]. intros _. exists a; split; [left; reflexivity|exact Hg].
Qed.

(* ------------------------------------------------------------------ the cache only holds dead configurations *)
Section Universe.
  Variable U : list top.
  Hypothesis U_nodup : NoDup (map fst U).

  Definition inU (rem : list top) : Prop := forall x, In x rem -> In x U.

  Definition cache_ok (c : cache) : Prop :=
    forall ids st, In (ids, st) c -> forall rem, inU rem -> map fst rem = ids -> forall w, ~ lin rem st w.

  Lemma same_tags : forall rem rem', inU rem -> inU rem' -> map fst rem = map fst rem' -> rem = rem'.
  Proof.
    induction rem as [|x rem IH]; intros [|y rem'] H1 H2 He; simpl in He; try discriminate; [reflexivity|].
    inversion He as [[Hxy Ht]]. f_equal.
    - destruct x as [i a], y as [j b]. simpl in Hxy. subst j.
      pose proof (H1 _ (or_introl eq_refl)) as A. pose proof (H2 _ (or_introl eq_refl)) as B.
      clear - U_nodup A B. induction U as [|u U' IHU]; [contradiction|]. simpl in U_nodup. inversion U_nodup; subst.
      destruct A as [->|A]; destruct B as [B|B].
      + exact B.
      + exfalso. apply H1. simpl. change i with (fst (i, b)). apply in_map; exact B.
      + subst u. exfalso. apply H1. simpl. change i with (fst (i, a)). apply in_map; exact A.
      + apply IHU; assumption.
    - apply IH; [intros z Hz; apply H1; right; exact Hz|intros z Hz; apply H2; right; exact Hz|exact Ht].
  Qed.

  Lemma msearch_spec : forall fuel rem st c v c',
    msearch fuel rem st c = (v, c') -> cache_ok c -> inU rem ->
    cache_ok c' /\ (v = Lin -> exists w, lin rem st w) /\ (v = NonLin -> forall w, ~ lin rem st w) /\
    (v = OutOfFuel -> (fuel <= length rem)%nat).
  Proof.
    induction fuel as [|f IH]; intros rem st c v c' Hm Hc Hu; simpl in Hm.
    - inversion Hm; subst. split; [exact Hc|]. split; [discriminate|]. split; [discriminate|]. intros _; lia.
    - destruct (all_unknown rem) eqn:Eu.
      { inversion Hm; subst. split; [exact Hc|]. split; [intros _; exists []; constructor; exact Eu|]. split; discriminate. }
      destruct (cache_mem (map fst rem, st) c) eqn:Ec.
      { inversion Hm; subst. split; [exact Hc|]. split; [discriminate|]. split; [|discriminate].
        intros _ w. apply cache_mem_in in Ec. eapply Hc; eauto. }
      set (fc := fun (p : top * list top) (c0 : cache) =>
                 let (x, rest) := p in
                 if minimal x rest then
                   let (st', r) := step st (h_op (snd x)) in
                   if reply_ok (snd x) r then msearch f rest st' c0 else (NonLin, c0)
                 else (NonLin, c0)) in Hm.
      set (good := fun (p : top * list top) (v0 : verdict) =>
                 let (x, rest) := p in
                 match v0 with
                 | Lin => minimal x rest = true /\ reply_ok (snd x) (snd (step st (h_op (snd x)))) = true /\
                          exists w, lin rest (fst (step st (h_op (snd x)))) w
                 | NonLin => minimal x rest = true -> reply_ok (snd x) (snd (step st (h_op (snd x)))) = true ->
                             forall w, ~ lin rest (fst (step st (h_op (snd x)))) w
                 | OutOfFuel => (f <= length rest)%nat
                 end).
      destruct (mfirst fc (picks rem) c) as [v1 c1] eqn:Em.
      destruct (mfirst_spec _ fc cache_ok good (picks rem) c v1 c1) as [Hc1 [HL [HN HO]]]; [|exact Hc|exact Em|].
      { intros [x rest] c0 v0 c2 Hin Hq Hfx. unfold fc in Hfx. unfold good.
        assert (Hur : inU rest) by (intros z Hz; apply Hu; apply (proj2 (picks_in _ _ _ _ Hin)); exact Hz).
        destruct (minimal x rest) eqn:Emin.
        - destruct (step st (h_op (snd x))) as [st' r] eqn:Es. simpl.
          destruct (reply_ok (snd x) r) eqn:Er.
          + destruct (IH rest st' c0 v0 c2 Hfx Hq Hur) as [J1 [J2 [J3 J4]]]. split; [exact J1|].
            destruct v0; [split; [reflexivity|split; [reflexivity|apply J2; reflexivity]]|intros _ _; apply J3; reflexivity|apply J4; reflexivity].
          + inversion Hfx; subst. split; [exact Hq|]. intros _ Hr. discriminate.
        - inversion Hfx; subst. split; [exact Hq|]. intros Hmin. discriminate. }
      destruct v1; inversion Hm; subst.
      + split; [exact Hc1|]. split; [|split; discriminate]. intros _.
        destruct (HL eq_refl) as [[x rest] [Hin [G1 [G2 [w Hw]]]]]. exists (x :: w).
        destruct (step st (h_op (snd x))) as [st' r] eqn:Es. simpl in *. econstructor; eauto.
      + assert (Hdead : forall w, ~ lin rem st w).
        { intros w Hl. inversion Hl; subst; [congruence|].
          pose proof (HN eq_refl (x, rest) H) as G. unfold good in G. rewrite H1 in G. simpl in G. apply (G H0 H2 w0). exact H3. }
        split; [|split; [discriminate|split; [intros _; exact Hdead|discriminate]]].
        intros ids st0 Hin rem' Hu' He w. destruct Hin as [Heq|Hin]; [|eapply Hc1; eauto].
        injection Heq as E1 E2. subst st0.
        assert (Hsame : rem' = rem) by (apply same_tags; [exact Hu'|exact Hu|congruence]). rewrite Hsame. apply Hdead.
      + split; [exact Hc1|]. split; [discriminate|]. split; [discriminate|]. intros _.
        destruct (HO eq_refl) as [[x rest] [Hin G]]. unfold good in G. apply picks_length in Hin. lia.
  Qed.
End Universe.

(* ------------------------------------------------------------------ the theorems *)
Lemma tag_fst_NoDup : forall H, NoDup (map fst (tag H)).
Proof. intros H. unfold tag. rewrite map_fst_combine_seq. apply seq_NoDup. Qed.

Lemma mcheck_spec : forall H,
  (mcheck H = Lin -> exists w, lin (tag H) init w) /\ (mcheck H = NonLin -> forall w, ~ lin (tag H) init w) /\
  mcheck H <> OutOfFuel.
Proof.
  intros H. unfold mcheck. destruct (msearch (S (length H)) (tag H) init []) as [v c'] eqn:Em. simpl.
  destruct (msearch_spec (tag H) (tag_fst_NoDup H) _ _ _ _ _ _ Em) as [_ [A [B C]]].
  - intros ids st [].
  - intros x Hx; exact Hx.
  - split; [exact A|]. split; [exact B|]. intros Hv. specialize (C Hv). rewrite tag_length in C. lia.
Qed.

Theorem mcheck_sound : forall H, mcheck H = Lin -> linearizable H.
Proof. intros H Hv. destruct (proj1 (mcheck_spec H) Hv) as [w Hw]. eapply lin_linearizable; eauto. Qed.

Theorem mcheck_complete : forall H, mcheck H = NonLin -> ~ linearizable H.
Proof.
  intros H Hv Hl. apply linearizable_lin in Hl. destruct Hl as [w Hw].
  exact (proj1 (proj2 (mcheck_spec H)) Hv w Hw).
Qed.

Theorem mcheck_fuel_sufficient : forall H, mcheck H <> OutOfFuel.
Proof. intros H. apply (proj2 (proj2 (mcheck_spec H))). Qed.

(* the memoised and the exhaustive checker give the same verdict on every history *)
Theorem mcheck_eq_check : forall H, mcheck H = check H.
Proof.
  intros H. destruct (check_decides H) as [[Ec Hl]|[Ec Hn]]; rewrite Ec.
  - destruct (mcheck H) eqn:Em; [reflexivity| |destruct (mcheck_fuel_sufficient H Em)].
    exfalso. exact (mcheck_complete H Em Hl).
  - destruct (mcheck H) eqn:Em; [|reflexivity|destruct (mcheck_fuel_sufficient H Em)].
    exfalso. exact (Hn (mcheck_sound H Em)).
Qed.
