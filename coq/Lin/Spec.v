(* Lin/Spec.v — the small sequential specification used by C04 (model only, no proofs).

   One OBJECT = one key of one data type of a ZanRedisDB namespace (kv string holding an integer,
   one hash field, one list, one set). The four components of [state] are independent; a per-key
   history only uses the operations of its own type. Values are integers (the harness only writes
   decimal integers), replies are the canonicalised redis replies:

     RInt z   integer reply            (INCR, SETNX, DEL, HINCRBY, LPUSH, LLEN, SADD, SREM, SCARD)
     RBulk z  bulk string holding z    (GET, GETSET, HGET, LPOP)
     RNil     nil bulk                 (GET/GETSET/HGET on a missing key, LPOP on an empty list)
     ROk      +OK                      (SET, SET .. NX / XX when the condition holds; nil otherwise)
     RArr l   array of bulk integers   (LRANGE 0 -1; SMEMBERS sorted numerically by the harness)

   Transcribes the reply/effect rules of: node/keys.go (getCommand, setCommand, setnxCommand,
   incr/getset/del via rockredis/t_kv.go Incr, GetSet, SetNX, KVSet, KVSetWithOpts, KVDel), rockredis/t_hash.go
   (HIncrBy, HGet), rockredis/t_list.go (LPush, LPop, LLen, LRange), rockredis/t_set.go (SAdd, SRem,
   SCard, SMembers) — restricted to single-element calls and integer values. *)
From Coq Require Export List ZArith Bool.
Export ListNotations.
Open Scope Z_scope.

Inductive op : Type :=
| OIncr | OGetSet (v : Z) | OSetNX (v : Z) | OGet | OSet (v : Z) | ODel
| OSetIfAbsent (v : Z)      (* SET k v NX : +OK if the key was absent (and sets it), nil otherwise *)
| OSetIfPresent (v : Z)     (* SET k v XX : +OK if the key was present (and overwrites it), nil otherwise *)
| OHIncrBy (d : Z) | OHGet
| OLPush (v : Z) | OLPop | OLLen | OLDump
| OSAdd (m : Z) | OSRem (m : Z) | OSCard | OSDump.

Inductive res : Type :=
| RInt (z : Z) | RBulk (z : Z) | RNil | ROk | RArr (l : list Z).

Record state : Type := mkState {
  s_kv : option Z;      (* string key: absent or an integer value *)
  s_hf : option Z;      (* one hash field *)
  s_list : list Z;      (* head first *)
  s_set : list Z        (* strictly increasing *)
}.

Definition init : state := mkState None None [] [].

Fixpoint zlist_eqb (a b : list Z) : bool :=
  match a, b with
  | [], [] => true
  | x :: a', y :: b' => (x =? y) && zlist_eqb a' b'
  | _, _ => false
  end.

Definition res_eqb (a b : res) : bool :=
  match a, b with
  | RInt x, RInt y => x =? y
  | RBulk x, RBulk y => x =? y
  | RNil, RNil => true
  | ROk, ROk => true
  | RArr x, RArr y => zlist_eqb x y
  | _, _ => false
  end.

Definition bulk_of (o : option Z) : res :=
  match o with Some v => RBulk v | None => RNil end.

Fixpoint set_mem (m : Z) (s : list Z) : bool :=
  match s with [] => false | x :: t => (x =? m) || set_mem m t end.

Fixpoint set_ins (m : Z) (s : list Z) : list Z :=
  match s with
  | [] => [m]
  | x :: t => if m <? x then m :: s else if m =? x then s else x :: set_ins m t
  end.

Fixpoint set_del (m : Z) (s : list Z) : list Z :=
  match s with [] => [] | x :: t => if x =? m then t else x :: set_del m t end.

(* one operation: new state and reply *)
Definition step (s : state) (o : op) : state * res :=
  match o with
  | OIncr =>
      let v := match s_kv s with Some x => x + 1 | None => 1 end in
      (mkState (Some v) (s_hf s) (s_list s) (s_set s), RInt v)
  | OGetSet v => (mkState (Some v) (s_hf s) (s_list s) (s_set s), bulk_of (s_kv s))
  | OSetNX v =>
      match s_kv s with
      | Some _ => (s, RInt 0)
      | None => (mkState (Some v) (s_hf s) (s_list s) (s_set s), RInt 1)
      end
  | OGet => (s, bulk_of (s_kv s))
  | OSet v => (mkState (Some v) (s_hf s) (s_list s) (s_set s), ROk)
  | OSetIfAbsent v =>
      match s_kv s with
      | Some _ => (s, RNil)
      | None => (mkState (Some v) (s_hf s) (s_list s) (s_set s), ROk)
      end
  | OSetIfPresent v =>
      match s_kv s with
      | Some _ => (mkState (Some v) (s_hf s) (s_list s) (s_set s), ROk)
      | None => (s, RNil)
      end
  | ODel =>
      match s_kv s with
      | Some _ => (mkState None (s_hf s) (s_list s) (s_set s), RInt 1)
      | None => (s, RInt 0)
      end
  | OHIncrBy d =>
      let v := match s_hf s with Some x => x + d | None => d end in
      (mkState (s_kv s) (Some v) (s_list s) (s_set s), RInt v)
  | OHGet => (s, bulk_of (s_hf s))
  | OLPush v =>
      let l := v :: s_list s in
      (mkState (s_kv s) (s_hf s) l (s_set s), RInt (Z.of_nat (length l)))
  | OLPop =>
      match s_list s with
      | [] => (s, RNil)
      | x :: t => (mkState (s_kv s) (s_hf s) t (s_set s), RBulk x)
      end
  | OLLen => (s, RInt (Z.of_nat (length (s_list s))))
  | OLDump => (s, RArr (s_list s))
  | OSAdd m =>
      if set_mem m (s_set s) then (s, RInt 0)
      else (mkState (s_kv s) (s_hf s) (s_list s) (set_ins m (s_set s)), RInt 1)
  | OSRem m =>
      if set_mem m (s_set s) then (mkState (s_kv s) (s_hf s) (s_list s) (set_del m (s_set s)), RInt 1)
      else (s, RInt 0)
  | OSCard => (s, RInt (Z.of_nat (length (s_set s))))
  | OSDump => (s, RArr (s_set s))
  end.

(* a sequential run: replies of an operation list (used by the Spec-vs-implementation diff) *)
Fixpoint run (s : state) (ops : list op) : list res :=
  match ops with
  | [] => []
  | o :: t => let (s', r) := step s o in r :: run s' t
  end.

Definition state_eqb (a b : state) : bool :=
  match s_kv a, s_kv b with
  | Some x, Some y => x =? y | None, None => true | _, _ => false end &&
  match s_hf a, s_hf b with
  | Some x, Some y => x =? y | None, None => true | _, _ => false end &&
  zlist_eqb (s_list a) (s_list b) && zlist_eqb (s_set a) (s_set b).
