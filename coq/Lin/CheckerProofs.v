(* Lin/CheckerProofs.v — both verdicts of the checker of Lin/Checker.v are theorems:
     check H = Lin    -> linearizable H          (check_sound)
     check H = NonLin -> ~ linearizable H        (check_complete)
     check H <> OutOfFuel                        (check_fuel_sufficient)
   The proof goes through an inductive characterisation [lin] of "operations can be taken out of
   the remaining multiset one after the other". *)
From ZV Require Import Lin.Spec Lin.Checker.
From Coq Require Import Lia Permutation.

(* ------------------------------------------------------------------ decidable equality of tagged operations *)
Lemma res_eq_dec : forall a b : res, {a = b} + {a <> b}.
Proof. decide equality; try apply Z.eq_dec. apply (list_eq_dec Z.eq_dec). Qed.
Lemma op_eq_dec : forall a b : op, {a = b} + {a <> b}.
Proof. decide equality; apply Z.eq_dec. Qed.
Lemma hop_eq_dec : forall a b : hop, {a = b} + {a <> b}.
Proof.
  decide equality.
  - decide equality. decide equality; [apply res_eq_dec|apply N.eq_dec].
  - apply N.eq_dec.
  - apply op_eq_dec.
Qed.
Lemma top_eq_dec : forall a b : top, {a = b} + {a <> b}.
Proof. decide equality; [apply hop_eq_dec|apply Nat.eq_dec]. Qed.

(* ------------------------------------------------------------------ first_lin *)
Lemma first_lin_Lin : forall (A : Type) (f : A -> verdict) l,
  first_lin f l = Lin <-> exists x, In x l /\ f x = Lin.
Proof.
  intros A f l; induction l as [|a l IH]; simpl.
  - split; [discriminate|intros [x [[] _]]].
  - destruct (f a) eqn:E.
    + split; [intros _; exists a; auto|auto].
    + rewrite IH. split.
      * intros [x [Hi Hx]]; exists x; auto.
      * intros [x [[->|Hi] Hx]]; [congruence|exists x; auto].
    + destruct (first_lin f l) eqn:E2.
      * split; [intros _|auto]. destruct IH as [IH _]. destruct (IH eq_refl) as [x [Hi Hx]]. exists x; auto.
      * split; [discriminate|]. intros [x [[->|Hi] Hx]]; [congruence|].
        destruct IH as [_ IH]. assert (Hc : exists y, In y l /\ f y = Lin) by (exists x; auto).
        specialize (IH Hc). discriminate.
      * split; [discriminate|]. intros [x [[->|Hi] Hx]]; [congruence|].
        destruct IH as [_ IH]. assert (Hc : exists y, In y l /\ f y = Lin) by (exists x; auto).
        specialize (IH Hc). discriminate.
Qed.

Lemma first_lin_NonLin : forall (A : Type) (f : A -> verdict) l,
  first_lin f l = NonLin -> forall x, In x l -> f x = NonLin.
Proof.
  intros A f l; induction l as [|a l IH]; simpl; intros H x Hi; [contradiction|].
  destruct (f a) eqn:E; try discriminate.
  - destruct Hi as [->|Hi]; auto.
  - destruct (first_lin f l); discriminate.
Qed.

Lemma first_lin_OutOfFuel : forall (A : Type) (f : A -> verdict) l,
  first_lin f l = OutOfFuel -> exists x, In x l /\ f x = OutOfFuel.
Proof.
  intros A f l; induction l as [|a l IH]; simpl; intros H; [discriminate|].
  destruct (f a) eqn:E; try discriminate.
  - destruct (IH H) as [x [Hi Hx]]; exists x; auto.
  - exists a; auto.
Qed.

(* ------------------------------------------------------------------ picks *)
Lemma picks_spec : forall (A : Type) (l : list A) x rest,
  In (x, rest) (picks l) <-> exists l1 l2, l = l1 ++ x :: l2 /\ rest = l1 ++ l2.
Proof.
  intros A l; induction l as [|a l IH]; intros x rest; simpl.
  - split; [contradiction|]. intros [l1 [l2 [H _]]]. destruct l1; discriminate.
  - split.
    + intros [H|H].
      * inversion H; subst. exists [], rest; auto.
      * apply in_map_iff in H. destruct H as [[y r] [Heq Hin]]. simpl in Heq. inversion Heq; subst.
        apply IH in Hin. destruct Hin as [l1 [l2 [-> ->]]]. exists (a :: l1), l2; auto.
    + intros [l1 [l2 [H1 H2]]]. destruct l1 as [|b l1]; simpl in *.
      * inversion H1; subst. left; reflexivity.
      * inversion H1; subst. right. apply in_map_iff. exists (x, l1 ++ l2). split; auto.
        apply IH. exists l1, l2; auto.
Qed.

Lemma picks_length : forall (A : Type) (l : list A) x rest,
  In (x, rest) (picks l) -> S (length rest) = length l.
Proof.
  intros A l x rest H. apply picks_spec in H. destruct H as [l1 [l2 [-> ->]]].
  rewrite !app_length. simpl. lia.
Qed.

Lemma picks_in : forall (A : Type) (l : list A) x rest,
  In (x, rest) (picks l) -> In x l /\ (forall y, In y rest -> In y l).
Proof.
  intros A l x rest H. apply picks_spec in H. destruct H as [l1 [l2 [-> ->]]]. split.
  - apply in_or_app; right; left; reflexivity.
  - intros y Hy. apply in_app_or in Hy. apply in_or_app. destruct Hy; [left|right; right]; auto.
Qed.

Lemma picks_other : forall (A : Type) (l : list A) x rest y,
  In (x, rest) (picks l) -> In y l -> y <> x -> In y rest.
Proof.
  intros A l x rest y H Hy Hne. apply picks_spec in H. destruct H as [l1 [l2 [-> ->]]].
  apply in_app_or in Hy. apply in_or_app. destruct Hy as [Hy|[Hy|Hy]]; auto. congruence.
Qed.

Lemma picks_NoDup : forall (A : Type) (l : list A) x rest,
  In (x, rest) (picks l) -> NoDup l -> NoDup rest /\ ~ In x rest.
Proof.
  intros A l x rest H Hnd. apply picks_spec in H. destruct H as [l1 [l2 [-> ->]]].
  split; [eapply NoDup_remove_1; eauto|eapply NoDup_remove_2; eauto].
Qed.

Lemma in_picks : forall (A : Type) (l : list A) x, In x l -> exists rest, In (x, rest) (picks l).
Proof.
  intros A l x H. apply in_split in H. destruct H as [l1 [l2 ->]]. exists (l1 ++ l2).
  apply picks_spec. exists l1, l2; auto.
Qed.

(* ------------------------------------------------------------------ the inductive characterisation *)
Inductive lin : list top -> state -> list top -> Prop :=
| lin_done : forall rem st, all_unknown rem = true -> lin rem st []
| lin_pick : forall rem st x rest st' r w,
    In (x, rest) (picks rem) -> minimal x rest = true ->
    step st (h_op (snd x)) = (st', r) -> reply_ok (snd x) r = true ->
    lin rest st' w -> lin rem st (x :: w).

Lemma search_sound : forall fuel rem st, search fuel rem st = Lin -> exists w, lin rem st w.
Proof.
  induction fuel as [|f IH]; intros rem st H; simpl in H; [discriminate|].
  destruct (all_unknown rem) eqn:Eu.
  - exists []. constructor; assumption.
  - apply first_lin_Lin in H. destruct H as [[x rest] [Hin Hx]].
    destruct (minimal x rest) eqn:Em; [|discriminate].
    destruct (step st (h_op (snd x))) as [st' r] eqn:Es.
    destruct (reply_ok (snd x) r) eqn:Er; [|discriminate].
    destruct (IH _ _ Hx) as [w Hw]. exists (x :: w). econstructor; eauto.
Qed.

Lemma search_complete : forall fuel rem st, search fuel rem st = NonLin -> forall w, ~ lin rem st w.
Proof.
  induction fuel as [|f IH]; intros rem st H w Hl; simpl in H; [discriminate|].
  destruct (all_unknown rem) eqn:Eu; [discriminate|].
  inversion Hl; subst.
  - congruence.
  - pose proof (first_lin_NonLin _ _ _ H _ H0) as Hx. simpl in Hx.
    rewrite H1, H2, H3 in Hx. eapply IH; eauto.
Qed.

Lemma search_fuel : forall fuel rem st, (length rem < fuel)%nat -> search fuel rem st <> OutOfFuel.
Proof.
  induction fuel as [|f IH]; intros rem st Hlt H; [lia|]. simpl in H.
  destruct (all_unknown rem); [discriminate|].
  apply first_lin_OutOfFuel in H. destruct H as [[x rest] [Hin Hx]].
  destruct (minimal x rest); [|discriminate].
  destruct (step st (h_op (snd x))) as [st' r].
  destruct (reply_ok (snd x) r); [|discriminate].
  apply picks_length in Hin. eapply IH; [|exact Hx]. lia.
Qed.

(* ------------------------------------------------------------------ real-time order, recursively *)
Definition rt_ok (ops : list hop) : Prop :=
  forall p q a b, (p < q)%nat -> nth_error ops p = Some a -> nth_error ops q = Some b -> precedes b a = false.

Lemma rt_ok_cons : forall a t,
  rt_ok (a :: t) <-> (forall b, In b t -> precedes b a = false) /\ rt_ok t.
Proof.
  intros a t; split.
  - intros H; split.
    + intros b Hb. apply In_nth_error in Hb. destruct Hb as [n Hn].
      apply (H 0%nat (S n) a b); simpl; auto; lia.
    + intros p q x y Hlt Hp Hq. apply (H (S p) (S q)); simpl; auto; lia.
  - intros [H1 H2] p q x y Hlt Hp Hq. destruct q as [|q]; [lia|]. simpl in Hq.
    destruct p as [|p]; simpl in Hp.
    + inversion Hp; subst. apply H1. eapply nth_error_In; eauto.
    + eapply H2; [|eauto|eauto]. lia.
Qed.

Lemma rt_ok_nil : rt_ok [].
Proof. intros p q a b _ H. destruct p; discriminate. Qed.

Lemma precedes_unknown : forall a b, completed a = false -> precedes a b = false.
Proof. intros a b H. unfold precedes, completed in *. destruct (h_ret a) as [[t r]|]; [discriminate|reflexivity]. Qed.

Lemma all_unknown_spec : forall rem, all_unknown rem = true <-> forall x, In x rem -> completed (snd x) = false.
Proof.
  intros rem. unfold all_unknown. rewrite forallb_forall. split; intros H x Hx; specialize (H x Hx).
  - destruct (completed (snd x)); [discriminate|reflexivity].
  - rewrite H; reflexivity.
Qed.

Lemma minimal_spec : forall x rest, minimal x rest = true <-> forall y, In y rest -> precedes (snd y) (snd x) = false.
Proof.
  intros x rest. unfold minimal. rewrite forallb_forall. split; intros H y Hy; specialize (H y Hy).
  - destruct (precedes (snd y) (snd x)); [discriminate|reflexivity].
  - rewrite H; reflexivity.
Qed.

(* ------------------------------------------------------------------ what a [lin] derivation gives *)
Lemma lin_facts : forall rem st w, lin rem st w -> NoDup rem ->
  NoDup w /\ (forall x, In x w -> In x rem) /\
  (forall x, In x rem -> completed (snd x) = true -> In x w) /\
  rt_ok (map snd w) /\ legal st (map snd w).
Proof.
  intros rem st w H; induction H as [rem st Hu|rem st x rest st' r w Hin Hmin Hstep Hrep Hl IH]; intros Hnd.
  - split; [constructor|]. split; [intros x []|]. split.
    + intros x Hx Hc. rewrite all_unknown_spec in Hu. rewrite (Hu x Hx) in Hc. discriminate.
    + split; [apply rt_ok_nil|exact I].
  - destruct (picks_NoDup _ _ _ _ Hin Hnd) as [Hnd' Hnotin].
    destruct (IH Hnd') as [W1 [W2 [W3 [W4 W5]]]].
    destruct (picks_in _ _ _ _ Hin) as [Hxin Hrest].
    split; [constructor; auto; intro Hx; apply Hnotin; apply W2; exact Hx|]. split.
    + intros y [<-|Hy]; auto.
    + split.
      * intros y Hy Hc. destruct (top_eq_dec y x) as [->|Hne]; [left; reflexivity|].
        right. apply W3; auto. eapply picks_other; eauto.
      * split.
        -- simpl. apply rt_ok_cons. split; auto.
           intros b Hb. apply in_map_iff in Hb. destruct Hb as [y [<- Hy]].
           rewrite minimal_spec in Hmin. apply Hmin. auto.
        -- simpl. rewrite Hstep. split; auto.
Qed.

(* ------------------------------------------------------------------ the tagged history *)
Lemma in_combine_seq : forall (H : history) s i o,
  In (i, o) (combine (seq s (length H)) H) <-> (s <= i)%nat /\ nth_error H (i - s) = Some o.
Proof.
  induction H as [|a H IH]; intros s i o; simpl.
  - split; [contradiction|]. intros [_ Hn]. destruct (i - s)%nat; discriminate.
  - rewrite IH. split.
    + intros [Heq|[Hle Hn]].
      * inversion Heq; subst. split; [lia|]. rewrite Nat.sub_diag. reflexivity.
      * split; [lia|]. replace (i - s)%nat with (S (i - S s)) by lia. exact Hn.
    + intros [Hle Hn]. destruct (Nat.eq_dec i s) as [->|Hne].
      * rewrite Nat.sub_diag in Hn. simpl in Hn. inversion Hn; subst. left; reflexivity.
      * right. split; [lia|]. replace (i - s)%nat with (S (i - S s)) in Hn by lia. exact Hn.
Qed.

Lemma in_tag : forall H i o, In (i, o) (tag H) <-> nth_error H i = Some o.
Proof.
  intros H i o. unfold tag. rewrite in_combine_seq. rewrite Nat.sub_0_r. split; [intros [_ X]; exact X|intros X; split; [lia|exact X]].
Qed.

Lemma map_fst_combine_seq : forall (H : history) s, map fst (combine (seq s (length H)) H) = seq s (length H).
Proof. induction H as [|a H IH]; intros s; simpl; [reflexivity|]. rewrite IH. reflexivity. Qed.

Lemma tag_NoDup : forall H, NoDup (tag H).
Proof.
  intros H. apply (NoDup_map_inv fst). unfold tag. rewrite map_fst_combine_seq. apply seq_NoDup.
Qed.

Lemma tag_length : forall H, length (tag H) = length H.
Proof. intros H. unfold tag, top. rewrite combine_length, seq_length. apply Nat.min_id. Qed.

(* ------------------------------------------------------------------ lin (tag H) init  <->  linearizable H *)
Lemma lin_linearizable : forall H w, lin (tag H) init w -> linearizable H.
Proof.
  intros H w Hl. destruct (lin_facts _ _ _ Hl (tag_NoDup H)) as [W1 [W2 [W3 [W4 W5]]]].
  exists (map fst w), (map snd w). split.
  - (* tags of w are distinct because w is a duplicate-free sub-multiset of the tagged history *)
    assert (Hsub : forall x, In x w -> In x (tag H)) by exact W2.
    clear - W1 Hsub. induction w as [|x w IH]; simpl; [constructor|].
    inversion W1; subst. constructor.
    + intros Hin. apply in_map_iff in Hin. destruct Hin as [y [Hfy Hy]].
      assert (y = x).
      { destruct x as [i o], y as [j o']. simpl in Hfy. subst j.
        pose proof (Hsub (i, o) (or_introl eq_refl)) as A. pose proof (Hsub (i, o') (or_intror Hy)) as B.
        apply in_tag in A. apply in_tag in B. congruence. }
      subst y. contradiction.
    + apply IH; auto. intros y Hy. apply Hsub. right; exact Hy.
  - split.
    + clear - W2. induction w as [|x w IH]; simpl; constructor.
      * destruct x as [i o]. simpl. apply in_tag. apply W2. left; reflexivity.
      * apply IH. intros y Hy. apply W2. right; exact Hy.
    + split.
      * intros i o Hn Hc. apply in_tag in Hn. apply (in_map fst) in Hn as Hn'.
        pose proof (W3 (i, o) Hn Hc) as Hw. apply (in_map fst) in Hw. exact Hw.
      * split; [exact W4|exact W5].
Qed.

Lemma linearizable_lin_gen : forall w rem st,
  NoDup (map fst w) -> NoDup rem ->
  (forall x, In x w -> In x rem) ->
  (forall x, In x rem -> completed (snd x) = true -> In x w) ->
  rt_ok (map snd w) -> legal st (map snd w) ->
  lin rem st w.
Proof.
  induction w as [|x w IH]; intros rem st Hndw Hnd Hsub Hall Hrt Hleg.
  - constructor. apply all_unknown_spec. intros x Hx.
    destruct (completed (snd x)) eqn:Ec; [|reflexivity]. destruct (Hall x Hx Ec).
  - simpl in Hleg. destruct (step st (h_op (snd x))) as [st' r] eqn:Es. destruct Hleg as [Hrep Hleg].
    simpl in Hrt. apply rt_ok_cons in Hrt. destruct Hrt as [Hrt1 Hrt2].
    simpl in Hndw. inversion Hndw as [|? ? Hnotin Hndw']; subst.
    destruct (in_picks _ rem x (Hsub x (or_introl eq_refl))) as [rest Hp].
    destruct (picks_NoDup _ _ _ _ Hp Hnd) as [Hnd' Hxr].
    assert (Hsub' : forall y, In y w -> In y rest).
    { intros y Hy. apply (picks_other _ rem x rest y Hp); [apply Hsub; right; exact Hy|].
      intros Heq. subst y. apply Hnotin. apply in_map. exact Hy. }
    assert (Hall' : forall y, In y rest -> completed (snd y) = true -> In y w).
    { intros y Hy Hc. destruct (picks_in _ _ _ _ Hp) as [_ Hr]. destruct (Hall y (Hr y Hy) Hc) as [<-|Hw]; [contradiction|exact Hw]. }
    eapply lin_pick; eauto.
    apply minimal_spec. intros y Hy. destruct (completed (snd y)) eqn:Ec.
    + apply Hrt1. apply in_map. apply Hall'; auto.
    + apply precedes_unknown; exact Ec.
Qed.

Lemma Forall2_combine_maps : forall (A B : Type) (R : A -> B -> Prop) la lb,
  Forall2 R la lb -> map fst (combine la lb) = la /\ map snd (combine la lb) = lb /\
  (forall x, In x (combine la lb) -> R (fst x) (snd x)).
Proof.
  intros A B R la lb H; induction H as [|a b la lb Hab H IH]; simpl.
  - split; [reflexivity|split; [reflexivity|intros x []]].
  - destruct IH as [I1 [I2 I3]]. rewrite I1, I2. split; [reflexivity|split; [reflexivity|]].
    intros x [<-|Hx]; simpl; auto.
Qed.

Lemma linearizable_lin : forall H, linearizable H -> exists w, lin (tag H) init w.
Proof.
  intros H [ord [ops [Hnd [Hf2 [Hall [Hrt Hleg]]]]]].
  destruct (Forall2_combine_maps _ _ _ _ _ Hf2) as [M1 [M2 M3]].
  exists (combine ord ops). apply linearizable_lin_gen.
  - rewrite M1; exact Hnd.
  - apply tag_NoDup.
  - intros [i o] Hx. apply in_tag. apply (M3 (i, o) Hx).
  - intros [i o] Hx Hc. simpl in Hc. apply in_tag in Hx. pose proof (Hall i o Hx Hc) as Hi.
    (* i occurs in ord, paired with the operation at position i of H, which is o *)
    rewrite <- M1 in Hi. apply in_map_iff in Hi. destruct Hi as [[j o'] [Hj Hin]]. simpl in Hj. subst j.
    pose proof (M3 _ Hin) as Hn. simpl in Hn. rewrite Hx in Hn. inversion Hn; subst. exact Hin.
  - rewrite M2; exact Hrt.
  - rewrite M2; exact Hleg.
Qed.

(* ------------------------------------------------------------------ the three theorems *)
Theorem check_sound : forall H, check H = Lin -> linearizable H.
Proof.
  intros H Hc. unfold check in Hc. apply search_sound in Hc. destruct Hc as [w Hw].
  eapply lin_linearizable; eauto.
Qed.

Theorem check_complete : forall H, check H = NonLin -> ~ linearizable H.
Proof.
  intros H Hc Hl. unfold check in Hc. apply linearizable_lin in Hl. destruct Hl as [w Hw].
  eapply search_complete; eauto.
Qed.

Theorem check_fuel_sufficient : forall H, check H <> OutOfFuel.
Proof. intros H. unfold check. apply search_fuel. rewrite tag_length. lia. Qed.

Corollary check_decides : forall H,
  (check H = Lin /\ linearizable H) \/ (check H = NonLin /\ ~ linearizable H).
Proof.
  intros H. destruct (check H) eqn:E.
  - left; split; [reflexivity|apply check_sound; exact E].
  - right; split; [reflexivity|apply check_complete; exact E].
  - destruct (check_fuel_sufficient H E).
Qed.
