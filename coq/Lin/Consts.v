(* GENERATED from node/node_cmd_reg.go by harness/cmd/cluster -consts; do not edit *)
From Coq Require Import List String.
Import ListNotations.
Local Open Scope string_scope.
(* commands of Lin/Spec.v registered with RegisterWrite/RegisterWriteMerge: proposed to the raft log *)
Definition logged_cmds : list string := ["del"; "getset"; "hincrby"; "incr"; "lpop"; "lpush"; "sadd"; "set"; "setnx"; "srem"].
(* commands of Lin/Spec.v registered with RegisterRead/RegisterMerge: served from the local store *)
Definition local_cmds : list string := ["get"; "hget"; "llen"; "lrange"; "scard"; "smembers"].
(* commands of Lin/Spec.v with an apply handler in the state machine (RegisterInternal) *)
Definition applied_cmds : list string := ["del"; "getset"; "hincrby"; "incr"; "lpop"; "lpush"; "sadd"; "set"; "setnx"; "srem"].
