(* Lin/Shrink.v — the steps the check uses to shrink a non-linearizable recorded history (model only).
   Lin/ShrinkProofs.v proves that each of them preserves linearizability, so a shrunk history that the checker
   rejects shows that the recorded one is not linearizable either. *)
From ZV Require Export Lin.Spec Lin.Checker Lin.Route.

(* a reply that an operation only gives when it leaves the state unchanged *)
Definition noop_reply (o : op) (r : res) : bool :=
  match o, r with
  | OGet, _ | OHGet, _ | OLLen, _ | OLDump, _ | OSCard, _ | OSDump, _ => true
  | OLPop, RNil => true
  | OSetNX _, RInt 0 => true
  | OSAdd _, RInt 0 => true
  | OSRem _, RInt 0 => true
  | ODel, RInt 0 => true
  | OSetIfAbsent _, RNil => true
  | OSetIfPresent _, RNil => true
  | _, _ => false
  end.

(* the event prefix at time T: operations invoked before T; those not yet answered at T become unknown *)
Definition cutop (T : N) (o : hop) : hop :=
  match h_ret o with
  | Some (t, _) => if N.ltb t T then o else mkHop (h_op o) (h_inv o) None
  | None => o
  end.

Definition cut (T : N) (H : history) : history :=
  map (cutop T) (filter (fun o => N.ltb (h_inv o) T) H).
