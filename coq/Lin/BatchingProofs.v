(* Lin/BatchingProofs.v — a group of entries applied through C07's batching model (any partition into
   apply batches) is the same as applying them one at a time: the apply premise of Lin/Protocol.v, discharged
   by CITING coq/Determ/Proofs.v (batch_equiv_replies, batch_equiv_panic). Consequently every theorem about
   Protocol holds for the system with grouped application (reachableB). *)
From ZV Require Import Lin.Spec Lin.Checker Lin.CheckerProofs Lin.Protocol Lin.Route Lin.ProtocolProofs Lin.DetermAdapter Lin.Batching.
From Coq Require Import Lia.

Lemma in_firstn_skipn : forall (A : Type) (l : list A) k n y, In y (firstn n (skipn k l)) -> In y l.
Proof.
  intros A l k n y H. apply In_nth_error in H. destruct H as [j Hj].
  assert (In y (skipn k l)).
  { clear - Hj. revert j Hj. generalize (skipn k l) as m. induction n as [|n IH]; intros m j Hj; [destruct j; discriminate|].
    destruct m as [|x m]; [destruct j; discriminate|]. destruct j; simpl in Hj; [inversion Hj; left; reflexivity|right; eapply IH; eauto]. }
  rewrite <- (firstn_skipn k l). apply in_or_app; right; exact H.
Qed.

(* ------------------------------------------------------------------ a group step = n single steps *)
(* equality of global states up to the extension of the replica map *)
Definition geq (a b : gstate) : Prop :=
  g_clock a = g_clock b /\ g_hist a = g_hist b /\ g_inflight a = g_inflight b /\ g_log a = g_log b /\
  g_wait a = g_wait b /\ g_ldone a = g_ldone b /\ forall r, g_rep a r = g_rep b r.

Lemma geq_refl : forall g, geq g g.
Proof. intros g. repeat split; reflexivity. Qed.

Lemma geq_trans : forall a b c, geq a b -> geq b c -> geq a c.
Proof.
  intros a b c [A1 [A2 [A3 [A4 [A5 [A6 A7]]]]]] [B1 [B2 [B3 [B4 [B5 [B6 B7]]]]]].
  repeat split; try congruence; intros r; rewrite A7; apply B7.
Qed.

Section Sim.
  Variable apply_impl : nat -> N -> state -> op -> state * res.
  Hypothesis apply_det : forall r ts s o, apply_impl r ts s o = step s o.

  Lemma Inv_geq : forall a b, geq b a -> Inv a -> Inv b.
  Proof.
    intros a b [E1 [E2 [E3 [E4 [E5 [E6 E7]]]]]] Hi.
    destruct a as [ca ha ia la fa wa da]. destruct b as [cb hb ib lb fb wb db]. simpl in *. subst.
    destruct Hi as [N1 L1 H1 T1 C1 M1 A1 D1 R1 P1 O1 W1 LD1 LO1]. simpl in *.
    constructor; simpl; auto.
    - intros r. rewrite E7. apply R1.
    - intros r id. rewrite E7. apply P1.
    - intros r1 r2 id. rewrite !E7. apply O1.
    - intros q Hq. destruct (W1 q Hq) as [Wa [Wb Wc]]. split; [exact Wa|split; [exact Wb|]]. intros r. rewrite E7. apply Wc.
  Qed.

  Lemma applyn_none : forall n g r, nth_error (g_log g) (r_applied (g_rep g r)) = None -> applyn apply_impl n g r = g.
  Proof.
    induction n as [|n IH]; intros g r H; simpl; [reflexivity|].
    assert (E : apply1 apply_impl g r = g) by (unfold apply1; rewrite H; reflexivity). rewrite E. apply IH; exact H.
  Qed.

  Lemma grp_applyn : forall n g r outs s1,
    let rs := g_rep g r in
    let ents := map c_ent (firstn n (skipn (r_applied rs) (g_log g))) in
    (forall j e, nth_error ents j = Some e ->
       breply (N.of_nat (e_id e)) outs = Some (snd (step (run_st (r_st rs) (firstn j ents)) (e_op e)))) ->
    s1 = run_st (r_st rs) ents ->
    geq (group_result g r ents outs s1) (applyn apply_impl n g r).
  Proof.
    induction n as [|n IH]; intros g r outs s1 rs ents Hrep Hs1.
    - subst ents. simpl in *. subst s1. unfold group_result. simpl. repeat split; try reflexivity.
      intros x. simpl. unfold upd. destruct (Nat.eqb x r) eqn:E; [|reflexivity].
      apply Nat.eqb_eq in E. subst x. unfold rs. rewrite Nat.add_0_r. destruct (g_rep g r); reflexivity.
    - destruct (nth_error (g_log g) (r_applied rs)) as [c|] eqn:Ec.
      + (* there is a next entry *)
        assert (Hsk : skipn (r_applied rs) (g_log g) = c :: skipn (S (r_applied rs)) (g_log g)).
        { clear - Ec. revert Ec. generalize (r_applied rs) as k. generalize (g_log g) as l.
          induction l as [|x l IHl]; intros k H; destruct k; simpl in *; try discriminate.
          - inversion H; reflexivity.
          - apply IHl; exact H. }
        set (g1 := apply1 apply_impl g r).
        assert (Hg1 : g1 = mkG (N.succ (g_clock g))
                  (if existsb (Nat.eqb (e_id (c_ent c))) (r_pending rs)
                   then set_ret (e_id (c_ent c)) (g_clock g, snd (step (r_st rs) (e_op (c_ent c)))) (g_hist g) else g_hist g)
                  (g_inflight g) (g_log g)
                  (upd (g_rep g) r (mkR (S (r_applied rs)) (fst (step (r_st rs) (e_op (c_ent c)))) (remove_id (e_id (c_ent c)) (r_pending rs))))
                  (g_wait g) (g_ldone g)).
        { unfold g1, apply1. fold rs. rewrite Ec. rewrite apply_det. reflexivity. }
        set (ents' := map c_ent (firstn n (skipn (S (r_applied rs)) (g_log g)))).
        assert (Hents : ents = c_ent c :: ents') by (unfold ents, ents'; rewrite Hsk; reflexivity).
        simpl applyn. fold g1.
        assert (Hrs1 : g_rep g1 r = mkR (S (r_applied rs)) (fst (step (r_st rs) (e_op (c_ent c)))) (remove_id (e_id (c_ent c)) (r_pending rs))).
        { rewrite Hg1. simpl. apply upd_same. }
        assert (Hlog1 : g_log g1 = g_log g) by (rewrite Hg1; reflexivity).
        eapply geq_trans; [|apply (IH g1 r outs s1)].
        * (* peel the first entry off the group *)
          rewrite Hents. unfold group_result. fold rs. simpl grp.
          rewrite (Hrep 0%nat (c_ent c)) by (rewrite Hents; reflexivity). simpl firstn. simpl run_st.
          rewrite Hrs1, Hlog1. simpl r_applied. simpl r_pending. fold ents'.
          assert (Hh : g_hist g1 = (if existsb (Nat.eqb (e_id (c_ent c))) (r_pending rs)
                   then set_ret (e_id (c_ent c)) (g_clock g, snd (step (r_st rs) (e_op (c_ent c)))) (g_hist g) else g_hist g))
            by (rewrite Hg1; reflexivity).
          assert (Hc : g_clock g1 = N.succ (g_clock g)) by (rewrite Hg1; reflexivity).
          rewrite Hh, Hc.
          destruct (grp ents' outs (N.succ (g_clock g)) _ (remove_id (e_id (c_ent c)) (r_pending rs))) as [[ck h] pd].
          rewrite Hg1. simpl. repeat split; try reflexivity.
          intros x. simpl. unfold upd. destruct (Nat.eqb x r); [|reflexivity]. f_equal. lia.
        * rewrite Hrs1, Hlog1. simpl r_applied. simpl r_st. fold ents'. intros j e Hn.
          rewrite (Hrep (S j) e) by (rewrite Hents; exact Hn). rewrite Hents. reflexivity.
        * rewrite Hrs1, Hlog1. simpl r_applied. simpl r_st. fold ents'. rewrite Hs1, Hents. reflexivity.
      + (* the log is exhausted: nothing to apply *)
        assert (Hnil : ents = []).
        { unfold ents. assert (Hs : skipn (r_applied rs) (g_log g) = []) by (apply skipn_all2; apply nth_error_None; exact Ec).
          rewrite Hs. destruct n; reflexivity. }
        rewrite (applyn_none (S n) g r Ec). rewrite Hnil in *. simpl in Hs1. subst s1.
        unfold group_result. simpl. repeat split; try reflexivity.
        intros x. simpl. unfold upd. destruct (Nat.eqb x r) eqn:E; [|reflexivity].
        apply Nat.eqb_eq in E. subst x. fold rs. rewrite Nat.add_0_r. destruct rs; reflexivity.
  Qed.

  (* ------------------------------------------------------------------ the batched system *)
  Lemma log_suffix_ids_NoDup : forall g k n, Inv g ->
    NoDup (map e_id (map c_ent (firstn n (skipn k (g_log g))))).
  Proof.
    intros g k n Hi. pose proof (I_nodup g Hi) as Hnd. unfold all_ids, ids_of in Hnd.
    apply NoDup_app_l in Hnd. apply NoDup_app_l in Hnd.
    rewrite map_map. fold cid.
    assert (Hsub : forall (l : list centry) k n, NoDup (map cid l) -> NoDup (map cid (firstn n (skipn k l)))).
    { clear. induction l as [|x l IH]; intros k n H.
      - destruct k, n; simpl; constructor.
      - destruct k as [|k]; simpl.
        + destruct n as [|n]; simpl; [constructor|]. inversion H; subst. constructor.
          * intros Hin. apply H2. apply in_map_iff in Hin. destruct Hin as [y [Hy Hin]]. rewrite <- Hy. apply in_map.
            eapply (in_firstn_skipn _ l 0 n); exact Hin.
          * apply (IH 0%nat n). exact H3.
        + inversion H; subst. apply IH; assumption. }
    apply Hsub. exact Hnd.
  Qed.

  Theorem Inv_stepB : forall g g', Inv g -> pstepB apply_impl g g' -> Inv g'.
  Proof.
    intros g g' Hi Hs. destruct Hs as [g g' Hs|g r n p s1 o1 e1 rs ents Hfl Hb].
    - eapply Inv_step; eauto.
    - pose proof (log_suffix_ids_NoDup g (r_applied rs) n Hi) as Hnd. fold ents in Hnd.
      destruct (batched_is_sequential ents p (r_st rs) s1 o1 e1 Hnd Hfl Hb) as [E1 E2].
      eapply Inv_geq; [apply (grp_applyn n g r o1 s1); [exact E2|exact E1]|].
      apply Inv_applyn; assumption.
  Qed.

  Theorem reachableB_Inv : forall g, reachableB apply_impl g -> Inv g.
  Proof. intros g H; induction H; [apply Inv_g0|eapply Inv_stepB; eauto]. Qed.

  (* every theorem about Protocol, for the system that applies entries in groups through C07's batch operator *)
  Theorem batched_protocol_linearizable_relaxed : forall g, reachableB apply_impl g -> linearizable (relaxed_hist g).
  Proof. intros g H. apply Inv_linearizable_relaxed. apply reachableB_Inv, H. Qed.

  Theorem batched_protocol_linearizable : forall g, reachableB apply_impl g -> read_ids g = [] -> linearizable (g_hist g).
  Proof. intros g H. apply Inv_linearizable. apply reachableB_Inv, H. Qed.

  Theorem batched_protocol_commit_point : forall g, reachableB apply_impl g -> commit_point_stmt g.
  Proof. intros g H. unfold commit_point_stmt. apply Inv_commit_point. apply reachableB_Inv, H. Qed.

  Theorem batched_protocol_convergence : forall g, reachableB apply_impl g -> convergence_stmt g.
  Proof. intros g H. apply Inv_convergence. apply reachableB_Inv, H. Qed.
End Sim.

(* ------------------------------------------------------------------ non-vacuity *)
(* two conditional SETs on the same key delivered in ONE applyEntries event: the batch operator commits the
   open batch before the second one (its primary key is already in dupCheckMap), so the second reads the
   first's write: exactly one wins *)
Definition ex_ents : list entry := [mkEntry 0 1 (OSetIfAbsent 5); mkEntry 1 2 (OSetIfAbsent 6); mkEntry 2 3 (OLPush 9)].
Definition ex_partition : list (list bcall) := [map call_of ex_ents].

Example batch_example :
  bflatten ex_partition ex_ents /\
  match batched_apply (tbl_of ex_ents) init ex_partition with
  | Some (s1, outs, evs) =>
      s1 = mkState (Some 5%Z) None [9%Z] [] /\
      breply 0 outs = Some ROk /\ breply 1 outs = Some RNil /\ breply 2 outs = Some (RInt 1) /\
      commit_in_batch evs = true
  | None => False
  end.
Proof. vm_compute. repeat split; reflexivity. Qed.

(* the a2 class: had both conditional SETs decided on the committed state of the SAME batch (no dupCheck), both
   would have been acknowledged; no order explains that *)
Example same_batch_conditional_sets_refuted :
  let s := init in
  let r1 := snd (step s (OSetIfAbsent 5)) in let r2 := snd (step s (OSetIfAbsent 6)) in
  r1 = ROk /\ r2 = ROk /\
  ~ linearizable [mkHop (OSetIfAbsent 5) 1 (Some (4, r1)); mkHop (OSetIfAbsent 6) 2 (Some (5, r2))]%N.
Proof. split; [reflexivity|split; [reflexivity|]]. apply check_complete. vm_compute. reflexivity. Qed.
