(* Lin/Route.v — which redis command an operation of Lin/Spec.v is sent as, and which operations can
   change the state (model only). Together with the generated Lin/Consts.v (how node/node_cmd_reg.go
   registers each command) this ties Protocol.v's premise "every state-changing operation goes through
   the log and is answered by the apply of its own entry" to the source tree. *)
From ZV Require Export Lin.Spec Lin.Consts.
From Coq Require Import String.
Local Open Scope string_scope.

Definition op_cmd (o : op) : string :=
  match o with
  | OIncr => "incr" | OGetSet _ => "getset" | OSetNX _ => "setnx" | OGet => "get" | OSet _ => "set" | ODel => "del"
  | OSetIfAbsent _ => "set" | OSetIfPresent _ => "set"
  | OHIncrBy _ => "hincrby" | OHGet => "hget"
  | OLPush _ => "lpush" | OLPop => "lpop" | OLLen => "llen" | OLDump => "lrange"
  | OSAdd _ => "sadd" | OSRem _ => "srem" | OSCard => "scard" | OSDump => "smembers"
  end.

(* operations whose specification step can change the state *)
Definition mutating (o : op) : bool :=
  match o with
  | OGet | OHGet | OLLen | OLDump | OSCard | OSDump => false
  | _ => true
  end.

Definition in_list (s : string) (l : list string) : bool := existsb (String.eqb s) l.
