(* Lin/ShrinkProofs.v — the shrinking steps preserve linearizability:
     shrink_drop_noop          removing a completed operation whose reply implies that it changed nothing
     shrink_drop_unknown_read  removing an unanswered operation that cannot change the state
     shrink_prefix             the event prefix at a time T (operations in flight at T become unknown)
   Contrapositive: if the shrunk history is not linearizable, neither is the recorded one. *)
From ZV Require Import Lin.Spec Lin.Checker Lin.CheckerProofs Lin.Route Lin.Locality Lin.Shrink.
From Coq Require Import Lia.

(* ------------------------------------------------------------------ lin does not look at the tags *)
Definition same_op (x y : top) : Prop := snd x = snd y.

Lemma picks_Forall2 : forall (rem rem' : list top) x rest,
  Forall2 same_op rem rem' -> In (x, rest) (picks rem) ->
  exists x' rest', In (x', rest') (picks rem') /\ same_op x x' /\ Forall2 same_op rest rest'.
Proof.
  intros rem rem' x rest Hf Hin. apply picks_spec in Hin. destruct Hin as [l1 [l2 [-> ->]]].
  apply Forall2_app_inv_l in Hf. destruct Hf as [m1 [m2 [F1 [F2 ->]]]].
  inversion F2 as [|? x' ? m2' Hx F2']; subst.
  exists x', (m1 ++ m2'). split; [apply picks_spec; exists m1, m2'; auto|]. split; [exact Hx|apply Forall2_app; assumption].
Qed.

Lemma Forall2_in_r' : forall (A B : Type) (P : A -> B -> Prop) la lb b, Forall2 P la lb -> In b lb -> exists a, In a la /\ P a b.
Proof.
  intros A B P la lb b H; induction H as [|x y la lb Hxy H IH]; intros Hb; [contradiction|].
  destruct Hb as [<-|Hb]; [exists x; split; [left; reflexivity|exact Hxy]|].
  destruct (IH Hb) as [a [Ha Hp]]. exists a; split; [right; exact Ha|exact Hp].
Qed.

Lemma lin_same_ops : forall rem st w, lin rem st w -> forall rem', Forall2 same_op rem rem' -> exists w', lin rem' st w'.
Proof.
  intros rem st w H; induction H as [rem st Hu|rem st x rest st' r w Hin Hmin Hstep Hrep Hl IH]; intros rem' Hf.
  - exists []. constructor. apply all_unknown_spec. intros y Hy.
    destruct (Forall2_in_r' _ _ _ _ _ _ Hf Hy) as [z [Hz Hs]]. unfold same_op in Hs. rewrite <- Hs.
    rewrite all_unknown_spec in Hu. apply Hu; exact Hz.
  - destruct (picks_Forall2 _ _ _ _ Hf Hin) as [x' [rest' [Hin' [Hx Hf']]]].
    destruct (IH rest' Hf') as [w' Hw']. exists (x' :: w'). unfold same_op in Hx.
    eapply lin_pick; [exact Hin'| |rewrite <- Hx; exact Hstep|rewrite <- Hx; exact Hrep|exact Hw'].
    apply minimal_spec. intros y' Hy'. destruct (Forall2_in_r' _ _ _ _ _ _ Hf' Hy') as [y [Hy Hs]].
    unfold same_op in Hs. rewrite <- Hs, <- Hx. rewrite minimal_spec in Hmin. apply Hmin; exact Hy.
Qed.

Lemma map_snd_tag : forall H, map snd (tag H) = H.
Proof.
  intros H. unfold tag. generalize 0%nat. induction H as [|a H IH]; intros s; simpl; [reflexivity|]. rewrite IH. reflexivity.
Qed.

Lemma Forall2_same_op_of_map : forall (a b : list top), map snd a = map snd b -> Forall2 same_op a b.
Proof.
  induction a as [|x a IH]; intros [|y b] H; simpl in H; try discriminate; constructor.
  - unfold same_op. injection H as H1 _. exact H1.
  - apply IH. injection H as _ H2. exact H2.
Qed.

(* a tagged list with the operations of H' can stand for tag H' *)
Lemma lin_to_linearizable : forall (T : list top) H' w, map snd T = H' -> lin T init w -> linearizable H'.
Proof.
  intros T H' w Hm Hl.
  destruct (lin_same_ops _ _ _ Hl (tag H')) as [w' Hw'].
  { apply Forall2_same_op_of_map. rewrite map_snd_tag. exact Hm. }
  eapply lin_linearizable; eauto.
Qed.

(* ------------------------------------------------------------------ two ways of splitting one list *)
Lemma app_cons_split : forall (A : Type) (a : list A) y b l1 x l2,
  a ++ y :: b = l1 ++ x :: l2 ->
  (a = l1 /\ y = x /\ b = l2) \/
  (exists m, l1 = a ++ y :: m /\ b = m ++ x :: l2) \/
  (exists m, a = l1 ++ x :: m /\ l2 = m ++ y :: b).
Proof.
  induction a as [|u a IH]; intros y b l1 x l2 H; destruct l1 as [|v l1]; simpl in H.
  - inversion H; subst. left; auto.
  - inversion H; subst. right; left. exists l1; auto.
  - inversion H; subst. right; right. exists a; auto.
  - inversion H; subst. destruct (IH _ _ _ _ _ H2) as [[-> [-> ->]]|[[m [-> ->]]|[m [-> ->]]]].
    + left; auto.
    + right; left. exists m; auto.
    + right; right. exists m; auto.
Qed.

(* ------------------------------------------------------------------ removing one operation that cannot have changed the state *)
Definition removable (o : hop) : Prop :=
  match h_ret o with
  | Some (_, r) => noop_reply (h_op o) r = true
  | None => mutating (h_op o) = false
  end.

Lemma noop_reply_sound : forall o r s, noop_reply o r = true -> res_eqb (snd (step s o)) r = true -> fst (step s o) = s.
Proof.
  intros o r s Hn He. destruct o; simpl in *; try reflexivity; try discriminate;
    destruct r as [z| | | |]; try discriminate; try (destruct z; discriminate).
  - destruct (s_kv s); [reflexivity|]. simpl in He. destruct z; try discriminate.
  - destruct (s_kv s); [|reflexivity]. simpl in He. destruct z; try discriminate.
  - destruct (s_kv s); [reflexivity|discriminate].
  - destruct (s_kv s); [discriminate|reflexivity].
  - destruct (s_list s); [reflexivity|discriminate].
  - destruct (set_mem m (s_set s)); [reflexivity|]. simpl in He. destruct z; try discriminate.
  - destruct (set_mem m (s_set s)); [|reflexivity]. simpl in He. destruct z; try discriminate.
Qed.

Lemma removable_keeps_state : forall x s, removable x -> reply_ok x (snd (step s (h_op x))) = true -> fst (step s (h_op x)) = s.
Proof.
  intros x s Hr Hok. unfold removable, reply_ok in *. destruct (h_ret x) as [[t r]|].
  - eapply noop_reply_sound; eauto.
  - destruct (h_op x); try discriminate; reflexivity.
Qed.

Lemma lin_drop : forall rem st w, lin rem st w -> forall l1 x l2, rem = l1 ++ x :: l2 -> removable (snd x) ->
  exists w', lin (l1 ++ l2) st w'.
Proof.
  intros rem st w H; induction H as [rem st Hu|rem st y rest st' r w Hin Hmin Hstep Hrep Hl IH]; intros l1 x l2 Heq Hrm.
  - exists []. constructor. apply all_unknown_spec. intros z Hz. rewrite all_unknown_spec in Hu. apply Hu.
    subst rem. apply in_app_or in Hz. apply in_or_app. destruct Hz; [left|right; right]; assumption.
  - apply picks_spec in Hin. destruct Hin as [a [b [Hrem ->]]]. rewrite Hrem in Heq.
    destruct (app_cons_split _ _ _ _ _ _ _ Heq) as [[-> [-> ->]]|[[m [-> ->]]|[m [-> ->]]]].
    + (* the removed operation is the one picked: it did not change the state *)
      assert (st' = st).
      { pose proof (removable_keeps_state (snd x) st Hrm) as K. rewrite Hstep in K. simpl in K. apply K. exact Hrep. }
      subst st'. exists w. exact Hl.
    + (* y is picked before x's position *)
      destruct (IH (a ++ m) x l2) as [w' Hw']; [rewrite <- app_assoc; reflexivity|exact Hrm|].
      exists (y :: w'). eapply lin_pick; [| |exact Hstep|exact Hrep|rewrite <- app_assoc in Hw'; exact Hw'].
      * apply picks_spec. exists a, (m ++ l2). split; [rewrite <- app_assoc; reflexivity|reflexivity].
      * apply minimal_spec. intros z Hz. rewrite minimal_spec in Hmin. apply Hmin.
        apply in_app_or in Hz. apply in_or_app. destruct Hz as [Hz|Hz]; [left; exact Hz|right].
        apply in_app_or in Hz. apply in_or_app. destruct Hz; [left|right; right]; assumption.
    + destruct (IH l1 x (m ++ b)) as [w' Hw']; [rewrite <- app_assoc; reflexivity|exact Hrm|].
      exists (y :: w'). eapply lin_pick; [| |exact Hstep|exact Hrep|exact Hw'].
      * apply picks_spec. exists (l1 ++ m), b. split; rewrite <- app_assoc; reflexivity.
      * apply minimal_spec. intros z Hz. rewrite minimal_spec in Hmin. apply Hmin.
        apply in_app_or in Hz. apply in_or_app. destruct Hz as [Hz|Hz].
        -- left. apply in_or_app; left; exact Hz.
        -- apply in_app_or in Hz. destruct Hz as [Hz|Hz]; [left; apply in_or_app; right; right; exact Hz|right; exact Hz].
Qed.

Lemma map_eq_app_cons : forall (A B : Type) (f : A -> B) l a b c, map f l = a ++ b :: c ->
  exists l1 y l2, l = l1 ++ y :: l2 /\ map f l1 = a /\ f y = b /\ map f l2 = c.
Proof.
  intros A B f l a; revert l; induction a as [|u a IH]; intros l b c H; destruct l as [|v l]; simpl in H; try discriminate.
  - inversion H; subst. exists [], v, l. auto.
  - inversion H; subst. destruct (IH _ _ _ H2) as [l1 [y [l2 [-> [E1 [E2 E3]]]]]].
    exists (v :: l1), y, l2. simpl. rewrite E1. auto.
Qed.

Theorem shrink_drop : forall H1 x H2, removable x -> linearizable (H1 ++ x :: H2) -> linearizable (H1 ++ H2).
Proof.
  intros H1 x H2 Hrm Hl. apply linearizable_lin in Hl. destruct Hl as [w Hw].
  destruct (map_eq_app_cons _ _ snd (tag (H1 ++ x :: H2)) H1 x H2 (map_snd_tag _)) as [l1 [y [l2 [Heq [E1 [E2 E3]]]]]].
  destruct (lin_drop _ _ _ Hw l1 y l2 Heq) as [w' Hw']; [rewrite E2; exact Hrm|].
  apply (lin_to_linearizable (l1 ++ l2) (H1 ++ H2) w'); [rewrite map_app, E1, E3; reflexivity|exact Hw'].
Qed.

(* the two instances the check uses *)
Corollary shrink_drop_noop : forall H1 x H2 t r, h_ret x = Some (t, r) -> noop_reply (h_op x) r = true ->
  linearizable (H1 ++ x :: H2) -> linearizable (H1 ++ H2).
Proof. intros H1 x H2 t r Hr Hn. apply shrink_drop. unfold removable. rewrite Hr. exact Hn. Qed.

Corollary shrink_drop_unknown_read : forall H1 x H2, h_ret x = None -> mutating (h_op x) = false ->
  linearizable (H1 ++ x :: H2) -> linearizable (H1 ++ H2).
Proof. intros H1 x H2 Hr Hn. apply shrink_drop. unfold removable. rewrite Hr. exact Hn. Qed.

(* ------------------------------------------------------------------ the event prefix *)
Definition cutT (T : N) (rem : list top) : list top :=
  map (fun x => (fst x, cutop T (snd x))) (filter (fun x => N.ltb (h_inv (snd x)) T) rem).

Lemma cutop_facts : forall T o,
  h_op (cutop T o) = h_op o /\ h_inv (cutop T o) = h_inv o /\
  (h_ret (cutop T o) = h_ret o \/ h_ret (cutop T o) = None) /\
  (completed (cutop T o) = true <-> exists t r, h_ret o = Some (t, r) /\ (t < T)%N).
Proof.
  intros T o. unfold cutop, completed. destruct (h_ret o) as [[t r]|] eqn:E.
  - destruct (N.ltb t T) eqn:El.
    + rewrite E. repeat split; auto. intros _. exists t, r. split; [reflexivity|apply N.ltb_lt; exact El].
    + simpl. repeat split; auto; try discriminate. intros [t' [r' [Ht Hlt]]]. inversion Ht; subst. apply N.ltb_ge in El. lia.
  - rewrite E. repeat split; auto; try discriminate. intros [t [r [Ht _]]]. discriminate.
Qed.

Lemma precedes_cut : forall T a b, precedes a b = false -> precedes (cutop T a) (cutop T b) = false.
Proof.
  intros T a b H. unfold precedes in *. destruct (cutop_facts T a) as [_ [_ [[Hr|Hr] _]]]; rewrite Hr; [|reflexivity].
  destruct (cutop_facts T b) as [_ [Hi _]]. rewrite Hi. exact H.
Qed.

Lemma in_cutT : forall T rem z', In z' (cutT T rem) -> exists z, In z rem /\ z' = (fst z, cutop T (snd z)).
Proof.
  intros T rem z' H. unfold cutT in H. apply in_map_iff in H. destruct H as [z [Hz Hin]]. apply filter_In in Hin.
  exists z. split; [tauto|symmetry; exact Hz].
Qed.

Lemma cutT_app : forall T a b, cutT T (a ++ b) = cutT T a ++ cutT T b.
Proof. intros. unfold cutT. rewrite filter_app, map_app. reflexivity. Qed.

Lemma lin_cut : forall T rem st w, lin rem st w ->
  (forall x, In x rem -> wf_op (snd x)) -> exists w', lin (cutT T rem) st w'.
Proof.
  intros T rem st w H; induction H as [rem st Hu|rem st y rest st' r w Hin Hmin Hstep Hrep Hl IH]; intros Hwf.
  - exists []. constructor. apply all_unknown_spec. intros z' Hz'. destruct (in_cutT _ _ _ Hz') as [z [Hz ->]]. simpl.
    destruct (completed (cutop T (snd z))) eqn:Ec; [|reflexivity].
    apply (proj1 (proj2 (proj2 (proj2 (cutop_facts T (snd z)))))) in Ec. destruct Ec as [t [r [Hr _]]].
    rewrite all_unknown_spec in Hu. specialize (Hu z Hz). unfold completed in Hu. rewrite Hr in Hu. discriminate.
  - (* is there still an operation answered before T among the remaining ones? *)
    destruct (existsb (fun z => completed (cutop T (snd z))) rem) eqn:Eex.
    + apply existsb_exists in Eex. destruct Eex as [c [Hc Hcc]].
      apply (proj1 (proj2 (proj2 (proj2 (cutop_facts T (snd c)))))) in Hcc. destruct Hcc as [tc [rc [Hrc Hlt]]].
      pose proof Hin as Hin0. apply picks_spec in Hin. destruct Hin as [a [b [Hrem ->]]].
      (* y was invoked before T *)
      assert (Hy : N.ltb (h_inv (snd y)) T = true).
      { apply N.ltb_lt. subst rem. apply in_app_or in Hc. destruct Hc as [Hc|[<-|Hc]].
        - rewrite minimal_spec in Hmin. assert (P : precedes (snd c) (snd y) = false) by (apply Hmin; apply in_or_app; left; exact Hc).
          unfold precedes in P. rewrite Hrc in P. apply N.ltb_ge in P. lia.
        - assert (W : wf_op (snd y)) by (apply Hwf; apply in_or_app; right; left; reflexivity).
          unfold wf_op in W. rewrite Hrc in W. lia.
        - rewrite minimal_spec in Hmin. assert (P : precedes (snd c) (snd y) = false) by (apply Hmin; apply in_or_app; right; exact Hc).
          unfold precedes in P. rewrite Hrc in P. apply N.ltb_ge in P. lia. }
      destruct IH as [w' Hw']; [intros z Hz; apply Hwf; apply (proj2 (picks_in _ _ _ _ Hin0)); exact Hz|].
      exists ((fst y, cutop T (snd y)) :: w'). subst rem.
      destruct (cutop_facts T (snd y)) as [Hop [Hinv [Hret _]]].
      eapply lin_pick with (rest := cutT T (a ++ b)); [| |simpl; rewrite Hop; exact Hstep| |exact Hw'].
      * apply picks_spec. exists (cutT T a), (cutT T b). split; [|apply cutT_app].
        rewrite cutT_app. f_equal. unfold cutT. simpl. rewrite Hy. reflexivity.
      * apply minimal_spec. intros z' Hz'. destruct (in_cutT _ _ _ Hz') as [z [Hz ->]]. simpl.
        apply precedes_cut. rewrite minimal_spec in Hmin. apply Hmin; exact Hz.
      * simpl. unfold reply_ok in *. destruct Hret as [Hret|Hret]; rewrite Hret; [exact Hrep|reflexivity].
    + (* nothing answered before T is left: the rest of the prefix is all unknown *)
      exists []. constructor. apply all_unknown_spec. intros z' Hz'. destruct (in_cutT _ _ _ Hz') as [z [Hz ->]]. simpl.
      destruct (completed (cutop T (snd z))) eqn:Ec; [|reflexivity]. exfalso.
      assert (E : existsb (fun z0 => completed (cutop T (snd z0))) rem = true) by (apply existsb_exists; exists z; auto).
      congruence.
Qed.

Lemma map_snd_cutT : forall T (rem : list top), map snd (cutT T rem) = cut T (map snd rem).
Proof.
  intros T rem. unfold cutT, cut. induction rem as [|x rem IH]; simpl; [reflexivity|].
  destruct (N.ltb (h_inv (snd x)) T); simpl; rewrite IH; reflexivity.
Qed.

Theorem shrink_prefix : forall T H, Forall wf_op H -> linearizable H -> linearizable (cut T H).
Proof.
  intros T H Hwf Hl. apply linearizable_lin in Hl. destruct Hl as [w Hw].
  destruct (lin_cut T _ _ _ Hw) as [w' Hw'].
  { intros x Hx. rewrite Forall_forall in Hwf. apply Hwf. rewrite <- (map_snd_tag H). apply in_map; exact Hx. }
  apply (lin_to_linearizable (cutT T (tag H)) (cut T H) w'); [rewrite map_snd_cutT, map_snd_tag; reflexivity|exact Hw'].
Qed.

(* what the check relies on: a shrunk history that is rejected proves the recorded one non-linearizable *)
Corollary shrink_prefix_preserves_violation : forall T H, Forall wf_op H -> ~ linearizable (cut T H) -> ~ linearizable H.
Proof. intros T H Hwf Hn Hl. apply Hn. apply shrink_prefix; assumption. Qed.

Corollary shrink_drop_preserves_violation : forall H1 x H2, removable x -> ~ linearizable (H1 ++ H2) -> ~ linearizable (H1 ++ x :: H2).
Proof. intros H1 x H2 Hr Hn Hl. apply Hn. eapply shrink_drop; eauto. Qed.
