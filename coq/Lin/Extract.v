(* Lin/Extract.v — extraction of the C04 checker and specification (ExtrOcamlBasic only) *)
From Coq Require Import ExtrOcamlBasic.
From ZV Require Import Lin.Spec Lin.Checker Lin.Memo.
Extraction Language OCaml.
Extraction "model.ml" Z.of_N N.of_nat Nat.add init step run check check_witness mcheck.
