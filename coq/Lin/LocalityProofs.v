(* Lin/LocalityProofs.v — locality of linearizability (Herlihy & Wing 1990, Theorem 1), in the
   direction the harness relies on: if the projection of a well-formed multi-key history on EVERY key
   is linearizable w.r.t. Lin/Spec.v, the whole history is linearizable w.r.t. the product
   specification. Proof: merge the per-key witness orders, always taking the head with the smallest
   invocation time; no remaining operation can really precede that head. *)
From ZV Require Import Lin.Spec Lin.Checker Lin.CheckerProofs Lin.Locality.
From Coq Require Import Lia Permutation.

(* ------------------------------------------------------------------ list helpers *)
Lemma Forall2_in_l_ex : forall (A B : Type) (P : A -> B -> Prop) la lb a, Forall2 P la lb -> In a la -> exists b, P a b.
Proof.
  intros A B P la lb a H; induction H as [|x y la lb Hxy H IH]; intros Ha; [contradiction|].
  destruct Ha as [<-|Ha]; [exists y; exact Hxy|auto].
Qed.

Lemma Forall2_nth_r : forall (A B : Type) (R : A -> B -> Prop) la lb p b,
  Forall2 R la lb -> nth_error lb p = Some b -> exists a, nth_error la p = Some a /\ R a b.
Proof.
  intros A B R la lb p b H; revert p; induction H as [|x y la lb Hxy H IH]; intros p Hp; destruct p; simpl in *; try discriminate.
  - inversion Hp; subst. exists x; auto.
  - apply IH; auto.
Qed.

Lemma Forall2_in_r_ex : forall (A B : Type) (P : A -> B -> Prop) la lb b, Forall2 P la lb -> In b lb -> exists a, In a la /\ P a b.
Proof.
  intros A B P la lb b H; induction H as [|x y la lb Hxy H IH]; intros Hb; [contradiction|].
  destruct Hb as [<-|Hb]; [exists x; split; [left; reflexivity|exact Hxy]|].
  destruct (IH Hb) as [a [Ha Hp]]. exists a; split; [right; exact Ha|exact Hp].
Qed.

Lemma Forall2_in_l_pair : forall (A B : Type) (P : A -> B -> Prop) la lb a, Forall2 P la lb -> In a la -> exists b, In b lb /\ P a b.
Proof.
  intros A B P la lb a H; induction H as [|x y la lb Hxy H IH]; intros Ha; [contradiction|].
  destruct Ha as [<-|Ha]; [exists y; split; [left; reflexivity|exact Hxy]|].
  destruct (IH Ha) as [b [Hb Hp]]. exists b; split; [right; exact Hb|exact Hp].
Qed.

Lemma nth_error_map_inv : forall (A B : Type) (f : A -> B) l p b,
  nth_error (map f l) p = Some b -> exists a, nth_error l p = Some a /\ f a = b.
Proof.
  induction l as [|x l IH]; intros p b H; destruct p; simpl in H; try discriminate.
  - inversion H; subst. exists x; auto.
  - apply IH; exact H.
Qed.

Lemma Forall2_len : forall (A B : Type) (R : A -> B -> Prop) la lb, Forall2 R la lb -> length la = length lb.
Proof. intros A B R la lb H; induction H; simpl; auto. Qed.

Lemma NoDup_nth_error_inj' : forall (A : Type) (l : list A) p q x,
  NoDup l -> nth_error l p = Some x -> nth_error l q = Some x -> p = q.
Proof.
  intros A l p q x Hnd Hp Hq. apply (proj1 (NoDup_nth_error l) Hnd); [apply nth_error_Some; congruence|congruence].
Qed.

(* ------------------------------------------------------------------ global positions of one key's operations *)
Fixpoint gidx (k : nat) (MH : mhistory) (s : nat) : list nat :=
  match MH with
  | [] => []
  | ko :: t => if Nat.eqb (fst ko) k then s :: gidx k t (S s) else gidx k t (S s)
  end.

Lemma gidx_ge : forall k MH s i, In i (gidx k MH s) -> (s <= i)%nat.
Proof.
  induction MH as [|ko t IH]; intros s i H; simpl in H; [contradiction|].
  destruct (Nat.eqb (fst ko) k); [destruct H as [<-|H]; [lia|]|]; apply IH in H; lia.
Qed.

Lemma gidx_NoDup : forall k MH s, NoDup (gidx k MH s).
Proof.
  induction MH as [|ko t IH]; intros s; simpl; [constructor|].
  destruct (Nat.eqb (fst ko) k); [|apply IH]. constructor; [|apply IH].
  intros H. apply gidx_ge in H. lia.
Qed.

Lemma gidx_proj : forall k MH s j o, nth_error (proj k MH) j = Some o ->
  exists i, nth_error (gidx k MH s) j = Some i /\ (s <= i)%nat /\ nth_error MH (i - s) = Some (k, o).
Proof.
  induction MH as [|ko t IH]; intros s j o H; unfold proj in *; simpl in *; [destruct j; discriminate|].
  destruct ko as [k' o']. simpl in *. destruct (Nat.eqb k' k) eqn:E.
  - apply Nat.eqb_eq in E. subst k'. destruct j as [|j]; simpl in H.
    + inversion H; subst. exists s. split; [reflexivity|]. split; [lia|]. rewrite Nat.sub_diag. reflexivity.
    + destruct (IH (S s) j o H) as [i [Hi [Hle Hn]]]. exists i. split; [exact Hi|]. split; [lia|].
      replace (i - s)%nat with (S (i - S s)) by lia. exact Hn.
  - destruct (IH (S s) j o H) as [i [Hi [Hle Hn]]]. exists i. split; [exact Hi|]. split; [lia|].
    replace (i - s)%nat with (S (i - S s)) by lia. exact Hn.
Qed.

Lemma gidx_complete : forall k MH s i o, nth_error MH i = Some (k, o) ->
  exists j, nth_error (gidx k MH s) j = Some (s + i)%nat /\ nth_error (proj k MH) j = Some o.
Proof.
  induction MH as [|ko t IH]; intros s i o H; [destruct i; discriminate|].
  unfold proj in *. simpl. destruct i as [|i]; simpl in H.
  - inversion H; subst. simpl. rewrite Nat.eqb_refl. exists 0%nat. simpl. rewrite Nat.add_0_r. auto.
  - destruct (IH (S s) i o H) as [j [Hj Hp]]. destruct (Nat.eqb (fst ko) k).
    + exists (S j). simpl. replace (s + S i)%nat with (S s + i)%nat by lia. auto.
    + exists j. replace (s + S i)%nat with (S s + i)%nat by lia. auto.
Qed.

(* ------------------------------------------------------------------ a per-key witness in global positions *)
Definition gwit (MH : mhistory) (k : nat) (W : list (nat * hop)) : Prop :=
  NoDup (map fst W) /\
  (forall i o, In (i, o) W -> nth_error MH i = Some (k, o)) /\
  (forall i o, nth_error MH i = Some (k, o) -> completed o = true -> In (i, o) W) /\
  rt_ok (map snd W) /\ legal init (map snd W).

Lemma Forall2_exists' : forall (A B : Type) (R : A -> B -> Prop) l,
  (forall x, In x l -> exists y, R x y) -> exists l', Forall2 R l l'.
Proof.
  induction l as [|a l IH]; intros H.
  - exists []. constructor.
  - destruct (H a (or_introl eq_refl)) as [y Hy]. destruct IH as [l' Hl']; [intros; apply H; right; auto|].
    exists (y :: l'). constructor; auto.
Qed.

Lemma lin_gwit : forall MH k, linearizable (proj k MH) -> exists W, gwit MH k W.
Proof.
  intros MH k [ord [ops [Hnd [Hf2 [Hall [Hrt Hleg]]]]]].
  (* the global position of every local position used by the order *)
  destruct (Forall2_exists' _ _ (fun j i => nth_error (gidx k MH 0) j = Some i) ord) as [gl Hgl].
  { intros j Hj. destruct (Forall2_in_l_ex _ _ _ _ _ _ Hf2 Hj) as [o Ho]. destruct (gidx_proj k MH 0 j o Ho) as [i [Hi _]]. exists i; exact Hi. }
  exists (combine gl ops).
  assert (Hlen : length gl = length ops).
  { rewrite <- (Forall2_len _ _ _ _ _ Hgl). apply (Forall2_len _ _ _ _ _ Hf2). }
  assert (Hfst : map fst (combine gl ops) = gl).
  { clear - Hlen. revert ops Hlen. induction gl as [|a gl IH]; intros [|b ops] H; simpl in *; try discriminate; auto. f_equal. apply IH. lia. }
  assert (Hsnd : map snd (combine gl ops) = ops).
  { clear - Hlen. revert ops Hlen. induction gl as [|a gl IH]; intros [|b ops] H; simpl in *; try discriminate; auto. f_equal. apply IH. lia. }
  (* every element of the combined list comes from one local position *)
  assert (Hel : forall i o, In (i, o) (combine gl ops) ->
            exists j, In j ord /\ nth_error (gidx k MH 0) j = Some i /\ nth_error (proj k MH) j = Some o).
  { clear - Hgl Hf2. revert gl ops Hgl Hf2. induction ord as [|j ord IH]; intros gl ops Hgl Hf2 i o Hin;
      inversion Hgl; inversion Hf2; subst; simpl in Hin; [contradiction|].
    destruct Hin as [Heq|Hin].
    - inversion Heq; subst. exists j. split; [left; reflexivity|auto].
    - destruct (IH _ _ H3 H8 i o Hin) as [j' [Hj' R]]. exists j'. split; [right; exact Hj'|exact R]. }
  split; [|split; [|split; [|split]]].
  - rewrite Hfst. (* distinct local positions have distinct global positions *)
    clear - Hnd Hgl. revert gl Hgl. induction ord as [|j ord IH]; intros gl Hgl;
      inversion Hgl as [|? y ? gl' Hhead Hrest]; subst; [constructor|].
    inversion Hnd as [|? ? Hnotin Hnd']; subst. constructor; [|apply IH; auto].
    intros Hin. apply In_nth_error in Hin. destruct Hin as [n Hn].
    destruct (Forall2_nth_r _ _ _ _ _ _ _ Hrest Hn) as [j' [Hj' Hg]].
    assert (j' = j) by (apply (NoDup_nth_error_inj' _ (gidx k MH 0) j' j y (gidx_NoDup k MH 0) Hg Hhead)).
    subst j'. apply Hnotin. eapply nth_error_In; eauto.
  - intros i o Hin. destruct (Hel i o Hin) as [j [_ [Hg Hp]]].
    destruct (gidx_proj k MH 0 j o Hp) as [i' [Hi' [_ Hn]]]. rewrite Hg in Hi'. inversion Hi'; subst i'.
    rewrite Nat.sub_0_r in Hn. exact Hn.
  - intros i o Hn Hc. destruct (gidx_complete k MH 0 i o Hn) as [j [Hj Hp]]. simpl in Hj.
    pose proof (Hall j o Hp Hc) as Hin.
    (* position of j in ord gives the element of the combined list *)
    clear - Hin Hgl Hf2 Hj Hp. revert gl ops Hgl Hf2. induction ord as [|j0 ord IH]; intros gl ops Hgl Hf2; [contradiction|].
    inversion Hgl; inversion Hf2; subst. simpl. destruct Hin as [->|Hin].
    + left. congruence.
    + right. apply IH; auto.
  - rewrite Hsnd. exact Hrt.
  - rewrite Hsnd. exact Hleg.
Qed.

(* ------------------------------------------------------------------ merging several sequences *)
Definition elt := (nat * kop)%type.        (* global position, (key, operation) *)
Definition e_op' (e : elt) : hop := snd (snd e).
Definition e_key (e : elt) : nat := fst (snd e).

Inductive is_merge : list (list elt) -> list elt -> Prop :=
| merge_nil : forall ls, Forall (fun l => l = []) ls -> is_merge ls []
| merge_pick : forall l1 x t l2 W, is_merge (l1 ++ t :: l2) W -> is_merge (l1 ++ (x :: t) :: l2) (x :: W).

Lemma is_merge_in : forall ls W, is_merge ls W -> forall y, In y W <-> exists l, In l ls /\ In y l.
Proof.
  intros ls W H; induction H as [ls Hall|l1 x t l2 W H IH]; intros y.
  - split; [intros []|]. intros [l [Hl Hy]]. rewrite Forall_forall in Hall. rewrite (Hall l Hl) in Hy. contradiction.
  - simpl. rewrite IH. split.
    + intros [<-|[l [Hl Hy]]].
      * exists (x :: t). split; [apply in_or_app; right; left; reflexivity|left; reflexivity].
      * apply in_app_or in Hl. destruct Hl as [Hl|[<-|Hl]].
        -- exists l. split; [apply in_or_app; left; exact Hl|exact Hy].
        -- exists (x :: t). split; [apply in_or_app; right; left; reflexivity|right; exact Hy].
        -- exists l. split; [apply in_or_app; right; right; exact Hl|exact Hy].
    + intros [l [Hl Hy]]. apply in_app_or in Hl. destruct Hl as [Hl|[<-|Hl]].
      * right. exists l. split; [apply in_or_app; left; exact Hl|exact Hy].
      * destruct Hy as [<-|Hy]; [left; reflexivity|right]. exists t. split; [apply in_or_app; right; left; reflexivity|exact Hy].
      * right. exists l. split; [apply in_or_app; right; right; exact Hl|exact Hy].
Qed.

Lemma is_merge_perm : forall ls W, is_merge ls W -> Permutation W (concat ls).
Proof.
  intros ls W H; induction H as [ls Hall|l1 x t l2 W H IH].
  - induction ls as [|l ls IHl]; simpl; [constructor|]. inversion Hall; subst. simpl. apply IHl; assumption.
  - rewrite concat_app in *. simpl in *. eapply Permutation_trans; [apply perm_skip; exact IH|].
    apply Permutation_middle.
Qed.

(* pairwise real-time compatibility on elements *)
Definition rt_pair (a b : elt) : Prop := precedes (e_op' b) (e_op' a) = false.

Fixpoint pw (l : list elt) : Prop :=
  match l with [] => True | a :: t => (forall b, In b t -> rt_pair a b) /\ pw t end.

Definition total_len (ls : list (list elt)) : nat := length (concat ls).

Lemma all_nil_dec : forall ls : list (list elt), {Forall (fun l => l = []) ls} + {~ Forall (fun l => l = []) ls}.
Proof.
  induction ls as [|l ls IH]; [left; constructor|]. destruct l as [|x t].
  - destruct IH as [H|H]; [left; constructor; auto|right; intros Hc; inversion Hc; auto].
  - right. intros Hc. inversion Hc; discriminate.
Qed.

(* among the non-empty sequences there is one whose head has the smallest invocation time *)
Lemma min_head : forall ls : list (list elt), ~ Forall (fun l => l = []) ls ->
  exists l1 x t l2, ls = l1 ++ (x :: t) :: l2 /\
    forall l y r, In l (l1 ++ l2) -> l = y :: r -> (h_inv (e_op' x) <= h_inv (e_op' y))%N.
Proof.
  induction ls as [|l ls IH]; intros Hne; [exfalso; apply Hne; constructor|].
  destruct (all_nil_dec ls) as [Hall|Hnall].
  - (* all the others are empty: l itself is not *)
    destruct l as [|x t]; [exfalso; apply Hne; constructor; auto|].
    exists [], x, t, ls. split; [reflexivity|]. intros l' y r Hin Heq. simpl in Hin. rewrite Forall_forall in Hall.
    rewrite (Hall l' Hin) in Heq. discriminate.
  - destruct (IH Hnall) as [l1 [x [t [l2 [Heq Hmin]]]]]. subst ls.
    destruct l as [|x0 t0].
    + exists ([] :: l1), x, t, l2. split; [reflexivity|]. intros l' y r Hin Heq'. simpl in Hin. destruct Hin as [<-|Hin]; [discriminate|].
      eapply Hmin; eauto.
    + destruct (N.le_gt_cases (h_inv (e_op' x)) (h_inv (e_op' x0))) as [Hle|Hgt].
      * exists ((x0 :: t0) :: l1), x, t, l2. split; [reflexivity|]. intros l' y r Hin Heq'. simpl in Hin.
        destruct Hin as [<-|Hin]; [inversion Heq'; subst; exact Hle|eapply Hmin; eauto].
      * exists [], x0, t0, (l1 ++ (x :: t) :: l2). split; [reflexivity|]. intros l' y r Hin Heq'. simpl in Hin.
        apply in_app_or in Hin. destruct Hin as [Hin|[<-|Hin]].
        -- assert ((h_inv (e_op' x) <= h_inv (e_op' y))%N) by (eapply Hmin; [apply in_or_app; left; exact Hin|exact Heq']). lia.
        -- inversion Heq'; subst. lia.
        -- assert ((h_inv (e_op' x) <= h_inv (e_op' y))%N) by (eapply Hmin; [apply in_or_app; right; exact Hin|exact Heq']). lia.
Qed.

Lemma precedes_false_inv : forall a b, precedes a b = false ->
  forall t r, h_ret a = Some (t, r) -> (h_inv b <= t)%N.
Proof. intros a b H t r Hr. unfold precedes in H. rewrite Hr in H. apply N.ltb_ge in H. exact H. Qed.

Lemma merge_exists : forall n (ls : list (list elt)), total_len ls = n ->
  Forall pw ls -> Forall (Forall (fun e => wf_op (e_op' e))) ls ->
  exists W, is_merge ls W /\ pw W.
Proof.
  induction n as [|n IH]; intros ls Hlen Hpw Hwf.
  - exists []. split; [|exact I]. constructor. unfold total_len in Hlen.
    apply Forall_forall. intros l Hl. destruct l as [|x t]; [reflexivity|]. exfalso.
    apply in_split in Hl. destruct Hl as [a [b ->]]. rewrite concat_app, app_length in Hlen. simpl in Hlen. lia.
  - assert (Hne : ~ Forall (fun l => l = []) ls).
    { intros Hall. unfold total_len in Hlen. assert (concat ls = []); [|rewrite H in Hlen; discriminate].
      clear - Hall. induction ls as [|l ls IHl]; simpl; [reflexivity|]. inversion Hall; subst. simpl. auto. }
    destruct (min_head ls Hne) as [l1 [x [t [l2 [-> Hmin]]]]].
    assert (Hpw' : Forall pw (l1 ++ t :: l2)).
    { apply Forall_forall. intros l Hl. rewrite Forall_forall in Hpw. apply in_app_or in Hl. destruct Hl as [Hl|[<-|Hl]].
      - apply Hpw. apply in_or_app; left; exact Hl.
      - assert (pw (x :: t)) by (apply Hpw; apply in_or_app; right; left; reflexivity). simpl in H. tauto.
      - apply Hpw. apply in_or_app; right; right; exact Hl. }
    assert (Hwf' : Forall (Forall (fun e => wf_op (e_op' e))) (l1 ++ t :: l2)).
    { apply Forall_forall. intros l Hl. rewrite Forall_forall in Hwf. apply in_app_or in Hl. destruct Hl as [Hl|[<-|Hl]].
      - apply Hwf. apply in_or_app; left; exact Hl.
      - assert (Forall (fun e => wf_op (e_op' e)) (x :: t)) by (apply Hwf; apply in_or_app; right; left; reflexivity).
        inversion H; assumption.
      - apply Hwf. apply in_or_app; right; right; exact Hl. }
    assert (Hlen' : total_len (l1 ++ t :: l2) = n).
    { unfold total_len in *. rewrite concat_app, app_length in *. simpl in *. rewrite app_length in *. simpl in Hlen. lia. }
    destruct (IH _ Hlen' Hpw' Hwf') as [W [Hm HpwW]].
    exists (x :: W). split; [constructor; exact Hm|]. simpl. split; [|exact HpwW].
    intros y Hy. unfold rt_pair. apply (is_merge_in _ _ Hm) in Hy. destruct Hy as [l [Hl Hy]].
    rewrite Forall_forall in Hpw, Hwf.
    apply in_app_or in Hl. destruct Hl as [Hl|[<-|Hl]].
    + (* y in another sequence l = h :: r: its head h was invoked no earlier than x *)
      destruct l as [|h r]; [contradiction|].
      assert (Hle : (h_inv (e_op' x) <= h_inv (e_op' h))%N) by (eapply Hmin; [apply in_or_app; left; exact Hl|reflexivity]).
      assert (Hlpw : pw (h :: r)) by (apply Hpw; apply in_or_app; left; exact Hl).
      assert (Hlwf : Forall (fun e => wf_op (e_op' e)) (h :: r)) by (apply Hwf; apply in_or_app; left; exact Hl).
      unfold precedes. destruct (h_ret (e_op' y)) as [[ty ry]|] eqn:Er; [|reflexivity]. apply N.ltb_ge.
      destruct Hy as [<-|Hy].
      * inversion Hlwf as [|? ? Hw _]; subst. unfold wf_op in Hw. rewrite Er in Hw. lia.
      * simpl in Hlpw. destruct Hlpw as [Hh _]. pose proof (precedes_false_inv _ _ (Hh y Hy) _ _ Er). lia.
    + assert (Hxt : pw (x :: t)) by (apply Hpw; apply in_or_app; right; left; reflexivity).
      simpl in Hxt. apply (proj1 Hxt). exact Hy.
    + destruct l as [|h r]; [contradiction|].
      assert (Hle : (h_inv (e_op' x) <= h_inv (e_op' h))%N) by (eapply Hmin; [apply in_or_app; right; exact Hl|reflexivity]).
      assert (Hlpw : pw (h :: r)) by (apply Hpw; apply in_or_app; right; right; exact Hl).
      assert (Hlwf : Forall (fun e => wf_op (e_op' e)) (h :: r)) by (apply Hwf; apply in_or_app; right; right; exact Hl).
      unfold precedes. destruct (h_ret (e_op' y)) as [[ty ry]|] eqn:Er; [|reflexivity]. apply N.ltb_ge.
      destruct Hy as [<-|Hy].
      * inversion Hlwf as [|? ? Hw _]; subst. unfold wf_op in Hw. rewrite Er in Hw. lia.
      * simpl in Hlpw. destruct Hlpw as [Hh _]. pose proof (precedes_false_inv _ _ (Hh y Hy) _ _ Er). lia.
Qed.

(* ------------------------------------------------------------------ the merged order is legal for the product specification *)
Lemma mupd_same : forall ms k s, mupd ms k s k = s.
Proof. intros. unfold mupd. rewrite Nat.eqb_refl. reflexivity. Qed.
Lemma mupd_other : forall ms k s x, x <> k -> mupd ms k s x = ms x.
Proof. intros. unfold mupd. destruct (Nat.eqb x k) eqn:E; auto. apply Nat.eqb_eq in E. congruence. Qed.

Lemma merge_mlegal : forall ls W, is_merge ls W -> forall ks ms, NoDup ks ->
  Forall2 (fun k l => (forall e, In e l -> e_key e = k) /\ legal (ms k) (map e_op' l)) ks ls ->
  mlegal ms (map snd W).
Proof.
  intros ls W H; induction H as [ls Hall|l1 x t l2 W H IH]; intros ks ms Hnd Hf; simpl; [exact I|].
  apply Forall2_app_inv_r in Hf. destruct Hf as [ka [kb [Hfa [Hfb ->]]]].
  inversion Hfb as [|k ? k2 ? [Hkey Hleg] Hf2]; subst.
  destruct x as [i [k' o]]. assert (k' = k) by (apply (Hkey (i, (k', o))); left; reflexivity). subst k'.
  simpl in Hleg. unfold e_op' in Hleg at 1. simpl in Hleg. simpl.
  destruct (step (ms k) (h_op o)) as [s' r] eqn:Es. destruct Hleg as [Hr Hleg]. split; [exact Hr|].
  assert (Hka : ~ In k ka /\ ~ In k k2).
  { split; intros Hin.
    - apply NoDup_remove_2 in Hnd. apply Hnd. apply in_or_app; left; exact Hin.
    - apply NoDup_remove_2 in Hnd. apply Hnd. apply in_or_app; right; exact Hin. }
  apply (IH (ka ++ k :: k2) (mupd ms k s') Hnd).
  apply Forall2_app.
  - clear - Hfa Hka. destruct Hka as [Hka _]. induction Hfa as [|k0 l ka l1 [Hk Hl] Hfa IHf]; constructor.
    + split; [exact Hk|]. rewrite mupd_other; [exact Hl|]. intros ->. apply Hka; left; reflexivity.
    + apply IHf. intros Hin. apply Hka; right; exact Hin.
  - constructor.
    + split; [intros e He; apply Hkey; right; exact He|]. rewrite mupd_same. exact Hleg.
    + clear - Hf2 Hka. destruct Hka as [_ Hka]. induction Hf2 as [|k0 l k2 l2 [Hk Hl] Hf2 IHf]; constructor.
      * split; [exact Hk|]. rewrite mupd_other; [exact Hl|]. intros ->. apply Hka; left; reflexivity.
      * apply IHf. intros Hin. apply Hka; right; exact Hin.
Qed.

(* ------------------------------------------------------------------ assembling *)
Definition lift (k : nat) (W : list (nat * hop)) : list elt := map (fun p => (fst p, (k, snd p))) W.

Lemma pw_of_rt_ok : forall k W, rt_ok (map snd W) -> pw (lift k W).
Proof.
  intros k W; induction W as [|a W IH]; simpl; intros H; [exact I|]. apply rt_ok_cons in H. destruct H as [H1 H2].
  split; [|apply IH; exact H2]. intros b Hb. unfold lift in Hb. apply in_map_iff in Hb. destruct Hb as [p [<- Hp]].
  unfold rt_pair, e_op'; simpl. apply H1. apply in_map; exact Hp.
Qed.

Lemma pw_nth : forall l p q a b, pw l -> (p < q)%nat -> nth_error l p = Some a -> nth_error l q = Some b -> rt_pair a b.
Proof.
  induction l as [|x l IH]; intros p q a b H Hlt Ha Hb; [destruct p; discriminate|].
  simpl in H. destruct H as [H1 H2]. destruct q as [|q]; [lia|]. simpl in Hb. destruct p as [|p]; simpl in Ha.
  - inversion Ha; subst. apply H1. eapply nth_error_In; eauto.
  - apply (IH p q a b H2); [lia|exact Ha|exact Hb].
Qed.

Lemma NoDup_app_intro' : forall (A : Type) (l1 l2 : list A),
  NoDup l1 -> NoDup l2 -> (forall x, In x l1 -> In x l2 -> False) -> NoDup (l1 ++ l2).
Proof.
  induction l1 as [|a l1 IH]; intros l2 H1 H2 Hd; simpl; [exact H2|]. inversion H1; subst. constructor.
  - intros Hin. apply in_app_or in Hin. destruct Hin as [Hin|Hin]; [contradiction|]. eapply Hd; [left; reflexivity|exact Hin].
  - apply IH; auto. intros x Hx1 Hx2. eapply Hd; [right; exact Hx1|exact Hx2].
Qed.

Lemma concat_NoDup : forall ks (ls : list (list elt)), NoDup ks ->
  Forall2 (fun k l => NoDup l /\ forall e, In e l -> e_key e = k) ks ls -> NoDup (concat ls).
Proof.
  intros ks ls Hnd Hf; induction Hf as [|k l ks ls [Hl Hk] Hf IH]; simpl; [constructor|].
  inversion Hnd; subst. apply NoDup_app_intro'; [exact Hl|apply IH; assumption|].
  intros e He1 He2. apply in_concat in He2. destruct He2 as [l' [Hl' He']].
  destruct (Forall2_in_r_ex _ _ _ _ _ _ Hf Hl') as [k' [Hk' [_ Hkk]]].
  apply H1. rewrite <- (Hk e He1). rewrite (Hkk e He'). exact Hk'.
Qed.

Theorem locality : forall MH : mhistory, wf_hist MH ->
  (forall k, linearizable (proj k MH)) -> mlinearizable MH.
Proof.
  intros MH Hwf Hlin.
  set (ks := nodup Nat.eq_dec (map fst MH)).
  assert (Hks : NoDup ks) by apply NoDup_nodup.
  destruct (Forall2_exists' _ _ (fun k l => exists W, gwit MH k W /\ l = lift k W) ks) as [ls Hls].
  { intros k _. destruct (lin_gwit MH k (Hlin k)) as [W HW]. exists (lift k W), W. auto. }
  (* facts about every sequence *)
  assert (Hel : forall l, In l ls -> forall e, In e l -> nth_error MH (fst e) = Some (snd e)).
  { intros l Hl e He. destruct (Forall2_in_r_ex _ _ _ _ _ _ Hls Hl) as [k [_ [W [[_ [Hin _]] ->]]]].
    unfold lift in He. apply in_map_iff in He. destruct He as [[i o] [<- Hp]]. simpl. apply Hin; exact Hp. }
  assert (Hpw : Forall pw ls).
  { apply Forall_forall. intros l Hl. destruct (Forall2_in_r_ex _ _ _ _ _ _ Hls Hl) as [k [_ [W [[_ [_ [_ [Hrt _]]]] ->]]]].
    apply pw_of_rt_ok; exact Hrt. }
  assert (Hwfl : Forall (Forall (fun e => wf_op (e_op' e))) ls).
  { apply Forall_forall. intros l Hl. apply Forall_forall. intros e He. pose proof (Hel l Hl e He) as Hn.
    unfold wf_hist in Hwf. rewrite Forall_forall in Hwf. apply (Hwf (snd e)). eapply nth_error_In; eauto. }
  destruct (merge_exists (total_len ls) ls eq_refl Hpw Hwfl) as [W [Hm HpwW]].
  assert (HW : forall e, In e W -> nth_error MH (fst e) = Some (snd e)).
  { intros e He. apply (is_merge_in _ _ Hm) in He. destruct He as [l [Hl He]]. eapply Hel; eauto. }
  exists (map fst W), (map snd W). split; [|split; [|split; [|split]]].
  - (* NoDup: W is a duplicate-free list of elements, and the position determines the element *)
    assert (HndW : NoDup W).
    { eapply Permutation_NoDup; [apply Permutation_sym; apply (is_merge_perm _ _ Hm)|].
      apply (concat_NoDup ks); [exact Hks|].
      clear - Hls. induction Hls as [|k l ks ls [W [[Hnd [Hin _]] ->]] Hls IH]; constructor; [|exact IH]. split.
      - unfold lift. apply (NoDup_map_inv fst). rewrite map_map. simpl. exact Hnd.
      - intros e He. unfold lift in He. apply in_map_iff in He. destruct He as [p [<- _]]. reflexivity. }
    clear - HndW HW. induction W as [|e W IH]; simpl; [constructor|]. inversion HndW; subst. constructor.
    + intros Hin. apply in_map_iff in Hin. destruct Hin as [e' [Hfe He']].
      assert (e' = e).
      { destruct e as [i ko], e' as [i' ko']. simpl in Hfe. subst i'.
        pose proof (HW (i, ko) (or_introl eq_refl)) as A. pose proof (HW (i, ko') (or_intror He')) as B. simpl in A, B. congruence. }
      subst e'. contradiction.
    + apply IH; auto. intros e' He'. apply HW; right; exact He'.
  - clear - HW. induction W as [|e W IH]; simpl; constructor.
    + apply HW; left; reflexivity.
    + apply IH. intros e' He'. apply HW; right; exact He'.
  - intros i [k o] Hn Hc. simpl in Hc.
    assert (Hk : In k ks).
    { apply nodup_In. change k with (fst (k, o)). apply in_map. eapply nth_error_In; eauto. }
    destruct (Forall2_in_l_pair _ _ _ _ _ _ Hls Hk) as [l0 [Hl0 [W0 [[_ [_ [Hall _]]] ->]]]].
    assert (In (i, (k, o)) W).
    { apply (is_merge_in _ _ Hm). exists (lift k W0). split; [exact Hl0|].
      unfold lift. apply in_map_iff. exists (i, o). split; [reflexivity|apply Hall; assumption]. }
    apply (in_map fst) in H. exact H.
  - intros p q a b Hlt Ha Hb.
    apply nth_error_map_inv in Ha. destruct Ha as [ea [Ea <-]].
    apply nth_error_map_inv in Hb. destruct Hb as [eb [Eb <-]].
    apply (pw_nth W p q ea eb HpwW Hlt Ea Eb).
  - apply (merge_mlegal ls W Hm ks minit Hks).
    clear - Hls. induction Hls as [|k l ks ls [W [[_ [_ [_ [_ Hleg]]]] ->]] Hls IH]; constructor; [|exact IH]. split.
    + intros e He. unfold lift in He. apply in_map_iff in He. destruct He as [p [<- _]]. reflexivity.
    + unfold lift. rewrite map_map. unfold e_op'; simpl. unfold minit. exact Hleg.
Qed.

(* what the check does: every projection goes through the verified checker *)
Corollary per_key_checks_suffice : forall MH : mhistory, wf_hist MH ->
  (forall k, check (proj k MH) = Lin) -> mlinearizable MH.
Proof. intros MH Hwf H. apply locality; [exact Hwf|]. intros k. apply check_sound. apply H. Qed.
