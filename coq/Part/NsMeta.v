(* Part/NsMeta.v — C15: the per-namespace partition-count registry used for routing.
   Model of node/namespace.go: NamespaceMgr.InitNamespaceNode (nsMetas update),
   onNamespaceStopped (meta removed when the last partition of the namespace is gone),
   GetNamespaceNodeWithPrimaryKeySum (routing by pkSum % meta.PartitionNum, partition must be hosted).
   One namespace base name; no proofs in this file. *)
From ZV Require Import Common.Bytes Part.Model.
Open Scope N_scope.

Inductive ns_event :=
| NsInit (pid pnum : N)      (* a partition replica is initialised with the namespace config's partition count *)
| NsStop (pid : N).          (* a partition replica is stopped/destroyed and unregistered *)

Record ns_state := { meta : option N; hosted : list N; last_conf : option N (* history: newest configured count *) }.
Definition ns_init : ns_state := {| meta := None; hosted := []; last_conf := None |}.

Definition remove_pid (p : N) (l : list N) : list N := filter (fun x => negb (x =? p)) l.

Definition ns_step (s : ns_state) (e : ns_event) : ns_state :=
  match e with
  | NsInit pid pnum =>
      let m := match meta s with
               | None => Some pnum
               | Some old => if old =? pnum then Some old else Some pnum
               end in
      {| meta := m; hosted := pid :: remove_pid pid (hosted s); last_conf := Some pnum |}
  | NsStop pid =>
      let h := remove_pid pid (hosted s) in
      {| meta := match h with [] => None | _ => meta s end; hosted := h; last_conf := last_conf s |}
  end.

Definition ns_run (evs : list ns_event) : ns_state := fold_left ns_step evs ns_init.

Inductive route_result := Served (pid : N) | Rejected.

Definition ns_route (s : ns_state) (pk : bytes) : route_result :=
  match meta s with
  | None => Rejected
  | Some n => if n =? 0 then Rejected
              else let p := part_of pk n in
                   if existsb (N.eqb p) (hosted s) then Served p else Rejected
  end.

(* a merged multi-key command (server/merge.go getHandlersForKeys): every key must be routable on
   this node, otherwise the whole command is rejected — never a partial dispatch *)
Fixpoint ns_route_all (s : ns_state) (pks : list bytes) : option (list N) :=
  match pks with
  | [] => Some []
  | pk :: r =>
      match ns_route s pk, ns_route_all s r with
      | Served p, Some l => Some (p :: l)
      | _, _ => None
      end
  end.

Definition ns_hosting (pnum : N) (hosted_pids : list N) : ns_state :=
  {| meta := Some pnum; hosted := hosted_pids; last_conf := Some pnum |}.

(* MGET on a node that hosts only some partitions (server/server.go GetHandleNode): every key must be routable on
   this node AND to the same partition as the first key; otherwise the command is rejected *)
Definition ns_mget_route (s : ns_state) (pks : list bytes) : option N :=
  match ns_route_all s pks with
  | Some (p :: r) => if forallb (N.eqb p) r then Some p else None
  | _ => None
  end.
