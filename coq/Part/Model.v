(* Part/Model.v — C15: key -> partition mapping and multi-key command grouping.
   Hand-written model of:
     twmb/murmur3 Sum32 (seed 0)            [third-party, re-implemented from the spec]
     node/namespace.go   HashedKey, GetHashedPartitionID
     common/util.go      ExtractNamesapce
     server/merge.go     getHandlersForKeys (grouping), doMergeKeysCommand (combination)
   No proofs in this file. *)
From ZV Require Export Common.Bytes.
From ZV Require Import Part.Consts.
Open Scope N_scope.

Definition mask32 : N := 4294967295.
Definition w32 (x : N) : N := N.land x mask32.
Definition rotl32 (x : N) (r : N) : N :=
  w32 (N.lor (N.shiftl x r) (N.shiftr x (32 - r))).
Definition mul32 (a b : N) : N := w32 (a * b).

Definition c1 : N := 3432918353.  (* 0xcc9e2d51 *)
Definition c2 : N := 461845907.   (* 0x1b873593 *)

Definition mixk (k : N) : N := mul32 (rotl32 (mul32 k c1) 15) c2.

Definition mix_block (h k : N) : N :=
  let h1 := N.lxor h (mixk k) in
  let h2 := rotl32 h1 13 in
  w32 (h2 * 5 + 3864292196). (* 0xe6546b64 *)

Definition le32 (b0 b1 b2 b3 : N) : N :=
  N.lor (N.lor b0 (N.shiftl b1 8)) (N.lor (N.shiftl b2 16) (N.shiftl b3 24)).

(* body: consumes 4-byte blocks; tail of < 4 bytes handled at the end *)
Fixpoint mm_body (h : N) (p : bytes) : N * bytes :=
  match p with
  | b0 :: b1 :: b2 :: b3 :: rest => mm_body (mix_block h (le32 b0 b1 b2 b3)) rest
  | tail => (h, tail)
  end.

Definition mm_tail (h : N) (tail : bytes) : N :=
  match tail with
  | [t0] => N.lxor h (mixk t0)
  | [t0; t1] => N.lxor h (mixk (N.lxor (N.shiftl t1 8) t0))
  | [t0; t1; t2] => N.lxor h (mixk (N.lxor (N.lxor (N.shiftl t2 16) (N.shiftl t1 8)) t0))
  | _ => h
  end.

Definition fmix32 (h : N) : N :=
  let h := N.lxor h (N.shiftr h 16) in
  let h := mul32 h 2246822507 in   (* 0x85ebca6b *)
  let h := N.lxor h (N.shiftr h 13) in
  let h := mul32 h 3266489909 in   (* 0xc2b2ae35 *)
  N.lxor h (N.shiftr h 16).

Definition murmur3_32 (p : bytes) : N :=
  let '(h, tail) := mm_body 0 p in
  let h := mm_tail h tail in
  let h := N.lxor h (w32 (N.of_nat (length p))) in
  fmix32 h.

(* node.HashedKey: int(uint32) on a 64-bit platform is the same non-negative number *)
Definition hashed_key (pk : bytes) : N := murmur3_32 pk.
(* node.GetHashedPartitionID; pnum = 0 is a Go run-time panic (division by zero) *)
Definition part (pk : bytes) (pnum : N) : option N :=
  if pnum =? 0 then None else Some (hashed_key pk mod pnum).
Definition part_of (pk : bytes) (pnum : N) : N := hashed_key pk mod pnum.

(* common.ExtractNamesapce: first separator at index > 0 *)
Fixpoint split_at_sep (sep : N) (bs : bytes) : option (bytes * bytes) :=
  match bs with
  | [] => None
  | x :: r => if x =? sep then Some ([], r)
              else match split_at_sep sep r with
                   | Some (a, b) => Some (x :: a, b)
                   | None => None
                   end
  end.
Definition extract_namespace (raw : bytes) : option (bytes * bytes) :=
  match split_at_sep ns_sep raw with
  | Some ([], _) => None
  | r => r
  end.

(* ---------- grouping of multi-key commands (server/merge.go getHandlersForKeys) ---------- *)
(* groups: association list partition -> arguments in arrival order (stored in order) *)
Definition groups (A : Type) := list (N * list A).

Fixpoint add_to_group {A} (p : N) (a : A) (g : groups A) : groups A :=
  match g with
  | [] => [(p, [a])]
  | (q, l) :: r => if q =? p then (q, l ++ [a]) :: r else (q, l) :: add_to_group p a r
  end.

Definition group_by {A} (f : A -> N) (l : list A) : groups A :=
  fold_left (fun g a => add_to_group (f a) a g) l [].

Definition group_of {A} (p : N) (g : groups A) : list A :=
  match find (fun e => fst e =? p) g with
  | Some (_, l) => l
  | None => []
  end.

(* the primary key used for routing: raw key without its namespace prefix *)
Definition route_key (raw : bytes) : bytes :=
  match extract_namespace raw with
  | Some (_, real) => real
  | None => raw
  end.

(* keys of a merge command grouped per partition (DEL / EXISTS / MGET) *)
Definition group_keys (pnum : N) (keys : list bytes) : groups bytes :=
  group_by (fun k => part_of (route_key k) pnum) keys.

(* PLSET: key/value pairs *)
Definition group_kvs (pnum : N) (kvs : list (bytes * bytes)) : groups (bytes * bytes) :=
  group_by (fun kv => part_of (route_key (fst kv)) pnum) kvs.

(* namespace agreement check: all keys must be in the namespace of the first *)
Definition same_namespace (keys : list bytes) : bool :=
  match keys with
  | [] => true
  | k0 :: _ =>
      match extract_namespace k0 with
      | None => false
      | Some (ns, _) =>
          forallb (fun k => match extract_namespace k with
                            | Some (ns', _) => bytes_eqb ns ns'
                            | None => false end) keys
      end
  end.

(* ---------- a partitioned key store and the combined replies ---------- *)
(* the reference single store: set of existing keys as a list *)
Definition store := list bytes.
Definition s_mem (k : bytes) (s : store) : bool := existsb (bytes_eqb k) s.
Definition s_remove (k : bytes) (s : store) : store := filter (fun x => negb (bytes_eqb k x)) s.

(* DEL on one store: each key is looked up in the store as left by the previous keys *)
Fixpoint del_keys (ks : list bytes) (s : store) : N * store :=
  match ks with
  | [] => (0, s)
  | k :: r => if s_mem k s
              then let '(n, s') := del_keys r (s_remove k s) in (n + 1, s')
              else del_keys r s
  end.
Fixpoint exists_keys (ks : list bytes) (s : store) : N :=
  match ks with
  | [] => 0
  | k :: r => (if s_mem k s then 1 else 0) + exists_keys r s
  end.

(* partitioned store: partition p holds exactly the keys routed to p *)
Definition pstore (pnum : N) (s : store) (p : N) : store :=
  filter (fun k => part_of (route_key k) pnum =? p) s.

(* the merged DEL: sum of the per-partition replies, union of the per-partition stores *)
Definition merged_del (pnum : N) (ks : list bytes) (s : store) : N :=
  fold_right (fun e acc => fst (del_keys (snd e) (pstore pnum s (fst e))) + acc) 0 (group_keys pnum ks).
Definition merged_exists (pnum : N) (ks : list bytes) (s : store) : N :=
  fold_right (fun e acc => exists_keys (snd e) (pstore pnum s (fst e)) + acc) 0 (group_keys pnum ks).

(* PLSET: every key/value pair is written in its own partition; the combined reply is one
   status per pair, emitted block-wise per partition (server/merge.go doMergeKeysCommand).
   ok p = whether partition p's sub-command succeeded. *)
Definition plset_reply (ok : N -> bool) (g : groups (bytes * bytes)) : list bool :=
  concat (map (fun e => repeat (ok (fst e)) (length (snd e))) g).

(* the key/value store written by (PL)SET: newest binding first *)
Definition kvs := list (bytes * bytes).
Fixpoint kv_get (k : bytes) (s : kvs) : option bytes :=
  match s with
  | [] => None
  | (k', v) :: r => if bytes_eqb k k' then Some v else kv_get k r
  end.
Definition apply_sets (l : list (bytes * bytes)) (s : kvs) : kvs :=
  fold_left (fun s kv => (fst kv, snd kv) :: s) l s.
(* value of key k after the merged PLSET: looked up in the store of k's own partition only,
   which received only its own group *)
Definition plset_get (pnum : N) (l : list (bytes * bytes)) (k : bytes) : option bytes :=
  kv_get k (apply_sets (group_of (part_of (route_key k) pnum) (group_kvs pnum l)) []).

(* ---------- MGET: the one multi-key command that is NOT split over the partitions ---------- *)
(* server/server.go GetHandleNode: an MGET is executed by the partition of its first key, and only when every
   key is owned by that partition; otherwise it is rejected (None). *)
Definition kv_pstore (pnum : N) (s : kvs) (p : N) : kvs :=
  filter (fun kv => part_of (route_key (fst kv)) pnum =? p) s.
Definition mget_route (pnum : N) (ks : list bytes) : option N :=
  match ks with
  | [] => None
  | k :: r => let p := part_of (route_key k) pnum in
              if forallb (fun k' => part_of (route_key k') pnum =? p) r then Some p else None
  end.
Definition mget_reply (pnum : N) (ks : list bytes) (s : kvs) : option (list (option bytes)) :=
  match mget_route pnum ks with
  | None => None
  | Some p => Some (map (fun k => kv_get k (kv_pstore pnum s p)) ks)
  end.

(* ---------- the per-partition size limit of merged commands ---------- *)
(* node/util.go wrap*MergeCommandKK: a partition's sub-command with more than [lim] keys fails; a failed part
   fails the whole merged command (server/merge.go doMergeKeysCommand) — the count of the other parts is never
   answered alone. *)
Definition merged_over_limit (lim : nat) (pnum : N) (ks : list bytes) : bool :=
  existsb (fun e => Nat.ltb lim (length (snd e))) (group_keys pnum ks).
Definition merged_exists_lim (lim : nat) (pnum : N) (ks : list bytes) (s : store) : option N :=
  if merged_over_limit lim pnum ks then None else Some (merged_exists pnum ks s).
Definition merged_del_lim (lim : nat) (pnum : N) (ks : list bytes) (s : store) : option N :=
  if merged_over_limit lim pnum ks then None else Some (merged_del pnum ks s).
