(* Part/NsMetaProofs.v — routing always uses the newest configured partition count *)
From ZV Require Import Common.Bytes Part.Model Part.NsMeta.
From Coq Require Import Lia.
Open Scope N_scope.

Definition ns_inv (s : ns_state) : Prop :=
  (hosted s = [] -> meta s = None) /\ (hosted s <> [] -> meta s = last_conf s).

Lemma ns_inv_init : ns_inv ns_init.
Proof. split; [reflexivity|intros H; now elim H]. Qed.

Lemma ns_inv_step s e : ns_inv s -> ns_inv (ns_step s e).
Proof.
  intros [H0 H1]. destruct e as [pid pnum|pid]; unfold ns_inv; simpl.
  - split; [discriminate|]. intros _. destruct (meta s) as [old|]; [|reflexivity].
    destruct (old =? pnum) eqn:E; [apply N.eqb_eq in E; now subst|reflexivity].
  - destruct (remove_pid pid (hosted s)) as [|x r] eqn:E.
    + split; [reflexivity|intros H; now elim H].
    + split; [discriminate|]. intros _. apply H1. intros Hn. rewrite Hn in E. discriminate.
Qed.

Lemma ns_inv_run_from evs s : ns_inv s -> ns_inv (fold_left ns_step evs s).
Proof. revert s; induction evs as [|e evs IH]; intros s H; simpl; [exact H|]. apply IH, ns_inv_step, H. Qed.

Theorem ns_inv_run evs : ns_inv (ns_run evs).
Proof. apply ns_inv_run_from, ns_inv_init. Qed.

(* last_conf really is the count of the newest NsInit of the history *)
Fixpoint newest_conf (evs : list ns_event) (acc : option N) : option N :=
  match evs with
  | [] => acc
  | NsInit _ n :: r => newest_conf r (Some n)
  | NsStop _ :: r => newest_conf r acc
  end.

Lemma last_conf_run_from evs s : last_conf (fold_left ns_step evs s) = newest_conf evs (last_conf s).
Proof. revert s; induction evs as [|[pid n|pid] evs IH]; intros s; simpl; [reflexivity| |]; now rewrite IH. Qed.

Theorem last_conf_run evs : last_conf (ns_run evs) = newest_conf evs None.
Proof. apply last_conf_run_from. Qed.

(* a served command is served by the partition the client computes from the newest configured
   count, and that partition is hosted here; otherwise the command is rejected *)
Theorem ns_route_correct evs pk p :
  ns_route (ns_run evs) pk = Served p ->
  exists n, newest_conf evs None = Some n /\ 0 < n /\ p = part_of pk n /\ In p (hosted (ns_run evs)).
Proof.
  unfold ns_route. destruct (ns_inv_run evs) as [H0 H1]. rewrite <- last_conf_run.
  destruct (meta (ns_run evs)) as [n|] eqn:M; [|discriminate].
  destruct (n =? 0) eqn:Z; [discriminate|]. apply N.eqb_neq in Z.
  destruct (existsb _ _) eqn:E; [|discriminate]. intros H; inversion H; subst p.
  apply existsb_exists in E as [x [Hin Hx]]. apply N.eqb_eq in Hx. subst x.
  exists n. repeat split; try lia; [|exact Hin].
  symmetry. apply H1. intros Hn. rewrite Hn in Hin. exact Hin.
Qed.

(* merged commands: all keys dispatched to their own partitions, or the command is rejected *)
Theorem ns_route_all_some s pks l :
  ns_route_all s pks = Some l ->
  length l = length pks /\ forall i pk, nth_error pks i = Some pk ->
                                        exists p, nth_error l i = Some p /\ ns_route s pk = Served p.
Proof.
  revert l; induction pks as [|pk r IH]; simpl; intros l H.
  - inversion H; subst. split; [reflexivity|]. intros [|i] pk' Hn; discriminate.
  - destruct (ns_route s pk) as [p|] eqn:E; [|discriminate].
    destruct (ns_route_all s r) as [l'|] eqn:E2; [|discriminate].
    inversion H; subst. destruct (IH l' eq_refl) as [Hlen Hnth]. split; [simpl; now rewrite Hlen|].
    intros [|i] pk' Hn; simpl in *.
    + inversion Hn; subst. eauto.
    + now apply Hnth.
Qed.

Theorem ns_route_all_rejects s pks pk :
  In pk pks -> ns_route s pk = Rejected -> ns_route_all s pks = None.
Proof.
  induction pks as [|x r IH]; simpl; intros Hin Hr; [contradiction|].
  destruct Hin as [->|Hin].
  - now rewrite Hr.
  - rewrite (IH Hin Hr). now destruct (ns_route s x).
Qed.

Theorem ns_mget_route_served s pks p :
  ns_mget_route s pks = Some p -> pks <> [] /\ forall pk, In pk pks -> ns_route s pk = Served p.
Proof.
  unfold ns_mget_route. destruct (ns_route_all s pks) as [[|q r]|] eqn:E; try discriminate.
  destruct (forallb (N.eqb q) r) eqn:F; [|discriminate].
  intros H; injection H as <-.
  destruct (ns_route_all_some _ _ _ E) as [Hlen Hnth].
  split; [intros ->; discriminate Hlen|].
  intros pk Hin. apply In_nth_error in Hin as [i Hi].
  destruct (Hnth i pk Hi) as (p' & Hp' & Hr). rewrite Hr. f_equal.
  destruct i as [|i]; simpl in Hp'; [now injection Hp' as <-|].
  rewrite forallb_forall in F. apply nth_error_In in Hp'. apply F in Hp'. now apply N.eqb_eq in Hp'.
Qed.

Theorem ns_mget_route_rejects_unhosted s pks pk :
  In pk pks -> ns_route s pk = Rejected -> ns_mget_route s pks = None.
Proof. intros Hin Hr. unfold ns_mget_route. now rewrite (ns_route_all_rejects _ _ _ Hin Hr). Qed.
