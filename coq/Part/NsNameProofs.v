(* Part/NsNameProofs.v — the replica-group name is injective in (namespace, partition index). *)
From Coq Require Import List NArith Decimal DecimalN Lia.
From ZV Require Import Common.Bytes Part.NsName.
Import ListNotations.
Open Scope N_scope.

Lemma uint_bytes_inj d d' : uint_bytes d = uint_bytes d' -> d = d'.
Proof.
  revert d'; induction d as [|r IH|r IH|r IH|r IH|r IH|r IH|r IH|r IH|r IH|r IH];
    intros [|r'|r'|r'|r'|r'|r'|r'|r'|r'|r']; simpl; intros H;
    try reflexivity; try discriminate H; injection H as H; f_equal; now apply IH.
Qed.

Lemma uint_bytes_no_dash d : ~ In dash (uint_bytes d).
Proof.
  unfold dash. induction d as [|r IH|r IH|r IH|r IH|r IH|r IH|r IH|r IH|r IH|r IH]; simpl;
    [tauto| | | | | | | | | |]; intros [H|H]; try discriminate H; now apply IH.
Qed.

Theorem dec_bytes_inj n n' : dec_bytes n = dec_bytes n' -> n = n'.
Proof. unfold dec_bytes. intros H. now apply Unsigned.to_uint_inj, uint_bytes_inj. Qed.

Theorem dec_bytes_no_dash n : ~ In dash (dec_bytes n).
Proof. apply uint_bytes_no_dash. Qed.

(* the first dash of a list determines the split *)
Lemma split_first_dash (l1 l2 r1 r2 : bytes) :
  ~ In dash l1 -> ~ In dash l2 -> l1 ++ dash :: r1 = l2 ++ dash :: r2 -> l1 = l2 /\ r1 = r2.
Proof.
  revert l2; induction l1 as [|a l1 IH]; intros [|b l2] H1 H2 H; simpl in *.
  - injection H as <-. now split.
  - injection H as Hb _. exfalso. apply H2. now left.
  - injection H as Ha _. exfalso. apply H1. now left.
  - injection H as <- H. destruct (IH l2) as [<- <-]; [tauto|tauto|exact H|]. now split.
Qed.

(* ... and so does the last one, when nothing behind it is a dash *)
Lemma split_last_dash (a b d1 d2 : bytes) :
  ~ In dash d1 -> ~ In dash d2 -> a ++ dash :: d1 = b ++ dash :: d2 -> a = b /\ d1 = d2.
Proof.
  intros H1 H2 H. apply (f_equal (@rev N)) in H.
  rewrite !rev_app_distr in H. simpl in H. rewrite <- !app_assoc in H. simpl in H.
  apply split_first_dash in H; [|now rewrite <- in_rev|now rewrite <- in_rev].
  destruct H as [Hd Ha]. split.
  - rewrite <- (rev_involutive a), <- (rev_involutive b). now f_equal.
  - rewrite <- (rev_involutive d1), <- (rev_involutive d2). now f_equal.
Qed.

Theorem ns_desp_inj ns ns' p p' : ns_desp ns p = ns_desp ns' p' -> ns = ns' /\ p = p'.
Proof.
  unfold ns_desp. intros H.
  apply split_last_dash in H; [|apply dec_bytes_no_dash|apply dec_bytes_no_dash].
  destruct H as [Hn Hp]. split; [exact Hn|now apply dec_bytes_inj].
Qed.

(* the name read back: GetNamespaceAndPartition-like parse from the right returns the pair *)
Example ns_desp_ex : ns_desp [118;113;49] 10 = [118;113;49;45;49;48] /\ ns_desp [118;113;49;49] 0 = [118;113;49;49;45;48].
Proof. vm_compute. split; reflexivity. Qed.
