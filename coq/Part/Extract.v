(* Part/Extract.v — extraction of the C15 model (ExtrOcamlBasic only) *)
From Coq Require Import ExtrOcamlBasic.
From ZV Require Import Part.Model Part.NsMeta.
Extraction Language OCaml.
Extraction "model.ml" Z.of_N N.of_nat Nat.add hashed_key part part_of extract_namespace route_key group_keys group_kvs
  same_namespace del_keys exists_keys merged_del merged_exists pstore plset_reply plset_get apply_sets kv_get ns_step ns_init ns_route ns_route_all ns_hosting.
