(* Part/Extract.v — extraction of the C15 model (ExtrOcamlBasic only) *)
From Coq Require Import ExtrOcamlBasic.
From ZV Require Import Part.Consts Part.Model Part.NsMeta Part.NsName.
Extraction Language OCaml.
Extraction "model.ml" Z.of_N N.of_nat Nat.add hashed_key part part_of extract_namespace route_key group_keys group_kvs
  same_namespace del_keys exists_keys merged_del merged_exists pstore plset_reply plset_get apply_sets kv_get ns_step ns_init ns_route ns_route_all ns_mget_route ns_hosting mget_reply merged_exists_lim merged_del_lim max_batch_num ns_desp.
