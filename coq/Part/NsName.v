(* Part/NsName.v — C15: the name of a partition's replica group.
   Model of common/util.go GetNsDesp: full name = namespace ++ "-" ++ decimal(partition index). The registry of
   node/namespace.go (kvNodes) is keyed by this name, so two different (namespace, partition) pairs must never
   share a name — also for namespaces whose names end in digits or contain '-'. No proofs in this file. *)
From Coq Require Import List NArith Decimal.
From ZV Require Import Common.Bytes.
Import ListNotations.
Open Scope N_scope.

Fixpoint uint_bytes (d : Decimal.uint) : bytes :=
  match d with
  | Nil => []
  | D0 r => 48 :: uint_bytes r | D1 r => 49 :: uint_bytes r | D2 r => 50 :: uint_bytes r
  | D3 r => 51 :: uint_bytes r | D4 r => 52 :: uint_bytes r | D5 r => 53 :: uint_bytes r
  | D6 r => 54 :: uint_bytes r | D7 r => 55 :: uint_bytes r | D8 r => 56 :: uint_bytes r
  | D9 r => 57 :: uint_bytes r
  end.

(* strconv.Itoa of a non-negative int *)
Definition dec_bytes (n : N) : bytes := uint_bytes (N.to_uint n).

Definition dash : N := 45.
Definition ns_desp (ns : bytes) (part : N) : bytes := ns ++ dash :: dec_bytes part.
