(* driver for the C15 model: reads case lines on stdin, prints "<id>\t<model output>" *)
open Model
open Vio

let ob = function true -> "1" | false -> "0"
let groups_str (pr : 'a -> string) (g : (n * 'a list) list) : string =
  (* canonical: sorted by partition id *)
  let g = List.sort (fun (a, _) (b, _) -> compare (int_of_n a) (int_of_n b)) g in
  String.concat ";" (List.map (fun (p, l) -> dec_of_n p ^ "=" ^ String.concat "," (List.map pr l)) g)

let () =
  read_lines stdin (fun line ->
    match split_on '\t' line with
    | id :: "H" :: key :: pnum :: _ ->
      let k = bytes_of_hex key and n = n_of_dec pnum in
      let out = (match part k n with None -> "panic" | Some p -> dec_of_n p) in
      Printf.printf "%s\t%s %s\n" id (dec_of_n (hashed_key k)) out
    | id :: "X" :: raw :: _ ->
      let out = (match extract_namespace (bytes_of_hex raw) with
                 | None -> "err"
                 | Some (ns, real) -> hex_of_bytes ns ^ " " ^ hex_of_bytes real) in
      Printf.printf "%s\t%s\n" id out
    | id :: "G" :: pnum :: keys :: _ ->
      let ks = List.map bytes_of_hex (if keys = "" then [] else split_on ',' keys) in
      let n = n_of_dec pnum in
      let out = if not (same_namespace ks) then "err"
                else groups_str hex_of_bytes (group_keys n ks) in
      Printf.printf "%s\t%s\n" id out
    | id :: "D" :: pnum :: store :: keys :: _ ->
      (* merged DEL and EXISTS vs single store *)
      let ks = List.map bytes_of_hex (if keys = "" then [] else split_on ',' keys) in
      let st = List.map bytes_of_hex (if store = "" then [] else split_on ',' store) in
      let n = n_of_dec pnum in
      Printf.printf "%s\t%s %s\n" id (dec_of_n (merged_exists n ks st)) (dec_of_n (merged_del n ks st))
    | id :: "P" :: pnum :: kvl :: _ ->
      let fl = List.map bytes_of_hex (if kvl = "" then [] else split_on ',' kvl) in
      let rec pairs = function a :: b :: r -> (a, b) :: pairs r | _ -> [] in
      let l = pairs fl in
      let n = n_of_dec pnum in
      let keys = List.sort_uniq compare (List.map (fun (k, _) -> hex_of_bytes k) l) in
      let reply = plset_reply (fun _ -> true) (group_kvs n l) in
      let vals = List.map (fun hk ->
          let k = bytes_of_hex hk in
          hk ^ "=" ^ (match plset_get n l k with None -> "-" | Some v -> hex_of_bytes v)) keys in
      Printf.printf "%s\t%d %s\n" id (List.length (List.filter (fun b -> b) reply)) (String.concat "," vals)
    | id :: "L" :: evs :: _ ->
      let keys = ["t:a"; "t:b"; "t:c"; "t:k1"; "t:k2"; "t:k3"; "t2:x"; "t2:y"; "tt:0"; "tt:1"; "q:zz"; "q:"] in
      let bytes_of_string s = List.init (String.length s) (fun i -> n_of_int (Char.code s.[i])) in
      let st = ref ns_init in
      let outs = List.map (fun e ->
          let ev = if e.[0] = 'I' then Scanf.sscanf e "I%d/%d" (fun p n -> NsInit (n_of_int p, n_of_int n))
                   else Scanf.sscanf e "D%d" (fun p -> NsStop (n_of_int p)) in
          st := ns_step !st ev;
          String.concat "" (List.map (fun k ->
              match ns_route !st (bytes_of_string k) with
              | Served p -> dec_of_n p
              | Rejected -> "-") keys)) (split_on ',' evs) in
      Printf.printf "%s\t%s\n" id (String.concat " " outs)
    | id :: "Q" :: pnum :: hostedl :: keys :: _ ->
      (* rounds of (a, z, u): SET a, SET z, DEL a u, EXISTS z, EXISTS a, DEL a, DEL z on one store; the merged DEL
         is executed only when ns_route_all serves every key, otherwise it is rejected with no effect *)
      let ks = List.map bytes_of_hex (split_on ',' keys) in
      let st = ns_hosting (n_of_dec pnum) (List.map (fun h -> n_of_int (int_of_string h)) (split_on ',' hostedl)) in
      let rec rounds store = function
        | a :: z :: u :: r ->
          let store = a :: z :: store in
          let (r1, store) = (match ns_route_all st (List.map route_key [a; u]) with
                             | None -> ("rejected", store)
                             | Some _ -> ("accepted", snd (del_keys [a; u] store))) in
          let ez = exists_keys [z] store and ea = exists_keys [a] store in
          let (d1, store) = del_keys [a] store in
          let (d2, store) = del_keys [z] store in
          Printf.sprintf "%s/%s/%s %s/%s" r1 (dec_of_n ez) (dec_of_n ea) (dec_of_n d1) (dec_of_n d2) :: rounds store r
        | _ -> [] in
      Printf.printf "%s\t%s\n" id (String.concat " " (rounds [] ks))
    | id :: "S" :: _ -> Printf.printf "%s\tok\n" id
    | id :: "E" :: pnum :: hostedl :: keys :: _ ->
      let ks = List.map bytes_of_hex (if keys = "" then [] else split_on ',' keys) in
      let n = n_of_dec pnum in
      let hosted = List.map int_of_string (split_on ',' hostedl) in
      let st = ns_hosting n (List.map n_of_int hosted) in
      let nmiss = List.length (List.filter (fun k -> not (List.mem (int_of_n (part_of (route_key k) n)) hosted)) ks) in
      (* all hosted keys were SET before: EXISTS counts every occurrence *)
      let res = (match ns_route_all st (List.map route_key ks) with
                 | None -> "rejected"
                 | Some l -> string_of_int (List.length l)) in
      Printf.printf "%s\t%s missing=%d\n" id res nmiss
    | id :: "T" :: pnum :: sets :: keys :: _ ->
      let fl = List.map bytes_of_hex (if sets = "" then [] else split_on ',' sets) in
      let rec pairs = function a :: b :: r -> (a, b) :: pairs r | _ -> [] in
      let store = apply_sets (pairs fl) [] in
      let ks = List.map bytes_of_hex (split_on ',' keys) in
      let out = (match mget_reply (n_of_dec pnum) ks store with
                 | None -> "rejected"
                 | Some vs -> String.concat "," (List.map (function None -> "-" | Some v -> hex_of_bytes v ^ ".") vs)) in
      Printf.printf "%s\t%s\n" id out
    | id :: "U" :: pnum :: hostedl :: keys :: _ ->
      let ks = List.map bytes_of_hex (split_on ',' keys) in
      let st = ns_hosting (n_of_dec pnum) (List.map (fun h -> n_of_int (int_of_string h)) (split_on ',' hostedl)) in
      let owners = String.concat "," (List.map (fun k -> dec_of_n (part_of (route_key k) (n_of_dec pnum))) ks) in
      Printf.printf "%s\t%s owners=%s\n" id (match ns_mget_route st (List.map route_key ks) with None -> "rejected" | Some _ -> "served") owners
    | id :: "B" :: pnum :: keys :: _ ->
      (* the last key is the only stored one *)
      let ks = List.map bytes_of_hex (split_on ',' keys) in
      let store = [List.nth ks (List.length ks - 1)] in
      let n = n_of_dec pnum in
      let pr = function None -> "err" | Some c -> dec_of_n c in
      Printf.printf "%s\t%s %s\n" id (pr (merged_exists_lim max_batch_num n ks store)) (pr (merged_del_lim max_batch_num n ks store))
    | id :: "N" :: desc :: _ ->
      let outs = List.map (fun d -> match split_on '/' d with
          | [ns; pid] -> hex_of_bytes (ns_desp (bytes_of_hex ns) (n_of_dec pid))
          | _ -> "?") (split_on ',' desc) in
      Printf.printf "%s\t%s\n" id (String.concat " " outs)
    | id :: "R" :: pnum :: missing :: key :: _ ->
      let k = bytes_of_hex key in
      let p = part_of (route_key k) (n_of_dec pnum) in
      Printf.printf "%s\t%s\n" id (if int_of_n p = int_of_string missing then "rejected" else "ok")
    | _ -> ())
