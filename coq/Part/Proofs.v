(* Part/Proofs.v — proofs about Part/Model.v (C15) *)
From ZV Require Import Common.Bytes Common.BytesFacts Part.Consts Part.Model.
From Coq Require Import ZifyN ZifyNat ZifyBool Permutation.
Open Scope N_scope.

(* ---------- range of the hash and of the partition index ---------- *)
Lemma w32_lt x : w32 x < 2 ^ 32.
Proof.
  unfold w32, mask32. change 4294967295 with (N.ones 32).
  rewrite N.land_ones. apply N.mod_lt. discriminate.
Qed.

Lemma lxor_lt_pow2 a b n : a < 2 ^ n -> b < 2 ^ n -> N.lxor a b < 2 ^ n.
Proof.
  intros Ha Hb.
  destruct (N.eq_dec (N.lxor a b) 0) as [E|E].
  - rewrite E. apply N.neq_0_lt_0. apply N.pow_nonzero. discriminate.
  - apply N.log2_lt_pow2; [lia|].
    pose proof (N.log2_lxor a b) as H.
    assert (La : a = 0 \/ N.log2 a < n).
    { destruct (N.eq_dec a 0); [now left|right; apply N.log2_lt_pow2; lia]. }
    assert (Lb : b = 0 \/ N.log2 b < n).
    { destruct (N.eq_dec b 0); [now left|right; apply N.log2_lt_pow2; lia]. }
    destruct La as [->|La], Lb as [->|Lb].
    + now rewrite N.lxor_0_l in E.
    + rewrite N.lxor_0_l. exact Lb.
    + rewrite N.lxor_0_r. exact La.
    + lia.
Qed.

Lemma shiftr_le x n : N.shiftr x n <= x.
Proof.
  rewrite N.shiftr_div_pow2.
  apply N.div_le_upper_bound; [apply N.pow_nonzero; discriminate|].
  pose proof (N.pow_nonzero 2 n ltac:(discriminate)) as Hp.
  nia.
Qed.

Lemma mul32_lt a b : mul32 a b < 2 ^ 32.
Proof. apply w32_lt. Qed.

Lemma fmix32_lt h : fmix32 h < 2 ^ 32.
Proof.
  unfold fmix32. cbv zeta.
  apply lxor_lt_pow2; [apply mul32_lt|].
  eapply N.le_lt_trans; [apply shiftr_le|apply mul32_lt].
Qed.

Theorem hashed_key_lt pk : hashed_key pk < 2 ^ 32.
Proof.
  unfold hashed_key, murmur3_32. destruct (mm_body 0 pk) as [h tail]. apply fmix32_lt.
Qed.

Theorem part_of_lt pk n : 0 < n -> part_of pk n < n.
Proof. intros H. unfold part_of. apply N.mod_lt. lia. Qed.

Theorem part_some_iff pk n : (exists p, part pk n = Some p /\ p < n) <-> 0 < n.
Proof.
  unfold part. destruct (n =? 0) eqn:E.
  - apply N.eqb_eq in E. subst. split; [intros [p [H _]]; discriminate|lia].
  - apply N.eqb_neq in E. split; [lia|]. intros _. eexists; split; [reflexivity|].
    apply N.mod_lt; exact E.
Qed.

Theorem part_functional pk n p q : part pk n = Some p -> part pk n = Some q -> p = q.
Proof. congruence. Qed.

(* ---------- ExtractNamesapce ---------- *)
Lemma split_at_sep_spec sep bs a b :
  split_at_sep sep bs = Some (a, b) ->
  bs = a ++ sep :: b /\ ~ In sep a.
Proof.
  revert a b; induction bs as [|x r IH]; simpl; intros a b H; [discriminate|].
  destruct (x =? sep) eqn:E.
  - inversion H; subst. apply N.eqb_eq in E. subst. split; [reflexivity|intros []].
  - destruct (split_at_sep sep r) as [[a' b']|]; [|discriminate].
    inversion H; subst. destruct (IH a' b eq_refl) as [-> Hn].
    split; [reflexivity|]. intros [->|Hin]; [now rewrite N.eqb_refl in E|auto].
Qed.

Theorem extract_namespace_spec raw ns real :
  extract_namespace raw = Some (ns, real) ->
  raw = ns ++ ns_sep :: real /\ ns <> [] /\ ~ In ns_sep ns.
Proof.
  unfold extract_namespace. destruct (split_at_sep ns_sep raw) as [[a b]|] eqn:E; [|discriminate].
  destruct a as [|x a]; [discriminate|]. intros H; inversion H; subst.
  apply split_at_sep_spec in E as [-> Hn]. repeat split; auto. discriminate.
Qed.

(* ---------- grouping ---------- *)
Section Grouping.
Context {A : Type} (f : A -> N).

Lemma group_of_add p q (a : A) g :
  group_of p (add_to_group q a g) =
  if q =? p then group_of p g ++ [a] else group_of p g.
Proof.
  unfold group_of. induction g as [|[r l] g IH]; simpl.
  - destruct (q =? p); reflexivity.
  - destruct (r =? q) eqn:Erq; simpl.
    + apply N.eqb_eq in Erq. subst r. destruct (q =? p); reflexivity.
    + destruct (r =? p) eqn:Erp; simpl.
      * apply N.eqb_eq in Erp. subst r. now rewrite N.eqb_sym, Erq.
      * exact IH.
Qed.

Lemma group_by_app_aux l g p :
  group_of p (fold_left (fun g a => add_to_group (f a) a g) l g) =
  group_of p g ++ filter (fun a => f a =? p) l.
Proof.
  revert g; induction l as [|a l IH]; intros g; simpl.
  - now rewrite app_nil_r.
  - rewrite IH, group_of_add. destruct (f a =? p); [now rewrite <- app_assoc|reflexivity].
Qed.

(* each group holds exactly the arguments routed to it, in arrival order, with multiplicity *)
Theorem group_by_filter l p :
  group_of p (group_by f l) = filter (fun a => f a =? p) l.
Proof. unfold group_by. now rewrite group_by_app_aux. Qed.

Definition groups_wf (g : groups A) : Prop :=
  NoDup (map fst g) /\ Forall (fun e => snd e <> [] /\ Forall (fun a => f a = fst e) (snd e)) g.

Lemma add_to_group_keys q (a : A) g :
  forall x, In x (map fst (add_to_group q a g)) <-> x = q \/ In x (map fst g).
Proof.
  induction g as [|[r l] g IH]; simpl; intros x.
  - split; [intros [H|[]]; auto|intros [H|[]]; auto].
  - destruct (r =? q) eqn:E; simpl.
    + apply N.eqb_eq in E. subst. intuition (subst; auto).
    + rewrite IH. intuition (subst; auto).
Qed.

Lemma add_to_group_wf (a : A) g : groups_wf g -> groups_wf (add_to_group (f a) a g).
Proof.
  intros [Hnd Hall]. induction g as [|[r l] g IH]; simpl.
  - split; [constructor; [intros []|constructor]|].
    constructor; [|constructor]. simpl. split; [discriminate|constructor; auto].
  - inversion Hnd as [|? ? Hnotin Hnd']; subst. inversion Hall as [|? ? [Hne Hl] Hall']; subst.
    simpl in *. destruct (r =? f a) eqn:E.
    + apply N.eqb_eq in E. split; [exact Hnd|]. constructor; [|exact Hall'].
      simpl. split; [destruct l; discriminate|]. apply Forall_app; split; [exact Hl|constructor; auto].
    + destruct (IH Hnd' Hall') as [Hnd2 Hall2]. split.
      * simpl. constructor; [|exact Hnd2]. rewrite add_to_group_keys. intros [->|Hin]; [|auto].
        now rewrite N.eqb_refl in E.
      * constructor; [split; assumption|exact Hall2].
Qed.

Theorem group_by_wf l : groups_wf (group_by f l).
Proof.
  unfold group_by.
  assert (H : groups_wf (@nil (N * list A))) by (split; constructor).
  revert H. generalize (@nil (N * list A)). induction l as [|a l IH]; simpl; intros g H; [exact H|].
  apply IH. now apply add_to_group_wf.
Qed.

Lemma group_of_in (g : groups A) p (l : list A) : NoDup (map fst g) -> In (p, l) g -> group_of p g = l.
Proof.
  unfold group_of. induction g as [|[q m] g IH]; simpl; intros Hnd Hin; [contradiction|].
  inversion Hnd as [|? ? Hnotin Hnd']; subst.
  destruct Hin as [E|Hin].
  - inversion E; subst. now rewrite N.eqb_refl.
  - destruct (q =? p) eqn:E.
    + apply N.eqb_eq in E. subst. exfalso. apply Hnotin. now apply (in_map fst) in Hin.
    + now apply IH.
Qed.

(* every entry of the grouping is the filter of the argument list for its partition *)
Theorem group_by_entries l p m :
  In (p, m) (group_by f l) -> m = filter (fun a => f a =? p) l /\ m <> [].
Proof.
  intros Hin. destruct (group_by_wf l) as [Hnd Hall].
  rewrite <- (group_of_in _ _ _ Hnd Hin), group_by_filter. split; [reflexivity|].
  rewrite Forall_forall in Hall. destruct (Hall _ Hin) as [Hne _]. simpl in Hne.
  rewrite <- (group_by_filter l p), (group_of_in _ _ _ Hnd Hin). exact Hne.
Qed.

(* every argument lands in some group: nothing is dropped *)
Theorem group_by_covers l a : In a l -> exists m, In (f a, m) (group_by f l) /\ In a m.
Proof.
  intros Hin.
  assert (Hf : In a (group_of (f a) (group_by f l))).
  { rewrite group_by_filter. apply filter_In. split; [exact Hin|apply N.eqb_refl]. }
  unfold group_of in Hf. destruct (find _ _) as [[q m]|] eqn:E; [|contradiction].
  apply find_some in E as [Hin' Hq]. simpl in Hq. apply N.eqb_eq in Hq. subst q. eauto.
Qed.

Lemma add_to_group_perm q (a : A) g :
  Permutation (concat (map snd (add_to_group q a g))) (a :: concat (map snd g)).
Proof.
  induction g as [|[r l] g IH]; simpl; [reflexivity|].
  destruct (r =? q); simpl.
  - rewrite <- app_assoc. simpl. symmetry. apply Permutation_middle.
  - rewrite IH. symmetry. apply Permutation_middle.
Qed.

(* the dispatched arguments are a permutation of the received ones: none lost, none invented *)
Theorem group_by_perm l : Permutation (concat (map snd (group_by f l))) l.
Proof.
  unfold group_by.
  assert (H : forall g, Permutation (concat (map snd (fold_left (fun g a => add_to_group (f a) a g) l g)))
                                    (concat (map snd g) ++ l)).
  { induction l as [|a l IH]; intros g; simpl; [now rewrite app_nil_r|].
    rewrite IH, add_to_group_perm. simpl. apply Permutation_middle. }
  now rewrite H.
Qed.
End Grouping.

(* ---------- merged DEL / EXISTS on a partitioned store ---------- *)
Section Merged.
Variable f : bytes -> N.   (* routing function; instantiated with part_of (route_key k) pnum *)

Definition pst (s : store) (p : N) : store := filter (fun k => f k =? p) s.
Definition flt (ks : list bytes) (p : N) := filter (fun k => f k =? p) ks.

Lemma s_mem_pst k s p : s_mem k (pst s p) = s_mem k s && (f k =? p).
Proof.
  unfold s_mem, pst. induction s as [|x s IH]; simpl; [reflexivity|].
  destruct (f x =? p) eqn:E; simpl.
  - rewrite IH. destruct (bytes_eqb k x) eqn:Ek; simpl; [|reflexivity].
    apply bytes_eqb_eq in Ek. subst. now rewrite E.
  - rewrite IH. destruct (bytes_eqb k x) eqn:Ek; simpl; [|reflexivity].
    apply bytes_eqb_eq in Ek. subst. rewrite E. now rewrite andb_false_r.
Qed.

Lemma pst_remove k s p : pst (s_remove k s) p = s_remove k (pst s p).
Proof.
  unfold pst, s_remove. induction s as [|x s IH]; simpl; [reflexivity|].
  destruct (bytes_eqb k x) eqn:Ek, (f x =? p) eqn:E; simpl; rewrite ?Ek, ?E; simpl; now rewrite IH.
Qed.

Lemma s_remove_notin k s : s_mem k s = false -> s_remove k s = s.
Proof.
  unfold s_mem, s_remove. induction s as [|x s IH]; simpl; [reflexivity|].
  destruct (bytes_eqb k x); simpl; [discriminate|]. intros H. now rewrite IH.
Qed.

(* per-partition DEL acts on the partition's slice exactly as the global DEL does *)
Theorem del_part ks s p :
  snd (del_keys (flt ks p) (pst s p)) = pst (snd (del_keys ks s)) p.
Proof.
  revert s; induction ks as [|k ks IH]; intros s; simpl; [reflexivity|].
  destruct (f k =? p) eqn:E; simpl.
  - rewrite s_mem_pst, E, andb_true_r. destruct (s_mem k s) eqn:M.
    + specialize (IH (s_remove k s)). rewrite pst_remove in IH.
      destruct (del_keys (flt ks p) _) as [n1 s1]; destruct (del_keys ks (s_remove k s)) as [n2 s2].
      exact IH.
    + apply IH.
  - destruct (s_mem k s) eqn:M.
    + specialize (IH (s_remove k s)). rewrite pst_remove in IH.
      rewrite s_remove_notin in IH by (rewrite s_mem_pst, E; apply andb_false_r).
      destruct (del_keys ks (s_remove k s)) as [n2 s2]. exact IH.
    + apply IH.
Qed.

Definition dsum (ps : list N) (ks : list bytes) (s : store) : N :=
  fold_right (fun p acc => fst (del_keys (flt ks p) (pst s p)) + acc) 0 ps.
Definition esum (ps : list N) (ks : list bytes) (s : store) : N :=
  fold_right (fun p acc => exists_keys (flt ks p) (pst s p) + acc) 0 ps.

Lemma dsum_nil ps s : dsum ps [] s = 0.
Proof. unfold dsum. induction ps; simpl; auto. Qed.

Lemma dsum_skip ps k ks s :
  ~ In (f k) ps -> s_mem k s = true -> dsum ps (k :: ks) s = dsum ps ks (s_remove k s).
Proof.
  induction ps as [|p ps IH]; intros Hn M; simpl; [reflexivity|].
  destruct (f k =? p) eqn:E; [apply N.eqb_eq in E; exfalso; apply Hn; now left|].
  rewrite pst_remove, (s_remove_notin k (pst s p)) by (rewrite s_mem_pst, E; apply andb_false_r).
  f_equal. apply IH; [intros H; apply Hn; now right|exact M].
Qed.

Lemma dsum_skip0 ps k ks s :
  s_mem k s = false -> dsum ps (k :: ks) s = dsum ps ks s.
Proof.
  induction ps as [|p ps IH]; intros M; simpl; [reflexivity|].
  rewrite (IH M). f_equal. destruct (f k =? p) eqn:E; [|reflexivity].
  simpl. now rewrite s_mem_pst, M.
Qed.

Theorem dsum_eq ps ks s :
  NoDup ps -> (forall k, In k ks -> In (f k) ps) -> dsum ps ks s = fst (del_keys ks s).
Proof.
  intros Hnd. revert s; induction ks as [|k ks IH]; intros s Hcov.
  - apply dsum_nil.
  - assert (Hcov' : forall x, In x ks -> In (f x) ps) by (intros; apply Hcov; now right).
    simpl. destruct (s_mem k s) eqn:M.
    + assert (Hin : In (f k) ps) by (apply Hcov; now left).
      specialize (IH (s_remove k s) Hcov').
      destruct (del_keys ks (s_remove k s)) as [n s'] eqn:D. simpl in *. rewrite <- IH.
      clear IH Hcov Hcov' D. induction ps as [|p ps IHp]; [contradiction|].
      inversion Hnd as [|? ? Hnotin Hnd']; subst. simpl.
      destruct (f k =? p) eqn:E.
      * apply N.eqb_eq in E. subst p. simpl. rewrite s_mem_pst, M, N.eqb_refl. simpl.
        rewrite <- pst_remove. fold (dsum ps (k :: ks) s). rewrite (dsum_skip ps k ks s Hnotin M).
        destruct (del_keys (flt ks (f k)) (pst (s_remove k s) (f k))) as [a b]. simpl.
        unfold dsum. lia.
      * destruct Hin as [->|Hin]; [now rewrite N.eqb_refl in E|].
        fold (dsum ps (k :: ks) s). rewrite (IHp Hnd' Hin).
        rewrite pst_remove, (s_remove_notin k (pst s p)) by (rewrite s_mem_pst, E; apply andb_false_r).
        simpl. unfold dsum. lia.
    + rewrite dsum_skip0 by exact M. now apply IH.
Qed.

Lemma exists_keys_pst ks s p : exists_keys (flt ks p) (pst s p) = exists_keys (flt ks p) s.
Proof.
  induction ks as [|k ks IH]; simpl; [reflexivity|].
  destruct (f k =? p) eqn:E; simpl; [|exact IH]. now rewrite s_mem_pst, E, andb_true_r, IH.
Qed.

Theorem esum_eq ps ks s :
  NoDup ps -> (forall k, In k ks -> In (f k) ps) -> esum ps ks s = exists_keys ks s.
Proof.
  intros Hnd. induction ks as [|k ks IH]; intros Hcov.
  - clear Hnd Hcov. unfold esum. induction ps as [|p ps IHp]; simpl; auto.
  - assert (Hcov' : forall x, In x ks -> In (f x) ps) by (intros; apply Hcov; now right).
    assert (Hin : In (f k) ps) by (apply Hcov; now left).
    simpl. rewrite <- (IH Hcov'). clear IH Hcov Hcov'.
    induction ps as [|p ps IHp]; [contradiction|].
    inversion Hnd as [|? ? Hnotin Hnd']; subst. simpl.
    destruct (f k =? p) eqn:E.
    + apply N.eqb_eq in E. subst p. simpl. rewrite s_mem_pst, N.eqb_refl, andb_true_r.
      assert (Hrest : esum ps (k :: ks) s = esum ps ks s).
      { clear IHp Hin Hnd' Hnd. induction ps as [|q ps IHq]; simpl; [reflexivity|].
        destruct (f k =? q) eqn:E2; [apply N.eqb_eq in E2; exfalso; apply Hnotin; now left|].
        f_equal. apply IHq. intros H; apply Hnotin; now right. }
      rewrite Hrest. lia.
    + destruct Hin as [->|Hin]; [now rewrite N.eqb_refl in E|].
      specialize (IHp Hnd' Hin). fold (esum ps (k :: ks) s). fold (esum ps ks s). rewrite IHp. lia.
Qed.
End Merged.

(* ---------- the merged replies of server/merge.go equal the single-store replies ---------- *)
Lemma merged_del_as_dsum pnum ks s :
  merged_del pnum ks s =
  dsum (fun k => part_of (route_key k) pnum) (map fst (group_keys pnum ks)) ks s.
Proof.
  unfold merged_del, dsum, group_keys.
  set (f := fun k => part_of (route_key k) pnum).
  assert (H : forall p m, In (p, m) (group_by f ks) -> m = flt f ks p).
  { intros p m Hin. now destruct (group_by_entries f ks p m Hin). }
  revert H. generalize (group_by f ks). induction g as [|[p m] g IH]; intros H; simpl; [reflexivity|].
  rewrite (H p m) by now left. unfold pstore, pst. f_equal. apply IH. intros; apply H; now right.
Qed.

Theorem merged_del_eq pnum ks s : merged_del pnum ks s = fst (del_keys ks s).
Proof.
  rewrite merged_del_as_dsum. apply dsum_eq.
  - apply (group_by_wf (fun k => part_of (route_key k) pnum)).
  - intros k Hin. destruct (group_by_covers (fun k => part_of (route_key k) pnum) ks k Hin) as [m [H _]].
    now apply (in_map fst) in H.
Qed.

Lemma merged_exists_as_esum pnum ks s :
  merged_exists pnum ks s =
  esum (fun k => part_of (route_key k) pnum) (map fst (group_keys pnum ks)) ks s.
Proof.
  unfold merged_exists, esum, group_keys.
  set (f := fun k => part_of (route_key k) pnum).
  assert (H : forall p m, In (p, m) (group_by f ks) -> m = flt f ks p).
  { intros p m Hin. now destruct (group_by_entries f ks p m Hin). }
  revert H. generalize (group_by f ks). induction g as [|[p m] g IH]; intros H; simpl; [reflexivity|].
  rewrite (H p m) by now left. unfold pstore, pst. f_equal. apply IH. intros; apply H; now right.
Qed.

Theorem merged_exists_eq pnum ks s : merged_exists pnum ks s = exists_keys ks s.
Proof.
  rewrite merged_exists_as_esum. apply esum_eq.
  - apply (group_by_wf (fun k => part_of (route_key k) pnum)).
  - intros k Hin. destruct (group_by_covers (fun k => part_of (route_key k) pnum) ks k Hin) as [m [H _]].
    now apply (in_map fst) in H.
Qed.

(* the union of the per-partition stores after the merged DEL is the single store after DEL *)
Theorem merged_del_store pnum ks s p :
  snd (del_keys (group_of p (group_keys pnum ks)) (pstore pnum s p)) =
  pstore pnum (snd (del_keys ks s)) p.
Proof.
  unfold group_keys. rewrite group_by_filter.
  apply (del_part (fun k => part_of (route_key k) pnum)).
Qed.

(* PLSET: one status per key/value pair; all OK when every partition succeeds *)
Theorem plset_reply_all_ok pnum kvs :
  plset_reply (fun _ => true) (group_kvs pnum kvs) = repeat true (length kvs).
Proof.
  unfold plset_reply, group_kvs.
  set (g := group_by _ kvs).
  assert (Hlen : length (concat (map snd g)) = length kvs)
    by (apply Permutation_length, group_by_perm).
  rewrite <- Hlen. clear Hlen. induction g as [|[p m] g IH]; simpl; [reflexivity|].
  rewrite app_length, repeat_app. now rewrite IH.
Qed.

Theorem plset_reply_length ok pnum kvs :
  length (plset_reply ok (group_kvs pnum kvs)) = length kvs.
Proof.
  unfold plset_reply, group_kvs.
  set (g := group_by _ kvs).
  assert (Hlen : length (concat (map snd g)) = length kvs)
    by (apply Permutation_length, group_by_perm).
  rewrite <- Hlen. clear Hlen. induction g as [|[p m] g IH]; simpl; [reflexivity|].
  now rewrite !app_length, repeat_length, IH.
Qed.

(* ---------- PLSET: the value read back from the owning partition equals the single-store value ---------- *)
Lemma apply_sets_rev l s : apply_sets l s = rev l ++ s.
Proof.
  unfold apply_sets. revert s; induction l as [|[k v] l IH]; intros s; simpl; [reflexivity|].
  rewrite IH. now rewrite <- app_assoc.
Qed.

Lemma kv_get_filter (g : bytes -> bool) k (l s : kvs) :
  g k = true ->
  kv_get k (filter (fun e => g (fst e)) l ++ s) = kv_get k (l ++ s).
Proof.
  intros Hg. induction l as [|[k' v] l IH]; simpl; [reflexivity|].
  destruct (g k') eqn:E; simpl.
  - now rewrite IH.
  - destruct (bytes_eqb k k') eqn:Ek; [|exact IH].
    apply bytes_eqb_eq in Ek. subst. congruence.
Qed.

Theorem plset_get_eq pnum l k : plset_get pnum l k = kv_get k (apply_sets l []).
Proof.
  unfold plset_get, group_kvs. rewrite group_by_filter, !apply_sets_rev, !app_nil_r.
  set (p := part_of (route_key k) pnum).
  rewrite <- (app_nil_r (rev (filter _ l))), <- (app_nil_r (rev l)).
  assert (H : rev (filter (fun a : bytes * bytes => part_of (route_key (fst a)) pnum =? p) l) =
              filter (fun e => (fun x => part_of (route_key x) pnum =? p) (fst e)) (rev l)).
  { clear. induction l as [|a l IH]; simpl; [reflexivity|].
    rewrite filter_app. simpl. destruct (part_of (route_key (fst a)) pnum =? p); simpl; now rewrite IH, ?app_nil_r. }
  rewrite H. apply (kv_get_filter (fun x => part_of (route_key x) pnum =? p)). apply N.eqb_refl.
Qed.

(* ---------- MGET: served by the owner of every key with the single-store values, or rejected ---------- *)
Lemma kv_get_pstore pnum s p k :
  part_of (route_key k) pnum = p -> kv_get k (kv_pstore pnum s p) = kv_get k s.
Proof.
  intros Hp. unfold kv_pstore.
  pose proof (kv_get_filter (fun x => part_of (route_key x) pnum =? p) k s []) as H.
  rewrite !app_nil_r in H. apply H. now apply N.eqb_eq.
Qed.

Theorem mget_route_owner pnum ks p :
  mget_route pnum ks = Some p -> ks <> [] /\ forall k, In k ks -> part_of (route_key k) pnum = p.
Proof.
  destruct ks as [|k0 r]; simpl; [discriminate|].
  destruct (forallb _ r) eqn:E; [|discriminate].
  intros H; injection H as <-. split; [discriminate|].
  intros k [<-|Hin]; [reflexivity|].
  rewrite forallb_forall in E. now apply N.eqb_eq, E.
Qed.

Theorem mget_route_none pnum ks :
  mget_route pnum ks = None <->
  ks = [] \/ exists k0 r k, ks = k0 :: r /\ In k r /\ part_of (route_key k) pnum <> part_of (route_key k0) pnum.
Proof.
  destruct ks as [|k0 r]; simpl.
  - split; [now left|reflexivity].
  - destruct (forallb _ r) eqn:E.
    + split; [discriminate|]. intros [H|(k0' & r' & k & Heq & Hin & Hne)]; [discriminate|].
      injection Heq as <- <-. rewrite forallb_forall in E. apply E in Hin. apply N.eqb_eq in Hin. contradiction.
    + split; [|reflexivity]. intros _. right.
      assert (Hex : exists k, In k r /\ (part_of (route_key k) pnum =? part_of (route_key k0) pnum) = false).
      { clear -E. induction r as [|a r IH]; simpl in E; [discriminate|].
        destruct (part_of (route_key a) pnum =? part_of (route_key k0) pnum) eqn:Ea.
        - destruct (IH E) as (k & Hin & Hk). exists k. split; [now right|exact Hk].
        - exists a. split; [now left|exact Ea]. }
      destruct Hex as (k & Hin & Hk). exists k0, r, k. repeat split; [exact Hin|]. now apply N.eqb_neq.
Qed.

Theorem mget_reply_single_store pnum ks s vs :
  mget_reply pnum ks s = Some vs -> vs = map (fun k => kv_get k s) ks.
Proof.
  unfold mget_reply. destruct (mget_route pnum ks) as [p|] eqn:E; [|discriminate].
  intros H; injection H as <-. apply mget_route_owner in E as [_ Hown].
  apply map_ext_in. intros k Hin. apply kv_get_pstore, Hown, Hin.
Qed.

(* ---------- merged commands under the per-partition size limit: the single-store count or an error ---------- *)
Theorem merged_exists_lim_eq lim pnum ks s c :
  merged_exists_lim lim pnum ks s = Some c -> c = exists_keys ks s.
Proof.
  unfold merged_exists_lim. destruct (merged_over_limit lim pnum ks); [discriminate|].
  intros H; injection H as <-. apply merged_exists_eq.
Qed.
Theorem merged_del_lim_eq lim pnum ks s c :
  merged_del_lim lim pnum ks s = Some c -> c = fst (del_keys ks s).
Proof.
  unfold merged_del_lim. destruct (merged_over_limit lim pnum ks); [discriminate|].
  intros H; injection H as <-. apply merged_del_eq.
Qed.
Theorem merged_lim_error_iff lim pnum ks s :
  merged_exists_lim lim pnum ks s = None <->
  exists p l, In (p, l) (group_keys pnum ks) /\ (lim < length l)%nat.
Proof.
  unfold merged_exists_lim, merged_over_limit.
  destruct (existsb _ (group_keys pnum ks)) eqn:E.
  - split; [|reflexivity]. intros _. apply existsb_exists in E as ([p l] & Hin & Hlt).
    exists p, l. split; [exact Hin|]. now apply Nat.ltb_lt.
  - split; [discriminate|]. intros (p & l & Hin & Hlt).
    assert (H : existsb (fun e : N * list bytes => Nat.ltb lim (length (snd e))) (group_keys pnum ks) = true).
    { apply existsb_exists. exists (p, l). split; [exact Hin|]. now apply Nat.ltb_lt. }
    congruence.
Qed.
