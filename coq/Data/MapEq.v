(* Data/MapEq.v — association lists as finite maps: extensional equality [meq], what put / delete / folds do
   to lookups, and why the sorted enumerations of two equal maps are the same list.  Used by the
   refinement proofs (C08). *)
From ZV Require Import Common.Bytes Common.BytesFacts Data.Base Data.BaseFacts.
From Coq Require Import Permutation Lia ZifyBool.
Open Scope Z_scope.

Section MEQ.
  Context {V : Type}.
  Notation get := (aget bytes_eqb).
  Notation put := (aput bytes_eqb).
  Notation del := (adel bytes_eqb).
  Notation mem := (amem bytes_eqb).

  Definition meq (a b : list (bytes * V)) : Prop :=
    NoDup (map fst a) /\ NoDup (map fst b) /\ forall k, get k a = get k b.

  Lemma meq_refl a : NoDup (map fst a) -> meq a a.
  Proof. intros H; repeat split; auto. Qed.
  Lemma meq_sym a b : meq a b -> meq b a.
  Proof. intros (x & y & z); repeat split; auto. Qed.
  Lemma meq_trans a b c : meq a b -> meq b c -> meq a c.
  Proof. intros (x & y & z) (x' & y' & z'); repeat split; auto. intros k; rewrite z; apply z'. Qed.

  Lemma get_put k k' v (a : list (bytes * V)) : get k' (put k v a) = if bytes_eqb k' k then Some v else get k' a.
  Proof.
    destruct (bytes_eqb k' k) eqn:E.
    - apply bytes_eqb_eq in E; subst. apply (aget_aput_eq bytes_eqb bytes_eqb_eq).
    - apply (aget_aput_ne bytes_eqb bytes_eqb_eq). intros ->. rewrite bytes_eqb_refl in E; discriminate.
  Qed.
  Lemma get_del k k' (a : list (bytes * V)) : NoDup (map fst a) ->
    get k' (del k a) = if bytes_eqb k' k then None else get k' a.
  Proof.
    intros ND. destruct (bytes_eqb k' k) eqn:E.
    - apply bytes_eqb_eq in E; subst. apply (aget_adel_eq bytes_eqb bytes_eqb_eq); exact ND.
    - apply (aget_adel_ne bytes_eqb bytes_eqb_eq). intros ->. rewrite bytes_eqb_refl in E; discriminate.
  Qed.

  Lemma meq_put k v a b : meq a b -> meq (put k v a) (put k v b).
  Proof.
    intros (x & y & z). repeat split; try (apply (nodup_aput bytes_eqb bytes_eqb_eq); assumption).
    intros k'. rewrite !get_put, z; reflexivity.
  Qed.
  Lemma meq_del k a b : meq a b -> meq (del k a) (del k b).
  Proof.
    intros (x & y & z). repeat split; try (apply (nodup_adel bytes_eqb); assumption).
    intros k'. rewrite !get_del, z; auto.
  Qed.
  Lemma meq_mem k a b : meq a b -> mem k a = mem k b.
  Proof. intros (_ & _ & z). unfold amem. rewrite z; reflexivity. Qed.

  Lemma meq_In a b : meq a b -> forall e, In e a <-> In e b.
  Proof.
    intros (x & y & z) [k v]. split; intros H.
    - apply (aget_In bytes_eqb bytes_eqb_eq). rewrite <- z. apply (In_aget_nodup bytes_eqb bytes_eqb_eq); assumption.
    - apply (aget_In bytes_eqb bytes_eqb_eq). rewrite z. apply (In_aget_nodup bytes_eqb bytes_eqb_eq); assumption.
  Qed.
  Lemma nodup_pairs (a : list (bytes * V)) : NoDup (map fst a) -> NoDup a.
  Proof. apply NoDup_map_inv. Qed.
  Lemma meq_perm a b : meq a b -> Permutation a b.
  Proof.
    intros M. pose proof M as (x & y & z). apply NoDup_Permutation; [apply nodup_pairs; exact x|apply nodup_pairs; exact y|].
    apply meq_In; exact M.
  Qed.
  Lemma meq_length a b : meq a b -> length a = length b.
  Proof. intros M. apply Permutation_length, meq_perm; exact M. Qed.
  Lemma meq_nil a : meq a [] -> a = [].
  Proof. intros M. apply meq_length in M. destruct a; [reflexivity|discriminate]. Qed.

  (* sorted enumeration by key *)
  Definition key_leb (x y : bytes * V) : bool := bytes_leb (fst x) (fst y).
  Lemma meq_sorted a b : meq a b -> isort key_leb a = isort key_leb b.
  Proof.
    intros M. pose proof M as (x & y & z). apply isort_canonical.
    - intros p q; apply bytes_leb_total.
    - intros p q r; apply bytes_leb_trans.
    - intros [k1 v1] [k2 v2] H1 H2 L1 L2. unfold key_leb in *. cbn in *.
      assert (k1 = k2) by (apply bytes_leb_antisym; assumption). subst k2.
      apply (In_aget_nodup bytes_eqb bytes_eqb_eq _ _ _ x) in H1. apply (In_aget_nodup bytes_eqb bytes_eqb_eq _ _ _ x) in H2.
      congruence.
    - apply meq_perm; exact M.
  Qed.

  (* folds of puts *)
  Lemma meq_fold_put (kvs : list (bytes * V)) : forall a b, meq a b ->
    meq (fold_left (fun h kv => put (fst kv) (snd kv) h) kvs a) (fold_left (fun h kv => put (fst kv) (snd kv) h) kvs b).
  Proof. induction kvs as [|kv r IH]; intros a b M; cbn; [exact M|]. apply IH, meq_put; exact M. Qed.

  (* the value of the LAST pair with that key *)
  Fixpoint alast (k : bytes) (kvs : list (bytes * V)) : option V :=
    match kvs with
    | [] => None
    | (k', v) :: r => match alast k r with Some x => Some x | None => if bytes_eqb k k' then Some v else None end
    end.
  Lemma get_fold_put (kvs : list (bytes * V)) : forall (a : list (bytes * V)) k,
    get k (fold_left (fun h kv => put (fst kv) (snd kv) h) kvs a) = match alast k kvs with Some x => Some x | None => get k a end.
  Proof.
    induction kvs as [|[k' v] r IH]; intros a k; cbn; [reflexivity|].
    rewrite IH. destruct (alast k r); [reflexivity|]. rewrite get_put. destruct (bytes_eqb k k'); reflexivity.
  Qed.
  Lemma nodup_fold_put (kvs : list (bytes * V)) : forall a : list (bytes * V), NoDup (map fst a) ->
    NoDup (map fst (fold_left (fun h kv => put (fst kv) (snd kv) h) kvs a)).
  Proof.
    induction kvs as [|kv r IH]; intros a ND; cbn; [exact ND|]. apply IH, (nodup_aput bytes_eqb bytes_eqb_eq); exact ND.
  Qed.
  Lemma alast_notin k (kvs : list (bytes * V)) : ~ In k (map fst kvs) -> alast k kvs = None.
  Proof.
    induction kvs as [|[k' v] r IH]; cbn; intros H; [reflexivity|].
    rewrite IH by tauto. destruct (bytes_eqb k k') eqn:E; [apply bytes_eqb_eq in E; subst; tauto|reflexivity].
  Qed.
  Lemma alast_last_wins k (kvs : list (bytes * V)) : alast k (last_wins kvs) = alast k kvs.
  Proof.
    induction kvs as [|[k' v] r IH]; cbn; [reflexivity|].
    destruct (bytes_mem k' (map fst r)) eqn:E.
    - rewrite IH. destruct (alast k r) eqn:A; [reflexivity|].
      destruct (bytes_eqb k k') eqn:E2; [|reflexivity]. apply bytes_eqb_eq in E2; subst.
      (* k' occurs later, so alast k' r is not None *)
      exfalso. apply bytes_mem_In in E. clear - E A. induction r as [|[a b] r IH]; cbn in *; [tauto|].
      destruct (alast k' r) eqn:Q; [discriminate|]. destruct (bytes_eqb k' a) eqn:Q2; [discriminate|].
      destruct E as [E|E]; [subst; rewrite bytes_eqb_refl in Q2; discriminate|auto].
    - cbn. rewrite IH. reflexivity.
  Qed.
End MEQ.

(* sorting commutes with a map that preserves the order *)
Lemma isort_map {A B} (la : A -> A -> bool) (lb : B -> B -> bool) (f : A -> B) :
  (forall x y, lb (f x) (f y) = la x y) -> forall l, map f (isort la l) = isort lb (map f l).
Proof.
  intros H. assert (I : forall x l, map f (insert_sorted la x l) = insert_sorted lb (f x) (map f l)).
  { intros x l. induction l as [|y r IH]; cbn; [reflexivity|]. rewrite H. destruct (la x y); cbn; [reflexivity|]. rewrite IH; reflexivity. }
  induction l as [|x r IH]; [reflexivity|].
  change (isort la (x :: r)) with (insert_sorted la x (isort la r)). rewrite I, IH. reflexivity.
Qed.
