(* Data/SpecK.v — strings in the reference model: Redis semantics on a map key -> (expiry second, value).
   Written from the Redis command reference (SET, SETNX, SETEX, GETSET, INCR, INCRBY, APPEND, SETRANGE, DEL,
   EXPIRE, PERSIST, TTL, GET, MGET, GETRANGE, STRLEN, EXISTS):
     * INCR/INCRBY refuse a non-integer value and an overflowing sum;
     * APPEND / SETRANGE reply the new length; with an empty argument the current length (APPEND creates
       the empty string on a missing key, SETRANGE does not create it);
     * SETRANGE pads with zero bytes; GETRANGE clamps like redis (negative end clamps to 0) and replies
       the empty string for an empty range;
     * DEL counts every existing key once, EXISTS counts with multiplicity;
     * expiry (wait_compact policy; second granularity): a key whose expiry second is not after the
       second of the command's clock is ABSENT for that command (raft entry timestamp for a write,
       wall clock of the serving node for a read).  SET / SETEX / GETSET replace the expiry, the other
       writes keep the expiry of a present key and start without one on an absent key.  The entry of
       an absent-by-expiry key stays in the map until a write replaces it (it stays absent: clocks
       do not go back), which is the lazy deletion of Redis itself.
       Declared reply conventions of the TTL family (ZanRedisDB, not Redis): TTL replies -1 for a
       missing key as well (Redis: -2); PERSIST replies 1 for every present key (Redis: 0 without
       expiry); SETEX refuses a non-positive time; an expiry second beyond the 32 bit header field
       is refused; EXPIRE with a time reaching before the epoch expires the key at once.
     * local_deletion policy (documented in doc/user-guide.md): expiry is not visible to commands
       (keys are removed later by a background sweep: property C10), TTL is -1, PERSIST is refused.
   The SET reply of the state machine is the integer 1 (the node layer rewrites it to OK).
   No proofs in this file. *)
From ZV Require Export Data.Base.
From ZV Require Import Data.Consts Data.Exp Data.MapK.
Open Scope Z_scope.

Definition sval := (Z * bytes)%type.
Definition sstore := list (bytes * sval).

(* the entry of a key that is present at clock t *)
Definition present (compact : bool) (t : Z) (k : bytes) (m : sstore) : option sval :=
  match aget bytes_eqb k m with
  | Some (e, v) => if dead compact e t then None else Some (e, v)
  | None => None
  end.
Definition value_at (compact : bool) (t : Z) (k : bytes) (m : sstore) : option bytes :=
  match present compact t k m with Some (_, v) => Some v | None => None end.
Definition expiry_at (compact : bool) (t : Z) (k : bytes) (m : sstore) : Z :=
  match present compact t k m with Some (e, _) => e | None => 0 end.
Definition is_present (compact : bool) (t : Z) (m : sstore) (k : bytes) : bool :=
  match present compact t k m with Some _ => true | None => false end.

Fixpoint del_keys (compact : bool) (t : Z) (ks : list bytes) (m : sstore) : sstore * Z :=
  match ks with
  | [] => (m, 0)
  | k :: r => if key_ok k && amem bytes_eqb k m
              then let '(m', n) := del_keys compact t r (adel bytes_eqb k m) in
                   (m', if is_present compact t m k then n + 1 else n)
              else del_keys compact t r m
  end.

Definition kstep (compact : bool) (ts : Z) (c : kcmd) (m : sstore) : sstore * reply :=
  let val k := value_at compact ts k m in
  let keep k := expiry_at compact ts k m in
  match c with
  | KCinvalid => (m, RErr)
  | KCset k v => if negb (key_ok k) || negb (value_ok v) then (m, RErr) else (aput bytes_eqb k (0, v) m, RInt 1)
  | KCsetopt k v dur nx xx =>
      (* SET key value [EX seconds] [NX|XX]: NX writes only an absent key, XX only a present one; the expiry is
         replaced (EX) or removed; reply 1 = written, 0 = condition not met *)
      if negb (value_ok v) || negb (key_ok k) then (m, RErr)
      else if (nx && is_present compact ts m k) || (xx && negb (is_present compact ts m k)) then (m, RInt 0)
      else if 0 <? dur then
        if compact then
          if when_overflows (sec_of ts + dur) then (m, RErr) else (aput bytes_eqb k (sec_of ts + dur, v) m, RInt 1)
        else if int64_max <? sec_of ts + dur then (m, RErr) else (aput bytes_eqb k (0, v) m, RInt 1)
      else (aput bytes_eqb k (0, v) m, RInt 1)
  | KCsetex k dur v =>
      if (dur <=? 0) || negb (key_ok k) || negb (value_ok v) then (m, RErr)
      else if compact then
        if when_overflows (sec_of ts + dur) then (m, RErr) else (aput bytes_eqb k (sec_of ts + dur, v) m, RNil)
      else if int64_max <? sec_of ts + dur then (m, RErr) else (aput bytes_eqb k (0, v) m, RNil)
  | KCsetnx k v =>
      if negb (value_ok v) || negb (key_ok k) then (m, RErr)
      else if is_present compact ts m k then (m, RInt 0) else (aput bytes_eqb k (0, v) m, RInt 1)
  | KCgetset k v =>
      if negb (value_ok v) || negb (key_ok k) then (m, RErr)
      else (aput bytes_eqb k (0, v) m, ropt (val k))
  | KCincrby k d =>
      if negb (key_ok k) then (m, RErr)
      else match (match val k with Some b => parse_int64 b | None => Some 0 end) with
           | None => (m, RErr)
           | Some n0 => if negb (in_int64 (n0 + d)) then (m, RErr)
                        else (aput bytes_eqb k (keep k, format_int (n0 + d)) m, RInt (n0 + d))
           end
  | KCappend k v =>
      if negb (key_ok k) then (m, RErr)
      else let old := match val k with Some b => b | None => [] end in
           match val k, v with
           | Some _, [] => (m, RInt (blen old))
           | _, _ => if max_value_size <? blen old + blen v then (m, RErr)
                     else (aput bytes_eqb k (keep k, old ++ v) m, RInt (blen old + blen v))
           end
  | KCsetrange k off v =>
      let old := match val k with Some b => b | None => [] end in
      if (off <? 0) || (max_value_size <? off) then (m, RErr)
      else match v with
      | [] => if negb (key_ok k) then (m, RErr) else (m, RInt (blen old))
      | _ => if (max_value_size <? blen v + off) || negb (key_ok k) then (m, RErr)
             else let nv := set_range old (Z.to_nat off) v in (aput bytes_eqb k (keep k, nv) m, RInt (blen nv))
      end
  | KCdel ks => let '(m', n) := del_keys compact ts ks m in (m', RInt n)
  | KCexpire k dur =>
      if negb (key_ok k) then (m, RErr)
      else match present compact ts k m with
           | None => (m, RInt 0)
           | Some (_, v) =>
               if compact then
                 if when_overflows (expire_when ts dur) then (m, RErr)
                 else (aput bytes_eqb k (expire_when ts dur, v) m, RInt 1)
               else if int64_max <? sec_of ts + dur then (m, RErr) else (m, RInt 1)
           end
  | KCpersist k =>
      if negb (key_ok k) then (m, RErr)
      else match present compact ts k m with
           | None => (m, RInt 0)
           | Some (_, v) => if compact then (aput bytes_eqb k (0, v) m, RInt 1) else (m, RErr)
           end
  end.

Definition kquery (compact : bool) (now : Z) (q : kqry) (m : sstore) : reply :=
  let val k := value_at compact now k m in
  match q with
  | KQinvalid => RErr
  | KQget k => if negb (key_ok k) then RErr else ropt (val k)
  | KQstrlen k => if negb (key_ok k) then RErr
                  else RInt (match val k with Some b => blen b | None => 0 end)
  | KQexists ks =>
      match ks with
      | [k] => if negb (key_ok k) then RErr else rbool (is_present compact now m k)
      | _ => RInt (Z.of_nat (length (filter (fun k => key_ok k && is_present compact now m k) ks)))
      end
  | KQmget ks => RArr (map (fun k => if key_ok k then ropt (val k) else RNil) ks)
  | KQgetrange k s e =>
      if negb (key_ok k) then RErr
      else RBulk (get_range (match val k with Some b => b | None => [] end) s e)
  | KQttl k =>
      if negb compact then RInt (-1)
      else if negb (key_ok k) then RErr
      else RInt (ttl_of (expiry_at compact now k m) now)
  end.
