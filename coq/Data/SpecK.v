(* Data/SpecK.v — strings in the reference model: Redis semantics on a map key -> value.
   Written from the Redis command reference (SET, SETNX, GETSET, INCR, INCRBY, APPEND, SETRANGE, DEL, GET,
   MGET, GETRANGE, STRLEN, EXISTS):
     * INCR/INCRBY refuse a non-integer value and an overflowing sum;
     * APPEND / SETRANGE reply the new length; with an empty argument the current length (APPEND creates
       the empty string on a missing key, SETRANGE does not create it);
     * SETRANGE pads with zero bytes; GETRANGE clamps like redis (negative end clamps to 0) and replies
       the empty string for an empty range;
     * DEL counts every existing key once, EXISTS counts with multiplicity.
   The SET reply of the state machine is the integer 1 (the node layer rewrites it to OK).
   No proofs in this file. *)
From ZV Require Export Data.Base.
From ZV Require Import Data.Consts Data.MapK.
Open Scope Z_scope.

Definition sstore := list (bytes * bytes).

Fixpoint del_keys (ks : list bytes) (m : sstore) : sstore * Z :=
  match ks with
  | [] => (m, 0)
  | k :: r => if key_ok k && amem bytes_eqb k m
              then let '(m', n) := del_keys r (adel bytes_eqb k m) in (m', n + 1)
              else del_keys r m
  end.

Definition kstep (c : kcmd) (m : sstore) : sstore * reply :=
  match c with
  | KCinvalid => (m, RErr)
  | KCset k v => if negb (key_ok k) || negb (value_ok v) then (m, RErr) else (aput bytes_eqb k v m, RInt 1)
  | KCsetnx k v =>
      if negb (value_ok v) || negb (key_ok k) then (m, RErr)
      else if amem bytes_eqb k m then (m, RInt 0) else (aput bytes_eqb k v m, RInt 1)
  | KCgetset k v =>
      if negb (value_ok v) || negb (key_ok k) then (m, RErr)
      else (aput bytes_eqb k v m, ropt (aget bytes_eqb k m))
  | KCincrby k d =>
      if negb (key_ok k) then (m, RErr)
      else match (match aget bytes_eqb k m with Some b => parse_int64 b | None => Some 0 end) with
           | None => (m, RErr)
           | Some n0 => if negb (in_int64 (n0 + d)) then (m, RErr)
                        else (aput bytes_eqb k (format_int (n0 + d)) m, RInt (n0 + d))
           end
  | KCappend k v =>
      if negb (key_ok k) then (m, RErr)
      else let old := match aget bytes_eqb k m with Some b => b | None => [] end in
           match aget bytes_eqb k m, v with
           | Some _, [] => (m, RInt (blen old))
           | _, _ => if max_value_size <? blen old + blen v then (m, RErr)
                     else (aput bytes_eqb k (old ++ v) m, RInt (blen old + blen v))
           end
  | KCsetrange k off v =>
      let old := match aget bytes_eqb k m with Some b => b | None => [] end in
      if (off <? 0) || (max_value_size <? off) then (m, RErr)
      else match v with
      | [] => if negb (key_ok k) then (m, RErr) else (m, RInt (blen old))
      | _ => if (max_value_size <? blen v + off) || negb (key_ok k) then (m, RErr)
             else let nv := set_range old (Z.to_nat off) v in (aput bytes_eqb k nv m, RInt (blen nv))
      end
  | KCdel ks => let '(m', n) := del_keys ks m in (m', RInt n)
  end.

Definition kquery (q : kqry) (m : sstore) : reply :=
  match q with
  | KQinvalid => RErr
  | KQget k => if negb (key_ok k) then RErr else ropt (aget bytes_eqb k m)
  | KQstrlen k => if negb (key_ok k) then RErr
                  else RInt (match aget bytes_eqb k m with Some b => blen b | None => 0 end)
  | KQexists ks =>
      match ks with
      | [k] => if negb (key_ok k) then RErr else rbool (amem bytes_eqb k m)
      | _ => RInt (Z.of_nat (length (filter (fun k => key_ok k && amem bytes_eqb k m) ks)))
      end
  | KQmget ks => RArr (map (fun k => if key_ok k then ropt (aget bytes_eqb k m) else RNil) ks)
  | KQgetrange k s e =>
      if negb (key_ok k) then RErr
      else RBulk (get_range (match aget bytes_eqb k m with Some b => b | None => [] end) s e)
  end.
