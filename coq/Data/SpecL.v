(* Data/SpecL.v — lists in the reference model: Redis semantics on a list of values.
   Written from the Redis command reference (LPUSH, RPUSH, LPOP, RPOP, LSET, LTRIM, LRANGE, LINDEX, LLEN):
     * LPUSH k a b c leaves c at the head;
     * index normalisation of LRANGE / LTRIM: negative indexes count from the end, start clamped to 0,
       stop clamped to the last index, empty when start > stop or start >= length;
     * LSET on a missing key or an index out of range is an error; LINDEX out of range is nil.
   ZanRedisDB's documented deviation (user-guide item 6): LRANGE of more than 5000 elements is refused.
   Extension commands LCLEAR / LKEYEXIST.  No proofs in this file. *)
From ZV Require Export Data.Base.
From ZV Require Import Data.Consts Data.MapL Data.Spec.
Open Scope Z_scope.

Definition slist := list bytes.

(* Redis index normalisation: Some (start, stop) inclusive, or None = empty range *)
Definition norm_range (len start stop : Z) : option (Z * Z) :=
  let start := if start <? 0 then len + start else start in
  let stop := if stop <? 0 then len + stop else stop in
  let start := if start <? 0 then 0 else start in
  if (stop <? start) || (len <=? start) then None
  else Some (start, if len <=? stop then len - 1 else stop).
Definition lslice {A} (start stop : Z) (l : list A) : list A :=
  firstn (Z.to_nat (stop - start + 1)) (skipn (Z.to_nat start) l).
(* index of LINDEX / LSET: None = out of range *)
Definition norm_index (len i : Z) : option Z :=
  let j := if i <? 0 then len + i else i in
  if (j <? 0) || (len <=? j) then None else Some j.
Fixpoint set_nth {A} (n : nat) (x : A) (l : list A) : list A :=
  match l, n with
  | [], _ => []
  | _ :: r, O => x :: r
  | y :: r, S k => y :: set_nth k x r
  end.

Definition lstep (key : bytes) (c : lcmd) (l : slist) : slist * reply :=
  match c with
  | LCinvalid => (l, RErr)
  | LCfixkey => (l, RNil)                  (* ZanRedisDB's repair command: nothing to repair in the reference model *)
  | LCpush tail vs =>
      if too_many vs then (l, RErr)
      else if negb (key_ok key) then (l, RErr)
      else let l' := if tail then l ++ vs else List.rev vs ++ l in (l', RInt (size_of l'))
  | LCpop tail =>
      if negb (key_ok key) then (l, RErr)
      else if tail then
        match List.rev l with [] => (l, RNil) | x :: r => (List.rev r, RBulk x) end
      else
        match l with [] => (l, RNil) | x :: r => (r, RBulk x) end
  | LCset i x =>
      if negb (key_ok key) then (l, RErr)
      else match norm_index (size_of l) i with
           | None => (l, RErr)
           | Some j => (set_nth (Z.to_nat j) x l, RNil)
           end
  | LCtrim start stop =>
      if negb (key_ok key) then (l, RErr)
      else match norm_range (size_of l) start stop with
           | None => ([], RNil)
           | Some (a, b) => (lslice a b l, RNil)
           end
  | LCclear =>
      if negb (key_ok key) then (l, RErr)
      else match l with [] => (l, RInt 0) | _ => ([], RInt 1) end
  end.

Definition lquery (key : bytes) (q : lqry) (l : slist) : reply :=
  match q with
  | LQinvalid => RErr
  | LQlen => if negb (key_ok key) then RErr else RInt (size_of l)
  | LQkeyexist => if negb (key_ok key) then RErr else rbool (negb (Nat.eqb (length l) 0))
  | LQindex i =>
      if negb (key_ok key) then RNil
      else match norm_index (size_of l) i with
           | None => RNil
           | Some j => ropt (nth_error l (Z.to_nat j))
           end
  | LQrange start stop =>
      if negb (key_ok key) then RErr
      else match norm_range (size_of l) start stop with
           | None => RArr []
           | Some (a, b) => if max_batch_num <? b - a + 1 then RErr else rbulks (lslice a b l)
           end
  end.
