(* Data/Run.v — command syntax, argument parsing and dispatch for the two data models.
   A state holds one record per (type, "table:key"); a command touches the record of its key.
   Transcribed dispatch / argument handling:
     node/node_cmd_reg.go registerHandlers (write commands reaching the state machine), registerHandler (reads)
     node/hash.go node/set.go node/zset.go node/list.go node/keys.go  local*Command and read handlers
   (the numeric arguments are parsed as the handlers do: strconv.ParseInt / Atoi / ParseFloat).
   The same command value is run by BOTH models (map_step / spec_step); the extracted driver prints
   the Map reply and flags any difference with the Spec reply.
   No proofs in this file. *)
From ZV Require Export Data.Base.
From ZV Require Import Data.Consts Data.Map Data.Spec Data.MapZ Data.SpecZ Data.MapL Data.SpecL Data.MapK Data.SpecK.
Open Scope Z_scope.

Inductive cmd :=
(* hash *)
| CHset (nx : bool) (key f x : bytes)
| CHmset (key : bytes) (fvs : list (bytes * bytes))
| CHdel (key : bytes) (fs : list bytes)
| CHincrby (key f : bytes) (d : Z)
| CHclear (key : bytes)
| QHlen (key : bytes) | QHget (key f : bytes) | QHexists (key f : bytes) | QHmget (key : bytes) (fs : list bytes)
| QHgetall (key : bytes) | QHkeys (key : bytes) | QHvals (key : bytes) | QHkeyexist (key : bytes)
(* set *)
| CSadd (key : bytes) (ms : list bytes)
| CSrem (key : bytes) (ms : list bytes)
| CSpop (key : bytes) (count : option Z)
| CSclear (key : bytes)
| QScard (key : bytes) | QSismember (key m : bytes) | QSmembers (key : bytes)
| QSrandmember (key : bytes) (count : Z) | QSkeyexist (key : bytes)
(* zset *)
| CZ (key : bytes) (c : zcmd)
| QZ (key : bytes) (q : zqry)
(* list *)
| CL (key : bytes) (c : lcmd)
| QL (key : bytes) (q : lqry)
(* kv *)
| CK (c : kcmd)
| QK (q : kqry).

(* ---------- states ---------- *)
Record mstate := {
  m_hash : list (bytes * hcoll);
  m_set : list (bytes * scoll);
  m_zset : list (bytes * zcoll);
  m_list : list (bytes * lcoll);
  m_kv : list (bytes * kvrec) }.
Record sstate := {
  s_hash : list (bytes * shash);
  s_set : list (bytes * sset);
  s_zset : list (bytes * szset);
  s_list : list (bytes * slist);
  s_kv : list (bytes * bytes) }.
Definition m_init : mstate := Build_mstate [] [] [] [] [].
Definition s_init : sstate := Build_sstate [] [] [] [] [].

Definition alook {V} (d : V) (k : bytes) (m : list (bytes * V)) : V :=
  match aget bytes_eqb k m with Some v => v | None => d end.
Definition aupd {V R} (d : V) (k : bytes) (f : V -> V * R) (m : list (bytes * V)) : list (bytes * V) * R :=
  let '(v', r) := f (alook d k m) in (aput bytes_eqb k v' m, r).

(* ---------- one step of the Map model ---------- *)
Definition map_step (compact : bool) (ts : Z) (c : cmd) (s : mstate) : mstate * reply :=
  let H f key := let '(m, r) := aupd empty_coll key f (m_hash s) in
                 (Build_mstate m (m_set s) (m_zset s) (m_list s) (m_kv s), r) in
  let S f key := let '(m, r) := aupd empty_coll key f (m_set s) in
                 (Build_mstate (m_hash s) m (m_zset s) (m_list s) (m_kv s), r) in
  let hq key (f : hcoll -> reply) := (s, f (alook empty_coll key (m_hash s))) in
  let sq key (f : scoll -> reply) := (s, f (alook empty_coll key (m_set s))) in
  match c with
  | CHset nx key f x => H (Map.hset compact ts nx key f x) key
  | CHmset key fvs => H (Map.hmset compact ts key fvs) key
  | CHdel key fs => H (Map.hdel key fs) key
  | CHincrby key f d => H (Map.hincrby compact ts key f d) key
  | CHclear key => H (Map.hclear compact key) key
  | QHlen key => hq key (Map.hlen key)
  | QHget key f => hq key (Map.hget key f)
  | QHexists key f => hq key (Map.hexists key f)
  | QHmget key fs => hq key (Map.hmget key fs)
  | QHgetall key => hq key (Map.hgetall key)
  | QHkeys key => hq key (Map.hkeys key)
  | QHvals key => hq key (Map.hvals key)
  | QHkeyexist key => hq key (Map.hkeyexist key)
  | CSadd key ms => S (Map.sadd compact ts key ms) key
  | CSrem key ms => S (Map.srem key ms) key
  | CSpop key n => S (Map.spop key n) key
  | CSclear key => S (Map.sclear compact key) key
  | QScard key => sq key (Map.scard key)
  | QSismember key m => sq key (Map.sismember key m)
  | QSmembers key => sq key (Map.smembers key)
  | QSrandmember key n => sq key (Map.srandmember key n)
  | QSkeyexist key => sq key (Map.skeyexist key)
  | CZ key zc => let '(m, r) := aupd empty_zcoll key (MapZ.zstep compact ts key zc) (m_zset s) in
                 (Build_mstate (m_hash s) (m_set s) m (m_list s) (m_kv s), r)
  | QZ key q => (s, MapZ.zquery key q (alook empty_zcoll key (m_zset s)))
  | CL key lc => let '(m, r) := aupd empty_lcoll key (MapL.lstep compact ts key lc) (m_list s) in
                 (Build_mstate (m_hash s) (m_set s) (m_zset s) m (m_kv s), r)
  | QL key q => (s, MapL.lquery key q (alook empty_lcoll key (m_list s)))
  | CK kc => let '(m, r) := MapK.kstep ts kc (m_kv s) in
             (Build_mstate (m_hash s) (m_set s) (m_zset s) (m_list s) m, r)
  | QK q => (s, MapK.kquery q (m_kv s))
  end.

(* ---------- one step of the Spec model ---------- *)
Definition spec_step (c : cmd) (s : sstate) : sstate * reply :=
  let H f key := let '(m, r) := aupd [] key f (s_hash s) in
                 (Build_sstate m (s_set s) (s_zset s) (s_list s) (s_kv s), r) in
  let S f key := let '(m, r) := aupd [] key f (s_set s) in
                 (Build_sstate (s_hash s) m (s_zset s) (s_list s) (s_kv s), r) in
  let hq key (f : shash -> reply) := (s, f (alook [] key (s_hash s))) in
  let sq key (f : sset -> reply) := (s, f (alook [] key (s_set s))) in
  match c with
  | CHset nx key f x => H (Spec.hset nx key f x) key
  | CHmset key fvs => H (Spec.hmset key fvs) key
  | CHdel key fs => H (Spec.hdel key fs) key
  | CHincrby key f d => H (Spec.hincrby key f d) key
  | CHclear key => H (Spec.hclear key) key
  | QHlen key => hq key (Spec.hlen key)
  | QHget key f => hq key (Spec.hget key f)
  | QHexists key f => hq key (Spec.hexists key f)
  | QHmget key fs => hq key (Spec.hmget key fs)
  | QHgetall key => hq key (Spec.hgetall key)
  | QHkeys key => hq key (Spec.hkeys key)
  | QHvals key => hq key (Spec.hvals key)
  | QHkeyexist key => hq key (Spec.hkeyexist key)
  | CSadd key ms => S (Spec.sadd key ms) key
  | CSrem key ms => S (Spec.srem key ms) key
  | CSpop key n => S (Spec.spop key n) key
  | CSclear key => S (Spec.sclear key) key
  | QScard key => sq key (Spec.scard key)
  | QSismember key m => sq key (Spec.sismember key m)
  | QSmembers key => sq key (Spec.smembers key)
  | QSrandmember key n => sq key (Spec.srandmember key n)
  | QSkeyexist key => sq key (Spec.skeyexist key)
  | CZ key zc => let '(m, r) := aupd [] key (SpecZ.zstep key zc) (s_zset s) in
                 (Build_sstate (s_hash s) (s_set s) m (s_list s) (s_kv s), r)
  | QZ key q => (s, SpecZ.zquery key q (alook [] key (s_zset s)))
  | CL key lc => let '(m, r) := aupd [] key (SpecL.lstep key lc) (s_list s) in
                 (Build_sstate (s_hash s) (s_set s) (s_zset s) m (s_kv s), r)
  | QL key q => (s, SpecL.lquery key q (alook [] key (s_list s)))
  | CK kc => let '(m, r) := SpecK.kstep kc (s_kv s) in
             (Build_sstate (s_hash s) (s_set s) (s_zset s) (s_list s) m, r)
  | QK q => (s, SpecK.kquery q (s_kv s))
  end.

(* ---------- argument parsing (what the handlers do with cmd.Args) ---------- *)
Definition lower_bytes (b : bytes) : bytes := map lower b.
Fixpoint pairs_of (l : list bytes) : option (list (bytes * bytes)) :=
  match l with
  | [] => Some []
  | a :: b :: r => match pairs_of r with Some p => Some ((a, b) :: p) | None => None end
  | _ => None
  end.

(* command names as byte strings *)
Local Open Scope N_scope.
Definition nm (l : list N) : bytes := l.
Definition is (name : bytes) (l : list N) : bool := bytes_eqb name l.

Definition parse_cmd (args : list bytes) : option cmd :=
  match args with
  | name :: key :: rest =>
      let n := lower_bytes name in
      (* hash *)
      if is n [104;115;101;116] then match rest with [f; x] => Some (CHset false key f x) | _ => None end
      else if is n [104;115;101;116;110;120] then match rest with [f; x] => Some (CHset true key f x) | _ => None end
      else if is n [104;109;115;101;116] then match pairs_of rest with Some p => Some (CHmset key p) | None => None end
      else if is n [104;100;101;108] then Some (CHdel key rest)
      else if is n [104;105;110;99;114;98;121] then
        match rest with [f; d] => match parse_int64 d with Some z => Some (CHincrby key f z) | None => None end | _ => None end
      else if is n [104;99;108;101;97;114] then match rest with [] => Some (CHclear key) | _ => None end
      else if is n [104;108;101;110] then match rest with [] => Some (QHlen key) | _ => None end
      else if is n [104;103;101;116] then match rest with [f] => Some (QHget key f) | _ => None end
      else if is n [104;101;120;105;115;116;115] then match rest with [f] => Some (QHexists key f) | _ => None end
      else if is n [104;109;103;101;116] then match rest with [] => None | _ => Some (QHmget key rest) end
      else if is n [104;103;101;116;97;108;108] then match rest with [] => Some (QHgetall key) | _ => None end
      else if is n [104;107;101;121;115] then match rest with [] => Some (QHkeys key) | _ => None end
      else if is n [104;118;97;108;115] then match rest with [] => Some (QHvals key) | _ => None end
      else if is n [104;107;101;121;101;120;105;115;116] then match rest with [] => Some (QHkeyexist key) | _ => None end
      (* set *)
      else if is n [115;97;100;100] then Some (CSadd key rest)
      else if is n [115;114;101;109] then Some (CSrem key rest)
      else if is n [115;112;111;112] then
        match rest with
        | [] => Some (CSpop key None)
        | [c] => match parse_int64 c with Some z => Some (CSpop key (Some z)) | None => None end
        | _ => None
        end
      else if is n [115;99;108;101;97;114] then match rest with [] => Some (CSclear key) | _ => None end
      else if is n [115;99;97;114;100] then match rest with [] => Some (QScard key) | _ => None end
      else if is n [115;105;115;109;101;109;98;101;114] then match rest with [m] => Some (QSismember key m) | _ => None end
      else if is n [115;109;101;109;98;101;114;115] then match rest with [] => Some (QSmembers key) | _ => None end
      else if is n [115;114;97;110;100;109;101;109;98;101;114] then
        match rest with
        | [] => Some (QSrandmember key 1%Z)
        | [c] => match parse_int64 c with Some z => Some (QSrandmember key z) | None => None end
        | _ => None
        end
      else if is n [115;107;101;121;101;120;105;115;116] then match rest with [] => Some (QSkeyexist key) | _ => None end
      else
        match MapZ.parse_z n rest with
        | Some (inl zc) => Some (CZ key zc)
        | Some (inr q) => Some (QZ key q)
        | None =>
          match MapL.parse_l n rest with
          | Some (inl lc) => Some (CL key lc)
          | Some (inr q) => Some (QL key q)
          | None =>
            match MapK.parse_k n (key :: rest) with
            | Some (inl kc) => Some (CK kc)
            | Some (inr q) => Some (QK q)
            | None => None
            end
          end
        end
  | _ => None
  end.

Local Close Scope N_scope.

(* ---------- the C09 observation: every read view of one collection ---------- *)
(* parts in the order the harness prints them; each part is a list of replies *)
Definition elems_of (r : reply) : list reply := match r with RArr l => l | _ => [] end.
Fixpoint evens {A} (l : list A) : list A :=
  match l with a :: _ :: r => a :: evens r | _ => [] end.
Definition bulk_of (r : reply) : bytes := match r with RBulk b => b | _ => [] end.

Definition observe_with {S} (step : cmd -> S -> S * reply) (t : N) (key : bytes) (s : S) : list (list reply) :=
  let q c := snd (step c s) in
  if (t =? 72)%N then (* H *)
    let all := q (QHgetall key) in
    [ [q (QHlen key)]; [q (QHkeyexist key)]; [all]; [q (QHkeys key)]; [q (QHvals key)];
      map (fun f => q (QHget key (bulk_of f))) (evens (elems_of all)); [RInt (-1)] ]
  else if (t =? 83)%N then (* S *)
    let mem := q (QSmembers key) in
    [ [q (QScard key)]; [q (QSkeyexist key)]; [mem];
      map (fun m => q (QSismember key (bulk_of m))) (elems_of mem); [RInt (-1)] ]
  else if (t =? 90)%N then (* Z *)
    let rg := q (QZ key (ZQrange false 0 (-1) false)) in
    [ [q (QZ key ZQcard)]; [q (QZ key ZQkeyexist)];
      [q (QZ key (ZQrange false 0 (-1) true))];
      [q (QZ key (ZQrangebyscore false (SNInf, false) (SPInf, false) true 0 (-1)))];
      [q (QZ key (ZQrangebylex None None false false 0 (-1)))];
      map (fun m => q (QZ key (ZQscore (bulk_of m)))) (elems_of rg); [RInt (-1)] ]
  else if (t =? 76)%N then (* L *)
    let rg := q (QL key (LQrange 0 (-1))) in
    [ [q (QL key LQlen)]; [q (QL key LQkeyexist)]; [rg];
      map (fun i => q (QL key (LQindex (Z.of_nat i)))) (seq 0 (length (elems_of rg))); [RInt (-1)] ]
  else (* K *)
    [ [q (QK (KQget key))]; [q (QK (KQstrlen key))]; [q (QK (KQexists [key]))]; [RInt (-1)] ].

Definition map_observe (t : N) (key : bytes) (s : mstate) := observe_with (map_step false 0) t key s.
Definition spec_observe (t : N) (key : bytes) (s : sstate) := observe_with spec_step t key s.

(* ---------- running a whole sequence (used by the theorems) ---------- *)
Definition map_run (compact : bool) (cs : list (Z * cmd)) (s : mstate) : mstate :=
  fold_left (fun s tc => fst (map_step compact (fst tc) (snd tc) s)) cs s.
Definition spec_run (cs : list (Z * cmd)) (s : sstate) : sstate :=
  fold_left (fun s tc => fst (spec_step (snd tc) s)) cs s.
