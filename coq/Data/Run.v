(* Data/Run.v — command syntax, argument parsing and dispatch for the two data models.
   A state holds one record per (type, "table:key"); a command touches the record of its key.
   Transcribed dispatch / argument handling:
     node/node_cmd_reg.go registerHandlers (write commands reaching the state machine), registerHandler (reads)
     node/hash.go node/set.go node/zset.go node/list.go node/keys.go  local*Command and read handlers
   (the numeric arguments are parsed as the handlers do: strconv.ParseInt / Atoi / ParseFloat).
   Expiry: every collection record is stored with the ExpireAt second of its header (Exp.v); the write
   handlers are wrapped by xrenew / xguard according to the Go function they go through, the reads see
   the record through xview at the wall clock `now` of the serving node.
   The same command value is run by BOTH models (map_step / spec_step); the extracted driver prints
   the Map reply and flags any difference with the Spec reply.
   No proofs in this file. *)
From ZV Require Export Data.Base.
From ZV Require Export Data.Exp.
From ZV Require Import Data.Consts Data.Map Data.Spec Data.MapZ Data.SpecZ Data.MapL Data.SpecL Data.MapK Data.SpecK.
Open Scope Z_scope.

Inductive ctype := TH | TS | TZ | TL.

Inductive cmd :=
(* hexpire sexpire zexpire lexpire / *persist / *ttl  (expire persist ttl of strings are in kcmd / kqry) *)
| CExpire (t : ctype) (key : bytes) (dur : Z)
| CPersist (t : ctype) (key : bytes)
| QTtl (t : ctype) (key : bytes)
| CTinvalid
(* hash *)
| CHset (nx : bool) (key f x : bytes)
| CHmset (key : bytes) (fvs : list (bytes * bytes))
| CHdel (key : bytes) (fs : list bytes)
| CHincrby (key f : bytes) (d : Z)
| CHclear (key : bytes)
| QHlen (key : bytes) | QHget (key f : bytes) | QHexists (key f : bytes) | QHmget (key : bytes) (fs : list bytes)
| QHgetall (key : bytes) | QHkeys (key : bytes) | QHvals (key : bytes) | QHkeyexist (key : bytes)
(* set *)
| CSadd (key : bytes) (ms : list bytes)
| CSrem (key : bytes) (ms : list bytes)
| CSpop (key : bytes) (count : option Z)
| CSclear (key : bytes)
| QScard (key : bytes) | QSismember (key m : bytes) | QSmembers (key : bytes)
| QSrandmember (key : bytes) (count : Z) | QSkeyexist (key : bytes)
(* zset *)
| CZ (key : bytes) (c : zcmd)
| QZ (key : bytes) (q : zqry)
(* list *)
| CL (key : bytes) (c : lcmd)
| QL (key : bytes) (q : lqry)
(* kv *)
| CK (c : kcmd)
| QK (q : kqry).

(* ---------- states ---------- *)
Record mstate := {
  m_hash : list (bytes * xr hcoll);
  m_set : list (bytes * xr scoll);
  m_zset : list (bytes * xr zcoll);
  m_list : list (bytes * xr lcoll);
  m_kv : list (bytes * kvrec) }.
Record sstate := {
  s_hash : list (bytes * xr shash);
  s_set : list (bytes * xr sset);
  s_zset : list (bytes * xr szset);
  s_list : list (bytes * xr slist);
  s_kv : list (bytes * sval) }.
Definition m_init : mstate := Build_mstate [] [] [] [] [].
Definition s_init : sstate := Build_sstate [] [] [] [] [].

Definition alook {V} (d : V) (k : bytes) (m : list (bytes * V)) : V :=
  match aget bytes_eqb k m with Some v => v | None => d end.
Definition aupd {V R} (d : V) (k : bytes) (f : V -> V * R) (m : list (bytes * V)) : list (bytes * V) * R :=
  let '(v', r) := f (alook d k m) in (aput bytes_eqb k v' m, r).

(* ---------- records under an expired header ---------- *)
(* renewOnExpired in memory: no user data (meta value), the element keys of the old generation stay *)
Definition forget_c {V} (c : coll V) : coll V := Build_coll None (c_elems c).
Definition live_z (z : zcoll) : bool := exists_coll (z_c z).
Definition forget_z (z : zcoll) : zcoll := {| z_c := forget_c (z_c z); z_index := z_index z |}.
Definition forget_l (l : lcoll) : lcoll := {| l_meta := None; l_elems := l_elems l |}.
Definition x0 {R} (r : R) : xr R := Build_xr r 0.

(* commands going through prepareCollKeyForWrite (the others read the header with GetCollVersionKey /
   *HeaderMeta and return early on an expired one) *)
Definition z_renews (c : zcmd) : bool := match c with ZCadd _ | ZCincrby _ _ => true | _ => false end.
Definition l_renews (c : lcmd) : bool := match c with LCpush _ _ => true | _ => false end.

(* ---------- one step of the Map model ---------- *)
Definition map_step (compact : bool) (now ts : Z) (c : cmd) (s : mstate) : mstate * reply :=
  let H f key := let '(m, r) := aupd (x0 empty_coll) key f (m_hash s) in
                 (Build_mstate m (m_set s) (m_zset s) (m_list s) (m_kv s), r) in
  let S f key := let '(m, r) := aupd (x0 empty_coll) key f (m_set s) in
                 (Build_mstate (m_hash s) m (m_zset s) (m_list s) (m_kv s), r) in
  let Z f key := let '(m, r) := aupd (x0 empty_zcoll) key f (m_zset s) in
                 (Build_mstate (m_hash s) (m_set s) m (m_list s) (m_kv s), r) in
  let L f key := let '(m, r) := aupd (x0 empty_lcoll) key f (m_list s) in
                 (Build_mstate (m_hash s) (m_set s) (m_zset s) m (m_kv s), r) in
  let hR (f : hcoll -> hcoll * reply) := xrenew exists_coll forget_c compact ts f in
  let hG (f : hcoll -> hcoll * reply) := xguard exists_coll compact ts (snd (f empty_coll)) f in
  let sR (f : scoll -> scoll * reply) := xrenew exists_coll forget_c compact ts f in
  let sG (f : scoll -> scoll * reply) := xguard exists_coll compact ts (snd (f empty_coll)) f in
  let hq key (f : hcoll -> reply) :=
    (s, f (xview forget_c compact now (alook (x0 empty_coll) key (m_hash s)))) in
  let sq key (f : scoll -> reply) :=
    (s, f (xview forget_c compact now (alook (x0 empty_coll) key (m_set s)))) in
  match c with
  | CTinvalid => (s, RErr)
  | CExpire t key dur =>
      if negb (key_ok key) then (s, RErr)
      else match t with
           | TH => H (xexpire exists_coll compact ts dur) key
           | TS => S (xexpire exists_coll compact ts dur) key
           | TZ => Z (xexpire live_z compact ts dur) key
           | TL => L (xexpire l_exists compact ts dur) key
           end
  | CPersist t key =>
      if negb (key_ok key) then (s, RErr)
      else match t with
           | TH => H (xpersist exists_coll compact ts) key
           | TS => S (xpersist exists_coll compact ts) key
           | TZ => Z (xpersist live_z compact ts) key
           | TL => L (xpersist l_exists compact ts) key
           end
  | QTtl t key =>
      (* getRawValueForHeader drops the error of a malformed key: the meta value is then absent *)
      if negb (key_ok key) then (s, RInt (-1))
      else (s, match t with
               | TH => xttl exists_coll compact now (alook (x0 empty_coll) key (m_hash s))
               | TS => xttl exists_coll compact now (alook (x0 empty_coll) key (m_set s))
               | TZ => xttl live_z compact now (alook (x0 empty_zcoll) key (m_zset s))
               | TL => xttl l_exists compact now (alook (x0 empty_lcoll) key (m_list s))
               end)
  | CHset nx key f x => H (hR (Map.hset compact ts nx key f x)) key
  | CHmset key fvs => H (hR (Map.hmset compact ts key fvs)) key
  | CHdel key fs => H (hG (Map.hdel key fs)) key
  | CHincrby key f d => H (hR (Map.hincrby compact ts key f d)) key
  | CHclear key => H (hG (Map.hclear compact ts key)) key
  | QHlen key => hq key (Map.hlen key)
  | QHget key f => hq key (Map.hget key f)
  | QHexists key f => hq key (Map.hexists key f)
  | QHmget key fs => hq key (Map.hmget key fs)
  | QHgetall key => hq key (Map.hgetall key)
  | QHkeys key => hq key (Map.hkeys key)
  | QHvals key => hq key (Map.hvals key)
  | QHkeyexist key => hq key (Map.hkeyexist key)
  | CSadd key ms => S (sR (Map.sadd compact ts key ms)) key
  | CSrem key ms => S (sG (Map.srem key ms)) key
  | CSpop key n => S (sG (Map.spop key n)) key
  | CSclear key => S (sG (Map.sclear compact ts key)) key
  | QScard key => sq key (Map.scard key)
  | QSismember key m => sq key (Map.sismember key m)
  | QSmembers key => sq key (Map.smembers key)
  | QSrandmember key n => sq key (Map.srandmember key n)
  | QSkeyexist key => sq key (Map.skeyexist key)
  | CZ key zc =>
      let f := MapZ.zstep compact ts key zc in
      Z (if z_renews zc then xrenew live_z forget_z compact ts f
         else xguard live_z compact ts (snd (f empty_zcoll)) f) key
  | QZ key q => (s, MapZ.zquery key q (xview forget_z compact now (alook (x0 empty_zcoll) key (m_zset s))))
  | CL key lc =>
      let f := MapL.lstep compact ts key lc in
      L (if l_renews lc then xrenew l_exists forget_l compact ts f
         else xguard l_exists compact ts (snd (f empty_lcoll)) f) key
  | QL key q => (s, MapL.lquery key q (xview forget_l compact now (alook (x0 empty_lcoll) key (m_list s))))
  | CK kc => let '(m, r) := MapK.kstep compact ts kc (m_kv s) in
             (Build_mstate (m_hash s) (m_set s) (m_zset s) (m_list s) m, r)
  | QK q => (s, MapK.kquery compact now q (m_kv s))
  end.

(* ---------- one step of the Spec model ---------- *)
Definition spec_step (compact : bool) (now ts : Z) (c : cmd) (s : sstate) : sstate * reply :=
  let H f key := let '(m, r) := aupd (x0 []) key f (s_hash s) in
                 (Build_sstate m (s_set s) (s_zset s) (s_list s) (s_kv s), r) in
  let S f key := let '(m, r) := aupd (x0 []) key f (s_set s) in
                 (Build_sstate (s_hash s) m (s_zset s) (s_list s) (s_kv s), r) in
  let Z f key := let '(m, r) := aupd (x0 []) key f (s_zset s) in
                 (Build_sstate (s_hash s) (s_set s) m (s_list s) (s_kv s), r) in
  let L f key := let '(m, r) := aupd (x0 []) key f (s_list s) in
                 (Build_sstate (s_hash s) (s_set s) (s_zset s) m (s_kv s), r) in
  let hW (f : shash -> shash * reply) := swrite compact ts f in
  let sW (f : sset -> sset * reply) := swrite compact ts f in
  let hq key (f : shash -> reply) := (s, f (sview compact now (alook (x0 []) key (s_hash s)))) in
  let sq key (f : sset -> reply) := (s, f (sview compact now (alook (x0 []) key (s_set s)))) in
  match c with
  | CTinvalid => (s, RErr)
  | CExpire t key dur =>
      if negb (key_ok key) then (s, RErr)
      else match t with
           | TH => H (sexpire compact ts dur) key
           | TS => S (sexpire compact ts dur) key
           | TZ => Z (sexpire compact ts dur) key
           | TL => L (sexpire compact ts dur) key
           end
  | CPersist t key =>
      if negb (key_ok key) then (s, RErr)
      else match t with
           | TH => H (spersist compact ts) key
           | TS => S (spersist compact ts) key
           | TZ => Z (spersist compact ts) key
           | TL => L (spersist compact ts) key
           end
  | QTtl t key =>
      if negb (key_ok key) then (s, RInt (-1))
      else (s, match t with
               | TH => sttl compact now (alook (x0 []) key (s_hash s))
               | TS => sttl compact now (alook (x0 []) key (s_set s))
               | TZ => sttl compact now (alook (x0 []) key (s_zset s))
               | TL => sttl compact now (alook (x0 []) key (s_list s))
               end)
  | CHset nx key f x => H (hW (Spec.hset nx key f x)) key
  | CHmset key fvs => H (hW (Spec.hmset key fvs)) key
  | CHdel key fs => H (hW (Spec.hdel key fs)) key
  | CHincrby key f d => H (hW (Spec.hincrby key f d)) key
  | CHclear key => H (hW (Spec.hclear key)) key
  | QHlen key => hq key (Spec.hlen key)
  | QHget key f => hq key (Spec.hget key f)
  | QHexists key f => hq key (Spec.hexists key f)
  | QHmget key fs => hq key (Spec.hmget key fs)
  | QHgetall key => hq key (Spec.hgetall key)
  | QHkeys key => hq key (Spec.hkeys key)
  | QHvals key => hq key (Spec.hvals key)
  | QHkeyexist key => hq key (Spec.hkeyexist key)
  | CSadd key ms => S (sW (Spec.sadd key ms)) key
  | CSrem key ms => S (sW (Spec.srem key ms)) key
  | CSpop key n => S (sW (Spec.spop key n)) key
  | CSclear key => S (sW (Spec.sclear key)) key
  | QScard key => sq key (Spec.scard key)
  | QSismember key m => sq key (Spec.sismember key m)
  | QSmembers key => sq key (Spec.smembers key)
  | QSrandmember key n => sq key (Spec.srandmember key n)
  | QSkeyexist key => sq key (Spec.skeyexist key)
  | CZ key zc => Z (swrite compact ts (SpecZ.zstep key zc)) key
  | QZ key q => (s, SpecZ.zquery key q (sview compact now (alook (x0 []) key (s_zset s))))
  | CL key lc => L (swrite compact ts (SpecL.lstep key lc)) key
  | QL key q => (s, SpecL.lquery key q (sview compact now (alook (x0 []) key (s_list s))))
  | CK kc => let '(m, r) := SpecK.kstep compact ts kc (s_kv s) in
             (Build_sstate (s_hash s) (s_set s) (s_zset s) (s_list s) m, r)
  | QK q => (s, SpecK.kquery compact now q (s_kv s))
  end.

(* ---------- argument parsing (what the handlers do with cmd.Args) ---------- *)
Definition lower_bytes (b : bytes) : bytes := map lower b.
Fixpoint pairs_of (l : list bytes) : option (list (bytes * bytes)) :=
  match l with
  | [] => Some []
  | a :: b :: r => match pairs_of r with Some p => Some ((a, b) :: p) | None => None end
  | _ => None
  end.

(* command names as byte strings *)
Local Open Scope N_scope.
Definition nm (l : list N) : bytes := l.
Definition is (name : bytes) (l : list N) : bool := bytes_eqb name l.

Definition parse_cmd (args : list bytes) : option cmd :=
  match args with
  | name :: key :: rest =>
      let n := lower_bytes name in
      let ct (t : ctype) (suffix : bytes) : option (option cmd) :=
        (* "expire" (strconv.Atoi of the duration) / "persist" / "ttl" after the type letter *)
        if is suffix [101;120;112;105;114;101] then
          match rest with
          | [d] => Some (Some (match parse_int64 d with Some z => CExpire t key z | None => CTinvalid end))
          | _ => Some None
          end
        else if is suffix [112;101;114;115;105;115;116] then
          match rest with [] => Some (Some (CPersist t key)) | _ => Some None end
        else if is suffix [116;116;108] then
          match rest with [] => Some (Some (QTtl t key)) | _ => Some None end
        else None in
      let typed : option (option cmd) :=
        match n with
        | 104 :: suffix => ct TH suffix
        | 115 :: suffix => ct TS suffix
        | 122 :: suffix => ct TZ suffix
        | 108 :: suffix => ct TL suffix
        | _ => None
        end in
      match typed with
      | Some r => r
      | None =>
      (* hash *)
      if is n [104;115;101;116] then match rest with [f; x] => Some (CHset false key f x) | _ => None end
      else if is n [104;115;101;116;110;120] then match rest with [f; x] => Some (CHset true key f x) | _ => None end
      else if is n [104;109;115;101;116] then match pairs_of rest with Some p => Some (CHmset key p) | None => None end
      else if is n [104;100;101;108] then Some (CHdel key rest)
      else if is n [104;105;110;99;114;98;121] then
        match rest with [f; d] => match parse_int64 d with Some z => Some (CHincrby key f z) | None => None end | _ => None end
      else if is n [104;99;108;101;97;114] then match rest with [] => Some (CHclear key) | _ => None end
      else if is n [104;108;101;110] then match rest with [] => Some (QHlen key) | _ => None end
      else if is n [104;103;101;116] then match rest with [f] => Some (QHget key f) | _ => None end
      else if is n [104;101;120;105;115;116;115] then match rest with [f] => Some (QHexists key f) | _ => None end
      else if is n [104;109;103;101;116] then match rest with [] => None | _ => Some (QHmget key rest) end
      else if is n [104;103;101;116;97;108;108] then match rest with [] => Some (QHgetall key) | _ => None end
      else if is n [104;107;101;121;115] then match rest with [] => Some (QHkeys key) | _ => None end
      else if is n [104;118;97;108;115] then match rest with [] => Some (QHvals key) | _ => None end
      else if is n [104;107;101;121;101;120;105;115;116] then match rest with [] => Some (QHkeyexist key) | _ => None end
      (* set *)
      else if is n [115;97;100;100] then Some (CSadd key rest)
      else if is n [115;114;101;109] then Some (CSrem key rest)
      else if is n [115;112;111;112] then
        match rest with
        | [] => Some (CSpop key None)
        | [c] => match parse_int64 c with Some z => Some (CSpop key (Some z)) | None => None end
        | _ => None
        end
      else if is n [115;99;108;101;97;114] then match rest with [] => Some (CSclear key) | _ => None end
      else if is n [115;99;97;114;100] then match rest with [] => Some (QScard key) | _ => None end
      else if is n [115;105;115;109;101;109;98;101;114] then match rest with [m] => Some (QSismember key m) | _ => None end
      else if is n [115;109;101;109;98;101;114;115] then match rest with [] => Some (QSmembers key) | _ => None end
      else if is n [115;114;97;110;100;109;101;109;98;101;114] then
        match rest with
        | [] => Some (QSrandmember key 1%Z)
        | [c] => match parse_int64 c with Some z => Some (QSrandmember key z) | None => None end
        | _ => None
        end
      else if is n [115;107;101;121;101;120;105;115;116] then match rest with [] => Some (QSkeyexist key) | _ => None end
      else
        match MapZ.parse_z n rest with
        | Some (inl zc) => Some (CZ key zc)
        | Some (inr q) => Some (QZ key q)
        | None =>
          match MapL.parse_l n rest with
          | Some (inl lc) => Some (CL key lc)
          | Some (inr q) => Some (QL key q)
          | None =>
            match MapK.parse_k n (key :: rest) with
            | Some (inl kc) => Some (CK kc)
            | Some (inr q) => Some (QK q)
            | None => None
            end
          end
        end
      end
  | _ => None
  end.

Local Close Scope N_scope.

(* ---------- the C09 observation: every read view of one collection ---------- *)
(* parts in the order the harness prints them; each part is a list of replies *)
Definition elems_of (r : reply) : list reply := match r with RArr l => l | _ => [] end.
Fixpoint evens {A} (l : list A) : list A :=
  match l with a :: _ :: r => a :: evens r | _ => [] end.
Definition bulk_of (r : reply) : bytes := match r with RBulk b => b | _ => [] end.

Definition observe_with {S} (step : cmd -> S -> S * reply) (t : N) (key : bytes) (s : S) : list (list reply) :=
  let q c := snd (step c s) in
  if (t =? 72)%N then (* H *)
    let all := q (QHgetall key) in
    [ [q (QHlen key)]; [q (QHkeyexist key)]; [all]; [q (QHkeys key)]; [q (QHvals key)];
      map (fun f => q (QHget key (bulk_of f))) (evens (elems_of all)); [q (QTtl TH key)] ]
  else if (t =? 83)%N then (* S *)
    let mem := q (QSmembers key) in
    [ [q (QScard key)]; [q (QSkeyexist key)]; [mem];
      map (fun m => q (QSismember key (bulk_of m))) (elems_of mem); [q (QTtl TS key)] ]
  else if (t =? 90)%N then (* Z *)
    let rg := q (QZ key (ZQrange false 0 (-1) false)) in
    [ [q (QZ key ZQcard)]; [q (QZ key ZQkeyexist)];
      [q (QZ key (ZQrange false 0 (-1) true))];
      [q (QZ key (ZQrangebyscore false (SNInf, false) (SPInf, false) true 0 (-1)))];
      [q (QZ key (ZQrangebylex None None false false 0 (-1)))];
      map (fun m => q (QZ key (ZQscore (bulk_of m)))) (elems_of rg); [q (QTtl TZ key)] ]
  else if (t =? 76)%N then (* L *)
    let rg := q (QL key (LQrange 0 (-1))) in
    [ [q (QL key LQlen)]; [q (QL key LQkeyexist)]; [rg];
      map (fun i => q (QL key (LQindex (Z.of_nat i)))) (seq 0 (length (elems_of rg))); [q (QTtl TL key)] ]
  else (* K *)
    [ [q (QK (KQget key))]; [q (QK (KQstrlen key))]; [q (QK (KQexists [key]))]; [q (QK (KQttl key))] ].

Definition map_observe (compact : bool) (now : Z) (t : N) (key : bytes) (s : mstate) :=
  observe_with (map_step compact now 0) t key s.
Definition spec_observe (compact : bool) (now : Z) (t : N) (key : bytes) (s : sstate) :=
  observe_with (spec_step compact now 0) t key s.

(* ---------- the table key counter ([TableMetaType] meta:table, IncrTableKeyCount) ----------
   The counter of a table is meant to be the number of keys stored in it: string values and collection
   meta keys of every type, expired but not yet compacted ones included (a write that re-creates an
   expired key leaves the counter alone, DEL of an expired string decrements it).  It is not a variable
   of the models: the number is read off the state, and the harness compares it with GetTableKeyCount. *)
Definition in_table (t key : bytes) : bool :=
  match split_table key with Some (t', _) => bytes_eqb t t' | None => false end.
Definition count_if {V} (p : V -> bool) (t : bytes) (m : list (bytes * V)) : Z :=
  Z.of_nat (length (filter (fun kv => in_table t (fst kv) && p (snd kv)) m)).
Definition map_table_count (t : bytes) (s : mstate) : Z :=
  count_if (fun x : xr hcoll => exists_coll (x_r x)) t (m_hash s) + count_if (fun x : xr scoll => exists_coll (x_r x)) t (m_set s)
  + count_if (fun x => live_z (x_r x)) t (m_zset s) + count_if (fun x => l_exists (x_r x)) t (m_list s)
  + count_if (fun _ : kvrec => true) t (m_kv s).
Definition spec_table_count (t : bytes) (s : sstate) : Z :=
  count_if (fun x : xr shash => nonempty (x_r x)) t (s_hash s) + count_if (fun x : xr sset => nonempty (x_r x)) t (s_set s)
  + count_if (fun x : xr szset => nonempty (x_r x)) t (s_zset s) + count_if (fun x : xr slist => nonempty (x_r x)) t (s_list s)
  + count_if (fun _ : sval => true) t (s_kv s).

(* ---------- the engine keys a state stands for, counted per key class ----------
   order: kv, hsize, hash, ssize, set, zsize, zset (member keys), zscore (score index), lmeta, list.
   Under wait_compact the element keys of cleared / expired generations are still there (garbage for the
   compaction filter): the Map model keeps them too, so the numbers must agree with the engine. *)
Definition sum_by {V} (f : V -> Z) (m : list (bytes * V)) : Z := fold_left (fun acc kv => acc + f (snd kv)) m 0.
Definition b2z (b : bool) : Z := if b then 1 else 0.
Definition map_engine_counts (s : mstate) : list Z :=
  [ Z.of_nat (length (m_kv s));
    sum_by (fun x : xr hcoll => b2z (exists_coll (x_r x))) (m_hash s);
    sum_by (fun x : xr hcoll => Z.of_nat (length (c_elems (x_r x)))) (m_hash s);
    sum_by (fun x : xr scoll => b2z (exists_coll (x_r x))) (m_set s);
    sum_by (fun x : xr scoll => Z.of_nat (length (c_elems (x_r x)))) (m_set s);
    sum_by (fun x : xr zcoll => b2z (live_z (x_r x))) (m_zset s);
    sum_by (fun x : xr zcoll => Z.of_nat (length (c_elems (z_c (x_r x))))) (m_zset s);
    sum_by (fun x : xr zcoll => Z.of_nat (length (z_index (x_r x)))) (m_zset s);
    sum_by (fun x : xr lcoll => b2z (l_exists (x_r x))) (m_list s);
    sum_by (fun x : xr lcoll => Z.of_nat (length (l_elems (x_r x)))) (m_list s) ].

(* ---------- running a whole sequence (used by the theorems) ---------- *)
(* the read clock does not matter for the successor state; reads inside a sequence use `now` *)
Definition map_run (compact : bool) (now : Z) (cs : list (Z * cmd)) (s : mstate) : mstate :=
  fold_left (fun s tc => fst (map_step compact now (fst tc) (snd tc) s)) cs s.
Definition spec_run (compact : bool) (now : Z) (cs : list (Z * cmd)) (s : sstate) : sstate :=
  fold_left (fun s tc => fst (spec_step compact now (fst tc) (snd tc) s)) cs s.
