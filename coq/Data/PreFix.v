(* Data/PreFix.v — the Map-level definitions of the commands whose Go code was repaired, AS THEY WERE
   before the fix commits (snapshot 1d61b08 / 11372e0 of /repo), kept to state the `_refuted` witnesses:
   the representation invariant is NOT preserved by them.
     rockredis/t_set.go  SAdd (before d9969a1), SRem (before e608abf)
     rockredis/t_hash.go HMset (before 7596a18), HDel (before 54b348f)
     rockredis/t_zset.go ZAdd (before c18e255), ZRem (before ef745ba), ZIncrBy (before 701c4ec)
     rockredis/t_list.go ltrim2 (before 28dbe2d)
   The only difference to Map.v / MapZ.v / MapL.v is the missing de-duplication of the arguments (every
   argument is looked up against COMMITTED data), the put-then-delete order in ZIncrBy, and the
   emptiness test before the clamp in ltrim2.  No proofs in this file. *)
From ZV Require Export Data.Base.
From ZV Require Import Data.Consts Data.Map Data.MapZ Data.MapL.
Open Scope Z_scope.

Definition sadd_pre (compact : bool) (ts : Z) (key : bytes) (ms : list bytes) (c : scoll) : scoll * reply :=
  if too_many ms then (c, RErr)
  else if negb (key_ok key) || negb (forallb subkey_ok ms) then (c, RErr)
  else
    let v := prep_ver compact ts c in
    let news := filter (fun m => negb (emem v m (c_elems c))) ms in
    let num := Z.of_nat (length news) in
    (Build_coll (set_size v (st_size c + num)) (put_all v (map (fun m => (m, tt)) news) (c_elems c)), RInt num).

Definition srem_pre (key : bytes) (ms : list bytes) (c : scoll) : scoll * reply :=
  match ms with
  | [] => (c, RInt 0)
  | _ =>
    if too_many ms then (c, RErr)
    else if negb (key_ok key) || negb (forallb subkey_ok ms) then (c, RErr)
    else
      let v := st_ver c in
      let num := count_old v ms (c_elems c) in
      (Build_coll (set_size v (st_size c - num)) (del_some v (c_elems c) ms (c_elems c)), RInt num)
  end.

Definition hmset_pre (compact : bool) (ts : Z) (key : bytes) (fvs : list (bytes * bytes)) (c : hcoll) : hcoll * reply :=
  if too_many fvs then (c, RErr)
  else match fvs with
  | [] => (c, RNil)
  | _ =>
    if negb (key_ok key) || negb (hmset_args_ok fvs) then (c, RErr)
    else
      let v := prep_ver compact ts c in
      let num := count_new v (map fst fvs) (c_elems c) in
      (Build_coll (set_size v (st_size c + num)) (put_all v fvs (c_elems c)), RNil)
  end.

Definition hdel_pre (key : bytes) (fs : list bytes) (c : hcoll) : hcoll * reply :=
  if too_many fs then (c, RErr)
  else match fs with
  | [] => (c, RInt 0)
  | _ =>
    if negb (key_ok key) || negb (forallb subkey_ok fs) then (c, RErr)
    else
      let v := st_ver c in
      let num := count_old v fs (c_elems c) in
      (Build_coll (set_size v (st_size c - num)) (del_some v (c_elems c) fs (c_elems c)), RInt num)
  end.

Definition zadd_pre (compact : bool) (ts : Z) (key : bytes) (ps : list (score * bytes)) (z : zcoll) : zcoll * reply :=
  match ps with
  | [] => (z, RInt 0)
  | _ =>
    if too_many ps then (z, RErr)
    else if negb (key_ok key) || negb (forallb (fun p => subkey_ok (snd p)) ps) then (z, RErr)
    else
      let v := prep_ver compact ts (z_c z) in
      let num := count_new v (map snd ps) (c_elems (z_c z)) in
      let z' := fold_left (fun acc p => zset_item v z (fst p) (snd p) acc) ps z in
      (zwith_size v (zsize z + num) z', RInt num)
  end.

Definition zrem_pre (key : bytes) (ms : list bytes) (z : zcoll) : zcoll * reply :=
  match ms with
  | [] => (z, RErr)
  | _ =>
    if too_many ms then (z, RErr)
    else if negb (key_ok key) || negb (forallb subkey_ok ms) then (z, RErr)
    else let '(z', n) := zremove ms z in (z', RInt n)
  end.

(* ZIncrBy: put the new score key, then delete the old one (the same key when the score is unchanged) *)
Definition zincrby_pre (compact : bool) (ts : Z) (key : bytes) (d : score) (m : bytes) (z : zcoll) : zcoll * reply :=
  if negb (key_ok key) || negb (subkey_ok m) then (z, RErr)
  else
    let v := prep_ver compact ts (z_c z) in
    let old := eget v m (c_elems (z_c z)) in
    match score_add (match old with Some s => s | None => SFin 0 end) d with
    | None => (z, RErr)
    | Some sc =>
        let z1 := match old with None => zwith_size v (zsize z + 1) z | Some _ => z end in
        let idx := iput (v, (sc, m)) (z_index z1) in
        let idx := match old with Some o => idel (v, (o, m)) idx | None => idx end in
        ({| z_c := Build_coll (c_meta (z_c z1)) (eput v m sc (c_elems (z_c z1))); z_index := idx |}, RFloat sc)
    end.

(* ltrim2: emptiness test before the clamp; when the new meta is invalid the repair path commits the
   element deletions of the batch without a meta change *)
Definition ltrim_pre (key : bytes) (start stop : Z) (l : lcoll) : lcoll * reply :=
  if negb (key_ok key) then (l, RErr)
  else if negb (l_exists l) then (l, RNil)
  else
    let llen := l_size l in
    let v := l_ver l in
    let head := l_head l in
    let start := if start <? 0 then llen + start else start in
    let stop := if stop <? 0 then llen + stop else stop in
    if (llen <=? start) || (stop <? start) then (fst (ldelete false l), RNil)
    else
      let start := if start <? 0 then 0 else start in
      let stop := if llen <=? stop then llen - 1 else stop in
      let es := filter (fun e => negb ((fst (fst e) =? v) &&
                                       (((head <=? snd (fst e)) && (snd (fst e) <? head + start)) ||
                                        ((head + stop <? snd (fst e)) && (snd (fst e) <? head + llen))))) (l_elems l) in
      match lset_meta v (head + start) (head + stop) with
      | Some m => ({| l_meta := m; l_elems := es |}, RNil)
      | None => ({| l_meta := l_meta l; l_elems := es |}, RErr)
      end.
