(* Data/MapK.v — strings (KV) in the Map model: one engine key  KVKey "table:key" |-> (ExpireAt, value)
   (ExpireAt is the field of the value header {ExpireAt, ValueVersion} stored in front of the value
   under wait_compact, 0 = none; under local_deletion no header is stored and the field stays 0; the
   trailing modify timestamp is not part of the observable value).
   Transcribed (post-fix working tree):
     rockredis/t_kv.go  setKV KVSet KVSetWithOpts SetNX SetEx KVGetSet incr Incr IncrBy Append SetRange kvDel DelKeysAt
                        prepareKVValueForWrite resetWithNewKVValue getRawDBKVValue Expire Persist
                        KVGet MGet GetRange getRange StrLen KVExists convertRedisKeyToDBKVKey
     rockredis/t_ttl.go KVTtl expireWhen      node/keys.go node/ttl.go  local*Command and the read handlers
   An expired value is still stored (the compaction filter drops it later): every command decides
   with the header and its own clock (the raft entry timestamp for writes, the wall clock for reads).
   No proofs in this file. *)
From ZV Require Export Data.Base.
From ZV Require Import Data.Consts Data.Exp.
Open Scope Z_scope.

Inductive kcmd :=
| KCset (k v : bytes) | KCsetnx (k v : bytes) | KCgetset (k v : bytes)
| KCincrby (k : bytes) (d : Z) | KCappend (k v : bytes) | KCsetrange (k : bytes) (off : Z) (v : bytes)
| KCdel (ks : list bytes)
| KCsetex (k : bytes) (dur : Z) (v : bytes) | KCexpire (k : bytes) (dur : Z) | KCpersist (k : bytes)
| KCsetopt (k v : bytes) (dur : Z) (nx xx : bool)      (* SET key value [EX s] [NX|XX]; dur = 0: no EX *)
| KCinvalid.
Inductive kqry :=
| KQget (key : bytes) | KQstrlen (key : bytes) | KQexists (keys : list bytes)
| KQmget (keys : list bytes) | KQgetrange (key : bytes) (s e : Z) | KQttl (key : bytes) | KQinvalid.

Definition kvrec := (Z * bytes)%type.
Definition kstore := list (bytes * kvrec).
(* getRawDBKVValue + isExpired: the stored value unless it is expired at clock t *)
Definition klive (compact : bool) (t : Z) (k : bytes) (m : kstore) : option kvrec :=
  match aget bytes_eqb k m with
  | Some (e, v) => if dead compact e t then None else Some (e, v)
  | None => None
  end.
Definition kget (compact : bool) (t : Z) (k : bytes) (m : kstore) : option bytes :=
  match klive compact t k m with Some (_, v) => Some v | None => None end.
(* the header a rewrite keeps: prepareKVValueForWrite renews an expired one (ExpireAt 0) *)
Definition kexp (compact : bool) (t : Z) (k : bytes) (m : kstore) : Z :=
  match klive compact t k m with Some (e, _) => e | None => 0 end.

Fixpoint zeros (n : nat) : bytes := match n with O => [] | S k => 0%N :: zeros k end.
(* SetRange: pad with zero bytes up to offset, overwrite, keep the tail *)
Definition set_range (old : bytes) (off : nat) (v : bytes) : bytes :=
  let padded := if Nat.ltb (length old) (off + length v) then old ++ zeros (off + length v - length old) else old in
  firstn off padded ++ v ++ skipn (off + length v) padded.

(* getRange + slice of GetRange *)
Definition get_range (value : bytes) (s e : Z) : bytes :=
  let len := blen value in
  let s := if s <? 0 then len + s else s in
  let e := if e <? 0 then len + e else e in
  let s := if s <? 0 then 0 else s in
  let e := if e <? 0 then 0 else e in
  let e := if len <=? e then len - 1 else e in
  if e <? s then [] else firstn (Z.to_nat (e - s + 1)) (skipn (Z.to_nat s) value).

Definition kstep (compact : bool) (ts : Z) (c : kcmd) (m : kstore) : kstore * reply :=
  let get k := kget compact ts k m in
  match c with
  | KCinvalid => (m, RErr)
  | KCset k v =>
      (* resetWithNewKVValue: a fresh header, no expiry *)
      if negb (key_ok k) || negb (value_ok v) then (m, RErr) else (aput bytes_eqb k (0, v) m, RInt 1)
  | KCsetopt k v dur nx xx =>
      (* KVSetWithOpts: reply 1 = written, 0 = the NX / XX condition failed (the node layer rewrites 0 to nil) *)
      if negb (value_ok v) then (m, RErr)
      else if negb (key_ok k) then (m, RErr)
      else match get k with
           | Some _ => if nx then (m, RInt 0) else
               if 0 <? dur then
                 if compact then if when_overflows (sec_of ts + dur) then (m, RErr) else (aput bytes_eqb k (sec_of ts + dur, v) m, RInt 1)
                 else if int64_max <? sec_of ts + dur then (m, RErr) else (aput bytes_eqb k (0, v) m, RInt 1)
               else (aput bytes_eqb k (0, v) m, RInt 1)
           | None => if xx then (m, RInt 0) else
               if 0 <? dur then
                 if compact then if when_overflows (sec_of ts + dur) then (m, RErr) else (aput bytes_eqb k (sec_of ts + dur, v) m, RInt 1)
                 else if int64_max <? sec_of ts + dur then (m, RErr) else (aput bytes_eqb k (0, v) m, RInt 1)
               else (aput bytes_eqb k (0, v) m, RInt 1)
           end
  | KCsetex k dur v =>
      if dur <=? 0 then (m, RErr)
      else if negb (key_ok k) || negb (value_ok v) then (m, RErr)
      else if compact then
        if when_overflows (sec_of ts + dur) then (m, RErr) else (aput bytes_eqb k (sec_of ts + dur, v) m, RNil)
      else if int64_max <? sec_of ts + dur then (m, RErr) else (aput bytes_eqb k (0, v) m, RNil)
  | KCsetnx k v =>
      if negb (value_ok v) || negb (key_ok k) then (m, RErr)
      else match get k with Some _ => (m, RInt 0) | None => (aput bytes_eqb k (0, v) m, RInt 1) end
  | KCgetset k v =>
      if negb (value_ok v) || negb (key_ok k) then (m, RErr)
      else (aput bytes_eqb k (0, v) m, ropt (get k))
  | KCincrby k d =>
      if negb (key_ok k) then (m, RErr)
      else match (match get k with Some b => parse_int64 b | None => Some 0 end) with
           | None => (m, RErr)
           | Some n0 => if negb (in_int64 (n0 + d)) then (m, RErr)       (* fix 2957433 *)
                        else (aput bytes_eqb k (kexp compact ts k m, format_int (n0 + d)) m, RInt (n0 + d))
           end
  | KCappend k v =>
      if negb (key_ok k) then (m, RErr)
      else match get k, v with
           | Some old, [] => (m, RInt (blen old))                        (* fix ffad9c5 *)
           | o, _ =>
               let old := match o with Some b => b | None => [] end in
               if max_value_size <? blen old + blen v then (m, RErr)
               else (aput bytes_eqb k (kexp compact ts k m, old ++ v) m, RInt (blen old + blen v))
           end
  | KCsetrange k off v =>
      if (off <? 0) || (max_value_size <? off) then (m, RErr)        (* fix 50b937d: no slice panic *)
      else match v with
      | [] => if negb (key_ok k) then (m, RErr)
              else (m, RInt (match get k with Some b => blen b | None => 0 end))   (* fix 634fbd2 *)
      | _ =>
        if max_value_size <? blen v + off then (m, RErr)
        else if negb (key_ok k) then (m, RErr)
        else let nv := set_range (match get k with Some b => b | None => [] end) (Z.to_nat off) v in
             (aput bytes_eqb k (kexp compact ts k m, nv) m, RInt (blen nv))
      end
  | KCdel ks =>
      (* a key repeated in the call is deleted once (fix efaa8cd); a malformed key counts 0; a stored
         but expired value is removed and not counted (fix 355630d) *)
      let ks' := dedup [] ks in
      let n := Z.of_nat (length (filter (fun k => key_ok k && match get k with Some _ => true | None => false end) ks')) in
      (fold_left (fun m k => if key_ok k then adel bytes_eqb k m else m) ks' m, RInt n)
  | KCexpire k dur =>
      if negb (key_ok k) then (m, RErr)
      else match klive compact ts k m with
           | None => (m, RInt 0)
           | Some (_, v) =>
               if compact then
                 if when_overflows (expire_when ts dur) then (m, RErr)
                 else (aput bytes_eqb k (expire_when ts dur, v) m, RInt 1)
               else if int64_max <? sec_of ts + dur then (m, RErr) else (m, RInt 1)
           end
  | KCpersist k =>
      if negb (key_ok k) then (m, RErr)
      else match klive compact ts k m with
           | None => (m, RInt 0)
           | Some (_, v) => if compact then (aput bytes_eqb k (0, v) m, RInt 1) else (m, RErr)
           end
  end.

Definition kquery (compact : bool) (now : Z) (q : kqry) (m : kstore) : reply :=
  let get k := kget compact now k m in
  let has k := match get k with Some _ => true | None => false end in
  match q with
  | KQinvalid => RErr
  | KQget k => if negb (key_ok k) then RErr else ropt (get k)
  | KQstrlen k => if negb (key_ok k) then RErr else RInt (match get k with Some b => blen b | None => 0 end)
  | KQexists ks =>
      match ks with
      | [k] => if negb (key_ok k) then RErr else rbool (has k)
      | _ => RInt (Z.of_nat (length (filter (fun k => key_ok k && has k) ks)))
      end
  | KQmget ks => RArr (map (fun k => if key_ok k then ropt (get k) else RNil) ks)
  | KQgetrange k s e =>
      if negb (key_ok k) then RErr
      else RBulk (get_range (match get k with Some b => b | None => [] end) s e)
  | KQttl k =>
      (* KVTtl: the header of the stored value, expired or not *)
      if negb compact then RInt (-1)            (* localExpiration: no header is read at all *)
      else if negb (key_ok k) then RErr
      else match aget bytes_eqb k m with
           | Some (e, _) => RInt (ttl_of e now)
           | None => RInt (-1)
           end
  end.

(* ---------- argument parsing (node/keys.go) ---------- *)
Local Open Scope N_scope.
Definition kname (n : bytes) (l : list N) : bool := bytes_eqb n l.
(* getExNxXXArgs: the options after SET key value, case-insensitive, in any order: NX | XX (at most one of
   them), EX seconds (a positive integer; a repeated EX keeps the last); None = ErrInvalidArgs / ErrInvalidTTL *)
Definition w_nx : bytes := [110; 120].
Definition w_xx : bytes := [120; 120].
Definition w_ex : bytes := [101; 120].
Fixpoint set_opts (opts : list bytes) (dur : Z) (nx xx : bool) : option (Z * bool * bool) :=
  match opts with
  | [] => Some (dur, nx, xx)
  | o :: r =>
      let w := map lower o in
      if bytes_eqb w w_nx then if nx || xx then None else set_opts r dur true xx
      else if bytes_eqb w w_xx then if nx || xx then None else set_opts r dur nx true
      else if bytes_eqb w w_ex then
        match r with
        | s :: r' => match parse_int64 s with
                     | Some d => if (d <=? 0)%Z then None else set_opts r' d nx xx
                     | None => None
                     end
        | [] => None
        end
      else None
  end.
Definition parse_k (n : bytes) (args : list bytes) : option (kcmd + kqry) :=
  if kname n [115;101;116] then
    match args with
    | [k; v] => Some (inl (KCset k v))
    | k :: v :: opts =>
        match set_opts opts 0%Z false false with
        | Some (d, nx, xx) => Some (inl (KCsetopt k v d nx xx))
        | None => Some (inl KCinvalid)
        end
    | _ => None
    end
  else if kname n [115;101;116;110;120] then match args with [k; v] => Some (inl (KCsetnx k v)) | _ => None end
  else if kname n [103;101;116;115;101;116] then match args with [k; v] => Some (inl (KCgetset k v)) | _ => None end
  else if kname n [105;110;99;114] then match args with [k] => Some (inl (KCincrby k 1%Z)) | _ => None end
  else if kname n [105;110;99;114;98;121] then
    match args with
    | [k; d] => match parse_int64 d with Some z => Some (inl (KCincrby k z)) | None => Some (inl KCinvalid) end
    | _ => None
    end
  else if kname n [97;112;112;101;110;100] then match args with [k; v] => Some (inl (KCappend k v)) | _ => None end
  else if kname n [115;101;116;114;97;110;103;101] then
    match args with
    | [k; o; v] => match parse_int64 o with Some z => Some (inl (KCsetrange k z v)) | None => Some (inl KCinvalid) end
    | _ => None
    end
  else if kname n [100;101;108] then Some (inl (KCdel args))
  else if kname n [115;101;116;101;120] then                                  (* setex: strconv.Atoi *)
    match args with
    | [k; d; v] => match parse_int64 d with Some z => Some (inl (KCsetex k z v)) | None => Some (inl KCinvalid) end
    | _ => None
    end
  else if kname n [101;120;112;105;114;101] then                              (* expire *)
    match args with
    | [k; d] => match parse_int64 d with Some z => Some (inl (KCexpire k z)) | None => Some (inl KCinvalid) end
    | _ => None
    end
  else if kname n [112;101;114;115;105;115;116] then match args with [k] => Some (inl (KCpersist k)) | _ => None end
  else if kname n [116;116;108] then match args with [k] => Some (inr (KQttl k)) | _ => None end
  else if kname n [103;101;116] then match args with [k] => Some (inr (KQget k)) | _ => None end
  else if kname n [115;116;114;108;101;110] then match args with [k] => Some (inr (KQstrlen k)) | _ => None end
  else if kname n [101;120;105;115;116;115] then Some (inr (KQexists args))
  else if kname n [109;103;101;116] then Some (inr (KQmget args))
  else if kname n [103;101;116;114;97;110;103;101] then
    match args with
    | [k; s; e] => match parse_int64 s, parse_int64 e with
                   | Some a, Some b => Some (inr (KQgetrange k a b))
                   | _, _ => Some (inr KQinvalid)
                   end
    | _ => None
    end
  else None.
