(* Data/MapK.v — strings (KV) in the Map model: one engine key  KVKey "table:key" |-> value
   (the value header {ExpireAt, ValueVersion} of wait_compact and the trailing modify timestamp are
   not part of the observable value; expiry is outside this model, see Map.v).
   Transcribed (post-fix working tree):
     rockredis/t_kv.go  setKV KVSet KVSetWithOpts SetNX KVGetSet incr Incr IncrBy Append SetRange kvDel DelKeys
                        KVGet MGet GetRange getRange StrLen KVExists convertRedisKeyToDBKVKey
     node/keys.go       local*Command and the read handlers
   No proofs in this file. *)
From ZV Require Export Data.Base.
From ZV Require Import Data.Consts.
Open Scope Z_scope.

Inductive kcmd :=
| KCset (k v : bytes) | KCsetnx (k v : bytes) | KCgetset (k v : bytes)
| KCincrby (k : bytes) (d : Z) | KCappend (k v : bytes) | KCsetrange (k : bytes) (off : Z) (v : bytes)
| KCdel (ks : list bytes) | KCinvalid.
Inductive kqry :=
| KQget (key : bytes) | KQstrlen (key : bytes) | KQexists (keys : list bytes)
| KQmget (keys : list bytes) | KQgetrange (key : bytes) (s e : Z) | KQinvalid.

Definition kvrec := bytes.
Definition kstore := list (bytes * kvrec).
Definition kget (k : bytes) (m : kstore) : option bytes := aget bytes_eqb k m.

Fixpoint zeros (n : nat) : bytes := match n with O => [] | S k => 0%N :: zeros k end.
(* SetRange: pad with zero bytes up to offset, overwrite, keep the tail *)
Definition set_range (old : bytes) (off : nat) (v : bytes) : bytes :=
  let padded := if Nat.ltb (length old) (off + length v) then old ++ zeros (off + length v - length old) else old in
  firstn off padded ++ v ++ skipn (off + length v) padded.

(* getRange + slice of GetRange *)
Definition get_range (value : bytes) (s e : Z) : bytes :=
  let len := blen value in
  let s := if s <? 0 then len + s else s in
  let e := if e <? 0 then len + e else e in
  let s := if s <? 0 then 0 else s in
  let e := if e <? 0 then 0 else e in
  let e := if len <=? e then len - 1 else e in
  if e <? s then [] else firstn (Z.to_nat (e - s + 1)) (skipn (Z.to_nat s) value).

Definition kstep (ts : Z) (c : kcmd) (m : kstore) : kstore * reply :=
  match c with
  | KCinvalid => (m, RErr)
  | KCset k v =>
      if negb (key_ok k) || negb (value_ok v) then (m, RErr) else (aput bytes_eqb k v m, RInt 1)
  | KCsetnx k v =>
      if negb (value_ok v) || negb (key_ok k) then (m, RErr)
      else match kget k m with Some _ => (m, RInt 0) | None => (aput bytes_eqb k v m, RInt 1) end
  | KCgetset k v =>
      if negb (value_ok v) || negb (key_ok k) then (m, RErr)
      else (aput bytes_eqb k v m, ropt (kget k m))
  | KCincrby k d =>
      if negb (key_ok k) then (m, RErr)
      else match (match kget k m with Some b => parse_int64 b | None => Some 0 end) with
           | None => (m, RErr)
           | Some n0 => if negb (in_int64 (n0 + d)) then (m, RErr)       (* fix 2957433 *)
                        else (aput bytes_eqb k (format_int (n0 + d)) m, RInt (n0 + d))
           end
  | KCappend k v =>
      if negb (key_ok k) then (m, RErr)
      else match kget k m, v with
           | Some old, [] => (m, RInt (blen old))                        (* fix ffad9c5 *)
           | o, _ =>
               let old := match o with Some b => b | None => [] end in
               if max_value_size <? blen old + blen v then (m, RErr)
               else (aput bytes_eqb k (old ++ v) m, RInt (blen old + blen v))
           end
  | KCsetrange k off v =>
      if (off <? 0) || (max_value_size <? off) then (m, RErr)        (* fix 50b937d: no slice panic *)
      else match v with
      | [] => if negb (key_ok k) then (m, RErr)
              else (m, RInt (match kget k m with Some b => blen b | None => 0 end))   (* fix 634fbd2 *)
      | _ =>
        if max_value_size <? blen v + off then (m, RErr)
        else if negb (key_ok k) then (m, RErr)
        else let nv := set_range (match kget k m with Some b => b | None => [] end) (Z.to_nat off) v in
             (aput bytes_eqb k nv m, RInt (blen nv))
      end
  | KCdel ks =>
      (* a key repeated in the call is deleted once (fix efaa8cd); a malformed key counts 0 *)
      let ks' := dedup [] ks in
      let n := Z.of_nat (length (filter (fun k => key_ok k && amem bytes_eqb k m) ks')) in
      (fold_left (fun m k => if key_ok k then adel bytes_eqb k m else m) ks' m, RInt n)
  end.

Definition kquery (q : kqry) (m : kstore) : reply :=
  match q with
  | KQinvalid => RErr
  | KQget k => if negb (key_ok k) then RErr else ropt (kget k m)
  | KQstrlen k => if negb (key_ok k) then RErr else RInt (match kget k m with Some b => blen b | None => 0 end)
  | KQexists ks =>
      match ks with
      | [k] => if negb (key_ok k) then RErr else rbool (amem bytes_eqb k m)
      | _ => RInt (Z.of_nat (length (filter (fun k => key_ok k && amem bytes_eqb k m) ks)))
      end
  | KQmget ks => RArr (map (fun k => if key_ok k then ropt (kget k m) else RNil) ks)
  | KQgetrange k s e =>
      if negb (key_ok k) then RErr
      else RBulk (get_range (match kget k m with Some b => b | None => [] end) s e)
  end.

(* ---------- argument parsing (node/keys.go) ---------- *)
Local Open Scope N_scope.
Definition kname (n : bytes) (l : list N) : bool := bytes_eqb n l.
Definition parse_k (n : bytes) (args : list bytes) : option (kcmd + kqry) :=
  if kname n [115;101;116] then match args with [k; v] => Some (inl (KCset k v)) | _ => None end
  else if kname n [115;101;116;110;120] then match args with [k; v] => Some (inl (KCsetnx k v)) | _ => None end
  else if kname n [103;101;116;115;101;116] then match args with [k; v] => Some (inl (KCgetset k v)) | _ => None end
  else if kname n [105;110;99;114] then match args with [k] => Some (inl (KCincrby k 1%Z)) | _ => None end
  else if kname n [105;110;99;114;98;121] then
    match args with
    | [k; d] => match parse_int64 d with Some z => Some (inl (KCincrby k z)) | None => Some (inl KCinvalid) end
    | _ => None
    end
  else if kname n [97;112;112;101;110;100] then match args with [k; v] => Some (inl (KCappend k v)) | _ => None end
  else if kname n [115;101;116;114;97;110;103;101] then
    match args with
    | [k; o; v] => match parse_int64 o with Some z => Some (inl (KCsetrange k z v)) | None => Some (inl KCinvalid) end
    | _ => None
    end
  else if kname n [100;101;108] then Some (inl (KCdel args))
  else if kname n [103;101;116] then match args with [k] => Some (inr (KQget k)) | _ => None end
  else if kname n [115;116;114;108;101;110] then match args with [k] => Some (inr (KQstrlen k)) | _ => None end
  else if kname n [101;120;105;115;116;115] then Some (inr (KQexists args))
  else if kname n [109;103;101;116] then Some (inr (KQmget args))
  else if kname n [103;101;116;114;97;110;103;101] then
    match args with
    | [k; s; e] => match parse_int64 s, parse_int64 e with
                   | Some a, Some b => Some (inr (KQgetrange k a b))
                   | _, _ => Some (inr KQinvalid)
                   end
    | _ => None
    end
  else None.
