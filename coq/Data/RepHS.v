(* Data/RepHS.v — hash and set commands of Map.v preserve the representation invariant RepC, and RepC
   implies the count = enumerate equalities of property C09 for hashes and sets. *)
From ZV Require Import Common.Bytes Common.BytesFacts Data.Consts Data.Base Data.BaseFacts Data.Map Data.RepColl.
From Coq Require Import Permutation Lia ZifyBool.
Open Scope Z_scope.

Section HS.
  Variable compact : bool.
  Notation Rep := (RepC compact).

  Lemma emem_eget {V} v f (es : list (vkey * V)) : emem v f es = match eget v f es with Some _ => true | None => false end.
  Proof. reflexivity. Qed.

  Lemma count_new_all_new {V} v ks (es : list (vkey * V)) :
    (forall k, In k ks -> emem v k es = false) -> count_new v ks es = Z.of_nat (length ks).
  Proof.
    induction ks as [|k r IH]; intros H; [reflexivity|].
    rewrite count_new_cons, IH, H; [cbn [length]; lia|left; reflexivity|intros x Hx; apply H; right; exact Hx].
  Qed.

  (* ---------- hash ---------- *)
  Lemma hset_rep clock ts nx key f x (c : hcoll) :
    Rep clock c -> 0 <= clock < ts -> Rep ts (fst (hset compact ts nx key f x c)).
  Proof.
    intros R L. unfold hset.
    destruct (negb (value_ok x) || negb (key_ok key) || negb (subkey_ok f)) eqn:G; cbn [fst].
    { eapply RepC_mono; [|exact R]; lia. }
    assert (SK : subkey_ok f = true).
    { destruct (subkey_ok f); [reflexivity|]. rewrite !orb_true_r in G; discriminate. }
    destruct (eget (prep_ver compact ts c) f (c_elems c)) as [old|] eqn:E.
    - destruct nx; cbn [fst]; [eapply RepC_mono; [|exact R]; lia|].
      apply (rep_put_existing compact clock); auto. rewrite emem_eget, E; reflexivity.
    - cbn [fst].
      pose proof (rep_put_batch compact clock ts c [(f, x)] R L) as P. cbn [map fst] in P.
      rewrite count_new_cons in P. rewrite emem_eget, E in P.
      change (count_new (prep_ver compact ts c) [] (c_elems c)) with 0 in P.
      replace (st_size c + (1 + 0)) with (st_size c + 1) in P by lia.
      apply P; [repeat constructor; tauto|cbn; rewrite SK; reflexivity].
  Qed.

  Lemma hmset_rep clock ts key fvs (c : hcoll) :
    Rep clock c -> 0 <= clock < ts -> Rep ts (fst (hmset compact ts key fvs c)).
  Proof.
    intros R L. unfold hmset.
    destruct (too_many fvs); cbn [fst]; [eapply RepC_mono; [|exact R]; lia|].
    destruct fvs as [|fv r]; cbn [fst]; [eapply RepC_mono; [|exact R]; lia|].
    set (fvs := fv :: r) in *.
    destruct (negb (key_ok key) || negb (hmset_args_ok fvs)) eqn:G; cbn [fst]; [eapply RepC_mono; [|exact R]; lia|].
    apply (rep_put_batch compact clock); auto.
    - apply last_wins_keys_NoDup.
    - apply orb_false_iff in G. destruct G as [_ G]. apply negb_false_iff in G.
      unfold hmset_args_ok in G. rewrite forallb_forall in G. apply forallb_forall.
      intros k Hk. apply (proj1 (last_wins_keys_In _ _)) in Hk. apply in_map_iff in Hk. destruct Hk as ([k' x'] & <- & Hin).
      specialize (G _ Hin). cbn in G. apply andb_true_iff in G. tauto.
  Qed.

  Lemma hdel_rep clock key fs (c : hcoll) : Rep clock c -> Rep clock (fst (hdel key fs c)).
  Proof.
    intros R. unfold hdel.
    destruct (too_many fs); cbn [fst]; [exact R|].
    destruct fs as [|f r]; cbn [fst]; [exact R|].
    destruct (negb (key_ok key) || negb (forallb subkey_ok (f :: r))); cbn [fst]; [exact R|].
    apply rep_del_batch; [exact R|apply dedup_NoDup].
  Qed.

  Lemma hincrby_rep clock ts key f d (c : hcoll) :
    Rep clock c -> 0 <= clock < ts -> Rep ts (fst (hincrby compact ts key f d c)).
  Proof.
    intros R L. unfold hincrby.
    destruct (negb (key_ok key) || negb (subkey_ok f)); cbn [fst]; [eapply RepC_mono; [|exact R]; lia|].
    destruct (match (if exists_coll c then eget (st_ver c) f (c_elems c) else None) with
              | Some b => parse_int64 b | None => Some 0 end) as [n0|]; cbn [fst]; [|eapply RepC_mono; [|exact R]; lia].
    destruct (negb (in_int64 (n0 + d))); cbn [fst]; [eapply RepC_mono; [|exact R]; lia|].
    pose proof (hset_rep clock ts false key f (format_int (n0 + d)) c R L) as H.
    destruct (hset compact ts false key f (format_int (n0 + d)) c) as [c' r]. exact H.
  Qed.

  Lemma hclear_rep clock ts key (c : hcoll) : Rep clock c -> Rep clock (fst (hclear compact ts key c)).
  Proof.
    intros R. unfold hclear.
    destruct (negb (key_ok key)); cbn [fst]; [exact R|].
    destruct (st_size c =? 0); cbn [fst]; [exact R|apply rep_clear; [apply lazy_clear_compact|exact R]].
  Qed.

  (* ---------- set ---------- *)
  Lemma sadd_rep clock ts key ms (c : scoll) :
    Rep clock c -> 0 <= clock < ts -> Rep ts (fst (sadd compact ts key ms c)).
  Proof.
    intros R L. unfold sadd.
    destruct (too_many ms); cbn [fst]; [eapply RepC_mono; [|exact R]; lia|].
    destruct (negb (key_ok key) || negb (forallb subkey_ok ms)) eqn:G; cbn [fst]; [eapply RepC_mono; [|exact R]; lia|].
    set (v := prep_ver compact ts c).
    set (news := filter (fun m => negb (emem v m (c_elems c))) (dedup [] ms)).
    pose proof (rep_put_batch compact clock ts c (map (fun m => (m, tt)) news) R L) as P.
    assert (MF : map fst (map (fun m : bytes => (m, tt)) news) = news).
    { rewrite map_map. cbn. apply map_id. }
    rewrite MF in P. fold v in P.
    rewrite (count_new_all_new v news) in P.
    2:{ intros k Hk. unfold news in Hk. apply filter_In in Hk. destruct Hk as [_ Hk]. apply negb_true_iff in Hk. exact Hk. }
    apply P.
    - unfold news. apply NoDup_filter, dedup_NoDup.
    - apply forallb_forall. intros k Hk. unfold news in Hk. apply filter_In in Hk. destruct Hk as [Hk _].
      apply (proj1 (dedup_nil_In _ _)) in Hk. apply orb_false_iff in G. destruct G as [_ G]. apply negb_false_iff in G.
      rewrite forallb_forall in G. apply G; exact Hk.
  Qed.

  Lemma srem_body_rep clock ms (c : scoll) : Rep clock c -> Rep clock (fst (srem_body ms c)).
  Proof. intros R. unfold srem_body; cbn [fst]. apply rep_del_batch; [exact R|apply dedup_NoDup]. Qed.

  Lemma srem_rep clock key ms (c : scoll) : Rep clock c -> Rep clock (fst (srem key ms c)).
  Proof.
    intros R. unfold srem. destruct ms as [|m r]; cbn [fst]; [exact R|].
    destruct (too_many (m :: r)); cbn [fst]; [exact R|].
    destruct (negb (key_ok key) || negb (forallb subkey_ok (m :: r))); cbn [fst]; [exact R|].
    pose proof (srem_body_rep clock (m :: r) c R) as H. destruct (srem_body (m :: r) c); exact H.
  Qed.

  Lemma spop_rep clock key n (c : scoll) : Rep clock c -> Rep clock (fst (spop key n c)).
  Proof.
    intros R. unfold spop.
    destruct (smembers_n key (match n with Some n0 => n0 | None => 1 end) c) as [vals|]; cbn [fst]; [|exact R].
    pose proof (srem_rep clock key vals c R) as H. destruct (srem key vals c) as [c' r]. cbn [fst] in H.
    destruct r; cbn [fst]; auto.
  Qed.

  Lemma sclear_rep clock ts key (c : scoll) : Rep clock c -> Rep clock (fst (sclear compact ts key c)).
  Proof.
    intros R. unfold sclear.
    destruct (negb (key_ok key)); cbn [fst]; [exact R|].
    destruct (st_size c =? 0); cbn [fst]; [exact R|apply rep_clear; [apply lazy_clear_compact|exact R]].
  Qed.

  (* ---------- C09 read back: what the read commands report under Rep ---------- *)
  Lemma scan_length {V} v (es : list (vkey * V)) : length (scan v es) = length (gen_elems v es).
  Proof. unfold scan. rewrite map_length, isort_length; reflexivity. Qed.

  Lemma gen_In {V} v (es : list (vkey * V)) e : In e (gen_elems v es) <-> In e es /\ fst (fst e) = v.
  Proof. unfold gen_elems. rewrite filter_In, Z.eqb_eq; tauto. Qed.

  Lemma scan_In {V} v (es : list (vkey * V)) f x : In (f, x) (scan v es) <-> In ((v, f), x) es.
  Proof.
    unfold scan. rewrite in_map_iff. split.
    - intros ([[v' f'] x'] & E & H). cbn in E. inversion E; subst. apply isort_In, gen_In in H. cbn in H.
      destruct H as [H ->]; exact H.
    - intros H. exists ((v, f), x). split; [reflexivity|]. apply isort_In, gen_In. cbn; auto.
  Qed.

  Lemma subkeys_NoDup {V} v (l : list (vkey * V)) :
    NoDup (map fst l) -> (forall e, In e l -> fst (fst e) = v) -> NoDup (map (fun e : vkey * V => snd (fst e)) l).
  Proof.
    induction l as [|e r IH]; intros NG AV; cbn; [constructor|].
    cbn in NG. inversion NG as [|? ? Hn NG']; subst. constructor.
    - intros H. apply Hn. apply in_map_iff in H. destruct H as (e' & E & He'). apply in_map_iff. exists e'. split; [|exact He'].
      pose proof (AV e (or_introl eq_refl)) as A1. pose proof (AV e' (or_intror He')) as A2.
      destruct e as [[a b] c], e' as [[a' b'] c']. cbn in *. subst. reflexivity.
    - apply IH; [exact NG'|]. intros x Hx; apply AV; right; exact Hx.
  Qed.

  Lemma scan_keys_NoDup {V} v (es : list (vkey * V)) : NoDup (map fst es) -> NoDup (map fst (scan v es)).
  Proof.
    intros ND. unfold scan. rewrite map_map. cbn.
    assert (P : Permutation (map (fun e : vkey * V => snd (fst e)) (isort sub_leb (gen_elems v es)))
                            (map (fun e : vkey * V => snd (fst e)) (gen_elems v es))) by apply map_isort_perm.
    eapply Permutation_NoDup; [symmetry; exact P|].
    apply (subkeys_NoDup v).
    - rewrite gen_elems_kfilter. apply nodup_kfilter; exact ND.
    - intros e He; apply gen_In in He; tauto.
  Qed.

  (* a hash: HLEN = |HGETALL| = |HKEYS| = |HVALS|, fields unique, HKEYEXIST = (count >= 1),
     every enumerated field is found by HGET with the enumerated value *)
  Definition hash_agree (key : bytes) (c : hcoll) : Prop :=
    forall l, henum key c = Some l ->
      hlen key c = RInt (Z.of_nat (length l)) /\
      hgetall key c = RArr (flat_map (fun fv => [RBulk (fst fv); RBulk (snd fv)]) l) /\
      hkeys key c = rbulks (map fst l) /\
      hvals key c = rbulks (map snd l) /\
      hkeyexist key c = rbool (negb (Nat.eqb (length l) 0)) /\
      NoDup (map fst l) /\
      (forall f x, In (f, x) l -> hget key f c = RBulk x /\ hexists key f c = RInt 1).

  Lemma rep_hash_agree clock key (c : hcoll) : Rep clock c -> hash_agree key c.
  Proof.
    intros R l Hl. unfold henum in Hl. unfold hlen, hgetall, hkeys, hvals, hkeyexist, henum.
    destruct (negb (key_ok key)) eqn:K; [discriminate|].
    unfold exists_coll, st_size, st_ver in *.
    destruct (c_meta c) as [m|] eqn:E; cbn [negb] in *.
    - destruct (max_batch_num <? cm_size m); [discriminate|]. inversion Hl; subst l; clear Hl.
      destruct (rc_meta _ _ _ R m E) as (a & b & d).
      rewrite scan_length, <- b. repeat split; auto.
      + destruct (length (gen_elems (cm_ver m) (c_elems c))) eqn:Len; [lia|reflexivity].
      + apply scan_keys_NoDup, (rc_nodup _ _ _ R).
      + unfold hget. rewrite K. apply scan_In in H.
        assert (S : subkey_ok f = true) by (apply (rc_sub _ _ _ R _ H)).
        rewrite S; cbn. unfold exists_coll, st_ver; rewrite E. unfold eget.
        rewrite (In_aget_nodup vkey_eqb vkey_eqb_eq _ _ _ (rc_nodup _ _ _ R) H). reflexivity.
      + unfold hexists. rewrite K. apply scan_In in H.
        assert (S : subkey_ok f = true) by (apply (rc_sub _ _ _ R _ H)).
        rewrite S; cbn. unfold exists_coll, st_ver; rewrite E. unfold emem, amem.
        rewrite (In_aget_nodup vkey_eqb vkey_eqb_eq _ _ _ (rc_nodup _ _ _ R) H). reflexivity.
    - inversion Hl; subst l. cbn. repeat split; auto; [constructor|tauto|tauto].
  Qed.

  (* a set: SCARD = |SMEMBERS|, members unique, SKEYEXIST = (count >= 1), every enumerated member is a member *)
  Definition set_agree (key : bytes) (c : scoll) : Prop :=
    key_ok key = true -> st_size c <= max_batch_num ->
    exists l, smembers key c = rbulks l /\
      scard key c = RInt (Z.of_nat (length l)) /\
      skeyexist key c = rbool (negb (Nat.eqb (length l) 0)) /\
      NoDup l /\
      (forall m, In m l -> sismember key m c = RInt 1).

  Lemma rep_set_agree clock key (c : scoll) : Rep clock c -> set_agree key c.
  Proof.
    intros R K Sz. unfold smembers, scard, skeyexist, smembers_n. rewrite K; cbn [negb].
    unfold exists_coll, st_size, st_ver in *.
    destruct (c_meta c) as [m|] eqn:E.
    - destruct (rc_meta _ _ _ R m E) as (a & b & d).
      assert (cm_size m =? 0 = false) as -> by lia.
      assert (max_batch_num <? cm_size m = false) as -> by lia.
      assert (cm_size m <=? 0 = false) as -> by lia.
      cbn [negb].
      exists (map fst (scan (cm_ver m) (c_elems c))).
      assert (Len : length (map fst (scan (cm_ver m) (c_elems c))) = Z.to_nat (cm_size m)).
      { rewrite map_length, scan_length. lia. }
      rewrite firstn_all2 by lia.
      repeat split; auto.
      + rewrite Len. f_equal. lia.
      + rewrite Len. destruct (Z.to_nat (cm_size m)) eqn:Q; [lia|reflexivity].
      + apply scan_keys_NoDup, (rc_nodup _ _ _ R).
      + intros mm Hm. apply in_map_iff in Hm. destruct Hm as ([f x] & <- & H). cbn [fst].
        apply scan_In in H. unfold sismember. rewrite K; cbn [negb]. unfold exists_coll, st_ver. rewrite E. cbn [negb].
        pose proof (rc_sub _ _ _ R _ H) as S. cbn [fst snd] in S. rewrite S; cbn [negb]. unfold emem, amem.
        rewrite (In_aget_nodup vkey_eqb vkey_eqb_eq _ _ _ (rc_nodup _ _ _ R) H). reflexivity.
    - exists []. cbn. repeat split; auto; [constructor|tauto].
  Qed.
End HS.
