(* Data/RepL.v — the representation invariant of a list (MapL.v) and its preservation by every list
   command: the element keys of the current generation are exactly the sequences head..tail. *)
From ZV Require Import Common.Bytes Common.BytesFacts Data.Consts Data.Base Data.BaseFacts Data.Map Data.MapL Data.RepColl.
From Coq Require Import Permutation Lia ZifyBool.
Open Scope Z_scope.

Lemma skey_eqb_eq (a b : skey) : skey_eqb a b = true <-> a = b.
Proof.
  destruct a as [v s], b as [v' s']; unfold skey_eqb; cbn.
  rewrite andb_true_iff, !Z.eqb_eq. split; [intros [-> ->]; reflexivity|intros H; inversion H; auto].
Qed.

Lemma filter_nil {A} (f : A -> bool) l : (forall e, In e l -> f e = false) -> filter f l = [].
Proof.
  induction l as [|x r IH]; intros H; cbn; [reflexivity|]. rewrite (H x (or_introl eq_refl)). apply IH. intros e He; apply H; right; exact He.
Qed.

(* ---------- lDelete removes exactly the element keys head..tail of the generation, whatever the size ---------- *)
Theorem ldelete_range_then_tail v head tail (es : list (skey * bytes)) : NoDup (map fst es) -> head <= tail ->
  ldel v tail (ldelete_range v head tail es) = ldrop_range v head tail es.
Proof.
  intros ND L. unfold ldel, ldelete_range, ldrop_range.
  rewrite (adel_filter skey_eqb skey_eqb_eq) by (apply (nodup_kfilter (fun k : skey => negb (lin_range v head tail false k))); exact ND).
  rewrite filter_and. apply filter_ext. intros [[v' s'] x]. unfold lin_range, skey_eqb. cbn [fst snd]. lia.
Qed.
Theorem ldelete_each_then_tail v head tail (es : list (skey * bytes)) : NoDup (map fst es) -> head <= tail ->
  ldel v tail (ldelete_each v head tail es) = ldrop_range v head tail es.
Proof.
  intros ND L. unfold ldel, ldelete_each, ldrop_range.
  rewrite (delete_each_filter skey_eqb skey_eqb_eq (lin_range v head tail true) es ND).
  rewrite (adel_filter skey_eqb skey_eqb_eq) by (apply (nodup_kfilter (fun k : skey => negb (lin_range v head tail true k))); exact ND).
  rewrite filter_and. apply filter_ext. intros [[v' s'] x]. unfold lin_range, skey_eqb. cbn [fst snd]. lia.
Qed.
Theorem lclear_elems_exact size v head tail (es : list (skey * bytes)) : NoDup (map fst es) -> head <= tail ->
  lclear_elems size v head tail es = ldrop_range v head tail es.
Proof.
  intros ND L. unfold lclear_elems. destruct (range_delete_num <? size);
    [apply ldelete_range_then_tail; assumption|apply ldelete_each_then_tail; assumption].
Qed.

Section RL.
  Variable compact : bool.
  Notation vok := (ver_ok compact).

  Definition lmem (v s : Z) (es : list (skey * bytes)) : bool := amem skey_eqb (v, s) es.

  Record RepL (clock : Z) (l : lcoll) : Prop := {
    rl_nodup : NoDup (map fst (l_elems l));
    rl_meta : forall m, l_meta l = Some m ->
        lm_head m <= lm_tail m /\ vok clock (lm_ver m) /\
        (forall s, lm_head m <= s <= lm_tail m -> lmem (lm_ver m) s (l_elems l) = true) /\
        (forall e, In e (l_elems l) -> fst (fst e) = lm_ver m -> lm_head m <= snd (fst e) <= lm_tail m);
    rl_none : l_meta l = None -> compact = false -> l_elems l = [];
    rl_vers : forall e, In e (l_elems l) -> vok clock (fst (fst e)) }.

  Lemma RepL_mono clock clock' l : clock <= clock' -> RepL clock l -> RepL clock' l.
  Proof.
    intros L [A B C D]. constructor; auto.
    - intros m Hm. destruct (B m Hm) as (b1 & b2 & b3 & b4). repeat split; auto; try lia.
      + eapply ver_ok_mono; eauto.
      + apply b4; auto.
      + apply b4; auto.
    - intros e He. eapply ver_ok_mono; eauto.
  Qed.

  Lemma RepL_empty clock : RepL clock empty_lcoll.
  Proof. constructor; cbn; [constructor|discriminate|auto|tauto]. Qed.

  (* ---------- puts of a push ---------- *)
  Definition put_seqs (v : Z) (puts : list (Z * bytes)) (es : list (skey * bytes)) : list (skey * bytes) :=
    fold_left (fun es p => lput v (fst p) (snd p) es) puts es.

  Lemma lmem_lput v s s' x es : lmem v s' (lput v s x es) = (s' =? s) || lmem v s' es.
  Proof.
    unfold lmem, lput. rewrite (amem_aput skey_eqb skey_eqb_eq). unfold skey_eqb; cbn. rewrite Z.eqb_refl; reflexivity.
  Qed.
  Lemma lmem_lput_other v v' s s' x es : v' <> v -> lmem v' s' (lput v s x es) = lmem v' s' es.
  Proof.
    intros N. unfold lmem, lput. rewrite (amem_aput skey_eqb skey_eqb_eq). unfold skey_eqb; cbn.
    assert (v' =? v = false) as -> by lia. reflexivity.
  Qed.

  Lemma put_seqs_lmem v puts es s :
    lmem v s (put_seqs v puts es) = existsb (fun p => s =? fst p) puts || lmem v s es.
  Proof.
    revert es; induction puts as [|[s0 x0] r IH]; intros es; cbn; [reflexivity|].
    unfold put_seqs in *; cbn. rewrite IH, lmem_lput. cbn.
    destruct (s =? s0), (existsb (fun p => s =? fst p) r), (lmem v s es); reflexivity.
  Qed.

  Lemma put_seqs_nodup v puts es : NoDup (map fst es) -> NoDup (map fst (put_seqs v puts es)).
  Proof.
    revert es; induction puts as [|[s0 x0] r IH]; intros es ND; cbn; [exact ND|].
    unfold put_seqs in *; cbn. apply IH. apply (nodup_aput skey_eqb skey_eqb_eq); exact ND.
  Qed.

  Lemma lput_In v s x es e : In e (lput v s x es) -> In e es \/ fst e = (v, s).
  Proof.
    unfold lput. induction es as [|[k2 v2] es IH]; cbn.
    - intros [<-|[]]; right; reflexivity.
    - destruct (skey_eqb (v, s) k2) eqn:E.
      + apply skey_eqb_eq in E; subst. intros [<-|H]; [right; reflexivity|left; right; exact H].
      + intros [<-|H]; [left; left; reflexivity|]. destruct (IH H); auto.
  Qed.

  Lemma put_seqs_In v puts es e :
    In e (put_seqs v puts es) -> In e es \/ (fst (fst e) = v /\ existsb (fun p => snd (fst e) =? fst p) puts = true).
  Proof.
    revert es; induction puts as [|[s0 x0] r IH]; intros es; cbn; [auto|].
    unfold put_seqs in *; cbn. intros H. apply IH in H. destruct H as [H|[H1 H2]].
    - apply lput_In in H. destruct H as [H|H]; [left; exact H|]. right. rewrite H; cbn. rewrite Z.eqb_refl. auto.
    - right. split; [exact H1|]. rewrite H2. apply orb_true_r.
  Qed.

  Lemma push_seqs_exists seq delta vs s :
    existsb (fun p : Z * bytes => s =? fst p) (push_seqs seq delta vs) = true <->
    exists i, 0 <= i < Z.of_nat (length vs) /\ s = seq + i * delta.
  Proof.
    revert seq; induction vs as [|x r IH]; intros seq; cbn [push_seqs existsb length].
    - split; [discriminate|intros (i & H & _); lia].
    - rewrite orb_true_iff, IH. cbn [fst]. split.
      + intros [H|(i & Hi & ->)]; [exists 0; split; [lia|lia]|exists (i + 1); split; [lia|lia]].
      + intros (i & Hi & ->). destruct (Z.eq_dec i 0) as [->|N]; [left; lia|].
        right. exists (i - 1). split; [lia|lia].
  Qed.

  Lemma ldel_In v s es e : In e (ldel v s es) -> In e es.
  Proof.
    unfold ldel. induction es as [|[k2 v2] es IH]; cbn; [auto|].
    destruct (skey_eqb (v, s) k2); [auto|]. intros [H|H]; auto.
  Qed.
  Lemma lmem_ldel v s s' es : NoDup (map fst es) -> lmem v s' (ldel v s es) = negb (s' =? s) && lmem v s' es.
  Proof.
    intros ND. unfold lmem, ldel. rewrite (amem_adel skey_eqb skey_eqb_eq); [|exact ND]. unfold skey_eqb; cbn.
    rewrite Z.eqb_refl; reflexivity.
  Qed.
  Lemma ldel_notin v s es : NoDup (map fst es) -> forall e, In e (ldel v s es) -> fst e <> (v, s).
  Proof.
    intros ND e He Heq. assert (amem skey_eqb (v, s) (ldel v s es) = true).
    { apply (amem_In skey_eqb skey_eqb_eq). rewrite <- Heq. apply in_map; exact He. }
    fold (lmem v s (ldel v s es)) in H. rewrite lmem_ldel in H; [|exact ND]. rewrite Z.eqb_refl in H. discriminate.
  Qed.

  Lemma lmem_In v s es : lmem v s es = true <-> In (v, s) (map fst es).
  Proof. apply (amem_In skey_eqb skey_eqb_eq). Qed.

  Lemma lget_lmem v s es : lget v s es = None <-> lmem v s es = false.
  Proof. unfold lget, lmem, amem. destruct (aget skey_eqb (v, s) es); split; congruence. Qed.

  (* the generation a write works on: fresh when the meta key is absent *)
  Lemma prep_fresh clock ts l : RepL clock l -> 0 <= clock < ts -> l_meta l = None ->
    forall e, In e (l_elems l) -> fst (fst e) <> l_prep_ver compact ts l.
  Proof.
    intros R L Hm e He. unfold l_prep_ver. rewrite Hm.
    destruct compact eqn:C.
    - pose proof (rl_vers _ _ R e He) as Hv. unfold ver_ok in Hv. rewrite C in Hv. lia.
    - rewrite (rl_none _ _ R Hm C) in He. destruct He.
  Qed.

  Lemma prep_vok clock ts l : RepL clock l -> 0 <= clock < ts -> vok ts (l_prep_ver compact ts l).
  Proof.
    intros R L. unfold l_prep_ver. destruct (l_meta l) as [m|] eqn:E.
    - destruct (rl_meta _ _ R m E) as (_ & H & _). eapply ver_ok_mono; [|exact H]. lia.
    - unfold ver_ok. destruct compact; lia.
  Qed.

  (* ---------- every list command preserves the invariant ---------- *)
  (* ---------- LFIXKEY: nothing to repair on a list that satisfies the invariant ---------- *)
  (* every stored list lies strictly inside the sequence-number space (lpush refuses to reach its ends) *)
  Definition InSpace (l : lcoll) : Prop :=
    forall m, l_meta l = Some m -> list_min_seq < lm_head m /\ lm_tail m < list_max_seq.

  Lemma lscan_mem v lo hi es s : In s (map fst (lscan v lo hi es)) <-> (exists x, In ((v, s), x) es) /\ lo <= s <= hi.
  Proof.
    unfold lscan. rewrite map_map. cbn [fst]. rewrite in_map_iff. split.
    - intros ([[v' s'] x'] & E & H). cbn in E. subst s'. apply isort_In, filter_In in H. cbn in H.
      destruct H as [H Hc]. assert (v' = v) by lia. subst. split; [exists x'; exact H|lia].
    - intros [[x H] Hc]. exists ((v, s), x). split; [reflexivity|]. apply isort_In, filter_In. split; [exact H|cbn; lia].
  Qed.
  Lemma ssorted_map_seq (L : list (skey * bytes)) : ssorted seq_leb L -> ssorted Z.leb (map (fun e : skey * bytes => snd (fst e)) L).
  Proof.
    induction 1 as [|x r Hx S IH]; cbn [map]; constructor; [|exact IH].
    intros y Hy. apply in_map_iff in Hy. destruct Hy as (e & <- & He). apply (Hx e He).
  Qed.
  Lemma lscan_seqs_sorted v lo hi es : ssorted Z.leb (map fst (lscan v lo hi es)).
  Proof.
    unfold lscan. rewrite map_map. cbn [fst]. apply ssorted_map_seq.
    apply isort_ssorted; unfold seq_leb; intros; lia.
  Qed.
  Lemma ssorted_last_max (l : list Z) : ssorted Z.leb l -> forall y, In y l -> y <= last l 0.
  Proof.
    induction 1 as [|x r Hx S IH]; intros y Hy; [destruct Hy|].
    destruct r as [|z r']; [destruct Hy as [<-|[]]; cbn; lia|].
    change (last (x :: z :: r') 0) with (last (z :: r') 0). destruct Hy as [<-|Hy]; [|apply IH; exact Hy].
    pose proof (Hx z (or_introl eq_refl)) as H1. pose proof (IH z (or_introl eq_refl)) as H2. lia.
  Qed.

  Lemma lfixkey_noop clock ts key l : RepL clock l -> InSpace l -> lstep compact ts key LCfixkey l = (l, RNil).
  Proof.
    intros R IS. cbn [lstep]. destruct (l_meta l) as [m|] eqn:E; [|reflexivity].
    destruct (rl_meta _ _ R m E) as (hle & vk & pres & conf). destruct (IS m E) as [b1 b2].
    set (seqs := map fst (lscan (lm_ver m) list_min_seq list_max_seq (l_elems l))).
    assert (Mem : forall s, In s seqs <-> (exists x, In ((lm_ver m, s), x) (l_elems l)) /\ list_min_seq <= s <= list_max_seq)
      by (intros s; apply lscan_mem).
    assert (Srt : ssorted Z.leb seqs) by apply lscan_seqs_sorted.
    assert (Has : forall s, lm_head m <= s <= lm_tail m -> In s seqs).
    { intros s Hs. apply Mem. split; [|lia]. pose proof (pres s Hs) as P. unfold lmem, amem in P.
      destruct (aget skey_eqb (lm_ver m, s) (l_elems l)) as [x|] eqn:G; [|discriminate].
      exists x. apply (aget_In skey_eqb skey_eqb_eq); exact G. }
    assert (Within : forall s, In s seqs -> lm_head m <= s <= lm_tail m).
    { intros s Hs. apply Mem in Hs. destruct Hs as [[x Hx] _]. apply (conf ((lm_ver m, s), x) Hx eq_refl). }
    assert (Hh : hd 0 seqs = lm_head m).
    { destruct seqs as [|a r] eqn:ES; [exfalso; apply (Has (lm_head m)); lia|]. cbn [hd].
      inversion Srt as [|? ? Ha _]; subst. pose proof (Within a (or_introl eq_refl)) as W.
      destruct (Has (lm_head m) ltac:(lia)) as [<-|Hr]; [reflexivity|]. pose proof (Ha _ Hr). lia. }
    assert (Ht : last seqs 0 = lm_tail m).
    { pose proof (ssorted_last_max seqs Srt (lm_tail m) (Has (lm_tail m) ltac:(lia))) as M1.
      assert (In (last seqs 0) seqs) as Hl.
      { destruct seqs as [|a r] eqn:ES; [exfalso; apply (Has (lm_head m)); lia|].
        clear. generalize a. induction r as [|z r IH]; intros a0; [left; reflexivity|]. right. apply IH. }
      pose proof (Within _ Hl). lia. }
    destruct (negb (contiguous seqs)); [reflexivity|]. rewrite Hh, Ht, !Z.eqb_refl. reflexivity.
  Qed.

  (* the list commands keep every list inside the sequence-number space *)
  Lemma lstep_space clock ts key c l : RepL clock l -> InSpace l -> InSpace (fst (lstep compact ts key c l)).
  Proof.
    intros R IS. destruct c as [tail vs|tail|i x|start stop| | |]; cbn [lstep]; try exact IS.
    - (* push: the new end passed the test against listMinSeq / listMaxSeq *)
      destruct (too_many vs); [exact IS|]. destruct (negb (key_ok key)); [exact IS|].
      destruct vs as [|x0 r0] eqn:EV; [exact IS|]. rewrite <- EV.
      match goal with |- context [if ?b then (l, RErr) else _] => destruct b eqn:CHK end; [exact IS|].
      match goal with |- context [if existsb ?f ?p then _ else _] => destruct (existsb f p) end; [exact IS|].
      unfold lset_meta.
      match goal with |- context [if ?b then None else _] => destruct b end; [exact IS|].
      match goal with |- context [if ?b then Some None else _] => destruct b end; cbn [fst l_meta]; [intros m E; discriminate|].
      intros m E. injection E as E1. subst m. cbn [lm_head lm_tail].
      assert (C1 : 1 <= Z.of_nat (length vs)) by (rewrite EV; cbn [length]; lia). clear EV.
      unfold l_size, l_head, l_tail in *. unfold list_min_seq, list_max_seq, list_initial_seq in *.
      destruct (l_meta l) as [m0|] eqn:E0.
      + destruct (IS m0 E0) as [a1 a2]. destruct (rl_meta _ _ R m0 E0) as (hle & _).
        assert (0 <? lm_tail m0 - lm_head m0 + 1 = true) as EQ by lia. rewrite EQ in *.
        unfold list_min_seq, list_max_seq in *. destruct tail; cbv iota in *; lia.
      + change (0 <? 0) with false in *. cbv iota in *. destruct tail; cbv iota in *; lia.
    - (* pop *)
      destruct (negb (key_ok key)); [exact IS|]. unfold l_exists, l_size, l_head, l_tail, l_ver.
      destruct (l_meta l) as [m0|] eqn:E0; [|exact IS]. cbn [negb]. cbv beta iota.
      destruct (lm_tail m0 - lm_head m0 + 1 =? 0); [exact IS|].
      match goal with |- context [match lget ?a ?b ?c with _ => _ end] => destruct (lget a b c) end; [|exact IS].
      unfold lset_meta.
      match goal with |- context [if ?b then None else _] => destruct b end; [exact IS|].
      match goal with |- context [if ?b then Some None else _] => destruct b eqn:Z0 end; cbn [fst l_meta]; [intros m E; discriminate|].
      intros m E. injection E as E1. subst m. cbn [lm_head lm_tail].
      destruct (IS m0 E0) as [a1 a2]. destruct (rl_meta _ _ R m0 E0) as (hle & _). destruct tail; lia.
    - (* lset *)
      destruct (negb (key_ok key)); [exact IS|]. unfold l_exists. destruct (l_meta l) as [m0|] eqn:E0; [|exact IS]. cbn [negb].
      destruct (l_size l =? 0); [exact IS|].
      match goal with |- context [if ?b then (l, RErr) else _] => destruct b end; [exact IS|].
      cbn [fst l_meta]. intros m E. injection E as E1. subst m. apply (IS m0 E0).
    - (* ltrim *)
      destruct (negb (key_ok key)); [exact IS|]. unfold l_exists. destruct (l_meta l) as [m0|] eqn:E0; [|exact IS]. cbn [negb].
      destruct (IS m0 E0) as [a1 a2]. destruct (rl_meta _ _ R m0 E0) as (hle & _).
      assert (Hs : l_size l = lm_tail m0 - lm_head m0 + 1) by (unfold l_size; rewrite E0; reflexivity).
      assert (Hh : l_head l = lm_head m0) by (unfold l_head; rewrite E0; reflexivity).
      set (llen := l_size l) in *.
      set (start1 := if start <? 0 then llen + start else start).
      set (stop1 := if stop <? 0 then llen + stop else stop).
      set (start2 := if start1 <? 0 then 0 else start1).
      destruct ((llen <=? start2) || (stop1 <? start2)) eqn:Emp.
      + unfold ldelete. rewrite E0. destruct (l_size l =? 0); cbn [fst l_meta]; [exact IS|intros m E; discriminate].
      + set (stop2 := if llen <=? stop1 then llen - 1 else stop1).
        assert (Bd : 0 <= start2 /\ start2 <= stop2 /\ stop2 < llen)
          by (unfold stop2, start2 in *; repeat match goal with |- context [if ?b then _ else _] => destruct b eqn:? end; lia).
        unfold lset_meta. rewrite Hh.
        assert (lm_head m0 + stop2 - (lm_head m0 + start2) + 1 <? 0 = false) as -> by lia.
        assert (lm_head m0 + stop2 - (lm_head m0 + start2) + 1 =? 0 = false) as -> by lia.
        cbn [fst l_meta]. intros m E. injection E as E1. subst m. cbn [lm_head lm_tail]. lia.
    - (* lclear *)
      destruct (negb (key_ok key)); [exact IS|]. unfold ldelete. destruct (l_meta l) as [m0|] eqn:E0; cbn [fst]; [|exact IS].
      destruct (l_size l =? 0); cbn [fst l_meta]; [exact IS|intros m E; discriminate].
    - (* lfixkey *)
      pose proof (f_equal fst (lfixkey_noop clock ts key l R IS)) as H. cbn [lstep fst] in H. rewrite H. exact IS.
  Qed.

  Theorem lstep_rep clock ts key c l : RepL clock l -> 0 <= clock < ts -> (c = LCfixkey -> InSpace l) ->
    RepL ts (fst (lstep compact ts key c l)).
  Proof.
    intros R L FK. assert (Rm : RepL ts l) by (eapply RepL_mono; [|exact R]; lia).
    assert (FX : c = LCfixkey -> RepL ts (fst (lstep compact ts key c l)))
      by (intros ->; rewrite (lfixkey_noop ts ts key l Rm (FK eq_refl)); exact Rm).
    destruct c as [tail vs|tail|i x|start stop| | |]; cbn [lstep]; try exact Rm; try (apply FX; reflexivity).
    - (* push *)
      destruct (too_many vs); [exact Rm|]. destruct (negb (key_ok key)); [exact Rm|].
      destruct vs as [|x0 r0]; [exact Rm|]. set (vs := x0 :: r0) in *.
      set (v := l_prep_ver compact ts l). set (size := l_size l).
      set (delta := if tail then 1 else -1).
      set (seq0 := if tail then l_tail l else l_head l).
      set (seq := if 0 <? size then seq0 + delta else seq0).
      set (cnt := Z.of_nat (length vs)). set (last := seq + (cnt - 1) * delta).
      destruct ((last <=? list_min_seq) || (list_max_seq <=? last)); [exact Rm|].
      destruct (existsb _ (push_seqs seq delta vs)) eqn:EX; [exact Rm|].
      set (head' := if tail then l_head l else last). set (tl' := if tail then last else l_tail l).
      assert (cnt_pos : 0 < cnt) by (unfold cnt, vs; cbn [length]; lia).
      assert (Hrange : head' <= tl' /\
                (forall s, head' <= s <= tl' <->
                   (0 < size /\ l_head l <= s <= l_tail l) \/ (exists i, 0 <= i < cnt /\ s = seq + i * delta))).
      { unfold head', tl', last, seq, seq0, delta, size, l_size, l_head, l_tail in *.
        destruct (l_meta l) as [m|] eqn:E.
        - destruct (rl_meta _ _ R m E) as (hle & _).
          assert (0 <? lm_tail m - lm_head m + 1 = true) as -> by lia.
          destruct tail; (split; [lia|]); intros s; split.
          + intros H. destruct (Z_le_gt_dec s (lm_tail m)); [left; lia|right; exists (s - (lm_tail m + 1)); lia].
          + intros [H|(i & Hi & ->)]; lia.
          + intros H. destruct (Z_le_gt_dec (lm_head m) s); [left; lia|right; exists (lm_head m - 1 - s); lia].
          + intros [H|(i & Hi & ->)]; lia.
        - assert (0 <? 0 = false) as -> by reflexivity. destruct tail; (split; [lia|]); intros s; split.
          + intros H. right. exists (s - list_initial_seq); lia.
          + intros [H|(i & Hi & ->)]; lia.
          + intros H. right. exists (list_initial_seq - s); lia.
          + intros [H|(i & Hi & ->)]; lia. }
      destruct Hrange as [Hle Hiff].
      unfold lset_meta. assert (tl' - head' + 1 <? 0 = false) as -> by lia.
      assert (tl' - head' + 1 =? 0 = false) as -> by lia. cbn [fst].
      fold (put_seqs v (push_seqs seq delta vs) (l_elems l)).
      (* elements of generation v in the old store lie in the old range *)
      assert (Old : forall e, In e (l_elems l) -> fst (fst e) = v -> 0 < size /\ l_head l <= snd (fst e) <= l_tail l).
      { intros e He Hv. unfold size, l_size, l_head, l_tail, v, l_prep_ver in *. destruct (l_meta l) as [m|] eqn:E.
        - destruct (rl_meta _ _ R m E) as (hle & _ & _ & conf). split; [lia|apply conf; auto].
        - exfalso. eapply (prep_fresh clock ts l R L E e He). unfold l_prep_ver; rewrite E. exact Hv. }
      constructor; cbn [l_meta l_elems].
      + apply put_seqs_nodup, (rl_nodup _ _ R).
      + intros m Hm. inversion Hm; subst m; cbn [lm_head lm_tail lm_ver]. split; [exact Hle|]. split; [apply (prep_vok clock); auto|]. split.
        * intros s Hs. rewrite put_seqs_lmem. apply Hiff in Hs. destruct Hs as [[Sp Hs]|Hs].
          -- apply orb_true_iff; right. unfold size, l_size, l_head, l_tail, v, l_prep_ver in *.
             destruct (l_meta l) as [m|] eqn:E; [|lia]. destruct (rl_meta _ _ R m E) as (_ & _ & pres & _). apply pres; exact Hs.
          -- apply orb_true_iff; left. apply push_seqs_exists. exact Hs.
        * intros e He Hv. apply put_seqs_In in He. apply Hiff. destruct He as [He|[_ He]].
          -- left. apply Old; auto.
          -- right. apply push_seqs_exists in He. exact He.
      + discriminate.
      + intros e He. apply put_seqs_In in He. destruct He as [He|[He _]].
        * apply (rl_vers _ _ Rm e He).
        * rewrite He. apply (prep_vok clock); auto.
    - (* pop *)
      destruct (negb (key_ok key)); [exact Rm|].
      unfold l_exists, l_size, l_ver, l_head, l_tail.
      destruct (l_meta l) as [m|] eqn:E; [|exact Rm]. cbn [negb]. cbv beta iota.
      destruct (lm_tail m - lm_head m + 1 =? 0); [exact Rm|].
      destruct (rl_meta _ _ Rm m E) as (hle & vk & pres & conf).
      set (seq := if tail then lm_tail m else lm_head m).
      destruct (lget (lm_ver m) seq (l_elems l)) as [x|] eqn:G; [|exact Rm].
      set (head' := if tail then lm_head m else lm_head m + 1). set (tl' := if tail then lm_tail m - 1 else lm_tail m).
      unfold lset_meta. assert (tl' - head' + 1 <? 0 = false) as -> by (unfold tl', head'; destruct tail; lia).
      pose proof (rl_nodup _ _ R) as ND.
      destruct (tl' - head' + 1 =? 0) eqn:Z0; cbn [fst].
      + (* last element removed: the meta key goes *)
        constructor; cbn [l_meta l_elems].
        * apply (nodup_adel skey_eqb); exact ND.
        * discriminate.
        * intros _ C. destruct (ldel (lm_ver m) seq (l_elems l)) as [|e r] eqn:D; [reflexivity|exfalso].
          assert (He : In e (ldel (lm_ver m) seq (l_elems l))) by (rewrite D; left; reflexivity).
          pose proof (ldel_notin _ _ _ ND e He) as Hne. apply ldel_In in He.
          pose proof (rl_vers _ _ R e He) as Hv. unfold ver_ok in *. rewrite C in *.
          assert (fst (fst e) = lm_ver m) by lia. specialize (conf e He H).
          apply Hne. destruct e as [[a b] c]. cbn in *. f_equal; [exact H|]. unfold seq, tl', head' in *. destruct tail; lia.
        * intros e He. apply ldel_In in He. apply (rl_vers _ _ Rm e He).
      + constructor; cbn [l_meta l_elems].
        * apply (nodup_adel skey_eqb); exact ND.
        * intros m' Hm'. inversion Hm'; subst m'; cbn [lm_head lm_tail lm_ver].
          split; [unfold tl', head' in *; destruct tail; lia|]. split; [exact vk|]. split.
          -- intros s Hs. rewrite lmem_ldel; [|exact ND]. apply andb_true_iff. split.
             ++ unfold seq, tl', head' in *; destruct tail; lia.
             ++ apply pres. unfold tl', head' in *; destruct tail; lia.
          -- intros e He Hv. pose proof (ldel_notin _ _ _ ND e He) as Hne. apply ldel_In in He.
             specialize (conf e He Hv). destruct e as [[a b] c]. cbn in *. subst a.
             assert (b <> seq) by (intros ->; apply Hne; reflexivity).
             unfold seq, tl', head' in *; destruct tail; lia.
        * discriminate.
        * intros e He. apply ldel_In in He. apply (rl_vers _ _ Rm e He).
    - (* lset *)
      destruct (negb (key_ok key)); [exact Rm|].
      unfold l_exists, l_size, l_ver, l_head, l_tail.
      destruct (l_meta l) as [m|] eqn:E; [|exact Rm]. cbn [negb]. cbv beta iota.
      destruct (lm_tail m - lm_head m + 1 =? 0); [exact Rm|].
      set (seq := if 0 <=? i then lm_head m + i else lm_tail m + i + 1).
      destruct ((seq <? lm_head m) || (lm_tail m <? seq)) eqn:Out; [exact Rm|]. cbn [fst].
      destruct (rl_meta _ _ Rm m E) as (hle & vk & pres & conf).
      constructor; cbn [l_meta l_elems].
      + apply (nodup_aput skey_eqb skey_eqb_eq), (rl_nodup _ _ R).
      + intros m' Hm'. inversion Hm'; subst m'. repeat split; auto; try lia.
        * intros s Hs. rewrite lmem_lput. rewrite (pres s Hs). apply orb_true_r.
        * apply lput_In in H. destruct H as [H|H]; [apply conf; auto|]. rewrite H; cbn. lia.
        * apply lput_In in H. destruct H as [H|H]; [apply conf; auto|]. rewrite H; cbn. lia.
      + discriminate.
      + intros e He. apply lput_In in He. destruct He as [He|He]; [apply (rl_vers _ _ Rm e He)|]. rewrite He; cbn. exact vk.
    - (* ltrim *)
      destruct (negb (key_ok key)); [exact Rm|].
      unfold l_exists. destruct (l_meta l) as [m|] eqn:E; [|exact Rm]. cbn [negb]. cbv beta iota.
      destruct (rl_meta _ _ Rm m E) as (hle & vk & pres & conf).
      assert (Hsz : l_size l = lm_tail m - lm_head m + 1) by (unfold l_size; rewrite E; reflexivity).
      assert (Hh : l_head l = lm_head m) by (unfold l_head; rewrite E; reflexivity).
      assert (Hv : l_ver l = lm_ver m) by (unfold l_ver; rewrite E; reflexivity).
      set (llen := l_size l) in *.
      set (start1 := if start <? 0 then llen + start else start).
      set (stop1 := if stop <? 0 then llen + stop else stop).
      set (start2 := if start1 <? 0 then 0 else start1).
      destruct ((llen <=? start2) || (stop1 <? start2)) eqn:Emp.
      + (* whole list deleted *)
        unfold ldelete. rewrite E. fold llen. destruct (llen =? 0); cbn [fst]; [exact Rm|].
        rewrite (lclear_elems_exact llen (lm_ver m) (lm_head m) (lm_tail m) (l_elems l) (rl_nodup _ _ R) hle).
        constructor; cbn [l_meta l_elems].
        * destruct (lazy_clear compact ts (l_ver l)); [apply (rl_nodup _ _ R)|]. unfold ldrop_range.
          apply (nodup_kfilter (fun k : skey => negb ((fst k =? lm_ver m) && (lm_head m <=? snd k) && (snd k <=? lm_tail m)))), (rl_nodup _ _ R).
        * discriminate.
        * intros _ C. rewrite C. unfold lazy_clear. cbn [andb]. unfold ldrop_range. apply filter_nil. intros e He.
          pose proof (rl_vers _ _ R e He) as Hv'. unfold ver_ok in *. rewrite C in *. unfold skey in *.
          assert (H : fst (fst e) = lm_ver m) by lia. destruct (conf e He H) as [c1 c2].
          assert (fst (fst e) =? lm_ver m = true) as -> by (apply Z.eqb_eq; exact H).
          assert (lm_head m <=? snd (fst e) = true) as -> by (apply Z.leb_le; exact c1).
          assert (snd (fst e) <=? lm_tail m = true) as -> by (apply Z.leb_le; exact c2). reflexivity.
        * intros e He. apply (rl_vers _ _ Rm e). destruct (lazy_clear compact ts (l_ver l)); [exact He|]. unfold ldrop_range in He. apply filter_In in He; tauto.
      + set (stop2 := if llen <=? stop1 then llen - 1 else stop1).
        unfold lset_meta. rewrite Hh.
        assert (lm_head m + stop2 - (lm_head m + start2) + 1 <? 0 = false) as -> by (unfold stop2; destruct (llen <=? stop1) eqn:Q; lia).
        assert (lm_head m + stop2 - (lm_head m + start2) + 1 =? 0 = false) as -> by (unfold stop2; destruct (llen <=? stop1) eqn:Q; lia).
        cbn [fst]. rewrite Hv.
        assert (B : 0 <= start2 /\ start2 <= stop2 /\ stop2 < llen) by (unfold stop2, start2 in *; destruct (llen <=? stop1) eqn:Q; destruct (start1 <? 0) eqn:Q2; lia).
        constructor; cbn [l_meta l_elems].
        * apply (nodup_kfilter (fun k : skey => negb ((fst k =? lm_ver m) &&
              (((lm_head m <=? snd k) && (snd k <? lm_head m + start2)) || ((lm_head m + stop2 <? snd k) && (snd k <? lm_head m + llen)))))), (rl_nodup _ _ R).
        * intros m' Hm'. inversion Hm'; subst m'; cbn [lm_head lm_tail lm_ver]. split; [lia|]. split; [exact vk|]. split.
          -- intros s Hs. apply lmem_In. assert (P : lmem (lm_ver m) s (l_elems l) = true) by (apply pres; lia).
             apply lmem_In in P. apply in_map_iff in P. destruct P as (e & Ee & He). apply in_map_iff. exists e. split; [exact Ee|].
             apply filter_In. split; [exact He|]. cbv beta. unfold skey in *. rewrite Ee; cbn [fst snd]. rewrite Z.eqb_refl.
             assert (s <? lm_head m + start2 = false) as -> by lia. assert (lm_head m + stop2 <? s = false) as -> by lia.
             destruct (lm_head m <=? s); reflexivity.
          -- intros e He Hv'. apply filter_In in He. destruct He as [He Hn]. destruct (conf e He Hv') as [c1 c2].
             unfold skey in *. rewrite Hv', Z.eqb_refl in Hn. cbn [andb] in Hn. apply negb_true_iff, orb_false_iff in Hn.
             destruct Hn as [N1 N2]. apply andb_false_iff in N1. apply andb_false_iff in N2. lia.
        * discriminate.
        * intros e He. apply filter_In in He. apply (rl_vers _ _ Rm e); tauto.
    - (* lclear *)
      destruct (negb (key_ok key)); [exact Rm|].
      unfold ldelete. destruct (l_meta l) as [m|] eqn:E; cbn [fst]; [|exact Rm].
      destruct (rl_meta _ _ Rm m E) as (hle & vk & pres & conf).
      destruct (l_size l =? 0); cbn [fst]; [exact Rm|].
      rewrite (lclear_elems_exact (l_size l) (lm_ver m) (lm_head m) (lm_tail m) (l_elems l) (rl_nodup _ _ R) hle).
      constructor; cbn [l_meta l_elems].
      + destruct (lazy_clear compact ts (l_ver l)); [apply (rl_nodup _ _ R)|]. unfold ldrop_range.
        apply (nodup_kfilter (fun k : skey => negb ((fst k =? lm_ver m) && (lm_head m <=? snd k) && (snd k <=? lm_tail m)))), (rl_nodup _ _ R).
      + discriminate.
      + intros _ C. rewrite C. unfold lazy_clear. cbn [andb]. unfold ldrop_range. apply filter_nil. intros e He.
        pose proof (rl_vers _ _ R e He) as Hv'. unfold ver_ok in *. rewrite C in *. unfold skey in *.
        assert (H : fst (fst e) = lm_ver m) by lia. destruct (conf e He H) as [c1 c2].
          assert (fst (fst e) =? lm_ver m = true) as -> by (apply Z.eqb_eq; exact H).
          assert (lm_head m <=? snd (fst e) = true) as -> by (apply Z.leb_le; exact c1).
          assert (snd (fst e) <=? lm_tail m = true) as -> by (apply Z.leb_le; exact c2). reflexivity.
      + intros e He. apply (rl_vers _ _ Rm e). destruct (lazy_clear compact ts (l_ver l)); [exact He|]. unfold ldrop_range in He. apply filter_In in He; tauto.
  Qed.
End RL.
