(* driver for the data-mapping models: reads datasim's case lines on stdin, prints "<id>\t<output>".
   Both models (Map = rockredis algorithm, Spec = Redis reference) run every command; the Map
   output is printed, and a disagreement between the two is made visible in the output
   (prefix SPECDIFF) so that the three-way comparison impl / Map / Spec localises a mismatch. *)
open Model
open Vio

let str_of_bytes (bs : n list) : string =
  String.concat "" (List.map (fun b -> String.make 1 (Char.chr (int_of_n b))) bs)

let pad16 s = let l = String.length s in if l >= 16 then s else String.make (16 - l) '0' ^ s

let rec reply_toks (r : reply) : string list =
  match r with
  | RNil -> ["_"]
  | RInt z -> [":" ^ str_of_bytes (format_int z)]
  | RBulk b -> ["$" ^ hex_of_bytes b]
  | RArr l -> ("*" ^ string_of_int (List.length l)) :: List.concat (List.map reply_toks l)
  | RFloat s -> ["f" ^ pad16 (hex_of_z (score_bits s))]
  | RErr -> ["-err"]
  | RFault -> ["fault"]
let reply_str r = String.concat " " (reply_toks r)
let part_str (p : reply list) = String.concat " " (List.map reply_str p)

let names = function
  | 'H' -> ["H len"; "ex"; "all"; "keys"; "vals"; "get"; "ttl"]
  | 'S' -> ["S card"; "ex"; "mem"; "is"; "ttl"]
  | 'L' -> ["L len"; "ex"; "range"; "idx"; "ttl"]
  | 'Z' -> ["Z card"; "ex"; "range"; "byscore"; "bylex"; "score"; "ttl"]
  | _ -> ["K get"; "strlen"; "exists"; "ttl"]

let obs_str (t : char) (parts : reply list list) : string =
  String.concat " | " (List.map2 (fun nm p -> nm ^ "=" ^ part_str p) (names t) parts)

let empty_obs = [
  "K get=_ | strlen=:0 | exists=:0 | ttl=:-1";
  "H len=:0 | ex=:0 | all=*0 | keys=*0 | vals=*0 | get= | ttl=:-1";
  "S card=:0 | ex=:0 | mem=*0 | is= | ttl=:-1";
  "L len=:0 | ex=:0 | range=*0 | idx= | ttl=:-1";
  "Z card=:0 | ex=:0 | range=*0 | byscore=*0 | bylex=*0 | score= | ttl=:-1" ]

let args_of (s : string) : n list list =
  if s = "" then [] else List.map bytes_of_hex (split_on ',' s)

let () =
  let ms = ref m_init and ss = ref s_init and compact = ref false and now = ref Z0 in
  let both mo so = if mo = so then mo else "SPECDIFF map=<" ^ mo ^ "> spec=<" ^ so ^ ">" in
  let observe t key =
    let tn = n_of_int (Char.code t) in
    both (obs_str t (map_observe !compact !now tn key !ms)) (obs_str t (spec_observe !compact !now tn key !ss)) in
  let run id ts args =
    match parse_cmd args with
    | None -> Printf.printf "%s\tunsupported\n" id
    | Some c ->
      let (ms', mr) = map_step !compact !now ts c !ms in
      let (ss', sr) = spec_step !compact !now ts c !ss in
      ms := ms'; ss := ss';
      Printf.printf "%s\t%s\n" id (both (reply_str mr) (reply_str sr)) in
  read_lines stdin (fun line ->
    match split_on '\t' line with
    | id :: "S" :: policy :: rest ->
      (* the read clock: wall-clock second of the harness, as nanoseconds *)
      let nowsec = match rest with n :: _ -> (try int_of_string n with _ -> 0) | [] -> 0 in
      ms := m_init; ss := s_init; compact := (policy = "compact");
      now := z_of_int (nowsec * 1000000000);
      Printf.printf "%s\tok\n" id
    | id :: "W" :: _ :: _ :: ts :: hexargs :: _ ->
      run id (z_of_int (int_of_string ts)) (args_of hexargs)
    | id :: "R" :: hexargs :: _ ->
      run id Z0 (args_of hexargs)
    | id :: "O" :: t :: hexkey :: _ ->
      Printf.printf "%s\t%s\n" id (observe t.[0] (bytes_of_hex hexkey))
    | id :: "X" :: ts :: keys :: _ ->
      (* one pass of the local_deletion expiry sweep: the keys whose expiry is over are removed with the clear
         function of their type (the sweep's own batch), in both models *)
      let t = z_of_int (int_of_string ts) in
      let items = if keys = "" then [] else split_on ',' keys in
      List.iter (fun it ->
        match split_on ':' it with
        | [ty; hk] ->
          let key = bytes_of_hex hk in
          let name = (match ty with "H" -> "hclear" | "S" -> "sclear" | "Z" -> "zclear" | "L" -> "lclear" | _ -> "del") in
          let args = [List.map (fun ch -> n_of_int (Char.code ch)) (List.init (String.length name) (String.get name)); key] in
          (match parse_cmd args with
           | Some c ->
             let (ms', _) = map_step !compact !now t c !ms in
             let (ss', _) = spec_step !compact !now t c !ss in
             ms := ms'; ss := ss'
           | None -> ())
        | _ -> ()) items;
      Printf.printf "%s\tswept=:%d\n" id (List.length items)
    | id :: "E" :: _ ->
      (* engine keys per class: physical content of the Map state (no counterpart in the reference model) *)
      let names = ["kv"; "hsize"; "hash"; "ssize"; "set"; "zsize"; "zset"; "zscore"; "lmeta"; "list"] in
      Printf.printf "%s\t%s\n" id
        (String.concat " " (List.map2 (fun n z -> n ^ "=:" ^ str_of_bytes (format_int z)) names (map_engine_counts !ms)))
    | id :: "T" :: hextables :: _ ->
      (* table key counters: the number of stored keys per table *)
      let parts = List.map (fun ht ->
        let t = bytes_of_hex ht in
        both (ht ^ "=:" ^ str_of_bytes (format_int (map_table_count t !ms)))
             (ht ^ "=:" ^ str_of_bytes (format_int (spec_table_count t !ss))))
        (if hextables = "" then [] else split_on ',' hextables) in
      Printf.printf "%s\t%s\n" id (String.concat " " parts)
    | id :: "D" :: hexkeys :: _ ->
      let parts = List.concat (List.map (fun hk ->
        let key = bytes_of_hex hk in
        List.concat (List.map (fun t ->
          let o = observe t key in
          if List.mem o empty_obs then [] else [hk ^ ":" ^ o]) ['K'; 'H'; 'S'; 'L'; 'Z']))
        (if hexkeys = "" then [] else split_on ',' hexkeys)) in
      Printf.printf "%s\t%s\n" id (String.concat " || " parts)
    | _ -> ())
